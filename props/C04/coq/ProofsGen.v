(* C04 — the definitions GENERATED from the Go sources by harness/cmd/go2coq (Gen.v, regenerated on every
   run) refine the hand-written model functions that the property theorems are about. A change of one of
   these Go functions changes Gen.v; the corresponding lemma below then no longer compiles and the proof
   gate names it. The proofs avoid the names of generated local variables. *)
From Coq Require Import ZArith NArith List Bool Lia ZifyBool ZifyN ZifyNat.
From VLib Require Import GoSem GoSemFacts.
From C04 Require Import Model ProofsChunk ProofsPos Gen.
Import ListNotations.
Open Scope Z_scope.

Definition zid (x : id) : go_ID := mk_go_ID (Z.of_N (fst x)) (Z.of_N (snd x)).

Ltac cmp_cases :=
  repeat match goal with
         | |- context [Z.eqb ?a ?b] => destruct (Z.eqb_spec a b)
         | |- context [Z.ltb ?a ?b] => destruct (Z.ltb_spec a b)
         | |- context [Z.leb ?a ?b] => destruct (Z.leb_spec a b)
         | |- context [N.eqb ?a ?b] => destruct (N.eqb_spec a b)
         | |- context [N.ltb ?a ?b] => destruct (N.ltb_spec a b)
         | |- context [N.leb ?a ?b] => destruct (N.leb_spec a b)
         end; try reflexivity; try lia.

(* ------------------------------------------------------------------ seq.LessOrEqual, seq.Less *)
Lemma gen_LessOrEqual_refines : forall a b : id, go_seq_LessOrEqual (zid a) (zid b) = id_leq a b.
Proof.
  intros [am ar] [bm br]. unfold go_seq_LessOrEqual, id_leq, zid.
  cbn [go_ID_MID go_ID_RID fst snd]. cmp_cases.
Qed.

Lemma gen_Less_refines : forall a b : id, go_seq_Less (zid a) (zid b) = id_less a b.
Proof.
  intros [am ar] [bm br]. unfold go_seq_Less, id_less, zid.
  cbn [go_ID_MID go_ID_RID fst snd]. cmp_cases.
Qed.

(* ------------------------------------------------------------------ seq.PackDocPos, DocPos.Unpack *)
Definition zres (r : res N) : outcome Z :=
  match r with Ok p => Val (Z.of_N p) | Model.Panic => GoSem.Panic | Fuel => OutOfFuel end.

Lemma gen_PackDocPos_refines : forall b off, (b < two32)%N -> (off < two64)%N ->
  go_seq_PackDocPos (Z.of_N b) (Z.of_N off) = zres (pack_pos b off).
Proof.
  intros b off Hb Ho. unfold go_seq_PackDocPos, pack_pos, max_doc_offset, two32, two64 in *.
  destruct (N.ltb_spec 1073741823 off) as [H|H];
    destruct (Z.ltb_spec 1073741823 (Z.of_N off)) as [H'|H']; try lia; [reflexivity|].
  cbv zeta. unfold zres. f_equal.
  change 30 with (Z.of_N 30). rewrite <- of_N_shiftl.
  assert (Hs : (N.shiftl b 30 = b * 1073741824)%N) by (rewrite N.shiftl_mul_pow2; reflexivity).
  rewrite (u64_small (Z.of_N (N.shiftl b 30))) by (rewrite Hs; lia).
  rewrite <- of_N_lor. unfold raw_pos.
  rewrite lor_shiftl_low by lia.
  rewrite u64_small by lia. lia.
Qed.

Lemma gen_Unpack_refines : forall p, (p < two64)%N ->
  go_seq_DocPos_Unpack (Z.of_N p) = (Z.of_N (fst (unpack_pos p)), Z.of_N (snd (unpack_pos p))).
Proof.
  intros p Hp. unfold go_seq_DocPos_Unpack, unpack_pos, two64, max64, two32, max_doc_offset in *.
  cbv zeta. cbn [fst snd].
  set (q := (if (p =? 0)%N then 18446744073709551615 else p - 1)%N).
  assert (Hq : u64 (Z.of_N p - 1) = Z.of_N q).
  { unfold q. destruct (N.eqb_spec p 0) as [->|Hn]; [reflexivity|]. rewrite u64_small by lia. lia. }
  rewrite Hq. f_equal.
  - change 30 with (Z.of_N 30). rewrite <- of_N_shiftr. unfold u32.
    change 4294967296 with (Z.of_N 4294967296). rewrite <- N2Z.inj_mod. reflexivity.
  - change 1073741823 with (Z.of_N 1073741823). rewrite <- of_N_land. reflexivity.
Qed.

(* the DocPos round trip (C04_docpos_roundtrip) restated over the GENERATED pair of functions *)
Lemma docpos_roundtrip_gen : forall b off, 0 <= b < 4294967296 -> 0 <= off <= 1073741823 ->
  exists p, go_seq_PackDocPos b off = Val p /\ go_seq_DocPos_Unpack p = (b, off) /\
            p <> 0 /\ p <> 18446744073709551615.
Proof.
  intros b off Hb Ho.
  destruct (pack_unpack (Z.to_N b) (Z.to_N off)) as [H1 [H2 [H3 H4]]];
    [unfold two32; lia|unfold max_doc_offset; lia|].
  pose proof (raw_pos_arith (Z.to_N b) (Z.to_N off) ltac:(unfold max_doc_offset; lia)) as HR.
  exists (Z.of_N (raw_pos (Z.to_N b) (Z.to_N off))).
  rewrite <- (Z2N.id b) at 1 by lia. rewrite <- (Z2N.id off) at 1 by lia.
  rewrite gen_PackDocPos_refines by (unfold two32, two64; lia).
  rewrite H1. split; [reflexivity|].
  rewrite gen_Unpack_refines by (unfold two64; lia). rewrite H2. cbn [fst snd].
  rewrite !Z2N.id by lia. split; [reflexivity|].
  unfold pos_not_found, max64 in H3. lia.
Qed.

(* ------------------------------------------------------------------ storeapi docsStream.calcChunkSize *)
Fixpoint zsum (l : list Z) : Z := match l with [] => 0 | x :: r => x + zsum r end.

Lemma fold_i64_sum : forall (f : Z -> Z -> Z), (forall a x, f a x = i64 (a + x)) ->
  forall l a, 0 <= a -> Forall (fun x => 0 <= x) l -> a + zsum l < 9223372036854775808 ->
  fold_left f l a = a + zsum l.
Proof.
  intros f Hf. induction l as [|x r IH]; intros a Ha Hl Hs; simpl in *; [lia|].
  inversion Hl; subst.
  assert (0 <= zsum r).
  { clear -H2. induction r; simpl; [lia|]. inversion H2; subst. specialize (IHr H3). lia. }
  rewrite Hf, i64_small by lia. rewrite IH; try assumption; lia.
Qed.

Definition zlens (docs : list (option body)) : list Z := map (fun d => Z.of_N (blen d)) docs.

Lemma zsum_zlens : forall docs, zsum (zlens docs) = Z.of_N (sum_len docs).
Proof. induction docs as [|d r IH]; simpl; [reflexivity|]. rewrite IH. unfold sum_len at 2. simpl. fold (sum_len r). lia. Qed.

Lemma zlens_nonneg : forall docs, Forall (fun x => 0 <= x) (zlens docs).
Proof. induction docs; simpl; constructor; [lia|assumption]. Qed.

Lemma sum_len_pos_nonempty : forall docs, (0 < sum_len docs)%N -> (0 < length docs)%nat.
Proof. intros [|d r]; simpl; [unfold sum_len; simpl; lia|lia]. Qed.

Lemma zmax1 : forall n, Z.max 1 (Z.of_N n) = Z.of_N (N.max 1 n).
Proof. intros. lia. Qed.

Lemma gen_calcChunkSize_refines : forall g d docs prev,
  Z.of_N (sum_len docs) < 9223372036854775808 -> Z.of_N (max_fetch g) < 9223372036854775808 ->
  Z.of_N prev < 9223372036854775808 ->
  go_storeapi_docsStream_calcChunkSize (Z.of_N (max_fetch g)) d (zlens docs) (Z.of_N prev)
  = Val (Z.of_N (calc_chunk g docs prev)).
Proof.
  intros g d docs prev Hs Hm Hp.
  unfold go_storeapi_docsStream_calcChunkSize, calc_chunk. cbv zeta.
  rewrite (fold_i64_sum _ (fun a x => eq_refl) (zlens docs) 0) by
    (try apply zlens_nonneg; rewrite ?zsum_zlens; lia).
  rewrite zsum_zlens. change (0 + Z.of_N (sum_len docs)) with (Z.of_N (sum_len docs)).
  destruct (N.eqb_spec (sum_len docs) 0) as [E|E];
    destruct (Z.eqb_spec (Z.of_N (sum_len docs)) 0) as [E'|E']; try lia; [reflexivity|].
  pose proof (sum_len_pos_nonempty docs ltac:(lia)) as Hl.
  assert (Hlen : len (zlens docs) = Z.of_N (N.of_nat (length docs))).
  { unfold len, zlens. rewrite map_length. lia. }
  rewrite Hlen.
  destruct (Z.eqb_spec (Z.of_N (N.of_nat (length docs))) 0) as [E2|E2]; [lia|].
  rewrite Z.quot_div_nonneg by lia. rewrite <- N2Z.inj_div.
  assert (Hq : (sum_len docs / N.of_nat (length docs) <= sum_len docs)%N).
  { apply N.div_le_upper_bound; [lia|]. assert (1 <= N.of_nat (length docs))%N by lia. nia. }
  rewrite i64_small by (clear -Hq Hs; revert Hq; generalize (sum_len docs / N.of_nat (length docs))%N; intros; lia).
  rewrite !zmax1.
  set (avg := N.max 1 (sum_len docs / N.of_nat (length docs))).
  assert (Ha : (1 <= avg)%N) by (unfold avg; lia).
  destruct (Z.eqb_spec (Z.of_N avg) 0) as [E3|E3]; [lia|].
  rewrite Z.quot_div_nonneg by lia. rewrite <- N2Z.inj_div.
  assert (Hq2 : (max_fetch g / avg <= max_fetch g)%N).
  { apply N.div_le_upper_bound; [lia|]. nia. }
  rewrite i64_small by (clear -Hq2 Hm; revert Hq2; generalize (max_fetch g / avg)%N; intros; lia).
  rewrite zmax1. reflexivity.
Qed.

Lemma zlens_of_z : forall docs, Forall (fun x => 0 <= x) docs ->
  zlens (map (fun z => Some (0%N, Z.to_N z)) docs) = docs.
Proof.
  intros docs Hd. unfold zlens. rewrite map_map.
  induction Hd as [|x r Hx Hr IH]; simpl; [reflexivity|]. f_equal; [lia|exact IH].
Qed.

(* C04_chunk_size_pos restated over the GENERATED calcChunkSize: on every input in range (non-negative
   document lengths whose sum fits int64, 0 <= MaxFetchSizeBytes, 1 <= previous chunk size) it neither panics
   (no division by zero) nor returns a chunk size below 1 *)
Lemma chunk_size_pos_gen : forall maxFetch d docs prev,
  0 <= maxFetch < 9223372036854775808 -> 1 <= prev < 9223372036854775808 ->
  Forall (fun x => 0 <= x) docs -> zsum docs < 9223372036854775808 ->
  exists c, go_storeapi_docsStream_calcChunkSize maxFetch d docs prev = Val c /\ 1 <= c.
Proof.
  intros maxFetch d docs prev Hm Hp Hd Hs.
  set (g := mkCfg 1 (Z.to_N maxFetch) 1).
  set (docs' := map (fun z => Some (0%N, Z.to_N z)) docs).
  assert (Hz : zlens docs' = docs) by (apply zlens_of_z; exact Hd).
  assert (Hsum : Z.of_N (sum_len docs') = zsum docs) by (rewrite <- zsum_zlens, Hz; reflexivity).
  exists (Z.of_N (calc_chunk g docs' (Z.to_N prev))). split.
  - rewrite <- Hz at 1. rewrite <- (Z2N.id prev) at 1 by lia.
    replace maxFetch with (Z.of_N (max_fetch g)) at 1 by (simpl; lia).
    apply gen_calcChunkSize_refines; simpl; lia.
  - pose proof (calc_chunk_pos g docs' (Z.to_N prev) ltac:(lia)). lia.
Qed.
