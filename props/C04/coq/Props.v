(* C04 — property theorems. Statements only, each closed by `exact <lemma>`, Print Assumptions beneath,
   then the non-vacuity examples and the refutations of the unrepaired code (…_v0). *)
From Coq Require Import Lia ZifyN ZifyNat.
From C04 Require Import Model ModelSlots CaseDefs ProofsBase ProofsChunk ProofsSealed ProofsFetch ProofsPos ProofsPhys ProofsMain ProofsSpec.
From C04 Require ModelDocsCache ProofsDocsCache ProofsSlots ProofsCases.
Open Scope N_scope.

(* thm:C04_fetch_exact — for every configuration (IDs per block >= 1, initial chunk >= 1), every corpus split
   over sealed and active fractions (per fraction: distinct 64-bit IDs, ANY block layout of its docs file with
   decoded blocks of at most 2^30 bytes and at most 2^32 blocks; fraction names distinct; an ID stored in
   at most one fraction; pruning by time range / occupancy map sound for request ranges up to B) and every
   request of distinct 64-bit IDs with timestamps <= B — any order, present and absent in any proportion,
   hints right, wrong, unknown or missing — the stream ends without error, crash or fuel exhaustion and
   carries, position by position, the requested ID and exactly the document stored under it in a fraction the
   hint admits, or nothing. The entry of an ID depends on nothing but that ID and its hint.
   "The document stored under it" is obtained through the position layer as the code does: GetDocPos (sealed:
   findLIDs + getDocPosByLIDs over the position blocks; active: DocsPositions with the snapshot guard),
   GroupDocsOffsets, the block offsets table, ReadDocs by in-block offset, scatter by request index. *)
Theorem C04_fetch_exact : forall B g frs ids, cfg_ok g -> corpus_wf B frs -> req_ok B ids ->
  stream g frs ids = SOk (map (fun s => (fst s, expected frs s)) ids).
Proof. exact stream_exact. Qed.
Print Assumptions C04_fetch_exact.

(* the pruning hypothesis of C04_fetch_exact holds for EVERY bound B (so for all 64-bit requests) when the
   fraction carries no occupancy map and its [From, To] covers its documents *)
Theorem C04_pruning_sound_without_map : forall B f,
  f_dist f = None -> (forall x b, lookup f x = Some b -> f_from f <= fst x /\ fst x <= f_to f) -> info_sound B f.
Proof. exact info_sound_nodist. Qed.
Print Assumptions C04_pruning_sound_without_map.

(* The adaptive chunk size is at least 1 for EVERY list of found documents (found sizes), whatever the
   previous size >= 1 was: no division by zero, no chunk of 0 IDs. *)
Theorem C04_chunk_size_pos : forall g docs prev, 1 <= prev -> 1 <= calc_chunk g docs prev.
Proof. exact calc_chunk_pos. Qed.
Print Assumptions C04_chunk_size_pos.

(* thm:C04_chunking_total — for every request and every behaviour of the fetcher that is safe on non-empty
   chunks, the batch loader terminates (the model's fuel is never exhausted) and never brings the process
   down: in particular it never hands an empty chunk to the fetcher (which would index ids[0]). *)
Theorem C04_chunking_total : forall g fetch ids,
  1 <= init_chunk g -> fetch_safe fetch ->
  batch_loop (S (length ids)) (calc_now g) fetch ids (init_chunk g) <> BFuel /\
  batch_loop (S (length ids)) (calc_now g) fetch ids (init_chunk g) <> BCrash.
Proof. exact chunking_total. Qed.
Print Assumptions C04_chunking_total.

(* the per-request list of fractions is fixed: the batch loader applies FetchDocs to the SAME fractions for
   every chunk (with C04_fetch_exact: the answer to a chunk does not depend on what earlier chunks asked) *)
Theorem C04_same_fractions_every_chunk : forall g fs ids,
  batches g fs ids = batch_loop (S (length ids)) (calc_now g) (fetch_docs g fs) ids (init_chunk g).
Proof. exact batches_same_fracs. Qed.
Print Assumptions C04_same_fractions_every_chunk.

(* the batches of a request: each holds at least one entry, together one entry per requested ID *)
Theorem C04_batches_cover : forall B g frs ids, cfg_ok g -> corpus_wf B frs -> req_ok B ids ->
  Forall (fun k => 1 <= k) (batch_lens (batches g (map compile frs) ids)) /\
  fold_right N.add 0 (batch_lens (batches g (map compile frs) ids)) = N.of_nat (length ids).
Proof. exact batch_lens_ok. Qed.
Print Assumptions C04_batches_cover.

(* thm:C04_lessorequal_shortcuts — on a sealed fraction the comparison with its block-minimum shortcuts and
   the RID = MaxUint64 shortcut equals the plain comparison "ID at this LID <= x", for every LID of the table,
   and never indexes out of range. *)
Theorem C04_lessorequal_shortcuts : forall g f lid x,
  1 <= ipb g -> f_sealed f = true -> docs_wf (f_docs f) -> lid < cf_n (compile f) ->
  exists e, nth_error (table_of f) (N.to_nat lid) = Some e /\
            less_or_equal g (compile f) lid x = Ok (id_leq (fst e) x).
Proof. exact less_or_equal_spec. Qed.
Print Assumptions C04_lessorequal_shortcuts.

(* one fraction, sealed (binary search with moving left bound + bound check, position blocks) or active
   (position map, snapshot guard), then IndexFetch over its docs file in any block layout: ANY list of IDs —
   unsorted, repeated, below/above/between everything stored — is answered entry by entry with what the
   fraction stores, never with a panic *)
Theorem C04_fraction_lookup : forall B g f ids, 1 <= ipb g -> frac_wf B f -> Forall id_u64 ids ->
  frac_fetch g (compile f) ids = Ok (map (lookup f) ids).
Proof. exact frac_fetch_ok. Qed.
Print Assumptions C04_fraction_lookup.

(* ---- the position layer ---- *)
(* DocPos round trip: for every block index that fits uint32 and every offset that fits 30 bits PackDocPos
   does not panic, Unpack returns the pair, and the position is neither 0 nor DocPosNotFound; a larger offset
   panics (in the writer, never in the fetch path) *)
Theorem C04_docpos_roundtrip : forall b off, b < two32 -> off <= max_doc_offset ->
  pack_pos b off = Ok (raw_pos b off) /\ unpack_pos (raw_pos b off) = (b, off) /\
  raw_pos b off <> pos_not_found /\ raw_pos b off <> 0.
Proof. exact pack_unpack. Qed.
Print Assumptions C04_docpos_roundtrip.

(* GroupDocsOffsets: blocks are distinct; offsets and request indices run in parallel; every found position
   of the request appears in the group of its block with its offset and its request index; every (offset,
   index) of a group stems from such a position; no request index appears twice *)
Theorem C04_grouping_preserves : forall ps,
  let gs := group_offsets ps in
  NoDup (map (fun g : N * list N * list N => fst (fst g)) gs) /\
  (forall b offs idx, In (b, offs, idx) gs -> length offs = length idx) /\
  (forall i p, nth_error ps i = Some p -> p <> pos_not_found ->
     exists offs idx j, In (fst (unpack_pos p), offs, idx) gs /\
                        nth_error offs j = Some (snd (unpack_pos p)) /\ nth_error idx j = Some (N.of_nat i)) /\
  (forall b offs idx j o i, In (b, offs, idx) gs -> nth_error offs j = Some o -> nth_error idx j = Some i ->
     exists p, nth_error ps (N.to_nat i) = Some p /\ p <> pos_not_found /\ unpack_pos p = (b, o)) /\
  NoDup (flat_map (fun g : N * list N * list N => snd g) gs).
Proof. exact group_offsets_spec. Qed.
Print Assumptions C04_grouping_preserves.

(* extraction by in-block offset and 4-byte little-endian length prefix returns exactly the bytes written for
   that document, for every block layout (any number of documents of any length < 2^32, also empty ones) *)
Theorem C04_extract_written : forall docs k d, Forall bytes_ok docs -> nth_error docs k = Some d ->
  extract_doc (encode_block docs) (start_offset docs k) = Ok d.
Proof. exact extract_written. Qed.
Print Assumptions C04_extract_written.

(* the end-to-end model reads document descriptors by offset; on the bytes of ANY documents of the described
   lengths the byte-level reader returns exactly their bytes *)
Theorem C04_read_refines : forall bytes_of (file : list (N * list (id * body))) bo offs ds,
  (forall fo blk e, In (fo, blk) file -> In e blk ->
     bytes_ok (bytes_of (snd e)) /\ N.of_nat (length (bytes_of (snd e))) = snd (snd e)) ->
  read_abs (map (fun fb => (fst fb, cells_from 0 (snd fb))) file) bo offs = Ok ds ->
  read_bytes (map (fun fb => (fst fb, encode_block (map (fun e => bytes_of (snd e)) (snd fb)))) file) bo offs
  = Ok (map bytes_of ds).
Proof. exact read_refines. Qed.
Print Assumptions C04_read_refines.

(* activeFetchIndex.GetDocPos with a snapshot of k block offsets: a position whose block index is >= k (the
   document was written after the snapshot) is "not found" for that ID only; every other position is returned
   unchanged; an unknown ID is not found *)
Theorem C04_active_snapshot_guard : forall k apos x,
  active_pos k apos x =
  match PositiveMap.find (key x) apos with
  | None => pos_not_found
  | Some p => if (p =? pos_not_found) || (k <=? fst (unpack_pos p)) then pos_not_found else p
  end.
Proof. exact active_pos_spec. Qed.
Print Assumptions C04_active_snapshot_guard.

Theorem C04_active_snapshot_guard_packed : forall k apos x b off, b < two32 -> off <= max_doc_offset ->
  PositiveMap.find (key x) apos = Some (raw_pos b off) ->
  active_pos k apos x = if k <=? b then pos_not_found else raw_pos b off.
Proof. exact active_pos_packed. Qed.
Print Assumptions C04_active_snapshot_guard_packed.

(* getDocPosByLIDs over position blocks of ipb entries: LID 0 is not found, every other LID of the table gets
   the position stored for it, whatever block was used before; no panic *)
Theorem C04_sealed_positions : forall g ptab lids prev, 1 <= ipb g ->
  Forall (fun l => l < N.of_nat (length ptab)) lids ->
  (forall pi ps, prev = Some (pi, ps) -> ps = pi * ipb g) ->
  pos_by_lids g (build_ptab ptab 0 (PositiveMap.empty _)) (N.of_nat (length ptab)) prev lids =
  Ok (map (fun l => if l =? 0 then pos_not_found else nth (N.to_nat l) ptab 0) lids).
Proof. exact pos_by_lids_ok. Qed.
Print Assumptions C04_sealed_positions.

(* link to the correspondence run: the executable specification checker that every run evaluates on the
   IMPLEMENTATION's output (CaseDefs.case_spec_ok: independent corpus lookup, IDs echoed, batch lengths >= 1
   covering the request) accepts the MODEL's output for every valid input; likewise for calcChunkSize *)
Theorem C04_model_meets_spec : forall B g frs ids, cfg_ok g -> corpus_wf B frs -> req_ok B ids ->
  case_spec_ok (CFetch g frs ids (stream g frs ids) (Some (batch_lens (batches g (map compile frs) ids)))) = true.
Proof. exact model_meets_spec. Qed.
Print Assumptions C04_model_meets_spec.

Theorem C04_calc_meets_spec : forall g sizes prev, 1 <= prev ->
  case_spec_ok (CCalc g sizes prev (Some (calc_chunk g (docs_of_sizes sizes) prev))) = true.
Proof. exact calc_meets_spec. Qed.
Print Assumptions C04_calc_meets_spec.

(* ------------------------------------------------------------------ non-vacuity *)
Definition ex_g := mkCfg 2 4194304 1000.
Definition ex_f1 := mkFrac 1 true 100 200 None [((100,5),(1,10)); ((150,7),(2,20)); ((200,1),(3,1)); ((150,9),(4,3)); ((120,3),(5,7))] [2; 2]%nat.
Definition ex_f2 := mkFrac 2 false 150 300 None [((150,8),(6,10)); ((300,7),(7,20))] [1]%nat.
Definition ex_ids : list idsrc :=
  [((150,7),0); ((100,1),0); ((150,8),2); ((300,7),1); ((100,5),1); ((99,5),0); ((120,3),9); ((301,0),0)].

Ltac nodup := repeat (apply NoDup_cons; [simpl; intuition congruence|]); apply NoDup_nil.
Ltac all64 := repeat (apply Forall_cons; [simpl; unfold id_u64, max64; simpl; lia|]); apply Forall_nil.
Ltac in_cases H := repeat (destruct H as [H|H]; [inversion H; subst; clear H|]); try contradiction.

Lemma ex_f1_wf : frac_wf max64 ex_f1.
Proof.
  split; [split|split; [|split]].
  - simpl. nodup.
  - all64.
  - simpl; lia.
  - apply info_sound_nodist; [reflexivity|]. intros x b H. apply lookup_docs_in in H. simpl in H.
    in_cases H; simpl; lia.
  - split; [|vm_compute; discriminate].
    repeat (apply Forall_cons; [vm_compute; discriminate|]); apply Forall_nil.
Qed.
Lemma ex_f2_wf : frac_wf max64 ex_f2.
Proof.
  split; [split|split; [|split]].
  - simpl. nodup.
  - all64.
  - simpl; lia.
  - apply info_sound_nodist; [reflexivity|]. intros x b H. apply lookup_docs_in in H. simpl in H.
    in_cases H; simpl; lia.
  - split; [|vm_compute; discriminate].
    repeat (apply Forall_cons; [vm_compute; discriminate|]); apply Forall_nil.
Qed.
Lemma ex_corpus_wf : corpus_wf max64 [ex_f1; ex_f2].
Proof.
  split; [apply Forall_cons; [apply ex_f1_wf|apply Forall_cons; [apply ex_f2_wf|apply Forall_nil]]|]. split.
  - simpl. nodup.
  - intros f1 f2 x H1 H2 L1 L2.
    assert (forall f, In f [ex_f1; ex_f2] -> lookup f x <> None -> In x (map fst (f_docs f))).
    { intros f Hf Hl. destruct (lookup_docs_none (f_docs f) x) as [_ Hn].
      destruct (in_dec (fun a b : id => ltac:(decide equality; apply N.eq_dec)) x (map fst (f_docs f))); [assumption|].
      exfalso. apply Hl. apply Hn. assumption. }
    pose proof (H f1 H1 L1) as I1. pose proof (H f2 H2 L2) as I2.
    in_cases H1; in_cases H2; try reflexivity; simpl in I1, I2; exfalso; in_cases I1; in_cases I2.
Qed.
Lemma ex_req_ok : req_ok max64 ex_ids.
Proof.
  split; [|split].
  - simpl. nodup.
  - all64.
  - all64.
Qed.

(* the hypotheses of C04_fetch_exact are satisfiable, and the conclusion is what the model computes: present
   IDs of a sealed (two ID blocks) and an active fraction, absent IDs at the fraction's oldest timestamp with a
   smaller random part, below and above everything, a wrong hint (300,7 is in fraction 2), an unknown hint *)
Example C04_fetch_exact_nonvacuous :
  cfg_ok ex_g /\ corpus_wf max64 [ex_f1; ex_f2] /\ req_ok max64 ex_ids /\
  stream ex_g [ex_f1; ex_f2] ex_ids =
  SOk [((150,7), Some (2,20)); ((100,1), None); ((150,8), Some (6,10)); ((300,7), None);
       ((100,5), Some (1,10)); ((99,5), None); ((120,3), None); ((301,0), None)].
Proof.
  split; [split; simpl; lia|]. split; [exact ex_corpus_wf|]. split; [exact ex_req_ok|].
  vm_compute. reflexivity.
Qed.

(* fetch_safe is satisfiable: a fetcher that finds nothing, and one that fails on every chunk; an unsafe one
   (panicking on the empty chunk only) is still safe in the sense of the theorem *)
Example C04_chunking_nonvacuous :
  fetch_safe (fun ch => FOk (map (fun _ => None) ch)) /\ fetch_safe (fun _ => FErr) /\
  fetch_safe (fun ch => match ch with [] => FCrash | _ => FOk (map (fun _ => Some (1, 70000)) ch) end) /\
  1 <= init_chunk ex_g.
Proof.
  repeat split; try discriminate; try (simpl; lia).
  - destruct ch; [congruence|discriminate].
  - destruct ch; [congruence|discriminate].
Qed.

(* ------------------------------------------------------------------ the code before the repairs *)
(* defect #3 (b3c921d reverted): one 1-byte document found among 3 requested IDs gives an average of 0 and a
   division by zero in the loader goroutine — the process dies; the repaired code answers *)
Example C04_refuted_div0 :
  let ids := [((200,1),0); ((50,1),0); ((50,2),0)] in
  cfg_ok ex_g /\ corpus_wf max64 [ex_f1; ex_f2] /\ req_ok max64 ids /\
  stream_v0_div ex_g [ex_f1; ex_f2] ids = SCrash /\
  stream ex_g [ex_f1; ex_f2] ids = SOk [((200,1), Some (3,1)); ((50,1), None); ((50,2), None)].
Proof.
  cbv zeta. split; [split; simpl; lia|]. split; [exact ex_corpus_wf|]. split.
  - split; [|split].
    + simpl. nodup.
    + all64.
    + all64.
  - split; vm_compute; reflexivity.
Qed.

(* the design's witness: 1000 IDs, 999 absent, one 1-byte document *)
Example C04_refuted_div0_1000 :
  let ids := ((200,1),0) :: map (fun i => ((50, N.of_nat i), 0)) (seq 1 999) in
  stream_v0_div ex_g [ex_f1; ex_f2] ids = SCrash /\
  (exists sent, stream ex_g [ex_f1; ex_f2] ids = SOk sent /\ length sent = 1000%nat
                /\ nth_error sent 0 = Some ((200,1), Some (3,1))).
Proof.
  cbv zeta. split; [vm_compute; reflexivity|]. eexists. split; [vm_compute; reflexivity|].
  split; reflexivity.
Qed.

(* calcChunkSize before the repair: division by zero, and chunk size 0 for an average above MaxFetchSizeBytes *)
Example C04_calc_chunk_v0_refuted :
  calc_chunk_v0 ex_g [Some (1,1); None; None] 1000 = None /\
  calc_chunk_v0 ex_g [Some (1,5000000)] 1000 = Some 0 /\
  calc_chunk ex_g [Some (1,1); None; None] 1000 = 4194304 /\
  calc_chunk ex_g [Some (1,5000000)] 1000 = 1.
Proof. repeat split; vm_compute; reflexivity. Qed.

(* defect #4 (2f1e999 reverted): an absent ID with the sealed fraction's oldest timestamp and a random part
   below the smallest stored one indexes the ID table at its length: the panic turns the whole batch into an
   error and the present document (150,7) is not delivered; the repaired code delivers it *)
Example C04_refuted_lid_oob :
  let ids := [((150,7),0); ((100,1),0)] in
  cfg_ok ex_g /\ corpus_wf max64 [ex_f1; ex_f2] /\ req_ok max64 ids /\
  stream_v0_lid ex_g [ex_f1; ex_f2] ids = SErr [] /\
  stream ex_g [ex_f1; ex_f2] ids = SOk [((150,7), Some (2,20)); ((100,1), None)].
Proof.
  cbv zeta. split; [split; simpl; lia|]. split; [exact ex_corpus_wf|]. split.
  - split; [|split].
    + simpl. nodup.
    + all64.
    + all64.
  - split; vm_compute; reflexivity.
Qed.

(* the active provider before 5d51c58: a document whose block lies past the snapshot kept its position and the
   block offsets table was indexed out of range (panic, the whole batch failed) *)
Example C04_active_guard_v0_refuted : exists k apos x,
  active_pos_v0 k apos x <> pos_not_found /\ k <= fst (unpack_pos (active_pos_v0 k apos x)) /\
  active_pos k apos x = pos_not_found.
Proof. exact active_pos_v0_refuted. Qed.

Example C04_find_lids_v0_refuted : exists g f x, f_sealed f = true /\ docs_wf (f_docs f) /\ lookup f x = None /\
  find_lids_v0 g (compile f) None 1 [x] = Panic /\ find_lids g (compile f) None 1 [x] = Ok [0].
Proof. exact find_lids_v0_refuted. Qed.

(* ------------------------------------------------------------------ finding of this check, repaired by 6d376ea
   Before the repair a requested ID whose timestamp is >= 2^63 (MID.Time() = time.UnixMilli(int64(mid)) is then
   before 1970: index 0 of the occupancy map) made IsIntersecting(minMID, maxMID) ask HasBitsIn(left, 0) with
   left > 0: a sealed fraction whose occupancy-map window contains its documents was dropped from the candidates
   and the OTHER, stored IDs of the request came back empty: pruning was unsound for request ranges reaching
   2^63. The repaired index function keeps the fraction and the document is delivered. *)
Definition ex_fd := mkFrac 1 true 1000000 1090000
  (Some (mkDist 1000000 1700000 60000 [6; 0])) [((1000000,5),(1,10)); ((1090000,7),(2,20))] [].
Example C04_pruning_v0_refuted :
  lookup ex_fd (1000000,5) = Some (1,10) /\
  intersecting_v0 ex_fd 1000000 two63 = false /\
  intersecting_v0 ex_fd 1000000 (two63 - 1) = true /\
  intersecting ex_fd 1000000 two63 = true /\
  stream ex_g [ex_fd] [((1000000,5),0); ((two63,1),0)] = SOk [((1000000,5), Some (1,10)); ((two63,1), None)] /\
  stream ex_g [ex_fd] [((1090000,7),0); ((max64,max64),0); ((0,0),0)]
    = SOk [((1090000,7), Some (2,20)); ((max64,max64), None); ((0,0), None)].
Proof. repeat split; vm_compute; reflexivity. Qed.

(* ------------------------------------------------------------------ the docs block cache (disk/docs_reader.go)
   thm:C04_docs_cache_transparent — disk.DocsReader.ReadDocsFunc in front of cache.Cache.GetWithError, as
   repaired by 871e0d8 (block offsets above MaxUint32 bypass the cache, whose key is a uint32): for every file
   (any partial map from byte offsets to decoded blocks, offsets of ANY size), from the empty cache and after
   ANY sequence of reads and evictions (cleaner passes, Reset), every read returns the block stored at the
   requested offset — or the read error of that offset — exactly as a reader without a cache does. *)
Theorem C04_docs_cache_transparent : forall (B : Type) (blk : N -> option B) ops,
  ModelDocsCache.run B blk [] ops = ModelDocsCache.direct B blk ops.
Proof. exact ProofsCases.docs_cache_transparent_nil. Qed.
Print Assumptions C04_docs_cache_transparent.

(* the same from every cache state in which each entry holds the block stored at the offset equal to its key (the
   invariant every reachable state satisfies: ProofsDocsCache.read_exact, inv_remove) *)
Theorem C04_docs_cache_transparent_inv : forall (B : Type) (blk : N -> option B) ops c,
  ProofsDocsCache.Inv B blk c -> ModelDocsCache.run B blk c ops = ModelDocsCache.direct B blk ops.
Proof. exact ProofsDocsCache.run_transparent. Qed.
Print Assumptions C04_docs_cache_transparent_inv.

(* link to the correspondence run: the specification checker evaluated on the implementation's reads
   (CaseDefs.case_spec_ok, class docs-cache-far-offset) accepts the model's reads for every file and every
   operation list, and the model agrees with itself (keys included) *)
Theorem C04_docs_cache_meets_spec : forall blocks ops keys,
  case_spec_ok (CDocsCache blocks ops
                  (ModelDocsCache.run N (dc_blk blocks) [] (flat_map (dc_expand blocks) ops)) keys) = true.
Proof. exact ProofsCases.docs_cache_meets_spec. Qed.
Print Assumptions C04_docs_cache_meets_spec.

(* the reader before 871e0d8 (key = uint32(blockOffset) for every offset): the blocks at offsets 100 and
   100 + 2^32 share one cache entry, the second read returns the first block *)
Example C04_docs_cache_v0_refuted :
  exists (blk : N -> option N) ops, ModelDocsCache.run_v0 N blk [] ops <> ModelDocsCache.direct N blk ops.
Proof. exact ProofsDocsCache.docs_cache_v0_refuted. Qed.
Example C04_docs_cache_v0_witness :
  let blk := dc_blk [(100, 1); (100 + 4294967296, 2)] in
  ModelDocsCache.run_v0 N blk [] [ModelDocsCache.Read 100; ModelDocsCache.Read (100 + 4294967296)] = [Some 1; Some 1] /\
  ModelDocsCache.run N blk [] [ModelDocsCache.Read 100; ModelDocsCache.Read (100 + 4294967296)] = [Some 1; Some 2].
Proof. split; vm_compute; reflexivity. Qed.

(* ------------------------------------------------------------------ the Fetcher's worker slots (fetcher.go)
   thm:C04_fetch_slots_returned — "never hang the store" over request SEQUENCES.  One long-lived Fetcher with
   W >= 1 worker slots (conf.FetchWorkers) serves ANY history of FetchDocs calls: every call with any candidate
   fractions whose fetches succeed, fail or panic (converted to an error), with a context that is live or already
   done at the call, under ANY interleaving of the dispatch loop with its workers and ANY moments of client
   cancellation (schedule ms; a move that is not enabled is skipped).  Then every call has returned and left
   no slot in use, and a following call with a live context over healthy fractions returns without error and
   leaves no slot in use — whatever its interleaving. *)
Theorem C04_fetch_slots_returned : forall W h fr ms, 1 <= W -> Forall (eq WOk) fr -> ~ In MCancel ms ->
  Forall (fun o : obs => fst (fst o) = 0 /\ snd (fst o) = true) (history false W 0 h) /\
  history false W 0 (h ++ [(fr, false, ms)]) = history false W 0 h ++ [(0, true, false)].
Proof. exact ProofsSlots.fetch_slots_returned. Qed.
Print Assumptions C04_fetch_slots_returned.

(* safety under every schedule, also next to slots held by others (u): each running worker of a call holds exactly
   one slot and nothing else of the call does; so whenever the call returns, the slots in use are those in use
   before it *)
Theorem C04_fetch_slots_every_schedule : forall W u fr cd ms,
  let s := exec false W (start u fr cd) ms in
  in_use s = u + N.of_nat (length (running s)) /\ (finished s = true -> in_use s = u).
Proof. exact ProofsSlots.slots_every_schedule. Qed.
Print Assumptions C04_fetch_slots_every_schedule.

(* progress: in every reachable state of a call that has not returned some move of the call itself is enabled
   (a worker ends, or the loop gets a slot): it never waits for the client *)
Theorem C04_fetch_dispatch_progress : forall W u fr cd ms, u < W ->
  let s := exec false W (start u fr cd) ms in
  finished s = false -> exists m s', m <> MCancel /\ step false W s m = Some s'.
Proof. exact ProofsSlots.dispatch_progress. Qed.
Print Assumptions C04_fetch_dispatch_progress.

(* link to the correspondence run: the checker evaluated on the implementation's observations of a history
   (CaseDefs.case_spec_ok, CSlots: every call returned, no slot in use afterwards) accepts what the model computes
   for the returned/in-use part of every history on every corpus *)
Theorem C04_slots_model_obs : forall g fs W steps, 1 <= W ->
  Forall (fun o : sobs => fst (fst o) = true /\ snd (fst o) = 0) (slots_run g fs W 0 steps).
Proof. exact ProofsCases.slots_run_ok. Qed.
Print Assumptions C04_slots_model_obs.

(* the seeded early exit after `case f.sem <- struct{}{}` (C04-m9: `if ctx.Err() != nil { …; break loop }` without
   giving the slot back): W calls with a context that is already done use up the W slots; a later call with a
   live context over a healthy fraction never returns, whatever the interleaving *)
Example C04_fetch_slots_leaky_refuted :
  exists W h fr, 1 <= W /\ Forall (eq WOk) fr /\
    fold_left (fun v r => fst (fst (serve true W v r))) h 0 = W /\
    (forall ms, ~ In MCancel ms -> finished (exec true W (start W fr false) ms) = false) /\
    serve true W W (fr, false, []) = (W, false, false).
Proof. exact ProofsSlots.fetch_slots_leaky_refuted. Qed.

(* non-vacuity: a history with a failing, a panicking and two cancelled calls under non-trivial schedules *)
Example C04_fetch_slots_nonvacuous :
  history false 2 0 [([WOk; WErr; WOk], false, [MAcquire; MAcquire; MFinish 1; MCtxDone]);
                     ([WOk; WOk; WOk], true, [MAcquire; MCtxDone]);
                     ([WPanic], false, []);
                     ([WOk; WOk; WOk], false, [MAcquire; MCancel; MAcquire; MFinish 0; MCtxDone]);
                     ([WOk; WOk; WOk], false, [MAcquire; MFinish 0; MAcquire])]
  = [(0, true, true); (0, true, true); (0, true, true); (0, true, true); (0, true, false)] /\
  history true 2 0 [([WOk; WOk; WOk], true, [MAcquire; MCtxDone]); ([WOk; WOk], true, []); ([WOk], false, [])]
  = [(1, true, true); (2, true, true); (2, false, false)].
Proof. split; vm_compute; reflexivity. Qed.

(* ------------------------------------------------------------------ generated definitions (Gen.v)
   Gen.v is regenerated from the Go sources on every run by harness/cmd/go2coq (spec: props/C04/gen.json).
   The theorems below tie the GENERATED definitions to the hand-written model functions the theorems above
   are about: a change of one of these Go functions changes Gen.v and the corresponding theorem stops
   compiling. (Z <-> N: the model is over N, the generated definitions over Z.) *)
From Coq Require Import ZArith.
From VLib Require GoSem.
From C04 Require Import Gen ProofsGen.
Open Scope N_scope.   (* Gen.v opens Z_scope *)

(* seq.LessOrEqual / seq.Less as generated = id_leq / id_less of the model (C04_lessorequal_shortcuts,
   C04_fraction_lookup, C04_fetch_exact depend on them) *)
Theorem C04_gen_LessOrEqual_refines : forall a b : id, go_seq_LessOrEqual (zid a) (zid b) = id_leq a b.
Proof. exact gen_LessOrEqual_refines. Qed.
Print Assumptions C04_gen_LessOrEqual_refines.

Theorem C04_gen_Less_refines : forall a b : id, go_seq_Less (zid a) (zid b) = id_less a b.
Proof. exact gen_Less_refines. Qed.
Print Assumptions C04_gen_Less_refines.

(* seq.PackDocPos as generated = pack_pos (including the panic for offsets above 30 bits), for every uint32
   block index and uint64 offset *)
Theorem C04_gen_PackDocPos_refines : forall b off, b < two32 -> off < two64 ->
  go_seq_PackDocPos (Z.of_N b) (Z.of_N off) = zres (pack_pos b off).
Proof. exact gen_PackDocPos_refines. Qed.
Print Assumptions C04_gen_PackDocPos_refines.

(* DocPos.Unpack as generated = unpack_pos (including the wrap of pos-- at 0), for every uint64 position *)
Theorem C04_gen_Unpack_refines : forall p, p < two64 ->
  go_seq_DocPos_Unpack (Z.of_N p) = (Z.of_N (fst (unpack_pos p)), Z.of_N (snd (unpack_pos p))).
Proof. exact gen_Unpack_refines. Qed.
Print Assumptions C04_gen_Unpack_refines.

(* C04_docpos_roundtrip directly over the GENERATED PackDocPos / Unpack *)
Theorem C04_docpos_roundtrip_gen : forall b off, (0 <= b < 4294967296)%Z -> (0 <= off <= 1073741823)%Z ->
  exists p, go_seq_PackDocPos b off = GoSem.Val p /\ go_seq_DocPos_Unpack p = (b, off) /\
            p <> 0%Z /\ p <> 18446744073709551615%Z.
Proof. exact docpos_roundtrip_gen. Qed.
Print Assumptions C04_docpos_roundtrip_gen.

(* docsStream.calcChunkSize as generated = calc_chunk, whenever the byte sum of the batch, MaxFetchSizeBytes
   and the previous chunk size fit int64 (no wrap-around) *)
Theorem C04_gen_calcChunkSize_refines : forall g d docs prev,
  (Z.of_N (sum_len docs) < 9223372036854775808)%Z -> (Z.of_N (max_fetch g) < 9223372036854775808)%Z ->
  (Z.of_N prev < 9223372036854775808)%Z ->
  go_storeapi_docsStream_calcChunkSize (Z.of_N (max_fetch g)) d (zlens docs) (Z.of_N prev)
  = GoSem.Val (Z.of_N (calc_chunk g docs prev)).
Proof. exact gen_calcChunkSize_refines. Qed.
Print Assumptions C04_gen_calcChunkSize_refines.

(* C04_chunk_size_pos directly over the GENERATED calcChunkSize: on every input in range it neither panics
   (integer divide by zero) nor returns a chunk size below 1 *)
Theorem C04_chunk_size_pos_gen : forall maxFetch d docs prev,
  (0 <= maxFetch < 9223372036854775808)%Z -> (1 <= prev < 9223372036854775808)%Z ->
  Forall (fun x => (0 <= x)%Z) docs -> (zsum docs < 9223372036854775808)%Z ->
  exists c, go_storeapi_docsStream_calcChunkSize maxFetch d docs prev = GoSem.Val c /\ (1 <= c)%Z.
Proof. exact chunk_size_pos_gen. Qed.
Print Assumptions C04_chunk_size_pos_gen.

(* non-vacuity: the ranges are inhabited and the generated functions compute *)
Example C04_gen_witness :
  go_seq_PackDocPos 3 5 = GoSem.Val 3221225478%Z /\ go_seq_DocPos_Unpack 3221225478 = (3, 5)%Z /\
  go_seq_PackDocPos 0 1073741824 = GoSem.Panic /\
  go_storeapi_docsStream_calcChunkSize 4194304 (mk_go_docsStream 3) [0; 10; 0]%Z 1000 = GoSem.Val 1398101%Z /\
  go_storeapi_docsStream_calcChunkSize 4194304 (mk_go_docsStream 3) [0; 1; 0]%Z 1000 = GoSem.Val 4194304%Z /\
  go_seq_Less (zid (5, 1)) (zid (5, 2)) = true /\ go_seq_LessOrEqual (zid (6, 0)) (zid (5, 9)) = false.
Proof. vm_compute. repeat split; reflexivity. Qed.
