(* C04 — property theorems. Statements only, each closed by `exact <lemma>`, Print Assumptions beneath,
   and the non-vacuity / refutation examples. *)
From C04 Require Import Model ProofsChunk.
Open Scope N_scope.

(* The adaptive chunk size is at least 1 for EVERY list of found documents (found sizes), whatever the
   previous size >= 1 was: no division by zero, no chunk of 0 IDs. *)
Theorem C04_chunk_size_pos : forall g docs prev, 1 <= prev -> 1 <= calc_chunk g docs prev.
Proof. exact calc_chunk_pos. Qed.
Print Assumptions C04_chunk_size_pos.

(* thm:C04_chunking_total — for every request and every behaviour of the fetcher that is safe on non-empty
   chunks, the batch loader terminates (the model's fuel is never exhausted) and never brings the process
   down: in particular it never hands an empty chunk to the fetcher (which would index ids[0]). *)
Theorem C04_chunking_total : forall g fetch ids,
  1 <= init_chunk g -> fetch_safe fetch ->
  batch_loop (S (length ids)) (calc_now g) fetch ids (init_chunk g) <> BFuel /\
  batch_loop (S (length ids)) (calc_now g) fetch ids (init_chunk g) <> BCrash.
Proof. exact chunking_total. Qed.
Print Assumptions C04_chunking_total.
