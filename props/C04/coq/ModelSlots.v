(* C04 — the worker-slot semaphore of fracmanager.Fetcher (fracmanager/fetcher.go: Fetcher.sem, NewFetcher,
   fetchDocsAsync, fracFetch) over HISTORIES of requests served by one long-lived Fetcher.  No proofs here.

   One FetchDocs call = one dispatch loop over the candidate fractions plus the worker goroutines it starts:

     loop: for i, frac := range fracs {
             select {
             case <-ctx.Done():        once.Do(err = ctx.Err()); break loop          -> MCtxDone
             case f.sem <- struct{}{}: wg.Add(1); go func() {                        -> MAcquire
                                         docs[i], fracErr = fracFetch(...)           (panic converted to error)
                                         if fracErr != nil { once.Do(err = fracErr; cancel()) }
                                         <-f.sem; wg.Done() }()                      -> MFinish j
             } }
           wg.Wait()

   The goroutines interleave in any order; the client may cancel / the deadline may pass at any moment (MCancel).
   A schedule is a list of moves; a move that is not enabled in the current state is skipped.  `leak` = true is
   the seeded variant C04-m9: after `case f.sem <- struct{}{}` an early exit `if ctx.Err() != nil { …; break loop }`
   that leaves the loop with the acquired slot and never starts the worker that would give it back. *)
From Coq Require Import List NArith Bool.
Import ListNotations.
Open Scope N_scope.

(* how the fetch of one candidate fraction ends: documents / an error of dp.Fetch / a panic turned into an error *)
Inductive wres := WOk | WErr | WPanic.
Definition failed (o : wres) : bool := match o with WOk => false | _ => true end.

Record rstate := mkR {
  in_use : N;             (* len(f.sem): worker slots of the Fetcher that are taken *)
  todo : list wres;       (* candidate fractions the dispatch loop has not reached ([] = the loop is left) *)
  running : list wres;    (* workers started and not finished (newest first); each holds one slot *)
  ctx_done : bool;        (* the request's context is done: client cancel, deadline, cancel() after a failed sibling *)
  err : bool }.           (* once.Do(err = …) has happened: FetchDocs will return an error *)

Inductive move :=
| MAcquire                (* the select takes `f.sem <- struct{}{}` *)
| MCtxDone                (* the select takes `<-ctx.Done()` *)
| MFinish (j : nat)       (* the j-th running worker ends: error bookkeeping, `<-f.sem`, wg.Done() *)
| MCancel.                (* the client cancels / the deadline passes *)

Fixpoint remove_nth {A} (j : nat) (l : list A) : list A :=
  match l, j with
  | [], _ => []
  | _ :: r, O => r
  | x :: r, S k => x :: remove_nth k r
  end.

(* W = cap(f.sem) = conf.FetchWorkers. None = the move is not enabled *)
Definition step (leak : bool) (W : N) (s : rstate) (m : move) : option rstate :=
  match m with
  | MAcquire =>
      match todo s with
      | [] => None
      | o :: r =>
          if in_use s <? W
          then if leak && ctx_done s
               then Some (mkR (in_use s + 1) [] (running s) true true)          (* C04-m9: break loop, slot kept *)
               else Some (mkR (in_use s + 1) r (o :: running s) (ctx_done s) (err s))
          else None
      end
  | MCtxDone =>
      match todo s with
      | [] => None
      | _ :: _ => if ctx_done s then Some (mkR (in_use s) [] (running s) true true) else None
      end
  | MFinish j =>
      match nth_error (running s) j with
      | None => None
      | Some o => Some (mkR (in_use s - 1) (todo s) (remove_nth j (running s))
                            (ctx_done s || failed o) (err s || failed o))
      end
  | MCancel => Some (mkR (in_use s) (todo s) (running s) true (err s))
  end.

Fixpoint exec (leak : bool) (W : N) (s : rstate) (ms : list move) : rstate :=
  match ms with
  | [] => s
  | m :: r => match step leak W s m with Some s' => exec leak W s' r | None => exec leak W s r end
  end.

(* wg.Wait() has returned: FetchDocs returns *)
Definition finished (s : rstate) : bool :=
  match todo s, running s with [], [] => true | _, _ => false end.

(* what remains of a request when nothing else interferes: running workers end, the loop takes a slot when one is
   free, the ctx.Done branch when only that one is ready; false = blocked in the select for ever (a hang) *)
Fixpoint drain (fuel : nat) (leak : bool) (W : N) (s : rstate) : rstate * bool :=
  match fuel with
  | O => (s, false)
  | S k =>
      match running s, todo s with
      | [], [] => (s, true)
      | _ :: _, _ => match step leak W s (MFinish 0) with Some s' => drain k leak W s' | None => (s, false) end
      | [], _ :: _ =>
          match step leak W s MAcquire with
          | Some s' => drain k leak W s'
          | None => match step leak W s MCtxDone with Some s' => drain k leak W s' | None => (s, false) end
          end
      end
  end.

Definition drain_fuel (s : rstate) : nat := S (2 * length (todo s) + length (running s)).

(* one FetchDocs call: candidate fractions (dispatch order) with the outcome of their fetches, whether the context
   is already done at the call, the schedule *)
Definition request := (list wres * bool * list move)%type.
Definition start (u : N) (fr : list wres) (cd : bool) : rstate := mkR u fr [] cd false.

(* observation after a request: slots in use, FetchDocs returned, it returned an error *)
Definition obs := (N * bool * bool)%type.
Definition serve (leak : bool) (W u : N) (r : request) : obs :=
  let '(fr, cd, ms) := r in
  let s := exec leak W (start u fr cd) ms in
  let '(s', fin) := drain (drain_fuel s) leak W s in
  (in_use s', fin, err s').

(* requests served one after another by the same Fetcher *)
Fixpoint history (leak : bool) (W u : N) (h : list request) : list obs :=
  match h with
  | [] => []
  | r :: t => let o := serve leak W u r in o :: history leak W (fst (fst o)) t
  end.
