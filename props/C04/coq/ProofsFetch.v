(* C04 — Fetcher.FetchDocs: reverse positions, sorting, grouping by fraction, re-ordering. *)
From Coq Require Import Lia ZifyN ZifyNat Permutation Sorted RelationClasses.
From C04 Require Import Model ProofsBase.
Open Scope N_scope.

(* ------------------------------------------------------------------ keys *)
Lemma ikey_inj : forall i j, ikey i = ikey j -> i = j.
Proof. intros i j H. unfold ikey in H. rewrite <- (N.pos_pred_succ i), <- (N.pos_pred_succ j), H. reflexivity. Qed.

Lemma key_inj : forall x y, snd x <= max64 -> snd y <= max64 -> key x = key y -> x = y.
Proof.
  intros [a b] [c d]; unfold key, max64, two64; simpl; intros Hb Hd H.
  apply ikey_inj in H.
  assert (a = c) by nia. subst. f_equal. lia.
Qed.

Lemma find_add_ikey : forall (A : Type) i j (v : A) m,
  PositiveMap.find (ikey i) (PositiveMap.add (ikey j) v m) = if i =? j then Some v else PositiveMap.find (ikey i) m.
Proof.
  intros. destruct (i =? j) eqn:E.
  - apply N.eqb_eq in E; subst. apply PositiveMap.gss.
  - apply N.eqb_neq in E. apply PositiveMap.gso. intros H; apply E; apply ikey_inj; exact H.
Qed.

(* ------------------------------------------------------------------ the active fraction's map *)
Lemma build_act_find : forall l x,
  Forall (fun e => snd (fst e) <= max64) l -> snd x <= max64 ->
  PositiveMap.find (key x) (build_act l) = lookup_docs l x.
Proof.
  induction l as [|[i b] l IH]; intros x Hl Hx.
  - simpl. apply PositiveMap.gempty.
  - inversion Hl; subst. simpl in *. unfold lookup_docs; simpl.
    destruct (id_eqb i x) eqn:E.
    + apply id_eqb_eq in E; subst. apply PositiveMap.gss.
    + rewrite PositiveMap.gso; [apply IH; assumption|].
      intros H; apply key_inj in H; auto. subst. rewrite id_eqb_refl in E. discriminate.
Qed.

Lemma active_fetch_ok : forall g f ids,
  f_sealed f = false -> docs_wf (f_docs f) -> Forall id_u64 ids ->
  frac_fetch g (compile f) ids = Ok (map (lookup f) ids).
Proof.
  intros g f ids Hs [_ Hw] Hu. unfold frac_fetch, frac_fetch_gen, compile. rewrite Hs. simpl. rewrite Hs.
  f_equal. apply map_ext_in. intros x Hx. unfold lookup. apply build_act_find.
  - eapply Forall_impl; [|exact Hw]. simpl. intros e [_ H]; exact H.
  - rewrite Forall_forall in Hu. apply Hu in Hx. apply Hx.
Qed.

Lemma cf_compile : forall f, cf (compile f) = f.
Proof. intros f; unfold compile; destruct (f_sealed f); reflexivity. Qed.

(* ------------------------------------------------------------------ reversPos *)
Lemma rp_notin : forall l i m x, ~ In x (map fst l) -> snd x <= max64 ->
  Forall (fun s => snd (fst s) <= max64) l ->
  PositiveMap.find (key x) (revers_pos l i m) = PositiveMap.find (key x) m.
Proof.
  induction l as [|s r IH]; intros i m x Hn Hx Hl; [reflexivity|].
  inversion Hl; subst. simpl. rewrite IH; auto.
  - apply PositiveMap.gso. intros H. apply key_inj in H; auto. apply Hn. left. symmetry; exact H.
  - intros H; apply Hn; right; exact H.
Qed.

Lemma rp_spec : forall l i m k s, NoDup (map fst l) ->
  Forall (fun s => snd (fst s) <= max64) l ->
  nth_error l k = Some s ->
  rp_get (revers_pos l i m) (fst s) = i + N.of_nat k.
Proof.
  induction l as [|s0 r IH]; intros i m k s Hn Hl Hk; [destruct k; discriminate|].
  inversion Hn; subst. inversion Hl; subst. destruct k as [|k]; simpl in *.
  - inversion Hk; subst. unfold rp_get. rewrite rp_notin; auto. rewrite PositiveMap.gss. lia.
  - rewrite (IH (i + 1) _ k s); auto. lia.
Qed.

(* ------------------------------------------------------------------ the result array *)
Definition addw (a : PositiveMap.t body) (w : N * body) := PositiveMap.add (ikey (fst w)) (snd w) a.

(* the last document written to position i *)
Fixpoint lw (i : N) (W : list (N * body)) : option body :=
  match W with
  | [] => None
  | w :: r => match lw i r with Some d => Some d | None => if i =? fst w then Some (snd w) else None end
  end.

Lemma fold_addw_find : forall W a i,
  PositiveMap.find (ikey i) (fold_left addw W a) =
  match lw i W with Some d => Some d | None => PositiveMap.find (ikey i) a end.
Proof.
  induction W as [|w r IH]; intros a i; [reflexivity|].
  simpl. rewrite IH. destruct (lw i r); [reflexivity|].
  unfold addw. rewrite find_add_ikey. destruct (i =? fst w); reflexivity.
Qed.

Lemma lw_in : forall i W d, lw i W = Some d -> In (i, d) W.
Proof.
  induction W as [|[p v] r IH]; intros d H; [discriminate|]. simpl in *.
  destruct (lw i r) eqn:E.
  - inversion H; subst. right. apply IH. reflexivity.
  - destruct (i =? p) eqn:E2; [|discriminate]. apply N.eqb_eq in E2. inversion H; subst. left; reflexivity.
Qed.

Lemma lw_none : forall i W, (forall d, ~ In (i, d) W) -> lw i W = None.
Proof.
  intros i W H. destruct (lw i W) eqn:E; [|reflexivity]. apply lw_in in E. exfalso. eapply H; eauto.
Qed.

Lemma lw_some : forall i W d, In (i, d) W -> (forall d', In (i, d') W -> d' = d) -> lw i W = Some d.
Proof.
  intros i W d Hi Hu. destruct (lw i W) eqn:E.
  - apply lw_in in E. f_equal. apply Hu; exact E.
  - exfalso. revert Hi E. clear Hu. induction W as [|[p v] r IH]; intros Hi E; [contradiction|].
    simpl in *. destruct (lw i r) eqn:E1; [discriminate|].
    destruct Hi as [Hi|Hi].
    + inversion Hi; subst. rewrite N.eqb_refl in E. discriminate.
    + apply IH; auto.
Qed.

(* writes of one fraction's answer / of all answers *)
Definition wr (rp : PositiveMap.t N) (lk : id -> option body) (buf : list id) : list (N * body) :=
  flat_map (fun x => match lk x with Some d => [(rp_get rp x, d)] | None => [] end) buf.

Lemma put_docs_wr : forall rp lk buf a,
  put_docs rp buf (map lk buf) a = fold_left addw (wr rp lk buf) a.
Proof.
  induction buf as [|x r IH]; intros a; [reflexivity|].
  simpl. destruct (lk x) as [d|]; simpl; rewrite IH; reflexivity.
Qed.

Definition answers (gs : list (cfrac * list id)) : list (list id * list (option body)) :=
  map (fun cb => (snd cb, map (lookup (cf (fst cb))) (snd cb))) gs.
Definition writes (rp : PositiveMap.t N) (gs : list (cfrac * list id)) : list (N * body) :=
  flat_map (fun cb => wr rp (lookup (cf (fst cb))) (snd cb)) gs.

Lemma arrange_writes : forall rp gs a,
  arrange rp (answers gs) a = fold_left addw (writes rp gs) a.
Proof.
  induction gs as [|[c buf] r IH]; intros a; [reflexivity|].
  simpl. rewrite put_docs_wr, IH, fold_left_app. reflexivity.
Qed.

Lemma in_writes : forall rp gs p d,
  In (p, d) (writes rp gs) <->
  exists c buf x, In (c, buf) gs /\ In x buf /\ lookup (cf c) x = Some d /\ p = rp_get rp x.
Proof.
  intros rp gs p d. unfold writes, wr. rewrite in_flat_map. split.
  - intros [[c buf] [Hg H]]. simpl in H. rewrite in_flat_map in H. destruct H as [x [Hx H]].
    destruct (lookup (cf c) x) as [d'|] eqn:E; [|contradiction].
    destruct H as [H|[]]. inversion H; subst. exists c, buf, x. auto.
  - intros [c [buf [x [Hg [Hx [Hl Hp]]]]]]. exists (c, buf). split; [exact Hg|].
    simpl. rewrite in_flat_map. exists x. split; [exact Hx|]. rewrite Hl. left. subst. reflexivity.
Qed.

Lemma readout_spec : forall (F : idsrc -> option body) a ids j,
  (forall k s, nth_error ids k = Some s -> PositiveMap.find (ikey (j + N.of_nat k)) a = F s) ->
  readout a j (length ids) = map F ids.
Proof.
  induction ids as [|s r IH]; intros j H; [reflexivity|].
  simpl. f_equal.
  - specialize (H O s eq_refl). simpl in H. rewrite N.add_0_r in H. exact H.
  - apply IH. intros k s' Hk. specialize (H (S k) s' Hk). rewrite <- H. f_equal. f_equal. lia.
Qed.
