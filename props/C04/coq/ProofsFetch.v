(* C04 — Fetcher.FetchDocs: reverse positions, sorting, grouping by fraction, re-ordering. *)
From Coq Require Import Lia ZifyN ZifyNat Permutation Sorted RelationClasses.
From C04 Require Import Model ProofsBase.
Open Scope N_scope.

(* ------------------------------------------------------------------ keys *)
Lemma ikey_inj : forall i j, ikey i = ikey j -> i = j.
Proof. intros i j H. unfold ikey in H. rewrite <- (N.pos_pred_succ i), <- (N.pos_pred_succ j), H. reflexivity. Qed.

Lemma key_inj : forall x y, snd x <= max64 -> snd y <= max64 -> key x = key y -> x = y.
Proof.
  intros [a b] [c d]; unfold key, max64, two64; simpl; intros Hb Hd H.
  apply ikey_inj in H.
  assert (a = c) by nia. subst. f_equal. lia.
Qed.

Lemma find_add_ikey : forall (A : Type) i j (v : A) m,
  PositiveMap.find (ikey i) (PositiveMap.add (ikey j) v m) = if i =? j then Some v else PositiveMap.find (ikey i) m.
Proof.
  intros. destruct (i =? j) eqn:E.
  - apply N.eqb_eq in E; subst. apply PositiveMap.gss.
  - apply N.eqb_neq in E. apply PositiveMap.gso. intros H; apply E; apply ikey_inj; exact H.
Qed.

(* ------------------------------------------------------------------ the active fraction's map *)
Lemma build_act_find : forall l x,
  Forall (fun e => snd (fst e) <= max64) l -> snd x <= max64 ->
  PositiveMap.find (key x) (build_act l) = lookup_docs l x.
Proof.
  induction l as [|[i b] l IH]; intros x Hl Hx.
  - simpl. apply PositiveMap.gempty.
  - inversion Hl; subst. simpl in *. unfold lookup_docs; simpl.
    destruct (id_eqb i x) eqn:E.
    + apply id_eqb_eq in E; subst. apply PositiveMap.gss.
    + rewrite PositiveMap.gso; [apply IH; assumption|].
      intros H; apply key_inj in H; auto. subst. rewrite id_eqb_refl in E. discriminate.
Qed.

(* active_fetch_ok (through the position layer) is in ProofsPhys.v *)

Lemma cf_compile : forall f, cf (compile f) = f.
Proof. intros f; unfold compile; destruct (f_sealed f); reflexivity. Qed.

(* ------------------------------------------------------------------ reversPos *)
Lemma rp_notin : forall l i m x, ~ In x (map fst l) -> snd x <= max64 ->
  Forall (fun s => snd (fst s) <= max64) l ->
  PositiveMap.find (key x) (revers_pos l i m) = PositiveMap.find (key x) m.
Proof.
  induction l as [|s r IH]; intros i m x Hn Hx Hl; [reflexivity|].
  inversion Hl; subst. simpl. rewrite IH; auto.
  - apply PositiveMap.gso. intros H. apply key_inj in H; auto. apply Hn. left. symmetry; exact H.
  - intros H; apply Hn; right; exact H.
Qed.

Lemma rp_spec : forall l i m k s, NoDup (map fst l) ->
  Forall (fun s => snd (fst s) <= max64) l ->
  nth_error l k = Some s ->
  rp_get (revers_pos l i m) (fst s) = i + N.of_nat k.
Proof.
  induction l as [|s0 r IH]; intros i m k s Hn Hl Hk; [destruct k; discriminate|].
  inversion Hn; subst. inversion Hl; subst. destruct k as [|k]; simpl in *.
  - inversion Hk; subst. unfold rp_get. rewrite rp_notin; auto. rewrite PositiveMap.gss. lia.
  - rewrite (IH (i + 1) _ k s); auto. lia.
Qed.

(* ------------------------------------------------------------------ the result array *)
Definition addw (a : PositiveMap.t body) (w : N * body) := PositiveMap.add (ikey (fst w)) (snd w) a.

(* the last document written to position i *)
Fixpoint lw (i : N) (W : list (N * body)) : option body :=
  match W with
  | [] => None
  | w :: r => match lw i r with Some d => Some d | None => if i =? fst w then Some (snd w) else None end
  end.

Lemma fold_addw_find : forall W a i,
  PositiveMap.find (ikey i) (fold_left addw W a) =
  match lw i W with Some d => Some d | None => PositiveMap.find (ikey i) a end.
Proof.
  induction W as [|w r IH]; intros a i; [reflexivity|].
  simpl. rewrite IH. destruct (lw i r); [reflexivity|].
  unfold addw. rewrite find_add_ikey. destruct (i =? fst w); reflexivity.
Qed.

Lemma lw_in : forall i W d, lw i W = Some d -> In (i, d) W.
Proof.
  induction W as [|[p v] r IH]; intros d H; [discriminate|]. simpl in *.
  destruct (lw i r) eqn:E.
  - inversion H; subst. right. apply IH. reflexivity.
  - destruct (i =? p) eqn:E2; [|discriminate]. apply N.eqb_eq in E2. inversion H; subst. left; reflexivity.
Qed.

Lemma lw_none : forall i W, (forall d, ~ In (i, d) W) -> lw i W = None.
Proof.
  intros i W H. destruct (lw i W) eqn:E; [|reflexivity]. apply lw_in in E. exfalso. eapply H; eauto.
Qed.

Lemma lw_some : forall i W d, In (i, d) W -> (forall d', In (i, d') W -> d' = d) -> lw i W = Some d.
Proof.
  intros i W d Hi Hu. destruct (lw i W) eqn:E.
  - apply lw_in in E. f_equal. apply Hu; exact E.
  - exfalso. revert Hi E. clear Hu. induction W as [|[p v] r IH]; intros Hi E; [contradiction|].
    simpl in *. destruct (lw i r) eqn:E1; [discriminate|].
    destruct Hi as [Hi|Hi].
    + inversion Hi; subst. rewrite N.eqb_refl in E. discriminate.
    + apply IH; auto.
Qed.

(* writes of one fraction's answer / of all answers *)
Definition wr (rp : PositiveMap.t N) (lk : id -> option body) (buf : list id) : list (N * body) :=
  flat_map (fun x => match lk x with Some d => [(rp_get rp x, d)] | None => [] end) buf.

Lemma put_docs_wr : forall rp lk buf a,
  put_docs rp buf (map lk buf) a = fold_left addw (wr rp lk buf) a.
Proof.
  induction buf as [|x r IH]; intros a; [reflexivity|].
  simpl. destruct (lk x) as [d|]; simpl; rewrite IH; reflexivity.
Qed.

Definition answers (gs : list (cfrac * list id)) : list (list id * list (option body)) :=
  map (fun cb => (snd cb, map (lookup (cf (fst cb))) (snd cb))) gs.
Definition writes (rp : PositiveMap.t N) (gs : list (cfrac * list id)) : list (N * body) :=
  flat_map (fun cb => wr rp (lookup (cf (fst cb))) (snd cb)) gs.

Lemma arrange_writes : forall rp gs a,
  arrange rp (answers gs) a = fold_left addw (writes rp gs) a.
Proof.
  induction gs as [|[c buf] r IH]; intros a; [reflexivity|].
  simpl. rewrite put_docs_wr, IH, fold_left_app. reflexivity.
Qed.

Lemma in_writes : forall rp gs p d,
  In (p, d) (writes rp gs) <->
  exists c buf x, In (c, buf) gs /\ In x buf /\ lookup (cf c) x = Some d /\ p = rp_get rp x.
Proof.
  intros rp gs p d. unfold writes, wr. rewrite in_flat_map. split.
  - intros [[c buf] [Hg H]]. simpl in H. rewrite in_flat_map in H. destruct H as [x [Hx H]].
    destruct (lookup (cf c) x) as [d'|] eqn:E; [|contradiction].
    destruct H as [H|[]]. inversion H; subst. exists c, buf, x. auto.
  - intros [c [buf [x [Hg [Hx [Hl Hp]]]]]]. exists (c, buf). split; [exact Hg|].
    simpl. rewrite in_flat_map. exists x. split; [exact Hx|]. rewrite Hl. left. subst. reflexivity.
Qed.

Lemma readout_spec : forall (F : idsrc -> option body) a ids j,
  (forall k s, nth_error ids k = Some s -> PositiveMap.find (ikey (j + N.of_nat k)) a = F s) ->
  readout a j (length ids) = map F ids.
Proof.
  induction ids as [|s r IH]; intros j H; [reflexivity|].
  simpl. f_equal.
  - specialize (H O s eq_refl). simpl in H. rewrite N.add_0_r in H. exact H.
  - apply IH. intros k s' Hk. specialize (H (S k) s' Hk). rewrite <- H. f_equal. f_equal. lia.
Qed.

(* ------------------------------------------------------------------ sortIDs *)
Lemma src_leb_trans : Transitive (fun x y : idsrc => is_true (id_leq (fst x) (fst y))).
Proof.
  intros x y z H1 H2. unfold is_true in *. rewrite id_leq_spec in *. eapply ile_trans; eauto.
Qed.
Lemma src_leb_refl : forall x : idsrc, is_true (id_leq (fst x) (fst x)).
Proof. intros x. unfold is_true. rewrite id_leq_spec. apply ile_refl. Qed.

Lemma ss_hd : forall (A : Type) (R : A -> A -> Prop) (d : A) l, StronglySorted R l -> (forall a, R a a) ->
  forall x, In x l -> R (hd d l) x.
Proof.
  intros A R d l H Hr x Hx. destruct l as [|a l]; [contradiction|]. simpl.
  inversion H; subst. destruct Hx as [->|Hx]; [apply Hr|]. rewrite Forall_forall in H3. apply H3; exact Hx.
Qed.
Lemma ss_last : forall (A : Type) (R : A -> A -> Prop) (d : A) l, StronglySorted R l -> (forall a, R a a) ->
  forall x, In x l -> R x (last l d).
Proof.
  intros A R d l H Hr. induction H as [|a l Hs IH Hf]; intros x Hx; [contradiction|].
  destruct l as [|b l]; [destruct Hx as [->|[]]; apply Hr|].
  change (last (a :: b :: l) d) with (last (b :: l) d).
  destruct Hx as [->|Hx]; [|apply IH; exact Hx].
  rewrite Forall_forall in Hf. apply Hf.
  clear. revert b. induction l as [|c l IH]; intros b; [left; reflexivity|].
  change (last (b :: c :: l) d) with (last (c :: l) d). right. apply IH.
Qed.
Lemma last_rev : forall (A : Type) (d : A) u, last (rev u) d = hd d u.
Proof. intros A d [|x u]; [reflexivity|]. simpl. apply last_last. Qed.
Lemma hd_rev : forall (A : Type) (d : A) t, hd d (rev t) = last t d.
Proof. intros A d t. rewrite <- (rev_involutive t) at 2. rewrite last_rev. reflexivity. Qed.

Lemma id_leq_mid : forall a b, id_leq a b = true -> fst a <= fst b.
Proof. intros a b H. apply id_leq_spec in H. unfold ile in H. lia. Qed.

Lemma last_in : forall (A : Type) (d : A) l, l <> [] -> In (last l d) l.
Proof.
  induction l as [|a l IH]; intros H; [congruence|]. destruct l as [|b l]; [left; reflexivity|].
  change (last (a :: b :: l) d) with (last (b :: l) d). right. apply IH. congruence.
Qed.

Lemma sort_ids_spec : forall ids s lo hi, ids <> [] -> sort_ids ids = (s, lo, hi) ->
  Permutation ids s /\ (forall x, In x s -> lo <= fst (fst x) /\ fst (fst x) <= hi) /\
  exists y, In y s /\ hi = fst (fst y).
Proof.
  intros ids s lo hi Hne H. unfold sort_ids in H. cbv zeta in H.
  pose proof (SrcSort.Permuted_sort ids) as Hp.
  pose proof (SrcSort.StronglySorted_sort ids src_leb_trans) as Hs.
  set (t := SrcSort.sort ids) in *. set (d := ((0, 0), 0) : idsrc) in *.
  assert (Hb : forall x, In x t -> fst (fst (hd d t)) <= fst (fst x) /\ fst (fst x) <= fst (fst (last t d))).
  { intros x Hx. split; apply id_leq_mid.
    - apply (ss_hd _ _ d t Hs src_leb_refl x Hx).
    - apply (ss_last _ _ d t Hs src_leb_refl x Hx). }
  match type of H with (if ?c then _ else _) = _ => destruct c end; injection H as E1 E2 E3; rewrite <- E1, <- E2, <- E3; clear E1 E2 E3.
  - split; [exact Hp|]. split; [exact Hb|]. exists (last t d). split; [|reflexivity].
    apply last_in. intros E. rewrite E in Hp. apply Permutation_sym, Permutation_nil in Hp. contradiction.
  - split; [rewrite <- Permutation_rev; exact Hp|]. split.
    + intros x Hx. rewrite last_rev, hd_rev. apply Hb. apply in_rev. exact Hx.
    + exists (last t d). rewrite hd_rev. split; [|reflexivity]. apply -> in_rev.
      apply last_in. intros E. rewrite E in Hp. apply Permutation_sym, Permutation_nil in Hp. contradiction.
Qed.

(* ------------------------------------------------------------------ groupIDsByFraction *)
Lemma group_sound : forall cand s c buf, In (c, buf) (group cand s) ->
  In c cand /\ forall x, In x buf -> exists src, In src s /\ fst src = x /\ sel (cf c) src = true.
Proof.
  induction cand as [|c0 r IH]; intros s c buf H; [contradiction|].
  simpl in H.
  assert (Hrest : In (c, buf) (group r (filter (keep (cf c0)) s)) ->
                  In c (c0 :: r) /\ forall x, In x buf -> exists src, In src s /\ fst src = x /\ sel (cf c) src = true).
  { intros H1. apply IH in H1. destruct H1 as [H1 H2]. split; [right; exact H1|].
    intros x Hx. destruct (H2 x Hx) as [src [Hs [He Hsel]]]. exists src. apply filter_In in Hs. tauto. }
  destruct (map fst (filter (sel (cf c0)) s)) as [|b0 bs] eqn:E; [apply Hrest; exact H|].
  destruct H as [H|H]; [|apply Hrest; exact H].
  inversion H; subst. split; [left; reflexivity|].
  intros x Hx. rewrite <- E in Hx. apply in_map_iff in Hx. destruct Hx as [src [He Hs]].
  apply filter_In in Hs. exists src. tauto.
Qed.

Lemma sel_name : forall f s, sel f s = true -> snd s = 0 \/ snd s = f_name f.
Proof.
  intros f s H. unfold sel in H. destruct (snd s =? 0) eqn:E; [left; apply N.eqb_eq; exact E|].
  apply andb_true_iff in H. destruct H as [H _]. right. apply N.eqb_eq; exact H.
Qed.

Lemma group_complete : forall cand s c src,
  NoDup (map (fun c => f_name (cf c)) cand) -> In c cand -> In src s -> sel (cf c) src = true ->
  (forall c', In c' cand -> 1 <= f_name (cf c')) ->
  exists buf, In (c, buf) (group cand s) /\ In (fst src) buf.
Proof.
  induction cand as [|c0 r IH]; intros s c src Hn Hc Hs Hsel Hnm; [contradiction|].
  simpl. inversion Hn; subst.
  destruct Hc as [Hc|Hc].
  - subst c0. assert (Hin : In (fst src) (map fst (filter (sel (cf c)) s))).
    { apply in_map. apply filter_In. split; assumption. }
    destruct (map fst (filter (sel (cf c)) s)) as [|b0 bs] eqn:E; [contradiction|].
    exists (b0 :: bs). split; [left; reflexivity|exact Hin].
  - assert (Hk : keep (cf c0) src = true).
    { unfold keep. destruct (sel_name _ _ Hsel) as [H0|H0].
      - rewrite H0. reflexivity.
      - destruct (snd src =? f_name (cf c0)) eqn:E; [|apply orb_true_r].
        exfalso. apply N.eqb_eq in E. apply H1. rewrite <- E, H0.
        apply (in_map (fun c => f_name (cf c))) in Hc. exact Hc. }
    destruct (IH (filter (keep (cf c0)) s) c src H2 Hc) as [buf [Hg Hb]]; auto.
    + apply filter_In. split; assumption.
    + intros c' Hc'. apply Hnm. right; exact Hc'.
    + exists buf. split; [|exact Hb].
      destruct (map fst (filter (sel (cf c0)) s)); [exact Hg|right; exact Hg].
Qed.

Lemma NoDup_map_filter : forall (A B : Type) (h : A -> B) (P : A -> bool) l,
  NoDup (map h l) -> NoDup (map h (filter P l)).
Proof.
  induction l as [|a l IH]; intros H; [constructor|]. simpl in *. inversion H; subst.
  destruct (P a); [|apply IH; exact H3]. simpl. constructor; [|apply IH; exact H3].
  intros Hi. apply H2. apply in_map_iff in Hi. destruct Hi as [x [E Hx]]. apply filter_In in Hx.
  apply in_map_iff. exists x. tauto.
Qed.

Lemma fetch_docs_step : forall guard g fs ids, ids <> [] ->
  fetch_docs_gen guard g fs ids =
  let rp := revers_pos ids 0 (PositiveMap.empty _) in
  let '(s, lo, hi) := sort_ids ids in
  let cand := filter (fun c => intersecting (cf c) lo hi) fs in
  match fetch_all guard g (group cand s) with
  | Ok dbf => FOk (readout (arrange rp dbf (PositiveMap.empty _)) 0 (length ids))
  | Panic => FErr
  | Fuel => FFuel
  end.
Proof. intros guard g fs [|s r] H; [congruence|reflexivity]. Qed.

(* ------------------------------------------------------------------ FetchDocs *)
Section FetchDocs.
  Variable g : cfg.
  Variable frs : list frac.
  Variable B : N.
  Hypothesis Hwf : corpus_wf B frs.
  (* every fraction answers a list of IDs with what it stores under each (ProofsSealed / active_fetch_ok) *)
  Hypothesis Hff : forall f ids, In f frs -> f_docs f <> [] -> Forall id_u64 ids ->
    frac_fetch g (compile f) ids = Ok (map (lookup f) ids).

  Lemma fetch_all_ok : forall gs,
    (forall c buf, In (c, buf) gs -> exists f, In f frs /\ c = compile f /\ f_docs f <> [] /\ Forall id_u64 buf) ->
    fetch_all true g gs = Ok (answers gs).
  Proof.
    induction gs as [|[c buf] r IH]; intros H; [reflexivity|].
    simpl. destruct (H c buf (or_introl eq_refl)) as [f [Hf [Hc [Hd Hu]]]]. subst c.
    fold frac_fetch. rewrite (Hff f buf Hf Hd Hu). rewrite IH.
    - simpl. rewrite cf_compile. reflexivity.
    - intros c' buf' Hi. apply H. right; exact Hi.
  Qed.

  Lemma expected_of_stored : forall f s d, In f frs -> hint_ok f s = true -> lookup f (fst s) = Some d ->
    expected frs s = Some d.
  Proof.
    intros f s d Hf Hh Hl. unfold expected.
    destruct (find (fun f0 => hint_ok f0 s && is_some (lookup f0 (fst s))) frs) as [f'|] eqn:E.
    - apply find_some in E. destruct E as [Hf' Hp]. apply andb_true_iff in Hp. destruct Hp as [_ Hp].
      destruct Hwf as [_ [_ Hu]]. assert (f' = f).
      { apply (Hu f' f (fst s)); auto.
        - destruct (lookup f' (fst s)); [discriminate|discriminate Hp].
        - rewrite Hl; discriminate. }
      subst; exact Hl.
    - exfalso. pose proof (find_none _ _ E f Hf) as Hn. simpl in Hn. rewrite Hh, Hl in Hn. discriminate.
  Qed.

  Lemma expected_stored : forall s d, expected frs s = Some d ->
    exists f, In f frs /\ hint_ok f s = true /\ lookup f (fst s) = Some d.
  Proof.
    intros s d H. unfold expected in H.
    destruct (find (fun f0 => hint_ok f0 s && is_some (lookup f0 (fst s))) frs) as [f|] eqn:E; [|discriminate].
    apply find_some in E. destruct E as [Hf Hp]. apply andb_true_iff in Hp. exists f. tauto.
  Qed.

  Lemma fetch_docs_ok : forall ids, ids <> [] -> NoDup (map fst ids) -> Forall (fun s => id_u64 (fst s)) ids ->
    Forall (fun s => fst (fst s) <= B) ids ->
    fetch_docs g (map compile frs) ids = FOk (map (expected frs) ids).
  Proof.
    intros ids Hne Hnd Hu HB. unfold fetch_docs. rewrite fetch_docs_step by exact Hne. cbv zeta.
    destruct (sort_ids ids) as [[s lo] hi] eqn:Es.
    destruct (sort_ids_spec _ _ _ _ Hne Es) as [Hperm [Hb [ymax [Hymax Ehi]]]].
    assert (HhiB : hi <= B).
    { rewrite Ehi. rewrite Forall_forall in HB. apply HB. apply (Permutation_in _ (Permutation_sym Hperm)). exact Hymax. }
    assert (HinB : forall sk, In sk s -> fst (fst sk) <= B).
    { intros sk Hsk. rewrite Forall_forall in HB. apply HB. apply (Permutation_in _ (Permutation_sym Hperm)). exact Hsk. }
    set (rp := revers_pos ids 0 (PositiveMap.empty N)).
    set (cand := filter (fun c => intersecting (cf c) lo hi) (map compile frs)).
    set (gs := group cand s).
    destruct Hwf as [Hfw [Hnames Huniq]].
    assert (Hu2 : Forall (fun s => snd (fst s) <= max64) ids).
    { eapply Forall_impl; [|exact Hu]. intros a [_ H]; exact H. }
    assert (Hcand : forall c, In c cand -> exists f, In f frs /\ c = compile f /\ intersecting f lo hi = true).
    { intros c Hc. apply filter_In in Hc. destruct Hc as [Hc Hi]. apply in_map_iff in Hc.
      destruct Hc as [f [E Hf]]. subst c. rewrite cf_compile in Hi. exists f. auto. }
    assert (Hrp : forall k sk, nth_error ids k = Some sk -> rp_get rp (fst sk) = N.of_nat k).
    { intros k sk Hk. unfold rp. rewrite (rp_spec ids 0 _ k sk Hnd Hu2 Hk). lia. }
    rewrite (fetch_all_ok gs).
    2:{ intros c buf Hi. apply group_sound in Hi. destruct Hi as [Hc Hx].
        destruct (Hcand c Hc) as [f [Hf [E Hint]]]. exists f. split; [exact Hf|]. split; [exact E|].
        split; [intros Hd; unfold intersecting, intersecting_gen in Hint; rewrite Hd in Hint; discriminate|].
        apply Forall_forall. intros x Hxb. destruct (Hx x Hxb) as [src [Hs [E2 _]]].
        apply (Permutation_in _ (Permutation_sym Hperm)) in Hs. rewrite Forall_forall in Hu. subst x. apply Hu; exact Hs. }
    f_equal. rewrite arrange_writes. apply readout_spec. intros k sk Hk.
    rewrite N.add_0_l, fold_addw_find, PositiveMap.gempty.
    (* A: every write to position k carries the expected document *)
    assert (HA : forall d, In (N.of_nat k, d) (writes rp gs) -> expected frs sk = Some d).
    { intros d Hi. apply in_writes in Hi. destruct Hi as [c [buf [x [Hg [Hx [Hl Hp]]]]]].
      apply group_sound in Hg. destruct Hg as [Hc Hsrc]. destruct (Hsrc x Hx) as [src [Hs [E Hsel]]].
      apply (Permutation_in _ (Permutation_sym Hperm)) in Hs.
      destruct (In_nth_error _ _ Hs) as [j Hj].
      pose proof (Hrp j src Hj) as Hr. rewrite E, <- Hp in Hr.
      assert (j = k) by lia. subst j. rewrite Hk in Hj. inversion Hj; subst src.
      destruct (Hcand c Hc) as [f [Hf [Ec _]]]. subst c. rewrite cf_compile in *.
      apply (expected_of_stored f); auto.
      - unfold hint_ok. destruct (sel_name _ _ Hsel) as [H0|H0]; rewrite H0; [reflexivity|].
        rewrite N.eqb_refl. apply orb_true_r.
      - rewrite E. exact Hl. }
    destruct (expected frs sk) as [d|] eqn:Ee.
    - (* B: the expected document is written to position k *)
      rewrite (lw_some (N.of_nat k) (writes rp gs) d); [reflexivity| |].
      2:{ intros d' Hi. apply HA in Hi. congruence. }
      destruct (expected_stored _ _ Ee) as [f [Hf [Hh Hl]]].
      assert (Hsk : In sk s) by (apply (Permutation_in _ Hperm); eapply nth_error_In; eauto).
      rewrite Forall_forall in Hfw. destruct (Hfw f Hf) as [_ [Hn1 [Hsound _]]].
      assert (Hc : In (compile f) cand).
      { apply filter_In. split; [apply in_map; exact Hf|]. rewrite cf_compile.
        destruct (Hb sk Hsk). eapply Hsound; eauto. }
      pose proof (HinB sk Hsk) as HskB.
      assert (Hsel : sel (cf (compile f)) sk = true).
      { rewrite cf_compile. unfold sel, contains.
        assert (Hct : intersecting f (fst (fst sk)) (fst (fst sk)) = true)
          by (eapply Hsound; eauto; apply N.le_refl).
        unfold hint_ok in Hh. destruct (snd sk =? 0); [exact Hct|]. simpl in Hh. rewrite Hh, Hct. reflexivity. }
      destruct (group_complete cand s (compile f) sk) as [buf [Hg Hx]]; auto.
      + unfold cand. apply NoDup_map_filter. rewrite map_map.
        erewrite map_ext; [exact Hnames|]. intros a; simpl. rewrite cf_compile. reflexivity.
      + intros c' Hc'. destruct (Hcand c' Hc') as [f' [Hf' [E' _]]]. subst c'. rewrite cf_compile.
        destruct (Hfw f' Hf') as [_ [H1 _]]. exact H1.
      + apply in_writes. exists (compile f), buf, (fst sk). rewrite cf_compile.
        repeat split; auto. symmetry. apply Hrp. exact Hk.
    - rewrite lw_none; [reflexivity|]. intros d Hi. apply HA in Hi. discriminate.
  Qed.
End FetchDocs.
