(* C04 — links between the new correspondence cases (CDocsCache, CSlots) and the models they execute. *)
From Coq Require Import List NArith Bool Lia.
From VLib Require Import CaseLib.
From C04 Require Import Model ModelSlots CaseDefs ProofsSlots.
From C04 Require ModelDocsCache ProofsDocsCache.
Import ListNotations.
Open Scope N_scope.

Lemma docs_cache_transparent_nil (B : Type) (blk : N -> option B) ops :
  ModelDocsCache.run B blk [] ops = ModelDocsCache.direct B blk ops.
Proof. apply ProofsDocsCache.run_transparent. apply ProofsDocsCache.inv_nil. Qed.

Lemma list_eqb_refl {A} (e : A -> A -> bool) (l : list A) : (forall x, e x x = true) -> list_eqb e l l = true.
Proof. intros H. induction l as [|x r IH]; cbn; [reflexivity|]. rewrite H, IH. reflexivity. Qed.

Lemma option_N_eqb_refl (x : option N) : option_eqb N.eqb x x = true.
Proof. destruct x; cbn; [apply N.eqb_refl|reflexivity]. Qed.

Lemma direct_app (B : Type) (blk : N -> option B) a b :
  ModelDocsCache.direct B blk (a ++ b) = ModelDocsCache.direct B blk a ++ ModelDocsCache.direct B blk b.
Proof.
  induction a as [|o r IH]; [reflexivity|]. destruct o; cbn [app ModelDocsCache.direct]; rewrite IH; reflexivity.
Qed.

Lemma direct_evicts (B : Type) (blk : N -> option B) {A} (f : A -> N) l :
  ModelDocsCache.direct B blk (map (fun b => ModelDocsCache.Evict (f b)) l) = [].
Proof. induction l as [|x r IH]; [reflexivity|exact IH]. Qed.

Lemma direct_expand blocks ops :
  ModelDocsCache.direct N (dc_blk blocks) (flat_map (dc_expand blocks) ops)
  = flat_map (fun o => match o with DRead off => [assoc off blocks] | _ => [] end) ops.
Proof.
  induction ops as [|o r IH]; [reflexivity|]. cbn [flat_map]. rewrite direct_app, IH. f_equal.
  destruct o as [off|k|]; cbn [dc_expand]; [reflexivity|reflexivity|].
  rewrite direct_app, !direct_evicts. reflexivity.
Qed.

Lemma docs_cache_meets_spec blocks ops keys :
  case_spec_ok (CDocsCache blocks ops
                  (ModelDocsCache.run N (dc_blk blocks) [] (flat_map (dc_expand blocks) ops)) keys) = true.
Proof.
  cbn [case_spec_ok]. rewrite docs_cache_transparent_nil, direct_expand.
  apply list_eqb_refl. exact option_N_eqb_refl.
Qed.

(* ---- slots *)
Lemma agg_ok (os : list obs) :
  Forall (fun o : obs => fst (fst o) = 0 /\ snd (fst o) = true) os ->
  fst (fst (agg_obs os)) = true /\ snd (fst (agg_obs os)) = 0 /\
  fold_left (fun _ (o : obs) => fst (fst o)) os 0 = 0.
Proof.
  intros H. unfold agg_obs. cbn [fst snd].
  induction H as [|o r [H1 H2] _ IH]; [repeat split|].
  destruct IH as (A & B & C). cbn [forallb fold_left]. rewrite H1, H2. cbn [andb N.max].
  repeat split; assumption.
Qed.

Lemma slots_run_ok g fs W steps : 1 <= W ->
  Forall (fun o : sobs => fst (fst o) = true /\ snd (fst o) = 0) (slots_run g fs W 0 steps).
Proof.
  intros HW. assert (0 < W) as HW' by lia.
  induction steps as [|[[k ids] rep] t IH]; cbn [slots_run]; [constructor|].
  match goal with |- context [history false W 0 ?h] => pose proof (history_ok W 0 h HW') as H end.
  destruct (agg_ok _ H) as (A & B & C). constructor; [split; assumption|]. rewrite C. exact IH.
Qed.
