(* C04 — executable model of the store-side fetch path. No proofs in this file.
   Mirrors (as the code is NOW, i.e. with the repairs b3c921d, 2f1e999 and 6d376ea):
     storeapi/docs_stream.go     batchLoader, calcChunkSize             -> batch_loop, calc_chunk
     storeapi/grpc_fetch.go      doFetch (one block per id, Ext1/Ext2)  -> stream
     fracmanager/fetcher.go      FetchDocs, sortIDs, groupIDsByFraction,
                                 fetchDocsAsync, fracFetch (panic->err) -> fetch_docs, sort_ids, group, fetch_all
     frac/info.go                IsIntersecting / Contains              -> intersecting, contains
     seq/mids_distribution.go    midToIndex, IsIntersecting             -> d_idx (d_idx_v0: before 6d376ea)
     util/bitmask.go             HasBitsIn (bytewise, as written)       -> has_bits_in
     frac/sealed_index.go        findLIDs (moving left bound, bound check), LessOrEqual (block-min shortcuts,
                                 RID = MaxUint64 shortcut)              -> find_lids_gen, less_or_equal
     util/util.go + sort.Search  BinSearchInRange                       -> bin_search, bsearch
     frac/active_index.go        activeFetchIndex.GetDocPos             -> active lookup (map id -> doc)
   The unrepaired versions are kept as calc_chunk_v0 / find_lids_gen false (…_v0).
     seq/doc_pos.go              PackDocPos, Unpack, GroupDocsOffsets   -> pack_pos, unpack_pos, group_offsets
     frac/processor/fetch.go     IndexFetch                             -> index_fetch
     disk/docs_reader.go         ReadDocs, extractDocsFromBlockFunc     -> read_bytes / extract_doc (bytes),
                                                                           read_abs (document descriptors)
     frac/sealed_index.go        getDocPosByLIDs                        -> pos_by_lids
     frac/active_index.go        GetDocPos with the snapshot guard      -> active_pos (active_pos_v0: before 5d51c58)
   In the end-to-end model a document is a descriptor (document number >= 1, length in bytes) and a decoded
   block is the list of its documents with their in-block offsets; the byte-level functions run in the
   unit-level cases, ProofsPos.extract_refines ties the two. NOT modelled: zstd. The docs block cache in front of
   ReadDocsFunc is modelled in ModelDocsCache.v, the worker-slot semaphore of the Fetcher in ModelSlots.v.
   The store is quiescent while a request runs (no concurrent ingest, sealing or deletion: properties C09/C15);
   the parallel per-fraction fetches of fetchDocsAsync are modelled sequentially (their results are combined
   by position, the first error wins). *)
From Coq Require Export List Bool Arith NArith FMapPositive.
From Coq Require Import Sorting.Mergesort Orders.
Export ListNotations.
Open Scope N_scope.

Inductive res (A : Type) := Ok (a : A) | Panic | Fuel.
Arguments Ok {A} a. Arguments Panic {A}. Arguments Fuel {A}.

(* ------------------------------------------------------------------ IDs (seq/seq.go) *)
Definition id := (N * N)%type.                   (* MID, RID *)
Definition id_eqb (a b : id) : bool := (fst a =? fst b) && (snd a =? snd b).
Definition id_less (a b : id) : bool := if fst a =? fst b then snd a <? snd b else fst a <? fst b.
Definition id_leq (a b : id) : bool := if fst a =? fst b then snd a <=? snd b else fst a <? fst b.
Definition max64 : N := 18446744073709551615.
Definition two63 : N := 9223372036854775808.
Definition two64 : N := 18446744073709551616.
Definition key (x : id) : positive := N.succ_pos (fst x * two64 + snd x).
Definition ikey (i : N) : positive := N.succ_pos i.

Definition body := (N * N)%type.                 (* document number, length *)
Definition blen (b : option body) : N := match b with Some (_, l) => l | None => 0 end.
Definition idsrc := (id * N)%type.               (* seq.IDSource: ID, hint (0 = "", k = name of a fraction) *)

Record cfg := mkCfg { ipb : N;                   (* consts.IDsPerBlock *)
                      max_fetch : N;             (* conf.MaxFetchSizeBytes *)
                      init_chunk : N }.          (* storeapi.initChunkSize *)

(* ------------------------------------------------------------------ fraction info *)
Record dist := mkDist { d_from : N; d_to : N; d_bucket : N;   (* milliseconds *)
                        d_bin : list N }.                      (* bitmask bytes *)

Definition d_size (d : dist) : N := (d_to d - d_from d) / d_bucket d + 3.
(* midToIndex (as repaired by 6d376ea): a MID beyond int64 milliseconds is later than any window *)
Definition d_idx (d : dist) (m : N) : N :=
  if two63 <=? m then d_size d - 1
  else if m <? d_from d then 0
  else if d_to d <? m then d_size d - 1
  else (m - d_from d) / d_bucket d + 1.
(* before 6d376ea: MID.Time() = time.UnixMilli(int64(mid)), so a MID >= 2^63 was a time before 1970: index 0 *)
Definition d_idx_v0 (d : dist) (m : N) : N :=
  if (two63 <=? m) || (m <? d_from d) then 0
  else if d_to d <? m then d_size d - 1
  else (m - d_from d) / d_bucket d + 1.

Definition byte_at (bin : list N) (i : N) : N := nth (N.to_nat i) bin 0.
Fixpoint any_byte (bin : list N) (i : N) (cnt : nat) : bool :=
  match cnt with O => false | S k => (0 <? byte_at bin i) || any_byte bin (i + 1) k end.
Definition has_bits_in (bin : list N) (left right : N) : bool :=
  let li := left / 8 in let ri := right / 8 in
  let lmask := N.land (N.shiftl 255 (left mod 8)) 255 in
  let rmask := N.shiftr 255 (8 - (right mod 8 + 1)) in
  if li =? ri then 0 <? N.land (N.land (byte_at bin li) lmask) rmask
  else if 0 <? N.land (byte_at bin li) lmask then true
  else if 0 <? N.land (byte_at bin ri) rmask then true
  else any_byte bin (li + 1) (N.to_nat (ri - (li + 1))).

Record frac := mkFrac { f_name : N;              (* >= 1 *)
                        f_sealed : bool;
                        f_from : N; f_to : N;
                        f_dist : option dist;
                        f_docs : list (id * body);   (* in the order they lie in the docs file *)
                        f_split : list nat }.        (* documents per doc block (the rest forms the last block) *)

Definition intersecting_gen (idx : dist -> N -> N) (f : frac) (lo hi : N) : bool :=
  match f_docs f with
  | [] => false                                              (* DocsTotal == 0 *)
  | _ => if (hi <? f_from f) || (f_to f <? lo) then false
         else match f_dist f with
              | None => true
              | Some d => if d_bucket d =? 0 then true
                          else has_bits_in (d_bin d) (idx d lo) (idx d hi)
              end
  end.
Definition intersecting : frac -> N -> N -> bool := intersecting_gen d_idx.
Definition intersecting_v0 : frac -> N -> N -> bool := intersecting_gen d_idx_v0.
Definition contains (f : frac) (m : N) : bool := intersecting f m m.

(* ------------------------------------------------------------------ sorting (sort.Sort on IDs) *)
Module SrcOrder <: TotalLeBool.
  Definition t := idsrc.
  Definition leb (a b : t) := id_leq (fst a) (fst b).
  Lemma leb_total : forall a b, leb a b = true \/ leb b a = true.
  Proof.
    intros [[m1 r1] h1] [[m2 r2] h2]; unfold leb, id_leq; simpl.
    destruct (m1 =? m2) eqn:E.
    - apply N.eqb_eq in E; subst. rewrite N.eqb_refl.
      destruct (r1 <=? r2) eqn:L; [now left|right].
      apply N.leb_gt in L. apply N.leb_le. apply N.lt_le_incl. exact L.
    - rewrite N.eqb_sym, E. destruct (m1 <? m2) eqn:L; [now left|right].
      apply N.ltb_ge in L. apply N.ltb_lt. apply N.eqb_neq in E.
      apply N.le_neq. split; [exact L|]. intro H; apply E; symmetry; exact H.
  Qed.
End SrcOrder.
Module SrcSort := Sort SrcOrder.

(* table entries of a sealed fraction: descending by ID *)
Module EntOrder <: TotalLeBool.
  Definition t := (id * body)%type.
  Definition leb (a b : t) := id_leq (fst b) (fst a).
  Lemma leb_total : forall a b, leb a b = true \/ leb b a = true.
  Proof.
    intros a b. destruct (SrcOrder.leb_total (fst b, 0) (fst a, 0)) as [H|H]; [left|right]; exact H.
  Qed.
End EntOrder.
Module EntSort := Sort EntOrder.

(* ------------------------------------------------------------------ seq/doc_pos.go *)
Definition max_doc_offset : N := 1073741823.                  (* 1<<30 - 1 *)
Definition two32 : N := 4294967296.
Definition pos_not_found : N := max64.                        (* DocPosNotFound *)
Definition raw_pos (b off : N) : N := N.lor (N.shiftl b 30) off + 1.
(* PackDocPos(blockIndex uint32, offset): logger.Panic when the offset needs more than 30 bits *)
Definition pack_pos (b off : N) : res N := if max_doc_offset <? off then Panic else Ok (raw_pos b off).
(* DocPos.Unpack: pos-- wraps for 0 *)
Definition unpack_pos (p : N) : N * N :=
  let q := if p =? 0 then max64 else p - 1 in
  (N.shiftr q 30 mod two32, N.land q max_doc_offset).

(* seq.GroupDocsOffsets: per distinct block (first-occurrence order) the in-block offsets and the request
   positions; the uniq map is a search in the list of groups, the per-group slices are kept reversed *)
Definition pgroup := (N * list N * list N)%type.                (* block, offsets (rev), request indices (rev) *)
Fixpoint add_to_group (blk off i : N) (gs : list pgroup) : list pgroup :=
  match gs with
  | [] => [(blk, [off], [i])]
  | (b, os, is) :: r => if b =? blk then (b, off :: os, i :: is) :: r
                        else (b, os, is) :: add_to_group blk off i r
  end.
Fixpoint group_from (ps : list N) (i : N) (gs : list pgroup) : list pgroup :=
  match ps with
  | [] => gs
  | p :: r => if p =? pos_not_found then group_from r (i + 1) gs
              else let '(blk, off) := unpack_pos p in group_from r (i + 1) (add_to_group blk off i gs)
  end.
(* (blocks, offsets, index) as three parallel lists *)
Definition group_offsets (ps : list N) : list (N * list N * list N) :=
  map (fun g : pgroup => let '(b, os, is) := g in (b, rev os, rev is)) (group_from ps 0 []).

(* processor.IndexFetch over a fetch index: block offsets table, ReadDocs; D = what a document is
   (bytes in the unit-level cases, a descriptor in the end-to-end model). Any panic / read error = Panic. *)
Section IndexFetch.
  Context {D : Type}.
  Fixpoint put_res (idx : list N) (docs : list D) (a : PositiveMap.t D) : res (PositiveMap.t D) :=
    match idx, docs with
    | [], _ => Ok a                                              (* range over index[i] *)
    | i :: ri, d :: rd => put_res ri rd (PositiveMap.add (ikey i) d a)
    | _ :: _, [] => Panic                                        (* docs[src] out of range *)
    end.
  Fixpoint fetch_groups (boffs : list N) (read : N -> list N -> res (list D))
           (gs : list (N * list N * list N)) (a : PositiveMap.t D) : res (PositiveMap.t D) :=
    match gs with
    | [] => Ok a
    | (blk, offs, idx) :: r =>
        match nth_error boffs (N.to_nat blk) with
        | None => Panic                                          (* GetBlocksOffsets(num): index out of range *)
        | Some bo =>
            match read bo offs with
            | Ok docs => match put_res idx docs a with
                         | Ok a' => fetch_groups boffs read r a'
                         | Panic => Panic | Fuel => Fuel end
            | Panic => Panic | Fuel => Fuel
            end
        end
    end.
  Fixpoint read_arr (a : PositiveMap.t D) (i : N) (n : nat) : list (option D) :=
    match n with O => [] | S k => PositiveMap.find (ikey i) a :: read_arr a (i + 1) k end.
  Definition index_fetch (boffs : list N) (read : N -> list N -> res (list D)) (ps : list N)
    : res (list (option D)) :=
    match fetch_groups boffs read (group_offsets ps) (PositiveMap.empty D) with
    | Ok a => Ok (read_arr a 0 (length ps))
    | Panic => Panic | Fuel => Fuel
    end.
End IndexFetch.

Fixpoint map_res {A B} (f : A -> res B) (l : list A) : res (list B) :=
  match l with
  | [] => Ok []
  | x :: r => match f x with
              | Ok y => match map_res f r with Ok t => Ok (y :: t) | Panic => Panic | Fuel => Fuel end
              | Panic => Panic | Fuel => Fuel
              end
  end.
Fixpoint assoc {A} (k : N) (l : list (N * A)) : option A :=
  match l with [] => None | (k', v) :: r => if k' =? k then Some v else assoc k r end.

(* ---- disk/docs_reader.go on bytes: a decoded block is the concatenation of (4-byte little-endian length,
   document); extractDocsFromBlockFunc slices it by in-block offsets *)
Definition le32 (n : N) : list N := [n mod 256; n / 256 mod 256; n / 65536 mod 256; n / 16777216 mod 256].
Definition encode_block (docs : list (list N)) : list N :=
  flat_map (fun d => le32 (N.of_nat (length d)) ++ d) docs.
Definition extract_doc (blk : list N) (o : N) : res (list N) :=
  match skipn (N.to_nat o) blk with
  | b0 :: b1 :: b2 :: b3 :: rest =>
      let size := b0 + 256 * b1 + 65536 * b2 + 16777216 * b3 in
      if size <=? N.of_nat (length rest) then Ok (firstn (N.to_nat size) rest) else Panic
  | _ => Panic                                                   (* fewer than 4 bytes at the offset *)
  end.
Definition read_bytes (file : list (N * list N)) (bo : N) (offs : list N) : res (list (list N)) :=
  match assoc bo file with
  | Some blk => map_res (extract_doc blk) offs
  | None => Panic                                                (* no block at that file offset: read error *)
  end.

(* ---- the same on document descriptors (end-to-end model): a block is the list of its documents, the
   document at in-block offset o is the one whose 4-byte length prefix starts at o *)
Fixpoint cells_from (o : N) (blk : list (id * body)) : list (N * body) :=
  match blk with [] => [] | (_, d) :: r => (o, d) :: cells_from (o + 4 + snd d) r end.
Definition read_abs (file : list (N * list (N * body))) (bo : N) (offs : list N) : res (list body) :=
  match assoc bo file with
  | Some cs => map_res (fun o => match assoc o cs with Some d => Ok d | None => Panic end) offs
  | None => Panic
  end.

(* the physical layout of a fraction's docs file *)
Fixpoint split_blocks {A} (sp : list nat) (l : list A) : list (list A) :=
  match sp with
  | [] => match l with [] => [] | _ => [l] end
  | n :: r => firstn n l :: split_blocks r (skipn n l)
  end.
Fixpoint block_size (blk : list (id * body)) : N :=
  match blk with [] => 0 | (_, d) :: r => 4 + snd d + block_size r end.
(* file offset of every block (any strictly increasing numbers would do) *)
Fixpoint block_offsets (bo : N) (blks : list (list (id * body))) : list N :=
  match blks with [] => [] | b :: r => bo :: block_offsets (bo + 33 + block_size b) r end.
(* position of every document: block index, in-block offset *)
Fixpoint block_positions (b o : N) (blk : list (id * body)) : list (id * N) :=
  match blk with [] => [] | (x, d) :: r => (x, raw_pos b o) :: block_positions b (o + 4 + snd d) r end.
Fixpoint layout_positions (b : N) (blks : list (list (id * body))) : list (id * N) :=
  match blks with [] => [] | blk :: r => block_positions b 0 blk ++ layout_positions (b + 1) r end.

(* ------------------------------------------------------------------ compiled fraction *)
Definition sentinel : id * body := ((max64, max64), (0, 0)).   (* systemSeqID at LID 0 *)

Fixpoint build_tbl (l : list (id * body)) (i : N) (t : PositiveMap.t (id * body)) : PositiveMap.t (id * body) :=
  match l with [] => t | e :: r => build_tbl r (i + 1) (PositiveMap.add (ikey i) e t) end.

(* DocsPositions.SetMultiple keeps the first position stored under an ID *)
Fixpoint build_act (l : list (id * body)) : PositiveMap.t body :=
  match l with [] => PositiveMap.empty _ | (x, b) :: r => PositiveMap.add (key x) b (build_act r) end.

(* DocsPositions: ID -> DocPos, the first position stored under an ID is kept *)
Fixpoint build_apos (l : list (id * N)) : PositiveMap.t N :=
  match l with [] => PositiveMap.empty _ | (x, p) :: r => PositiveMap.add (key x) p (build_apos r) end.
Fixpoint build_ptab (l : list N) (i : N) (t : PositiveMap.t N) : PositiveMap.t N :=
  match l with [] => t | e :: r => build_ptab r (i + 1) (PositiveMap.add (ikey i) e t) end.

(* what lies on disk / in the position structures *)
Record phys := mkP { p_apos : PositiveMap.t N;                  (* active: DocsPositions *)
                     p_ptab : PositiveMap.t N;                  (* sealed: LID -> DocPos (position blocks) *)
                     p_boffs : list N;                          (* blocksOffsets *)
                     p_file : list (N * list (N * body)) }.     (* file offset -> decoded block *)

Record cfrac := mkC { cf : frac;
                      cf_n : N;                                  (* IDsTotal (with the sentinel) *)
                      cf_tbl : PositiveMap.t (id * body);        (* LID -> (ID, document): MID/RID blocks *)
                      cf_act : PositiveMap.t body;               (* specification side only: ID -> document *)
                      cf_phys : phys;
                      cf_fault : bool }.    (* fault injection: every Fetch of this fraction panics (false in compile) *)

Definition table_of (f : frac) : list (id * body) := sentinel :: EntSort.sort (f_docs f).
Definition blocks_of (f : frac) : list (list (id * body)) := split_blocks (f_split f) (f_docs f).
Definition apos_of (f : frac) : PositiveMap.t N := build_apos (layout_positions 0 (blocks_of f)).
(* fillPos: positions.Get(id) for every ID of the table (the sentinel has none: DocPosNotFound) *)
Definition pos_lookup (ap : PositiveMap.t N) (e : id * body) : N :=
  match PositiveMap.find (key (fst e)) ap with Some p => p | None => pos_not_found end.
Definition ptab_of (f : frac) : list N := map (pos_lookup (apos_of f)) (table_of f).

Definition phys_of (f : frac) : phys :=
  let blks := blocks_of f in
  let boffs := block_offsets 0 blks in
  mkP (apos_of f)
      (if f_sealed f then build_ptab (ptab_of f) 0 (PositiveMap.empty _) else PositiveMap.empty _)
      boffs (combine boffs (map (cells_from 0) blks)).

Definition compile (f : frac) : cfrac :=
  if f_sealed f
  then let l := table_of f in
       mkC f (N.of_nat (length l)) (build_tbl l 0 (PositiveMap.empty _)) (PositiveMap.empty _) (phys_of f) false
  else mkC f 0 (PositiveMap.empty _) (build_act (f_docs f)) (phys_of f) false.

Definition tbl_get (c : cfrac) (lid : N) : option (id * body) := PositiveMap.find (ikey lid) (cf_tbl c).
Definition tbl_id (c : cfrac) (lid : N) : res id :=
  match tbl_get c lid with Some e => Ok (fst e) | None => Panic end.

(* MinBlockIDs[b] = the last ID of block b (blocks of ipb IDs); index out of range = panic *)
Definition block_min (g : cfg) (c : cfrac) (b : N) : res id :=
  if b * ipb g <? cf_n c then tbl_id c (N.min ((b + 1) * ipb g) (cf_n c) - 1) else Panic.

(* sealedIDsIndex.LessOrEqual(lid, x):  table[lid] <= x *)
Definition less_or_equal (g : cfg) (c : cfrac) (lid : N) (x : id) : res bool :=
  if cf_n c <=? lid then Ok true
  else
    let b := lid / ipb g in
    match block_min g c b with
    | Ok mn =>
        if negb (id_leq mn x) then Ok false
        else
          match (if 0 <? b then match block_min g c (b - 1) with
                                | Ok p => Ok (id_leq p x) | Panic => Panic | Fuel => Fuel end
                 else Ok false) with
          | Ok true => Ok true
          | Ok false =>
              match tbl_id c lid with
              | Ok e => Ok (if fst e =? fst x
                            then (if snd x =? max64 then true else snd e <=? snd x)
                            else fst e <? fst x)
              | Panic => Panic | Fuel => Fuel
              end
          | Panic => Panic | Fuel => Fuel
          end
    | Panic => Panic | Fuel => Fuel
    end.

(* sort.Search on [i, j) *)
Fixpoint bsearch (fuel : nat) (f : N -> res bool) (i j : N) : res N :=
  if j <=? i then Ok i
  else match fuel with
       | O => Fuel
       | S k => let h := (i + j) / 2 in
                match f h with
                | Ok false => bsearch k f (h + 1) j
                | Ok true => bsearch k f i h
                | Panic => Panic | Fuel => Fuel
                end
       end.
(* util.BinSearchInRange(from, to, fn) *)
Definition bin_search (from to : N) (f : N -> res bool) : res N :=
  let n := to + 1 - from in
  match bsearch (S (N.size_nat n)) (fun i => f (from + i)) 0 n with
  | Ok i => Ok (from + i) | Panic => Panic | Fuel => Fuel
  end.

(* sealedFetchIndex.findLIDs; guard = the bound check added by 2f1e999 *)
Fixpoint find_lids_gen (guard : bool) (g : cfg) (c : cfrac) (prev : option id) (left : N) (ids : list id)
  : res (list N) :=
  match ids with
  | [] => Ok []
  | x :: r =>
      let left := match prev with Some p => if id_less x p then left else 1 | None => 1 end in
      let right := cf_n c - 1 in
      match bin_search left right (fun l => less_or_equal g c l x) with
      | Ok lid =>
          match (if guard && negb (lid <=? right) then Ok false
                 else match tbl_id c lid with Ok e => Ok (id_eqb e x) | Panic => Panic | Fuel => Fuel end) with
          | Ok hit =>
              match find_lids_gen guard g c (Some x) lid r with
              | Ok t => Ok ((if hit then lid else 0) :: t)
              | Panic => Panic | Fuel => Fuel
              end
          | Panic => Panic | Fuel => Fuel
          end
      | Panic => Panic | Fuel => Fuel
      end
  end.

(* specification side only (used in proofs): LID 0 = not found, else the entry's document *)
Fixpoint docs_of_lids (c : cfrac) (lids : list N) : res (list (option body)) :=
  match lids with
  | [] => Ok []
  | l :: r =>
      match docs_of_lids c r with
      | Ok t => if l =? 0 then Ok (None :: t)
                else match tbl_get c l with Some e => Ok (Some (snd e) :: t) | None => Panic end
      | Panic => Panic | Fuel => Fuel
      end
  end.

(* sealedFetchIndex.getDocPosByLIDs: position blocks of ipb LIDs, the last used block is kept
   (prev = its index and start LID); an empty or missing block and an index beyond the block = panic *)
Fixpoint pos_by_lids (g : cfg) (ptab : PositiveMap.t N) (n : N) (prev : option (N * N)) (lids : list N)
  : res (list N) :=
  match lids with
  | [] => Ok []
  | l :: r =>
      if l =? 0
      then match pos_by_lids g ptab n prev r with
           | Ok t => Ok (pos_not_found :: t) | Panic => Panic | Fuel => Fuel end
      else
        let index := l / ipb g in
        let '(bi, start) := match prev with
                            | Some (pi, ps) => if pi =? index then (pi, ps) else (index, index * ipb g)
                            | None => (index, index * ipb g)
                            end in
        let blen := N.min ((bi + 1) * ipb g) n - bi * ipb g in       (* len(positions) of block bi *)
        if (blen =? 0) || negb (l - start <? blen) then Panic
        else match PositiveMap.find (ikey (bi * ipb g + (l - start))) ptab with
             | Some p => match pos_by_lids g ptab n (Some (bi, start)) r with
                         | Ok t => Ok (p :: t) | Panic => Panic | Fuel => Fuel end
             | None => Panic
             end
  end.

(* activeFetchIndex.GetDocPos (as repaired by 5d51c58): positions are looked up live, the block offsets are a
   snapshot of k blocks: a position in a block >= k is not found (yet) *)
Definition active_pos (k : N) (apos : PositiveMap.t N) (x : id) : N :=
  match PositiveMap.find (key x) apos with
  | None => pos_not_found
  | Some p => if p =? pos_not_found then pos_not_found
              else if k <=? fst (unpack_pos p) then pos_not_found else p
  end.
(* before 5d51c58: no guard (the block index then ran past the snapshot: panic in GetBlocksOffsets) *)
Definition active_pos_v0 (k : N) (apos : PositiveMap.t N) (x : id) : N :=
  match PositiveMap.find (key x) apos with None => pos_not_found | Some p => p end.

(* DataProvider.Fetch of one fraction: GetDocPos, then processor.IndexFetch *)
Definition frac_fetch_gen (guard : bool) (g : cfg) (c : cfrac) (ids : list id) : res (list (option body)) :=
  let ph := cf_phys c in
  if cf_fault c then Panic else
  if f_sealed (cf c)
  then match find_lids_gen guard g c None 1 ids with
       | Ok lids =>
           match pos_by_lids g (p_ptab ph) (cf_n c) None lids with
           | Ok ps => index_fetch (p_boffs ph) (read_abs (p_file ph)) ps
           | Panic => Panic | Fuel => Fuel
           end
       | Panic => Panic | Fuel => Fuel
       end
  else index_fetch (p_boffs ph) (read_abs (p_file ph))
                   (map (active_pos (N.of_nat (length (p_boffs ph))) (p_apos ph)) ids).

(* ------------------------------------------------------------------ fracmanager.Fetcher *)
Definition sort_ids (ids : list idsrc) : list idsrc * N * N :=
  let a := hd ((0, 0), 0) ids in
  let z := last ids ((0, 0), 0) in
  if id_less (fst a) (fst z)
  then let s := SrcSort.sort ids in
       (s, fst (fst (hd ((0, 0), 0) s)), fst (fst (last s ((0, 0), 0))))
  else let s := rev (SrcSort.sort ids) in
       (s, fst (fst (last s ((0, 0), 0))), fst (fst (hd ((0, 0), 0) s))).

Definition sel (f : frac) (s : idsrc) : bool :=
  if snd s =? 0 then contains f (fst (fst s))
  else (snd s =? f_name f) && contains f (fst (fst s)).
Definition keep (f : frac) (s : idsrc) : bool := (snd s =? 0) || negb (snd s =? f_name f).

Fixpoint group (fs : list cfrac) (ids : list idsrc) : list (cfrac * list id) :=
  match fs with
  | [] => []
  | f :: r =>
      let buf := map fst (filter (sel (cf f)) ids) in
      let ids' := filter (keep (cf f)) ids in
      match buf with [] => group r ids' | _ => (f, buf) :: group r ids' end
  end.

(* fetchDocsAsync: a panic inside a fraction's fetch is recovered into an error of the whole batch *)
Fixpoint fetch_all (guard : bool) (g : cfg) (gs : list (cfrac * list id))
  : res (list (list id * list (option body))) :=
  match gs with
  | [] => Ok []
  | (c, ids) :: r =>
      match frac_fetch_gen guard g c ids with
      | Ok d => match fetch_all guard g r with Ok t => Ok ((ids, d) :: t) | Panic => Panic | Fuel => Fuel end
      | Panic => Panic | Fuel => Fuel
      end
  end.

Fixpoint revers_pos (ids : list idsrc) (i : N) (m : PositiveMap.t N) : PositiveMap.t N :=
  match ids with [] => m | s :: r => revers_pos r (i + 1) (PositiveMap.add (key (fst s)) i m) end.
Definition rp_get (m : PositiveMap.t N) (x : id) : N :=
  match PositiveMap.find (key x) m with Some i => i | None => 0 end.

Fixpoint put_docs (rp : PositiveMap.t N) (ids : list id) (docs : list (option body))
         (a : PositiveMap.t body) : PositiveMap.t body :=
  match ids, docs with
  | x :: ri, Some d :: rd => put_docs rp ri rd (PositiveMap.add (ikey (rp_get rp x)) d a)
  | _ :: ri, None :: rd => put_docs rp ri rd a
  | _, _ => a
  end.
Fixpoint arrange (rp : PositiveMap.t N) (dbf : list (list id * list (option body)))
         (a : PositiveMap.t body) : PositiveMap.t body :=
  match dbf with [] => a | (ids, docs) :: r => arrange rp r (put_docs rp ids docs a) end.
Fixpoint readout (a : PositiveMap.t body) (i : N) (n : nat) : list (option body) :=
  match n with O => [] | S k => PositiveMap.find (ikey i) a :: readout a (i + 1) k end.

Inductive fres := FOk (docs : list (option body)) | FErr | FCrash | FFuel.

Definition fetch_docs_gen (guard : bool) (g : cfg) (fs : list cfrac) (ids : list idsrc) : fres :=
  match ids with
  | [] => FCrash                       (* sortIDs indexes ids[0]: panic outside any recover *)
  | _ =>
      let rp := revers_pos ids 0 (PositiveMap.empty _) in
      let '(s, lo, hi) := sort_ids ids in
      let cand := filter (fun c => intersecting (cf c) lo hi) fs in
      match fetch_all guard g (group cand s) with
      | Ok dbf => FOk (readout (arrange rp dbf (PositiveMap.empty _)) 0 (length ids))
      | Panic => FErr
      | Fuel => FFuel
      end
  end.

(* ------------------------------------------------------------------ storeapi docsStream *)
Definition sum_len (docs : list (option body)) : N := fold_right (fun d a => blen d + a) 0 docs.

Definition calc_chunk (g : cfg) (docs : list (option body)) (prev : N) : N :=
  let bs := sum_len docs in
  if bs =? 0 then prev
  else let avg := N.max 1 (bs / N.of_nat (length docs)) in
       N.max 1 (max_fetch g / avg).

(* before b3c921d: None = integer divide by zero *)
Definition calc_chunk_v0 (g : cfg) (docs : list (option body)) (prev : N) : option N :=
  let bs := sum_len docs in
  if bs =? 0 then Some prev
  else let avg := bs / N.of_nat (length docs) in
       if avg =? 0 then None else Some (max_fetch g / avg).

Inductive bres :=
| BDone (batches : list (list (option body)))     (* loader finished, channel closed *)
| BFail (batches : list (list (option body)))     (* these batches, then a batch carrying an error *)
| BCrash                                          (* panic in the loader goroutine: process death *)
| BFuel.

Definition bcons (d : list (option body)) (r : bres) : bres :=
  match r with BDone l => BDone (d :: l) | BFail l => BFail (d :: l) | x => x end.

Fixpoint batch_loop (fuel : nat) (calc : list (option body) -> N -> option N)
         (fetch : list idsrc -> fres) (ids : list idsrc) (chunk : N) : bres :=
  match ids with
  | [] => BDone []
  | _ =>
      match fuel with
      | O => BFuel
      | S k =>
          let l := N.to_nat (N.min (N.of_nat (length ids)) chunk) in
          match fetch (firstn l ids) with
          | FOk docs =>
              match calc docs chunk with
              | Some chunk' => bcons docs (batch_loop k calc fetch (skipn l ids) chunk')
              | None => BCrash               (* divide by zero in the loader goroutine: process death *)
              end
          | FErr => BFail []
          | FCrash => BCrash
          | FFuel => BFuel
          end
      end
  end.

Definition batches_gen (guard : bool) (v0 : bool) (g : cfg) (fs : list cfrac) (ids : list idsrc) : bres :=
  batch_loop (S (length ids))
             (fun d p => if v0 then calc_chunk_v0 g d p else Some (calc_chunk g d p))
             (fetch_docs_gen guard g fs) ids (init_chunk g).

(* doFetch: one block per requested ID, in request order, Ext1/Ext2 = the ID *)
Inductive sres :=
| SOk (sent : list (id * option body))
| SErr (sent : list (id * option body))
| SCrash
| SFuel.

Fixpoint zip_ids (ids : list idsrc) (docs : list (option body)) : list (id * option body) :=
  match ids, docs with
  | s :: ri, d :: rd => (fst s, d) :: zip_ids ri rd
  | _, _ => []
  end.

Definition stream_of (ids : list idsrc) (b : bres) : sres :=
  match b with
  | BDone l => SOk (zip_ids ids (concat l))
  | BFail l => SErr (zip_ids ids (concat l))
  | BCrash => SCrash
  | BFuel => SFuel
  end.

Definition stream_gen (guard v0 : bool) (g : cfg) (fs : list frac) (ids : list idsrc) : sres :=
  stream_of ids (batches_gen guard v0 g (map compile fs) ids).

(* fault injection (correspondence cases only): a fraction whose Fetch panics on entry (the harness arms the
   schedule point "fetch.start" of activeDataProvider.Fetch), a fraction whose docs file cannot be read *)
Definition poison (c : cfrac) : cfrac :=
  mkC (cf c) (cf_n c) (cf_tbl c) (cf_act c) (cf_phys c) true.
Definition damage (c : cfrac) : cfrac :=
  let ph := cf_phys c in
  mkC (cf c) (cf_n c) (cf_tbl c) (cf_act c) (mkP (p_apos ph) (p_ptab ph) (p_boffs ph) []) (cf_fault c).
Definition compile_faulty (panic_active : bool) (damaged : list N) (f : frac) : cfrac :=
  let c := compile f in
  let c := if panic_active && negb (f_sealed f) then poison c else c in
  if existsb (N.eqb (f_name f)) damaged then damage c else c.

(* the code as it is *)
Definition find_lids := find_lids_gen true.
Definition frac_fetch := frac_fetch_gen true.
Definition fetch_docs := fetch_docs_gen true.
Definition batches := batches_gen true false.
Definition stream := stream_gen true false.
(* the code before the repairs *)
Definition find_lids_v0 := find_lids_gen false.
Definition stream_v0_lid := stream_gen false false.     (* without 2f1e999 *)
Definition stream_v0_div := stream_gen true true.       (* without b3c921d *)

Definition batch_lens (b : bres) : list N :=
  match b with BDone l | BFail l => map (fun d => N.of_nat (length d)) l | _ => [] end.
