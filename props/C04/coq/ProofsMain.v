(* C04 — assembling: the streamed result of a fetch request. *)
From Coq Require Import Lia ZifyN ZifyNat.
From C04 Require Import Model ProofsBase ProofsChunk ProofsSealed ProofsFetch ProofsPos ProofsPhys.
Open Scope N_scope.

(* a request: distinct 64-bit IDs, timestamps at most B *)
Definition req_ok (B : N) (ids : list idsrc) : Prop :=
  NoDup (map fst ids) /\ Forall (fun s => id_u64 (fst s)) ids /\ Forall (fun s => fst (fst s) <= B) ids.

Lemma NoDup_app_l : forall (A : Type) (a b : list A), NoDup (a ++ b) -> NoDup a.
Proof.
  induction a as [|x a IH]; intros b H; [constructor|]. simpl in H. inversion H; subst.
  constructor; [|eapply IH; eauto]. intros Hi. apply H2. apply in_or_app. left; exact Hi.
Qed.
Lemma NoDup_app_r : forall (A : Type) (a b : list A), NoDup (a ++ b) -> NoDup b.
Proof. induction a as [|x a IH]; intros b H; [exact H|]. simpl in H. inversion H; subst. apply IH; exact H3. Qed.

Lemma req_ok_split : forall B l n, req_ok B l -> req_ok B (firstn n l) /\ req_ok B (skipn n l).
Proof.
  intros B l n [H1 [H2 H4]]. rewrite <- (firstn_skipn n l) in H1, H2, H4.
  rewrite map_app in H1. apply Forall_app in H2. destruct H2 as [H2 H3].
  apply Forall_app in H4. destruct H4 as [H4 H5].
  split; (split; [|split]); auto.
  - eapply NoDup_app_l; eauto.
  - eapply NoDup_app_r; eauto.
Qed.

Lemma zip_ids_map : forall (ans : idsrc -> option body) ids,
  zip_ids ids (map ans ids) = map (fun s => (fst s, ans s)) ids.
Proof. induction ids as [|s r IH]; [reflexivity|]. simpl. rewrite IH. reflexivity. Qed.

Lemma info_sound_nodist : forall B f,
  f_dist f = None -> (forall x b, lookup f x = Some b -> f_from f <= fst x /\ fst x <= f_to f) -> info_sound B f.
Proof.
  intros B f Hd Hr x b lo hi Hl Hlo Hhi _. unfold intersecting, intersecting_gen.
  destruct (f_docs f) eqn:E; [unfold lookup, lookup_docs in Hl; rewrite E in Hl; discriminate|].
  destruct (Hr x b Hl) as [H1 H2]. rewrite Hd.
  assert ((hi <? f_from f) = false) by (apply N.ltb_ge; lia).
  assert ((f_to f <? lo) = false) by (apply N.ltb_ge; lia).
  rewrite H, H0. reflexivity.
Qed.

Lemma frac_fetch_ok : forall B g f ids, 1 <= ipb g -> frac_wf B f -> Forall id_u64 ids ->
  frac_fetch g (compile f) ids = Ok (map (lookup f) ids).
Proof.
  intros B g f ids Hg [Hw [_ [_ Hl]]] Hu. destruct (f_sealed f) eqn:E.
  - apply sealed_fetch_ok; auto.
  - apply active_fetch_ok; auto.
Qed.

Lemma batches_exact : forall B g frs ids, cfg_ok g -> corpus_wf B frs -> req_ok B ids ->
  exists l, batches g (map compile frs) ids = BDone l /\ concat l = map (expected frs) ids
            /\ Forall (fun b => b <> []) l.
Proof.
  intros B g frs ids [Hg1 Hg2] Hc Hr. unfold batches, batches_gen.
  change (fun d p => if false then calc_chunk_v0 g d p else Some (calc_chunk g d p)) with (calc_now g).
  apply (batch_loop_done (req_ok B)); auto.
  - intros l n H. apply req_ok_split; exact H.
  - intros ch Hne [Hn [Hu HB]]. apply (fetch_docs_ok g frs B); auto.
    intros f ids' Hf Hd Hu'. apply (frac_fetch_ok B); auto.
    destruct Hc as [Hfw _]. rewrite Forall_forall in Hfw. apply Hfw; exact Hf.
Qed.

Lemma stream_exact : forall B g frs ids, cfg_ok g -> corpus_wf B frs -> req_ok B ids ->
  stream g frs ids = SOk (map (fun s => (fst s, expected frs s)) ids).
Proof.
  intros B g frs ids Hg Hc Hr. unfold stream, stream_gen. fold (batches g (map compile frs) ids).
  destruct (batches_exact B g frs ids Hg Hc Hr) as [l [H1 [H2 _]]].
  rewrite H1. simpl. rewrite H2, zip_ids_map. reflexivity.
Qed.

(* batch lengths: every batch holds at least one document and together they cover the request *)
Lemma batch_lens_ok : forall B g frs ids, cfg_ok g -> corpus_wf B frs -> req_ok B ids ->
  Forall (fun k => 1 <= k) (batch_lens (batches g (map compile frs) ids)) /\
  fold_right N.add 0 (batch_lens (batches g (map compile frs) ids)) = N.of_nat (length ids).
Proof.
  intros B g frs ids Hg Hc Hr.
  destruct (batches_exact B g frs ids Hg Hc Hr) as [l [H1 [H2 H3]]]. rewrite H1. simpl.
  assert (Hlen : length (concat l) = length ids) by (rewrite H2; apply map_length).
  clear H1 H2. revert ids Hr Hlen. induction H3 as [|b l Hb Hl IH]; intros ids Hr Hlen.
  - simpl in *. split; [constructor|]. lia.
  - simpl in *. rewrite app_length in Hlen.
    destruct (IH (skipn (length b) ids)) as [I1 I2].
    + apply req_ok_split; exact Hr.
    + rewrite skipn_length. lia.
    + split.
      * constructor; [|exact I1]. destruct b; [congruence|simpl; lia].
      * rewrite I2, skipn_length. lia.
Qed.

(* docsStream keeps ONE list of fractions for the whole request: every chunk is fetched from the same,
   unmodified list (the model has no way to alter it between chunks; FetchDocs must not either) *)
Lemma batches_same_fracs : forall g fs ids,
  batches g fs ids = batch_loop (S (length ids)) (calc_now g) (fetch_docs g fs) ids (init_chunk g).
Proof. reflexivity. Qed.
