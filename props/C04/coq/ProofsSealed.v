(* C04 — the sealed fraction lookup: table access, the descending table, LessOrEqual with its shortcuts,
   BinSearchInRange, findLIDs (moving left bound + bound check) and the fetch of one sealed fraction.

   Main results (all for f_sealed f = true, docs_wf (f_docs f), 1 <= ipb g):
     tbl_get_compile, cf_n_compile      the compiled table is table_of f = sentinel :: sorted documents
     table_desc, table_in, table_rid    it is strictly descending by ID; LIDs >= 1 hold exactly the documents
     less_or_equal_spec / _beyond       LessOrEqual(lid, x) = (table[lid] <= x) for EVERY lid < IDsTotal
                                        (lid = 0 included: the hypothesis 1 <= lid was not needed and is dropped)
     bsearch_spec, bin_search_spec      sort.Search / BinSearchInRange: first index of a monotone predicate,
                                        the fuel S (size n) is never exhausted, empty range allowed
     sealed_find_lids_ok, sealed_fetch_ok
                                        frac_fetch g (compile f) ids = Ok (map (lookup f) ids) for ARBITRARY ids
                                        (any order, duplicates, no bound on the requested IDs).
                                        No extra hypothesis: neither f_docs f <> [] nor Forall id_u64 ids is needed.
     find_lids_v0_refuted               without the bound check the same search panics on a concrete fraction.
   The generic part is proved in a Section over an abstract compiled fraction c characterised by its table
   accessor tbl_get c (hypotheses Hin/Hout/Hdesc/Hrid/Hn1) and instantiated on compile f afterwards. *)
From Coq Require Import Lia ZifyN ZifyNat Sorting Permutation.
From C04 Require Import Model ProofsBase.
Open Scope N_scope.

(* ------------------------------------------------------------------ 1. table access *)
Lemma ikey_inj : forall i j, ikey i = ikey j -> i = j.
Proof.
  unfold ikey; intros i j H. apply N.succ_inj. rewrite <- !N.succ_pos_spec. rewrite H. reflexivity.
Qed.

Lemma build_tbl_find : forall l i t k,
  PositiveMap.find (ikey k) (build_tbl l i t) =
  if (i <=? k) && (k <? i + N.of_nat (length l)) then nth_error l (N.to_nat (k - i))
  else PositiveMap.find (ikey k) t.
Proof.
  induction l as [|e r IH]; intros i t k.
  - simpl. replace ((i <=? k) && (k <? i + 0)) with false; [reflexivity|].
    symmetry. apply andb_false_iff. destruct (i <=? k) eqn:E; [right|left; reflexivity].
    apply N.leb_le in E. apply N.ltb_ge. lia.
  - cbn [build_tbl]. rewrite IH.
    assert (HL : N.of_nat (length (e :: r)) = N.of_nat (length r) + 1) by (cbn [length]; lia).
    rewrite HL. clear HL.
    replace (i + 1 + N.of_nat (length r)) with (i + (N.of_nat (length r) + 1)) by lia.
    destruct (i + 1 <=? k) eqn:E1.
    + apply N.leb_le in E1. assert (E2 : (i <=? k) = true) by (apply N.leb_le; lia). rewrite E2. cbn [andb].
      destruct (k <? i + (N.of_nat (length r) + 1)).
      * replace (N.to_nat (k - i)) with (S (N.to_nat (k - (i + 1)))) by lia. reflexivity.
      * rewrite PositiveMap.gso; [reflexivity|]. intros H. apply ikey_inj in H. lia.
    + apply N.leb_gt in E1. cbn [andb].
      destruct (i <=? k) eqn:E2.
      * apply N.leb_le in E2. assert (k = i) by lia. subst k.
        assert (E3 : (i <? i + (N.of_nat (length r) + 1)) = true) by (apply N.ltb_lt; lia).
        rewrite E3. cbn [andb]. rewrite N.sub_diag. simpl. apply PositiveMap.gss.
      * cbn [andb]. apply N.leb_gt in E2. rewrite PositiveMap.gso; [reflexivity|].
        intros H. apply ikey_inj in H. lia.
Qed.

Lemma cf_n_compile : forall f, f_sealed f = true -> cf_n (compile f) = N.of_nat (length (table_of f)).
Proof. intros f H. unfold compile. rewrite H. reflexivity. Qed.

Lemma cf_compile : forall f, cf (compile f) = f.
Proof. intros f. unfold compile. destruct (f_sealed f); reflexivity. Qed.

Lemma tbl_get_compile : forall f lid, f_sealed f = true ->
  tbl_get (compile f) lid = nth_error (table_of f) (N.to_nat lid).
Proof.
  intros f lid H. unfold tbl_get, compile. rewrite H. cbn [cf_tbl]. rewrite build_tbl_find.
  rewrite N.sub_0_r. replace (0 <=? lid) with true by (symmetry; apply N.leb_le; lia). cbn [andb]. rewrite N.add_0_l.
  destruct (lid <? N.of_nat (length (table_of f))) eqn:E; [reflexivity|].
  apply N.ltb_ge in E. rewrite PositiveMap.gempty. symmetry. apply nth_error_None. lia.
Qed.

Lemma cf_n_compile_docs : forall f, f_sealed f = true -> cf_n (compile f) = 1 + N.of_nat (length (f_docs f)).
Proof.
  intros f H. rewrite cf_n_compile by exact H. unfold table_of. cbn [length].
  rewrite <- (Permutation_length (EntSort.Permuted_sort (f_docs f))). lia.
Qed.

(* ------------------------------------------------------------------ 2. the table is strictly descending *)
Definition egt (a b : id * body) : Prop := ilt (fst b) (fst a).

Lemma ss_nth : forall (A : Type) (R : A -> A -> Prop) l, StronglySorted R l ->
  forall i j a b, (i < j)%nat -> nth_error l i = Some a -> nth_error l j = Some b -> R a b.
Proof.
  intros A R l H. induction H as [|x l Hs IH Hf]; intros i j a b Hij Ha Hb.
  - destruct i; discriminate.
  - destruct j as [|j]; [lia|]. simpl in Hb. destruct i as [|i].
    + simpl in Ha. inversion Ha; subst. rewrite Forall_forall in Hf. apply Hf.
      eapply nth_error_In; exact Hb.
    + simpl in Ha. apply (IH i j); [lia|assumption|assumption].
Qed.

Lemma ent_leb_trans : RelationClasses.Transitive (fun x y : id * body => is_true (id_leq (fst y) (fst x))).
Proof.
  intros a b c H1 H2. unfold is_true in *. rewrite id_leq_spec in *. eapply ile_trans; eassumption.
Qed.

Lemma ss_strict : forall l, NoDup (map fst l) ->
  StronglySorted (fun x y : id * body => is_true (id_leq (fst y) (fst x))) l -> StronglySorted egt l.
Proof.
  intros l Hn H. induction H as [|x l Hs IH Hf]; [constructor|].
  simpl in Hn. inversion Hn as [|? ? Hx Hn']; subst. constructor; [apply IH; exact Hn'|].
  rewrite Forall_forall in *. intros y Hy. specialize (Hf y Hy). unfold is_true in Hf. rewrite id_leq_spec in Hf.
  destruct (ile_cases _ _ Hf) as [E|L]; [|exact L].
  exfalso. apply Hx. rewrite <- E. apply in_map. exact Hy.
Qed.

Lemma sort_wf : forall l, docs_wf l -> docs_wf (EntSort.sort l).
Proof.
  intros l [Hn Hf]. pose proof (EntSort.Permuted_sort l) as P. split.
  - eapply Permutation_NoDup; [apply Permutation_map; exact P|exact Hn].
  - eapply Permutation_Forall; eassumption.
Qed.

Lemma table_sorted : forall f, docs_wf (f_docs f) -> StronglySorted egt (table_of f).
Proof.
  intros f Hw. apply sort_wf in Hw. destruct Hw as [Hn Hf]. unfold table_of. constructor.
  - apply ss_strict; [exact Hn|]. apply EntSort.StronglySorted_sort. exact ent_leb_trans.
  - eapply Forall_impl; [|exact Hf]. intros e [H1 H2]. unfold egt, ilt, sentinel. simpl. left. exact H1.
Qed.

Lemma table_desc : forall f i j ei ej, docs_wf (f_docs f) -> (i < j)%nat ->
  nth_error (table_of f) i = Some ei -> nth_error (table_of f) j = Some ej -> ilt (fst ej) (fst ei).
Proof.
  intros f i j ei ej Hw Hij Hi Hj. exact (ss_nth _ egt _ (table_sorted f Hw) i j ei ej Hij Hi Hj).
Qed.

Lemma table_in : forall f e,
  In e (f_docs f) <-> exists lid, (1 <= lid)%nat /\ nth_error (table_of f) lid = Some e.
Proof.
  intros f e. pose proof (EntSort.Permuted_sort (f_docs f)) as P. unfold table_of. split.
  - intros H. apply (Permutation_in _ P) in H. apply In_nth_error in H. destruct H as [n H].
    exists (S n). split; [lia|exact H].
  - intros [[|n] [H1 H2]]; [lia|]. simpl in H2. apply nth_error_In in H2.
    apply (Permutation_in _ (Permutation_sym P)). exact H2.
Qed.

Lemma table_rid : forall f lid e, docs_wf (f_docs f) -> nth_error (table_of f) lid = Some e ->
  snd (fst e) <= max64.
Proof.
  intros f lid e Hw H. apply sort_wf in Hw. destruct Hw as [_ Hf]. apply nth_error_In in H.
  unfold table_of in H. destruct H as [H|H].
  - subst e. simpl. apply N.le_refl.
  - rewrite Forall_forall in Hf. apply (Hf e H).
Qed.

(* ------------------------------------------------------------------ 4. binary search (sort.Search) *)
Lemma size_nat_gt : forall n, n < 2 ^ N.of_nat (N.size_nat n).
Proof.
  intros [|p]; [reflexivity|]. unfold N.size_nat.
  induction p as [p IH|p IH|]; cbn [Pos.size_nat]; try rewrite Nat2N.inj_succ, N.pow_succ_r'; try lia.
Qed.

Lemma bsearch_spec : forall fuel (f : N -> res bool) (p : N -> bool) i j,
  i <= j -> j - i < 2 ^ N.of_nat fuel ->
  (forall k, i <= k < j -> f k = Ok (p k)) ->
  (forall a b, i <= a -> a <= b -> b < j -> p a = true -> p b = true) ->
  exists k, bsearch fuel f i j = Ok k /\ i <= k <= j /\
            (forall a, i <= a < k -> p a = false) /\ (k < j -> p k = true).
Proof.
  induction fuel as [|fuel IH]; intros f p i j Hij Hfu Hf Hm.
  - change (2 ^ N.of_nat 0) with 1 in Hfu. assert (j = i) by lia. subst j.
    exists i. simpl. rewrite N.leb_refl. repeat split; try lia.
  - cbn [bsearch]. destruct (j <=? i) eqn:E.
    + apply N.leb_le in E. assert (j = i) by lia. subst j. exists i. repeat split; try lia.
    + apply N.leb_gt in E. rewrite Nat2N.inj_succ, N.pow_succ_r' in Hfu.
      set (h := (i + j) / 2). assert (Hh : i <= h < j) by (subst h; lia).
      rewrite (Hf h Hh). destruct (p h) eqn:Ph.
      * destruct (IH f p i h) as [k [Hk [Hr [Ha Hb]]]].
        -- lia.
        -- subst h. lia.
        -- intros k Hk. apply Hf. lia.
        -- intros a b H1 H2 H3. apply Hm; lia.
        -- exists k. split; [exact Hk|]. split; [lia|]. split; [exact Ha|].
           intros _. assert (k < h \/ k = h) as [L|L] by lia; [apply Hb; exact L|subst k; exact Ph].
      * destruct (IH f p (h + 1) j) as [k [Hk [Hr [Ha Hb]]]].
        -- lia.
        -- subst h. lia.
        -- intros k Hk. apply Hf. lia.
        -- intros a b H1 H2 H3. apply Hm; lia.
        -- exists k. split; [exact Hk|]. split; [lia|]. split; [|exact Hb].
           intros a Ha'. assert (a <= h \/ h + 1 <= a) as [L|L] by lia; [|apply Ha; lia].
           destruct (p a) eqn:Pa; [|reflexivity]. rewrite (Hm a h) in Ph; [discriminate|lia|lia|lia|exact Pa].
Qed.

(* util.BinSearchInRange on [from, to] (from = to + 1: empty range): never Fuel, never Panic; the result is the
   first index of the range where the monotone predicate holds, to + 1 if there is none *)
Lemma bin_search_spec : forall from to (f : N -> res bool) (p : N -> bool),
  from <= to + 1 ->
  (forall i, from <= i <= to -> f i = Ok (p i)) ->
  (forall a b, from <= a -> a <= b -> b <= to -> p a = true -> p b = true) ->
  exists k, bin_search from to f = Ok k /\ from <= k <= to + 1 /\
            (forall i, from <= i < k -> p i = false) /\ (k <= to -> p k = true).
Proof.
  intros from to f p Hft Hf Hm. unfold bin_search.
  destruct (bsearch_spec (S (N.size_nat (to + 1 - from))) (fun i => f (from + i)) (fun i => p (from + i))
                         0 (to + 1 - from)) as [k [Hk [Hr [Ha Hb]]]].
  - lia.
  - rewrite N.sub_0_r. rewrite Nat2N.inj_succ, N.pow_succ_r'.
    pose proof (size_nat_gt (to + 1 - from)). lia.
  - intros k Hk. apply Hf. lia.
  - intros a b H1 H2 H3. apply Hm; lia.
  - rewrite Hk. exists (from + k). split; [reflexivity|]. split; [lia|]. split.
    + intros i Hi. replace i with (from + (i - from)) by lia. apply Ha. lia.
    + intros H. apply Hb. lia.
Qed.

(* ------------------------------------------------------------------ 3. LessOrEqual and its shortcuts *)
Lemma less_or_equal_beyond : forall g c lid x, cf_n c <= lid -> less_or_equal g c lid x = Ok true.
Proof. intros g c lid x H. unfold less_or_equal. apply N.leb_le in H. rewrite H. reflexivity. Qed.

(* the RID = MaxUint64 shortcut is the plain comparison when the stored RID is a 64-bit value *)
Lemma rid_shortcut : forall e x : id, snd e <= max64 ->
  (if fst e =? fst x then (if snd x =? max64 then true else snd e <=? snd x) else fst e <? fst x) = id_leq e x.
Proof.
  intros e x H. unfold id_leq. destruct (fst e =? fst x); [|reflexivity].
  destruct (snd x =? max64) eqn:E; [|reflexivity]. apply N.eqb_eq in E. symmetry. apply N.leb_le. lia.
Qed.

Section SealedIndex.
  Variable g : cfg.
  Variable c : cfrac.
  Hypothesis Hipb : 1 <= ipb g.
  Hypothesis Hin : forall l, l < cf_n c -> exists e, tbl_get c l = Some e.
  Hypothesis Hdesc : forall i j ei ej, i < j -> tbl_get c i = Some ei -> tbl_get c j = Some ej ->
                                       ilt (fst ej) (fst ei).
  Hypothesis Hrid : forall l e, tbl_get c l = Some e -> snd (fst e) <= max64.

  Lemma desc_le : forall i j ei ej, i <= j -> tbl_get c i = Some ei -> tbl_get c j = Some ej ->
    ile (fst ej) (fst ei).
  Proof.
    intros i j ei ej H Hi Hj. assert (i < j \/ i = j) as [L|L] by lia.
    - apply ilt_ile. eapply Hdesc; eassumption.
    - subst j. rewrite Hi in Hj. inversion Hj. apply ile_refl.
  Qed.

  Lemma block_min_ok : forall b, b * ipb g < cf_n c ->
    exists e, tbl_get c (N.min ((b + 1) * ipb g) (cf_n c) - 1) = Some e /\ block_min g c b = Ok (fst e).
  Proof.
    intros b H. unfold block_min. apply N.ltb_lt in H. rewrite H. apply N.ltb_lt in H.
    destruct (Hin (N.min ((b + 1) * ipb g) (cf_n c) - 1)) as [e He]; [nia|].
    exists e. split; [exact He|]. unfold tbl_id. rewrite He. reflexivity.
  Qed.

  Lemma loe_ok : forall lid x, lid < cf_n c ->
    exists e, tbl_get c lid = Some e /\ less_or_equal g c lid x = Ok (id_leq (fst e) x).
  Proof.
    intros lid x H. destruct (Hin lid H) as [e He]. exists e. split; [exact He|].
    unfold less_or_equal. replace (cf_n c <=? lid) with false by (symmetry; apply N.leb_gt; exact H).
    set (b := lid / ipb g).
    assert (Hb : b * ipb g <= lid /\ lid < (b + 1) * ipb g) by (subst b; nia).
    destruct (block_min_ok b) as [e1 [G1 B1]]; [lia|]. rewrite B1.
    assert (L1 : ile (fst e1) (fst e)) by (apply (desc_le lid (N.min ((b + 1) * ipb g) (cf_n c) - 1) e e1); [lia|exact He|exact G1]).
    assert (Hd : match tbl_id c lid with
                 | Ok e => Ok (if fst e =? fst x then (if snd x =? max64 then true else snd e <=? snd x)
                               else fst e <? fst x)
                 | Panic => Panic | Fuel => Fuel end = Ok (id_leq (fst e) x)).
    { unfold tbl_id. rewrite He. rewrite rid_shortcut; [reflexivity|]. eapply Hrid; exact He. }
    destruct (id_leq (fst e1) x) eqn:E1; cbn [negb].
    - destruct (0 <? b) eqn:B0.
      + apply N.ltb_lt in B0. destruct (block_min_ok (b - 1)) as [e0 [G0 B0']]; [nia|]. rewrite B0'.
        replace (b - 1 + 1) with b in G0 by lia.
        destruct (id_leq (fst e0) x) eqn:E0; [|exact Hd].
        f_equal. symmetry. apply id_leq_spec. apply id_leq_spec in E0.
        apply ilt_ile. eapply ilt_ile_trans; [|exact E0].
        apply (Hdesc (N.min (b * ipb g) (cf_n c) - 1) lid e0 e); [nia|exact G0|exact He].
      + exact Hd.
    - f_equal. symmetry. destruct (id_leq (fst e) x) eqn:E; [|reflexivity].
      apply id_leq_spec in E. assert (E' : ile (fst e1) x) by (eapply ile_trans; eassumption).
      apply id_leq_spec in E'. congruence.
  Qed.

  (* table[l] <= x as a total boolean function of l *)
  Definition pe (x : id) (l : N) : bool :=
    match tbl_get c l with Some e => id_leq (fst e) x | None => true end.

  Lemma loe_pe : forall x l, l < cf_n c -> less_or_equal g c l x = Ok (pe x l).
  Proof. intros x l H. destruct (loe_ok l x H) as [e [He Hl]]. unfold pe. rewrite He. exact Hl. Qed.

  Lemma pe_mono : forall x a b, a <= b -> b < cf_n c -> pe x a = true -> pe x b = true.
  Proof.
    intros x a b Hab Hb. unfold pe. destruct (Hin a) as [ea Ha]; [lia|]. destruct (Hin b Hb) as [eb Hb'].
    rewrite Ha, Hb'. intros H. apply id_leq_spec. apply id_leq_spec in H.
    eapply ile_trans; [|exact H]. eapply desc_le; eassumption.
  Qed.

  Lemma pe_false : forall x l e, tbl_get c l = Some e -> pe x l = false -> ilt x (fst e).
  Proof.
    intros x l e He. unfold pe. rewrite He. intros H. apply ilt_not_ile. intros H'.
    apply id_leq_spec in H'. congruence.
  Qed.

  Lemma pe_true : forall x l e, tbl_get c l = Some e -> pe x l = true -> ile (fst e) x.
  Proof. intros x l e He. unfold pe. rewrite He. intros H. apply id_leq_spec. exact H. Qed.

  (* ---------------------------------------------------------------- 5. findLIDs + document read-out *)
  Hypothesis Hn1 : 1 <= cf_n c.
  Hypothesis Hout : forall l, cf_n c <= l -> tbl_get c l = None.
  (* what the fraction stores under an ID, characterised on the table *)
  Variable spec : id -> option body.
  Hypothesis Hspec_some : forall l e, 1 <= l -> tbl_get c l = Some e -> spec (fst e) = Some (snd e).
  Hypothesis Hspec_none : forall x, (forall l e, 1 <= l -> tbl_get c l = Some e -> fst e <> x) -> spec x = None.

  Lemma ilt_irrefl : forall a, ~ ilt a a.
  Proof. intros a; unfold ilt; lia. Qed.

  Lemma find_lids_inv : forall ids prev left,
    1 <= left <= cf_n c ->
    (forall p, prev = Some p -> forall l e, 1 <= l < left -> tbl_get c l = Some e -> ilt p (fst e)) ->
    exists lids, find_lids_gen true g c prev left ids = Ok lids /\ docs_of_lids c lids = Ok (map spec ids).
  Proof.
    induction ids as [|x r IH]; intros prev left Hl Hinv.
    - exists []. split; reflexivity.
    - cbn [find_lids_gen].
      set (left' := match prev with Some p => if id_less x p then left else 1 | None => 1 end).
      assert (HL : 1 <= left' <= cf_n c /\
                   forall l e, 1 <= l < left' -> tbl_get c l = Some e -> ilt x (fst e)).
      { subst left'. destruct prev as [p|]; [destruct (id_less x p) eqn:E|].
        - split; [exact Hl|]. intros l e H1 H2. apply id_less_spec in E.
          pose proof (Hinv p eq_refl l e H1 H2) as H3. unfold ilt in *. lia.
        - split; [lia|]. intros; lia.
        - split; [lia|]. intros; lia. }
      destruct HL as [HL1 HL2].
      destruct (bin_search_spec left' (cf_n c - 1) (fun l => less_or_equal g c l x) (pe x))
        as [k [Hk [Hr [Hf Ht]]]].
      + lia.
      + intros i Hi. apply loe_pe. lia.
      + intros a b H1 H2 H3. apply pe_mono; lia.
      + rewrite Hk. cbn [andb].
        (* every LID in [1, k) holds an ID greater than x *)
        assert (Hlow : forall l e, 1 <= l < k -> tbl_get c l = Some e -> ilt x (fst e)).
        { intros l e H1 H2. assert (l < left' \/ left' <= l) as [L|L] by lia.
          - apply (HL2 l e); [lia|exact H2].
          - apply (pe_false x l e H2). apply Hf. lia. }
        destruct (IH (Some x) k) as [t [T1 T2]].
        * lia.
        * intros p Hp. inversion Hp; subst p. exact Hlow.
        * destruct (k <=? cf_n c - 1) eqn:K; cbn [negb].
          -- apply N.leb_le in K. destruct (Hin k) as [e He]; [lia|].
             unfold tbl_id. rewrite He. rewrite T1. eexists. split; [reflexivity|].
             cbn [docs_of_lids map]. rewrite T2.
             destruct (id_eqb (fst e) x) eqn:EQ.
             ++ replace (k =? 0) with false by (symmetry; apply N.eqb_neq; lia). rewrite He.
                apply id_eqb_eq in EQ. rewrite <- EQ. rewrite (Hspec_some k e); [reflexivity|lia|exact He].
             ++ rewrite N.eqb_refl. rewrite Hspec_none; [reflexivity|].
                intros l e' H1 H2 H3. apply id_eqb_neq in EQ.
                assert (l < k \/ l = k \/ k < l) as [L|[L|L]] by lia.
                ** apply (ilt_irrefl x). rewrite <- H3 at 2. apply (Hlow l e'); [lia|exact H2].
                ** subst l. rewrite He in H2. inversion H2; subst e'. contradiction.
                ** pose proof (Hdesc k l e e' L He H2) as D. rewrite H3 in D.
                   pose proof (pe_true x k e He (Ht K)) as D'.
                   apply (ilt_irrefl x). eapply ilt_ile_trans; eassumption.
          -- apply N.leb_gt in K. rewrite T1. eexists. split; [reflexivity|].
             cbn [docs_of_lids map]. rewrite T2. rewrite N.eqb_refl. rewrite Hspec_none; [reflexivity|].
             intros l e' H1 H2 H3. assert (l < cf_n c \/ cf_n c <= l) as [L|L] by lia.
             ** apply (ilt_irrefl x). rewrite <- H3 at 2. apply (Hlow l e'); [lia|exact H2].
             ** rewrite (Hout l L) in H2. discriminate.
  Qed.
End SealedIndex.

(* ------------------------------------------------------------------ instantiation on a compiled sealed fraction *)
Lemma compile_in : forall f, f_sealed f = true ->
  forall l, l < cf_n (compile f) -> exists e, tbl_get (compile f) l = Some e.
Proof.
  intros f Hs l H. rewrite tbl_get_compile by exact Hs. rewrite cf_n_compile in H by exact Hs.
  destruct (nth_error (table_of f) (N.to_nat l)) as [e|] eqn:E; [exists e; reflexivity|].
  apply nth_error_None in E. lia.
Qed.

Lemma compile_out : forall f, f_sealed f = true ->
  forall l, cf_n (compile f) <= l -> tbl_get (compile f) l = None.
Proof.
  intros f Hs l H. rewrite tbl_get_compile by exact Hs. rewrite cf_n_compile in H by exact Hs.
  apply nth_error_None. lia.
Qed.

Lemma compile_desc : forall f, f_sealed f = true -> docs_wf (f_docs f) ->
  forall i j ei ej, i < j -> tbl_get (compile f) i = Some ei -> tbl_get (compile f) j = Some ej ->
                    ilt (fst ej) (fst ei).
Proof.
  intros f Hs Hw i j ei ej Hij Hi Hj. rewrite tbl_get_compile in Hi, Hj by exact Hs.
  apply (table_desc f (N.to_nat i) (N.to_nat j) ei ej Hw); [lia|exact Hi|exact Hj].
Qed.

Lemma compile_rid : forall f, f_sealed f = true -> docs_wf (f_docs f) ->
  forall l e, tbl_get (compile f) l = Some e -> snd (fst e) <= max64.
Proof.
  intros f Hs Hw l e H. rewrite tbl_get_compile in H by exact Hs. eapply table_rid; eassumption.
Qed.

Lemma compile_n1 : forall f, f_sealed f = true -> 1 <= cf_n (compile f).
Proof. intros f Hs. rewrite cf_n_compile_docs by exact Hs. lia. Qed.

(* thm:C04_lessorequal_shortcuts — with both block-minimum shortcuts and the RID = MaxUint64 shortcut,
   LessOrEqual(lid, x) is exactly table[lid] <= x, for every LID of the table (the sentinel's included) and
   every x; it never panics. *)
Lemma less_or_equal_spec : forall g f lid x, 1 <= ipb g -> f_sealed f = true -> docs_wf (f_docs f) ->
  lid < cf_n (compile f) ->
  exists e, nth_error (table_of f) (N.to_nat lid) = Some e /\
            less_or_equal g (compile f) lid x = Ok (id_leq (fst e) x).
Proof.
  intros g f lid x Hg Hs Hw Hl.
  destruct (loe_ok g (compile f) Hg (compile_in f Hs) (compile_desc f Hs Hw) (compile_rid f Hs Hw) lid x Hl)
    as [e [He Hr]].
  exists e. split; [rewrite <- tbl_get_compile by exact Hs; exact He|exact Hr].
Qed.

Lemma lookup_table_some : forall f, f_sealed f = true -> docs_wf (f_docs f) ->
  forall l e, 1 <= l -> tbl_get (compile f) l = Some e -> lookup f (fst e) = Some (snd e).
Proof.
  intros f Hs Hw l e Hl H. rewrite tbl_get_compile in H by exact Hs.
  unfold lookup. apply lookup_docs_nodup; [apply Hw|]. rewrite <- surjective_pairing.
  apply table_in. exists (N.to_nat l). split; [lia|exact H].
Qed.

Lemma lookup_table_none : forall f, f_sealed f = true ->
  forall x, (forall l e, 1 <= l -> tbl_get (compile f) l = Some e -> fst e <> x) -> lookup f x = None.
Proof.
  intros f Hs x H. unfold lookup. apply lookup_docs_none. intros Hi. apply in_map_iff in Hi.
  destruct Hi as [e [E1 E2]]. apply table_in in E2. destruct E2 as [lid [L1 L2]].
  apply (H (N.of_nat lid) e); [lia| |exact E1]. rewrite tbl_get_compile by exact Hs.
  rewrite Nat2N.id. exact L2.
Qed.

(* findLIDs on a sealed fraction, any request order, duplicates allowed, any IDs: never panics, and reading the
   documents of the LIDs it returns gives exactly what the fraction stores under each requested ID *)
Lemma sealed_find_lids_ok : forall g f ids,
  1 <= ipb g -> f_sealed f = true -> docs_wf (f_docs f) ->
  exists lids, find_lids g (compile f) None 1 ids = Ok lids /\
               docs_of_lids (compile f) lids = Ok (map (lookup f) ids).
Proof.
  intros g f ids Hg Hs Hw. unfold find_lids.
  apply (find_lids_inv g (compile f) Hg (compile_in f Hs) (compile_desc f Hs Hw) (compile_rid f Hs Hw)
                       (compile_n1 f Hs) (compile_out f Hs) (lookup f) (lookup_table_some f Hs Hw) (lookup_table_none f Hs)).
  - pose proof (compile_n1 f Hs). lia.
  - intros p Hp. discriminate.
Qed.

(* sealed_fetch_ok (through the position layer) is in ProofsPhys.v *)

(* ------------------------------------------------------------------ 6. the unrepaired findLIDs *)
Definition g_ex : cfg := mkCfg 4 1000 10.
Definition f_ex : frac := mkFrac 1 true 10 20 None [((10, 5), (1, 7)); ((20, 3), (2, 9))] [].
Definition x_ex : id := (10, 2).

Lemma f_ex_wf : docs_wf (f_docs f_ex).
Proof.
  split.
  - simpl. repeat constructor; simpl; intuition discriminate.
  - simpl. repeat constructor; simpl; unfold max64; lia.
Qed.

(* before 2f1e999: an absent ID with the fraction's smallest timestamp and a RID below the smallest stored one
   sends the search past the last LID, and the unguarded table access panics *)
Example find_lids_v0_refuted : exists g f x, f_sealed f = true /\ docs_wf (f_docs f) /\ lookup f x = None /\
  find_lids_v0 g (compile f) None 1 [x] = Panic /\ find_lids g (compile f) None 1 [x] = Ok [0].
Proof.
  exists g_ex, f_ex, x_ex. split; [reflexivity|]. split; [exact f_ex_wf|].
  split; [vm_compute; reflexivity|]. split; vm_compute; reflexivity.
Qed.

(* non-vacuity of sealed_fetch_ok: unsorted request with a duplicate and an absent ID on the same fraction *)
Example sealed_fetch_ex :
  frac_fetch g_ex (compile f_ex) [(20, 3); (10, 2); (10, 5); (20, 3)] = Ok [Some (2, 9); None; Some (1, 7); Some (2, 9)]
  /\ map (lookup f_ex) [(20, 3); (10, 2); (10, 5); (20, 3)] = [Some (2, 9); None; Some (1, 7); Some (2, 9)].
Proof. split; vm_compute; reflexivity. Qed.

Print Assumptions less_or_equal_spec.
Print Assumptions find_lids_v0_refuted.
