(* C04 — DocPos packing, GroupDocsOffsets, byte-level extraction, the active snapshot guard and the sealed
   position blocks: the facts the end-to-end proofs use about the position path. *)
From Coq Require Import Lia ZifyN ZifyNat.
From C04 Require Import Model ProofsBase.
From Coq Require Import Permutation.
Open Scope N_scope.

(* ------------------------------------------------------------------ 1. DocPos round trip *)
Lemma p2_30 : 2 ^ 30 = 1073741824.
Proof. reflexivity. Qed.
Lemma mdo_ones : max_doc_offset = N.ones 30.
Proof. reflexivity. Qed.

Lemma lor_shiftl_low : forall b off, off < 1073741824 -> N.lor (N.shiftl b 30) off = b * 1073741824 + off.
Proof.
  intros b off H.
  assert (HL : N.land (N.shiftl b 30) off = 0).
  { replace off with (N.land off (N.ones 30)) at 1.
    2:{ rewrite N.land_ones, p2_30. apply N.mod_small; exact H. }
    rewrite (N.land_comm off), N.land_assoc, N.land_ones, N.shiftl_mul_pow2, p2_30.
    rewrite N.mod_mul by discriminate. apply N.land_0_l. }
  rewrite <- N.lxor_lor by exact HL. rewrite <- N.add_nocarry_lxor by exact HL.
  rewrite N.shiftl_mul_pow2, p2_30. reflexivity.
Qed.

Lemma raw_pos_arith : forall b off, off <= max_doc_offset -> raw_pos b off = b * 1073741824 + off + 1.
Proof.
  intros b off H. unfold raw_pos. unfold max_doc_offset in H. rewrite lor_shiftl_low by lia. reflexivity.
Qed.

Lemma unpack_pos_arith : forall p, p <> 0 ->
  unpack_pos p = ((p - 1) / 1073741824 mod two32, (p - 1) mod 1073741824).
Proof.
  intros p H. unfold unpack_pos. apply N.eqb_neq in H. rewrite H.
  rewrite mdo_ones, N.land_ones, N.shiftr_div_pow2, p2_30. reflexivity.
Qed.

Lemma pack_unpack : forall b off, b < two32 -> off <= max_doc_offset ->
  pack_pos b off = Ok (raw_pos b off) /\ unpack_pos (raw_pos b off) = (b, off) /\
  raw_pos b off <> pos_not_found /\ raw_pos b off <> 0.
Proof.
  intros b off Hb Ho. pose proof (raw_pos_arith b off Ho) as HR.
  unfold two32 in Hb. pose proof Ho as Ho'. unfold max_doc_offset in Ho'.
  split; [|split; [|split]].
  - unfold pack_pos. replace (max_doc_offset <? off) with false; [reflexivity|].
    symmetry; apply N.ltb_ge; exact Ho.
  - rewrite unpack_pos_arith by lia. rewrite HR.
    replace (b * 1073741824 + off + 1 - 1) with (off + b * 1073741824) by lia.
    rewrite N.div_add by discriminate. rewrite N.mod_add by discriminate.
    rewrite (N.div_small off) by lia. rewrite (N.mod_small off) by lia.
    unfold two32. rewrite N.mod_small by lia. reflexivity.
  - rewrite HR. unfold pos_not_found, max64. lia.
  - rewrite HR. lia.
Qed.

Lemma pack_pos_panics : forall b off, max_doc_offset < off -> pack_pos b off = Panic.
Proof. intros b off H. unfold pack_pos. apply N.ltb_lt in H. rewrite H. reflexivity. Qed.

Lemma raw_pos_inj : forall b1 o1 b2 o2, o1 <= max_doc_offset -> o2 <= max_doc_offset ->
  raw_pos b1 o1 = raw_pos b2 o2 -> b1 = b2 /\ o1 = o2.
Proof.
  intros b1 o1 b2 o2 H1 H2. rewrite !raw_pos_arith by assumption. unfold max_doc_offset in *. lia.
Qed.

(* ------------------------------------------------------------------ 2. GroupDocsOffsets *)

Definition gblk (g : pgroup) : N := fst (fst g).
Definition goffs (g : pgroup) : list N := snd (fst g).
Definition gidx (g : pgroup) : list N := snd g.
Definition gflat (g : pgroup) : list (N * N * N) :=
  map (fun oi : N * N => (gblk g, fst oi, snd oi)) (combine (goffs g) (gidx g)).
Definition gsflat (gs : list pgroup) : list (N * N * N) := flat_map gflat gs.
Definition allidx (gs : list pgroup) : list N := flat_map gidx gs.
Definition leneq (g : pgroup) : Prop := length (goffs g) = length (gidx g).
Definition grev (g : pgroup) : pgroup := let '(b, os, is) := g in (b, rev os, rev is).

Lemma add_group_keys : forall blk off i gs,
  (In blk (map gblk gs) /\ map gblk (add_to_group blk off i gs) = map gblk gs) \/
  (~ In blk (map gblk gs) /\ map gblk (add_to_group blk off i gs) = map gblk gs ++ [blk]).
Proof.
  intros blk off i gs. induction gs as [|[[b os] is] r IH].
  - right. split; [intros []|reflexivity].
  - cbn [add_to_group]. destruct (b =? blk) eqn:E.
    + apply N.eqb_eq in E; subst. left. split; [left; reflexivity|reflexivity].
    + apply N.eqb_neq in E. destruct IH as [[H1 H2]|[H1 H2]].
      * left. split; [right; exact H1|]. cbn [map]. rewrite H2. reflexivity.
      * right. split.
        -- intros [H|H]; [apply E; exact H|apply H1; exact H].
        -- cbn [map]. rewrite H2. reflexivity.
Qed.

Lemma add_group_nodup : forall blk off i gs, NoDup (map gblk gs) -> NoDup (map gblk (add_to_group blk off i gs)).
Proof.
  intros blk off i gs H. destruct (add_group_keys blk off i gs) as [[_ E]|[Hn E]]; rewrite E; [exact H|].
  apply NoDup_rev in H. rewrite <- (rev_involutive (map gblk gs ++ [blk])). apply NoDup_rev.
  rewrite rev_app_distr. simpl. constructor; [|exact H]. rewrite <- in_rev. exact Hn.
Qed.

Lemma add_group_leneq : forall blk off i gs, Forall leneq gs -> Forall leneq (add_to_group blk off i gs).
Proof.
  intros blk off i gs. induction gs as [|[[b os] is] r IH]; intros H.
  - constructor; [reflexivity|constructor].
  - cbn [add_to_group]. inversion H; subst. destruct (b =? blk).
    + constructor; [|assumption]. unfold leneq, goffs, gidx in *; simpl in *. congruence.
    + constructor; [assumption|apply IH; assumption].
Qed.

Lemma add_group_flat : forall blk off i gs t,
  In t (gsflat (add_to_group blk off i gs)) <-> t = (blk, off, i) \/ In t (gsflat gs).
Proof.
  intros blk off i gs t. induction gs as [|[[b os] is] r IH].
  - simpl. unfold gblk; simpl. intuition congruence.
  - cbn [add_to_group]. destruct (b =? blk) eqn:E.
    + apply N.eqb_eq in E; subst. unfold gsflat. cbn [flat_map]. rewrite !in_app_iff.
      unfold gflat at 1. cbn [gblk goffs gidx fst snd combine map]. simpl. 
      unfold gflat at 2. cbn [gblk goffs gidx fst snd]. intuition congruence.
    + unfold gsflat in *. cbn [flat_map]. rewrite !in_app_iff. rewrite IH. tauto.
Qed.

Lemma add_group_idx : forall blk off i gs, Permutation (allidx (add_to_group blk off i gs)) (i :: allidx gs).
Proof.
  intros blk off i gs. induction gs as [|[[b os] is] r IH].
  - apply Permutation_refl.
  - cbn [add_to_group]. destruct (b =? blk).
    + apply Permutation_refl.
    + unfold allidx in *. cbn [flat_map]. cbn [gidx snd] in *.
      eapply Permutation_trans; [apply Permutation_app_head; exact IH|].
      apply Permutation_sym. apply Permutation_middle.
Qed.

Lemma group_from_inv : forall ps i gs,
  NoDup (map gblk gs) -> Forall leneq gs -> NoDup (allidx gs) -> (forall k, In k (allidx gs) -> k < i) ->
  let G := group_from ps i gs in
  NoDup (map gblk G) /\ Forall leneq G /\ NoDup (allidx G) /\
  forall t, In t (gsflat G) <->
    In t (gsflat gs) \/
    exists j p, nth_error ps j = Some p /\ p <> pos_not_found /\
                t = (fst (unpack_pos p), snd (unpack_pos p), i + N.of_nat j).
Proof.
  induction ps as [|p r IH]; intros i gs H1 H2 H3 H4.
  - cbn [group_from]. repeat split; try assumption.
    + intros H; left; exact H.
    + intros [H|[j [p [H _]]]]; [exact H|destruct j; discriminate].
  - cbn [group_from]. destruct (p =? pos_not_found) eqn:E.
    + apply N.eqb_eq in E.
      destruct (IH (i + 1) gs H1 H2 H3) as [I1 [I2 [I3 I4]]].
      { intros k Hk. apply H4 in Hk. lia. }
      cbv zeta. repeat split; try assumption.
      * intros H. apply I4 in H. destruct H as [H|[j [q [Hj [Hq Ht]]]]]; [left; exact H|right].
        exists (S j), q. repeat split; try assumption. rewrite Ht. f_equal. lia.
      * intros [H|[j [q [Hj [Hq Ht]]]]]; apply I4; [left; exact H|right].
        destruct j as [|j]; [simpl in Hj; congruence|]. simpl in Hj.
        exists j, q. repeat split; try assumption. rewrite Ht. f_equal. lia.
    + apply N.eqb_neq in E. destruct (unpack_pos p) as [blk off] eqn:EU.
      destruct (IH (i + 1) (add_to_group blk off i gs)) as [I1 [I2 [I3 I4]]].
      { apply add_group_nodup; exact H1. }
      { apply add_group_leneq; exact H2. }
      { eapply Permutation_NoDup; [apply Permutation_sym; apply add_group_idx|].
        constructor; [|exact H3]. intros H. apply H4 in H. lia. }
      { intros k Hk. eapply Permutation_in in Hk; [|apply add_group_idx].
        destruct Hk as [Hk|Hk]; [lia|apply H4 in Hk; lia]. }
      cbv zeta. repeat split; try assumption.
      * intros H. apply I4 in H. destruct H as [H|[j [q [Hj [Hq Ht]]]]].
        -- apply add_group_flat in H. destruct H as [H|H]; [right|left; exact H].
           exists O, p. rewrite EU. cbn [nth_error fst snd]. repeat split; try assumption. rewrite H. f_equal. lia.
        -- right. exists (S j), q. repeat split; try assumption. rewrite Ht. f_equal. lia.
      * intros [H|[j [q [Hj [Hq Ht]]]]]; apply I4.
        -- left. apply add_group_flat. right; exact H.
        -- destruct j as [|j].
           ++ left. apply add_group_flat. left. simpl in Hj. inversion Hj; subst q.
              rewrite Ht, EU. cbn [fst snd]. f_equal. lia.
           ++ right. simpl in Hj. exists j, q. repeat split; try assumption. rewrite Ht. f_equal. lia.
Qed.

Lemma combine_app_eq : forall (A B : Type) (a c : list A) (b d : list B), length a = length b ->
  combine (a ++ c) (b ++ d) = combine a b ++ combine c d.
Proof.
  induction a as [|x a IH]; intros c b d H; destruct b as [|y b]; try discriminate; [reflexivity|].
  simpl. f_equal. apply IH. simpl in H. congruence.
Qed.
Lemma combine_rev_eq : forall (A B : Type) (a : list A) (b : list B), length a = length b ->
  combine (rev a) (rev b) = rev (combine a b).
Proof.
  induction a as [|x a IH]; intros b H; destruct b as [|y b]; try discriminate; [reflexivity|].
  simpl. simpl in H. rewrite combine_app_eq by (rewrite !rev_length; congruence).
  rewrite IH by congruence. reflexivity.
Qed.
Lemma nth_error_combine : forall (A B : Type) (a : list A) (b : list B) j x y,
  nth_error (combine a b) j = Some (x, y) <-> nth_error a j = Some x /\ nth_error b j = Some y.
Proof.
  induction a as [|x0 a IH]; intros b j x y.
  - simpl. destruct j; simpl; split; [discriminate|intros [H _]; discriminate|discriminate|intros [H _]; discriminate].
  - destruct b as [|y0 b].
    + simpl. destruct j; simpl; split; try discriminate; intros [_ H]; discriminate.
    + destruct j as [|j]; simpl.
      * split; [intros H; inversion H; auto|intros [H1 H2]; congruence].
      * apply IH.
Qed.

Lemma gsflat_in : forall gs b o k,
  In (b, o, k) (gsflat gs) <-> exists os is, In (b, os, is) gs /\ In (o, k) (combine os is).
Proof.
  intros gs b o k. unfold gsflat. rewrite in_flat_map. split.
  - intros [[[b0 os] is] [Hg Hf]]. unfold gflat in Hf. cbn [gblk goffs gidx fst snd] in Hf.
    apply in_map_iff in Hf. destruct Hf as [[o0 k0] [He Hi]]. simpl in He. inversion He; subst.
    exists os, is. split; assumption.
  - intros [os [is [Hg Hi]]]. exists (b, os, is). split; [exact Hg|].
    unfold gflat. cbn [gblk goffs gidx fst snd]. apply in_map_iff. exists (o, k). split; [reflexivity|exact Hi].
Qed.

Lemma allidx_grev : forall G, Permutation (flat_map (fun g : N * list N * list N => snd g) (map grev G)) (allidx G).
Proof.
  induction G as [|[[b os] is] r IH]; [apply Permutation_refl|].
  simpl. apply Permutation_app; [apply Permutation_sym, Permutation_rev|exact IH].
Qed.

Lemma group_offsets_spec : forall ps,
  let gs := group_offsets ps in
  NoDup (map (fun g : N * list N * list N => fst (fst g)) gs) /\
  (forall b offs idx, In (b, offs, idx) gs -> length offs = length idx) /\
  (forall i p, nth_error ps i = Some p -> p <> pos_not_found ->
     exists offs idx j, In (fst (unpack_pos p), offs, idx) gs /\
                        nth_error offs j = Some (snd (unpack_pos p)) /\ nth_error idx j = Some (N.of_nat i)) /\
  (forall b offs idx j o i, In (b, offs, idx) gs -> nth_error offs j = Some o -> nth_error idx j = Some i ->
     exists p, nth_error ps (N.to_nat i) = Some p /\ p <> pos_not_found /\ unpack_pos p = (b, o)) /\
  NoDup (flat_map (fun g : N * list N * list N => snd g) gs).
Proof.
  intros ps.
  assert (EG : group_offsets ps = map grev (group_from ps 0 [])) by reflexivity.
  cbv zeta. rewrite EG. clear EG.
  destruct (group_from_inv ps 0 []) as [I1 [I2 [I3 I4]]];
    [constructor|constructor|constructor|intros k []|].
  cbv zeta in I1, I2, I3, I4. set (G := group_from ps 0 []) in *.
  assert (HG : forall b offs idx, In (b, offs, idx) (map grev G) ->
            exists os is, In (b, os, is) G /\ offs = rev os /\ idx = rev is /\ length os = length is).
  { intros b offs idx H. apply in_map_iff in H. destruct H as [[[b0 os] is] [He Hi]].
    simpl in He. inversion He; subst. exists os, is. repeat split; try assumption.
    rewrite Forall_forall in I2. apply (I2 _ Hi). }
  split; [|split; [|split; [|split]]].
  - rewrite map_map. erewrite map_ext; [exact I1|]. intros [[b os] is]. reflexivity.
  - intros b offs idx H. destruct (HG _ _ _ H) as [os [is [_ [-> [-> HL]]]]]. rewrite !rev_length. exact HL.
  - intros i p Hi Hp.
    assert (H : In (fst (unpack_pos p), snd (unpack_pos p), N.of_nat i) (gsflat G)).
    { apply I4. right. exists i, p. repeat split; assumption. }
    apply gsflat_in in H. destruct H as [os [is [Hg Hc]]].
    assert (HL : length os = length is) by (rewrite Forall_forall in I2; apply (I2 _ Hg)).
    rewrite in_rev, <- combine_rev_eq in Hc by exact HL.
    apply In_nth_error in Hc. destruct Hc as [j Hj]. apply nth_error_combine in Hj.
    exists (rev os), (rev is), j. split; [|exact Hj].
    apply in_map_iff. exists (fst (unpack_pos p), os, is). split; [reflexivity|exact Hg].
  - intros b offs idx j o i Hg Ho Hi. destruct (HG _ _ _ Hg) as [os [is [Hg' [-> [-> HL]]]]].
    assert (Hc : In (o, i) (combine os is)).
    { rewrite in_rev, <- combine_rev_eq by exact HL. eapply nth_error_In. apply nth_error_combine. split; eassumption. }
    assert (H : In (b, o, i) (gsflat G)) by (apply gsflat_in; exists os, is; split; assumption).
    apply I4 in H. destruct H as [[]|[j0 [p [Hj [Hp Ht]]]]].
    exists p. destruct (unpack_pos p) as [b' o'] eqn:EU. cbn [fst snd] in Ht.
    inversion Ht; subst. rewrite ?N.add_0_l, Nat2N.id. split; [exact Hj|split; [exact Hp|reflexivity]].
  - eapply Permutation_NoDup; [apply Permutation_sym, allidx_grev|exact I3].
Qed.

(* ------------------------------------------------------------------ 3. extraction returns the bytes written *)
Definition start_offset (docs : list (list N)) (k : nat) : N :=
  fold_right (fun d a => 4 + N.of_nat (length d) + a) 0 (firstn k docs).
Definition bytes_ok (d : list N) : Prop := Forall (fun b => b < 256) d /\ N.of_nat (length d) < two32.

Lemma le32_sum : forall n, n < two32 ->
  n mod 256 + 256 * (n / 256 mod 256) + 65536 * (n / 65536 mod 256) + 16777216 * (n / 16777216 mod 256) = n.
Proof. intros n H. unfold two32 in H. lia. Qed.

Lemma skipn_app_len : forall (A : Type) (a b : list A), skipn (length a) (a ++ b) = b.
Proof. induction a as [|x a IH]; intros b; [reflexivity|]. cbn [length app skipn]. apply IH. Qed.
Lemma firstn_app_len : forall (A : Type) (a b : list A), firstn (length a) (a ++ b) = a.
Proof. induction a as [|x a IH]; intros b; [reflexivity|]. cbn [length app firstn]. rewrite IH. reflexivity. Qed.

Lemma extract_at : forall pre d rest, N.of_nat (length d) < two32 ->
  extract_doc (pre ++ le32 (N.of_nat (length d)) ++ d ++ rest) (N.of_nat (length pre)) = Ok d.
Proof.
  intros pre d rest H. unfold extract_doc. rewrite Nat2N.id, skipn_app_len.
  unfold le32. cbn [app]. rewrite (le32_sum _ H).
  replace (N.of_nat (length d) <=? N.of_nat (length (d ++ rest))) with true.
  2:{ symmetry. apply N.leb_le. rewrite app_length. lia. }
  rewrite Nat2N.id, firstn_app_len. reflexivity.
Qed.

Lemma encode_block_app : forall a b, encode_block (a ++ b) = encode_block a ++ encode_block b.
Proof. intros a b. unfold encode_block. apply flat_map_app. Qed.

Lemma le32_length : forall n, length (le32 n) = 4%nat.
Proof. reflexivity. Qed.

Lemma encode_block_length : forall docs,
  N.of_nat (length (encode_block docs)) = fold_right (fun d a => 4 + N.of_nat (length d) + a) 0 docs.
Proof.
  induction docs as [|d r IH]; [reflexivity|].
  change (encode_block (d :: r)) with ((le32 (N.of_nat (length d)) ++ d) ++ encode_block r).
  cbn [fold_right]. rewrite <- IH. rewrite !app_length, le32_length. lia.
Qed.

Lemma nth_error_split_at : forall (A : Type) (l : list A) k d, nth_error l k = Some d ->
  l = firstn k l ++ d :: skipn (S k) l.
Proof.
  induction l as [|x l IH]; intros k d H; destruct k as [|k]; try discriminate.
  - simpl in H. inversion H; subst. reflexivity.
  - simpl in H. cbn [firstn skipn app]. f_equal. apply IH. exact H.
Qed.

Lemma extract_written : forall docs k d, Forall bytes_ok docs -> nth_error docs k = Some d ->
  extract_doc (encode_block docs) (start_offset docs k) = Ok d.
Proof.
  intros docs k d HF Hk.
  assert (Hd : bytes_ok d) by (rewrite Forall_forall in HF; apply HF; eapply nth_error_In; exact Hk).
  unfold start_offset. rewrite <- encode_block_length.
  rewrite (nth_error_split_at _ docs k d Hk) at 1.
  rewrite encode_block_app.
  change (encode_block (d :: skipn (S k) docs))
    with ((le32 (N.of_nat (length d)) ++ d) ++ encode_block (skipn (S k) docs)).
  rewrite <- (app_assoc (le32 _)). apply extract_at. apply Hd.
Qed.

Lemma extract_cells : forall (bytes_of : body -> list N) (blk : list (id * body)) pre c o d,
  N.of_nat (length pre) = c ->
  (forall e, In e blk -> bytes_ok (bytes_of (snd e)) /\ N.of_nat (length (bytes_of (snd e))) = snd (snd e)) ->
  assoc o (cells_from c blk) = Some d ->
  extract_doc (pre ++ encode_block (map (fun e => bytes_of (snd e)) blk)) o = Ok (bytes_of d).
Proof.
  intros bytes_of. induction blk as [|[x dd] r IH]; intros pre c o d Hc He Ha; [discriminate|].
  cbn [cells_from assoc] in Ha. cbn [map].
  change (encode_block (bytes_of (snd (x, dd)) :: map (fun e => bytes_of (snd e)) r))
    with ((le32 (N.of_nat (length (bytes_of dd))) ++ bytes_of dd) ++
          encode_block (map (fun e => bytes_of (snd e)) r)).
  destruct (He (x, dd) (or_introl eq_refl)) as [[_ Hb] Hlen]. cbn [snd] in Hb, Hlen.
  destruct (c =? o) eqn:E.
  - apply N.eqb_eq in E. inversion Ha; subst. rewrite <- (app_assoc (le32 _)).
    apply extract_at. exact Hb.
  - rewrite app_assoc. apply (IH _ (c + 4 + snd dd)).
    + rewrite !app_length, le32_length. lia.
    + intros e Hi. apply He. right; exact Hi.
    + exact Ha.
Qed.

Lemma extract_refines : forall (bytes_of : body -> list N) (blk : list (id * body)) o d,
  (forall e, In e blk -> bytes_ok (bytes_of (snd e)) /\ N.of_nat (length (bytes_of (snd e))) = snd (snd e)) ->
  assoc o (cells_from 0 blk) = Some d ->
  extract_doc (encode_block (map (fun e => bytes_of (snd e)) blk)) o = Ok (bytes_of d).
Proof.
  intros bytes_of blk o d He Ha. apply (extract_cells bytes_of blk [] 0 o d eq_refl He Ha).
Qed.

Lemma assoc_map_snd : forall (A B : Type) (h : A -> B) (file : list (N * A)) bo,
  assoc bo (map (fun fb => (fst fb, h (snd fb))) file) =
  match assoc bo file with Some a => Some (h a) | None => None end.
Proof.
  induction file as [|[fo a] r IH]; intros bo; [reflexivity|].
  cbn [map assoc fst snd]. destruct (fo =? bo); [reflexivity|apply IH].
Qed.
Lemma assoc_in : forall (A : Type) (l : list (N * A)) k a, assoc k l = Some a -> In (k, a) l.
Proof.
  induction l as [|[k0 a0] r IH]; intros k a H; [discriminate|].
  cbn [assoc] in H. destruct (k0 =? k) eqn:E.
  - apply N.eqb_eq in E. inversion H; subst. left; reflexivity.
  - right. apply IH. exact H.
Qed.

Lemma read_refines : forall bytes_of (file : list (N * list (id * body))) bo offs ds,
  (forall fo blk e, In (fo, blk) file -> In e blk ->
     bytes_ok (bytes_of (snd e)) /\ N.of_nat (length (bytes_of (snd e))) = snd (snd e)) ->
  read_abs (map (fun fb => (fst fb, cells_from 0 (snd fb))) file) bo offs = Ok ds ->
  read_bytes (map (fun fb => (fst fb, encode_block (map (fun e => bytes_of (snd e)) (snd fb)))) file) bo offs
  = Ok (map bytes_of ds).
Proof.
  intros bytes_of file bo offs ds He. unfold read_abs, read_bytes.
  rewrite (assoc_map_snd _ _ (cells_from 0)).
  rewrite (assoc_map_snd _ _ (fun blk => encode_block (map (fun e => bytes_of (snd e)) blk))).
  destruct (assoc bo file) as [blk|] eqn:EA; [|discriminate].
  apply assoc_in in EA. pose proof (He bo blk) as Hb. specialize (fun e => Hb e EA). clear He EA.
  revert ds. induction offs as [|o r IH]; intros ds H.
  - simpl in H. inversion H; subst. reflexivity.
  - cbn [map_res] in H |- *.
    destruct (assoc o (cells_from 0 blk)) as [d|] eqn:Ed; [|discriminate].
    rewrite (extract_refines bytes_of blk o d Hb Ed).
    destruct (map_res _ r) as [t| |] eqn:Er; try discriminate.
    inversion H; subst. rewrite (IH t eq_refl). reflexivity.
Qed.

(* ------------------------------------------------------------------ 4. the active provider's snapshot guard *)
Lemma active_pos_spec : forall k apos x,
  active_pos k apos x =
  match PositiveMap.find (key x) apos with
  | None => pos_not_found
  | Some p => if (p =? pos_not_found) || (k <=? fst (unpack_pos p)) then pos_not_found else p
  end.
Proof.
  intros k apos x. unfold active_pos. destruct (PositiveMap.find (key x) apos) as [p|]; [|reflexivity].
  destruct (p =? pos_not_found); reflexivity.
Qed.

Lemma active_pos_packed : forall k apos x b off, b < two32 -> off <= max_doc_offset ->
  PositiveMap.find (key x) apos = Some (raw_pos b off) ->
  active_pos k apos x = if k <=? b then pos_not_found else raw_pos b off.
Proof.
  intros k apos x b off Hb Ho H. rewrite active_pos_spec, H.
  destruct (pack_unpack b off Hb Ho) as [_ [HU [HN _]]]. rewrite HU. cbn [fst].
  apply N.eqb_neq in HN. rewrite HN. reflexivity.
Qed.

Example active_pos_v0_refuted : exists k apos x,
  active_pos_v0 k apos x <> pos_not_found /\ k <= fst (unpack_pos (active_pos_v0 k apos x)) /\
  active_pos k apos x = pos_not_found.
Proof.
  exists 2, (build_apos [((5, 5), raw_pos 2 0)]), (5, 5).
  split; [|split].
  - intros H. vm_compute in H. discriminate H.
  - intros H. vm_compute in H. discriminate H.
  - vm_compute. reflexivity.
Qed.

(* ------------------------------------------------------------------ 5. sealed position blocks *)
Lemma pos_ikey_inj : forall i j, ikey i = ikey j -> i = j.
Proof.
  unfold ikey; intros i j H. apply N.succ_inj. rewrite <- !N.succ_pos_spec. rewrite H. reflexivity.
Qed.

Lemma build_ptab_find : forall l i t k, PositiveMap.find (ikey k) (build_ptab l i t) =
  if (i <=? k) && (k <? i + N.of_nat (length l)) then nth_error l (N.to_nat (k - i)) else PositiveMap.find (ikey k) t.
Proof.
  induction l as [|e r IH]; intros i t k.
  - cbn [build_ptab]. replace ((i <=? k) && (k <? i + N.of_nat (length (@nil N)))) with false; [reflexivity|].
    symmetry. apply andb_false_iff. destruct (i <=? k) eqn:E; [right|left; reflexivity].
    apply N.leb_le in E. apply N.ltb_ge. cbn [length]. lia.
  - cbn [build_ptab]. rewrite IH.
    assert (HL : N.of_nat (length (e :: r)) = N.of_nat (length r) + 1) by (cbn [length]; lia).
    rewrite HL. clear HL.
    replace (i + 1 + N.of_nat (length r)) with (i + (N.of_nat (length r) + 1)) by lia.
    destruct (i + 1 <=? k) eqn:E1.
    + apply N.leb_le in E1. assert (E2 : (i <=? k) = true) by (apply N.leb_le; lia). rewrite E2. cbn [andb].
      destruct (k <? i + (N.of_nat (length r) + 1)).
      * replace (N.to_nat (k - i)) with (S (N.to_nat (k - (i + 1)))) by lia. reflexivity.
      * rewrite PositiveMap.gso; [reflexivity|]. intros H. apply pos_ikey_inj in H. lia.
    + apply N.leb_gt in E1. cbn [andb].
      destruct (i <=? k) eqn:E2.
      * apply N.leb_le in E2. assert (k = i) by lia. subst k.
        assert (E3 : (i <? i + (N.of_nat (length r) + 1)) = true) by (apply N.ltb_lt; lia).
        rewrite E3. cbn [andb]. rewrite N.sub_diag. cbn [N.to_nat nth_error]. apply PositiveMap.gss.
      * cbn [andb]. apply N.leb_gt in E2. rewrite PositiveMap.gso; [reflexivity|].
        intros H. apply pos_ikey_inj in H. lia.
Qed.

Lemma pos_by_lids_ok : forall g ptab lids prev, 1 <= ipb g ->
  Forall (fun l => l < N.of_nat (length ptab)) lids ->
  (forall pi ps, prev = Some (pi, ps) -> ps = pi * ipb g) ->
  pos_by_lids g (build_ptab ptab 0 (PositiveMap.empty _)) (N.of_nat (length ptab)) prev lids =
  Ok (map (fun l => if l =? 0 then pos_not_found else nth (N.to_nat l) ptab 0) lids).
Proof.
  intros g ptab lids. induction lids as [|l r IH]; intros prev Hg Hl Hp; [reflexivity|].
  inversion Hl as [|? ? Hl1 Hl2]; subst.
  cbn [pos_by_lids map]. destruct (l =? 0) eqn:E0.
  - rewrite (IH prev Hg Hl2 Hp). reflexivity.
  - apply N.eqb_neq in E0.
    set (q := l / ipb g).
    assert (HP : match prev with
                 | Some (pi, ps) => if pi =? q then (pi, ps) else (q, q * ipb g)
                 | None => (q, q * ipb g) end = (q, q * ipb g)).
    { destruct prev as [[pi ps]|]; [|reflexivity]. destruct (pi =? q) eqn:E; [|reflexivity].
      apply N.eqb_eq in E. rewrite (Hp pi ps eq_refl), E. reflexivity. }
    rewrite HP. clear HP.
    assert (Hd : l = ipb g * q + l mod ipb g) by (apply N.div_mod; lia).
    assert (Hm : l mod ipb g < ipb g) by (apply N.mod_lt; lia).
    replace ((q + 1) * ipb g) with (q * ipb g + ipb g) by lia.
    rewrite (N.mul_comm (ipb g) q) in Hd.
    set (m := q * ipb g) in *. set (n := N.of_nat (length ptab)) in *.
    assert (E1 : (N.min (m + ipb g) n - m =? 0) = false) by (apply N.eqb_neq; lia).
    assert (E2 : (l - m <? N.min (m + ipb g) n - m) = true) by (apply N.ltb_lt; lia).
    rewrite E1, E2. cbn [orb negb].
    replace (m + (l - m)) with l by lia.
    rewrite build_ptab_find. fold n.
    replace ((0 <=? l) && (l <? 0 + n)) with true.
    2:{ symmetry. apply andb_true_iff. split; [apply N.leb_le|apply N.ltb_lt]; lia. }
    rewrite N.sub_0_r.
    assert (Hn : nth_error ptab (N.to_nat l) = Some (nth (N.to_nat l) ptab 0)).
    { apply nth_error_nth'. unfold n in Hl1. lia. }
    rewrite Hn. rewrite (IH (Some (q, m)) Hg Hl2).
    + reflexivity.
    + intros pi ps H. inversion H; subst. reflexivity.
Qed.
