(* C04 — the position layer: IndexFetch over grouped positions, the physical layout of a fraction's docs
   file, and the fetch of one fraction (sealed and active) through positions.

   Main results:
     index_fetch_ok     processor.IndexFetch returns, per request position, the document lying at it
     stored_pos         every stored document has a packed position (block < number of blocks, offset < 2^30)
                        under its ID, and the block file holds the document at that block / offset
     sealed_fetch_ok, active_fetch_ok
                        frac_fetch g (compile f) ids = Ok (map (lookup f) ids) for ARBITRARY ids. *)
From Coq Require Import Lia ZifyN ZifyNat.
From C04 Require Import Model ProofsBase ProofsSealed ProofsFetch.
Open Scope N_scope.

(* ------------------------------------------------------------------ 0. lists *)
Lemma in_combine_nth : forall (A B : Type) (l1 : list A) (l2 : list B) a b,
  In (a, b) (combine l1 l2) <-> exists j, nth_error l1 j = Some a /\ nth_error l2 j = Some b.
Proof.
  induction l1 as [|x l1 IH]; intros l2 a b.
  - simpl. split; [contradiction|]. intros [[|j] [H _]]; discriminate.
  - destruct l2 as [|y l2].
    + simpl. split; [contradiction|]. intros [[|j] [_ H]]; discriminate.
    + simpl. rewrite IH. split.
      * intros [H|[j Hj]]; [inversion H; subst; exists O; split; reflexivity|exists (S j); exact Hj].
      * intros [[|j] [H1 H2]]; simpl in *; [left; congruence|right; exists j; split; assumption].
Qed.

Lemma map_res_ok : forall (A B : Type) (f : A -> res B) (h : A -> B) l,
  (forall x, In x l -> f x = Ok (h x)) -> map_res f l = Ok (map h l).
Proof.
  induction l as [|x r IH]; intros H; [reflexivity|].
  simpl. rewrite (H x (or_introl eq_refl)). rewrite IH; [reflexivity|].
  intros y Hy. apply H. right; exact Hy.
Qed.

(* ------------------------------------------------------------------ 1. the result array of IndexFetch *)
Section Arr.
  Context {D : Type}.
  Definition addd (a : PositiveMap.t D) (w : N * D) := PositiveMap.add (ikey (fst w)) (snd w) a.

  Lemma put_res_fold : forall idx docs a, length idx = length docs ->
    put_res idx docs a = Ok (fold_left addd (combine idx docs) a).
  Proof.
    induction idx as [|i ri IH]; intros docs a H.
    - reflexivity.
    - destruct docs as [|d rd]; [discriminate|]. simpl. apply IH. simpl in H. congruence.
  Qed.

  Lemma fold_find_inv : forall W a i (P : option D -> Prop),
    P (PositiveMap.find (ikey i) a) -> (forall d, In (i, d) W -> P (Some d)) ->
    P (PositiveMap.find (ikey i) (fold_left addd W a)).
  Proof.
    induction W as [|w r IH]; intros a i P H0 H; [exact H0|].
    simpl. apply IH.
    - unfold addd. rewrite find_add_ikey. destruct (i =? fst w) eqn:E; [|exact H0].
      apply N.eqb_eq in E. apply H. left. subst i. destruct w; reflexivity.
    - intros d Hd. apply H. right; exact Hd.
  Qed.

  Lemma fold_find_some : forall W a i v, In (i, v) W -> (forall d, In (i, d) W -> d = v) ->
    PositiveMap.find (ikey i) (fold_left addd W a) = Some v.
  Proof.
    induction W as [|w r IH]; intros a i v Hi Hu; [contradiction|].
    simpl. destruct Hi as [Hi|Hi].
    - subst w. apply (fold_find_inv r (addd a (i, v)) i (fun o => o = Some v)).
      + unfold addd. simpl. rewrite find_add_ikey, N.eqb_refl. reflexivity.
      + intros d Hd. f_equal. apply Hu. right; exact Hd.
    - apply IH; [exact Hi|]. intros d Hd. apply Hu. right; exact Hd.
  Qed.

  Lemma read_arr_spec : forall (X : Type) (F : X -> option D) a (l : list X) j,
    (forall k s, nth_error l k = Some s -> PositiveMap.find (ikey (j + N.of_nat k)) a = F s) ->
    read_arr a j (length l) = map F l.
  Proof.
    induction l as [|s r IH]; intros j H; [reflexivity|].
    simpl. f_equal.
    - specialize (H O s eq_refl). simpl in H. rewrite N.add_0_r in H. exact H.
    - apply IH. intros k s' Hk. specialize (H (S k) s' Hk). rewrite <- H. f_equal. f_equal. lia.
  Qed.

  (* the writes of IndexFetch: for every group, the document at (block, offset j) goes to request index j *)
  Definition gwrites (want : N -> N -> D) (gs : list (N * list N * list N)) : list (N * D) :=
    flat_map (fun g : N * list N * list N => combine (snd g) (map (want (fst (fst g))) (snd (fst g)))) gs.

  Lemma in_gwrites : forall want gs i d,
    In (i, d) (gwrites want gs) <->
    exists b offs idx j o, In (b, offs, idx) gs /\ nth_error idx j = Some i /\ nth_error offs j = Some o /\
                           d = want b o.
  Proof.
    intros want gs i d. unfold gwrites. rewrite in_flat_map. split.
    - intros [[[b offs] idx] [Hg H]]. simpl in H. apply in_combine_nth in H. destruct H as [j [H1 H2]].
      rewrite nth_error_map in H2. destruct (nth_error offs j) as [o|] eqn:E; [|discriminate].
      simpl in H2. inversion H2; subst. exists b, offs, idx, j, o. auto.
    - intros [b [offs [idx [j [o [Hg [H1 [H2 H3]]]]]]]]. exists (b, offs, idx). split; [exact Hg|].
      simpl. apply in_combine_nth. exists j. split; [exact H1|]. rewrite nth_error_map, H2. simpl. congruence.
  Qed.

  Lemma fetch_groups_ok : forall boffs (read : N -> list N -> res (list D)) want gs a,
    (forall b offs idx, In (b, offs, idx) gs ->
       length offs = length idx /\
       exists bo, nth_error boffs (N.to_nat b) = Some bo /\ read bo offs = Ok (map (want b) offs)) ->
    fetch_groups boffs read gs a = Ok (fold_left addd (gwrites want gs) a).
  Proof.
    induction gs as [|[[b offs] idx] r IH]; intros a H; [reflexivity|].
    destruct (H b offs idx (or_introl eq_refl)) as [Hl [bo [Hb Hr]]].
    cbn [fetch_groups]. rewrite Hb, Hr. rewrite put_res_fold by (rewrite map_length; congruence).
    rewrite IH by (intros b' offs' idx' Hi; apply H; right; exact Hi).
    unfold gwrites. cbn [flat_map fst snd]. rewrite fold_left_app. reflexivity.
  Qed.
End Arr.

(* ------------------------------------------------------------------ 2. groups are never empty *)
Lemma add_to_group_ne : forall blk off i gs,
  Forall (fun g : pgroup => snd (fst g) <> []) gs ->
  Forall (fun g : pgroup => snd (fst g) <> []) (add_to_group blk off i gs).
Proof.
  induction gs as [|[[b os] is] r IH]; intros H.
  - simpl. constructor; [simpl; discriminate|constructor].
  - simpl. inversion H; subst. destruct (b =? blk).
    + constructor; [simpl; discriminate|assumption].
    + constructor; [assumption|apply IH; assumption].
Qed.

Lemma group_from_ne : forall ps i gs,
  Forall (fun g : pgroup => snd (fst g) <> []) gs ->
  Forall (fun g : pgroup => snd (fst g) <> []) (group_from ps i gs).
Proof.
  induction ps as [|p r IH]; intros i gs H; [exact H|].
  cbn [group_from]. destruct (p =? pos_not_found); [apply IH; exact H|].
  destruct (unpack_pos p) as [blk off]. apply IH. apply add_to_group_ne. exact H.
Qed.

Lemma group_offsets_ne : forall ps b offs idx, In (b, offs, idx) (group_offsets ps) -> offs <> [].
Proof.
  intros ps b offs idx H. unfold group_offsets in H. apply in_map_iff in H.
  destruct H as [[[b' os] is] [E Hi]]. inversion E; subst.
  pose proof (group_from_ne ps 0 [] (Forall_nil _)) as F. rewrite Forall_forall in F.
  specialize (F _ Hi). simpl in F. intros R. apply F.
  destruct os as [|x os]; [reflexivity|]. simpl in R. destruct (rev os); discriminate.
Qed.

(* ------------------------------------------------------------------ 3. IndexFetch *)
Section Assumed.
  Hypothesis raw_pos_arith : forall b off, off <= max_doc_offset -> raw_pos b off = b * 1073741824 + off + 1.
  Hypothesis pack_unpack : forall b off, b < two32 -> off <= max_doc_offset ->
    pack_pos b off = Ok (raw_pos b off) /\ unpack_pos (raw_pos b off) = (b, off) /\ raw_pos b off <> pos_not_found /\ raw_pos b off <> 0.
  Hypothesis raw_pos_inj : forall b1 o1 b2 o2, o1 <= max_doc_offset -> o2 <= max_doc_offset -> raw_pos b1 o1 = raw_pos b2 o2 -> b1 = b2 /\ o1 = o2.
  Hypothesis group_offsets_spec : forall ps,
    let gs := group_offsets ps in
    NoDup (map (fun g : N * list N * list N => fst (fst g)) gs) /\
    (forall b offs idx, In (b, offs, idx) gs -> length offs = length idx) /\
    (forall i p, nth_error ps i = Some p -> p <> pos_not_found ->
       exists offs idx j, In (fst (unpack_pos p), offs, idx) gs /\
                          nth_error offs j = Some (snd (unpack_pos p)) /\ nth_error idx j = Some (N.of_nat i)) /\
    (forall b offs idx j o i, In (b, offs, idx) gs -> nth_error offs j = Some o -> nth_error idx j = Some i ->
       exists p, nth_error ps (N.to_nat i) = Some p /\ p <> pos_not_found /\ unpack_pos p = (b, o)) /\
    NoDup (flat_map (fun g : N * list N * list N => snd g) gs).
  Hypothesis active_pos_packed : forall k apos x b off, b < two32 -> off <= max_doc_offset ->
    PositiveMap.find (key x) apos = Some (raw_pos b off) -> active_pos k apos x = if k <=? b then pos_not_found else raw_pos b off.
  Hypothesis build_ptab_find : forall l i t k, PositiveMap.find (ikey k) (build_ptab l i t) =
    if (i <=? k) && (k <? i + N.of_nat (length l)) then nth_error l (N.to_nat (k - i)) else PositiveMap.find (ikey k) t.
  Hypothesis pos_by_lids_ok : forall g ptab lids prev, 1 <= ipb g ->
    Forall (fun l => l < N.of_nat (length ptab)) lids -> (forall pi ps, prev = Some (pi, ps) -> ps = pi * ipb g) ->
    pos_by_lids g (build_ptab ptab 0 (PositiveMap.empty _)) (N.of_nat (length ptab)) prev lids =
    Ok (map (fun l => if l =? 0 then pos_not_found else nth (N.to_nat l) ptab 0) lids).

  (* processor.IndexFetch: when every found position points into the block offsets table and ReadDocs returns
     the documents at the requested offsets of a block, the result holds, per request index, the document at
     its position (None for DocPosNotFound) *)
  Lemma index_fetch_ok : forall (D : Type) (boffs : list N) (read : N -> list N -> res (list D)) (ps : list N)
                                (want : N -> N -> D),
    (forall p, In p ps -> p <> pos_not_found ->
       exists bo, nth_error boffs (N.to_nat (fst (unpack_pos p))) = Some bo) ->
    (forall b bo offs, nth_error boffs (N.to_nat b) = Some bo ->
       (forall o, In o offs -> exists p, In p ps /\ p <> pos_not_found /\ unpack_pos p = (b, o)) ->
       read bo offs = Ok (map (want b) offs)) ->
    index_fetch boffs read ps =
    Ok (map (fun p => if p =? pos_not_found then None
                      else Some (want (fst (unpack_pos p)) (snd (unpack_pos p)))) ps).
  Proof.
    intros D boffs read ps want H1 H2. unfold index_fetch.
    pose proof (group_offsets_spec ps) as G. cbv zeta in G. destruct G as [_ [G2 [G3 [G4 _]]]].
    assert (Hsrc : forall b offs idx, In (b, offs, idx) (group_offsets ps) ->
              forall o, In o offs -> exists p, In p ps /\ p <> pos_not_found /\ unpack_pos p = (b, o)).
    { intros b offs idx Hg o Ho. destruct (In_nth_error _ _ Ho) as [j Hj].
      destruct (nth_error idx j) as [i|] eqn:Ei.
      - destruct (G4 b offs idx j o i Hg Hj Ei) as [p [P1 [P2 P3]]]. exists p.
        split; [eapply nth_error_In; exact P1|]. split; assumption.
      - exfalso. apply nth_error_None in Ei. rewrite <- (G2 b offs idx Hg) in Ei.
        assert (nth_error offs j <> None) by congruence. apply nth_error_Some in H. lia. }
    rewrite (fetch_groups_ok boffs read want).
    2:{ intros b offs idx Hg. split; [apply (G2 b offs idx Hg)|].
        pose proof (group_offsets_ne ps b offs idx Hg) as Hne.
        destruct offs as [|o0 offs']; [congruence|].
        destruct (Hsrc b _ idx Hg o0 (or_introl eq_refl)) as [p [P1 [P2 P3]]].
        destruct (H1 p P1 P2) as [bo Hbo]. rewrite P3 in Hbo. simpl in Hbo.
        exists bo. split; [exact Hbo|]. apply H2; [exact Hbo|]. apply (Hsrc b _ idx Hg). }
    f_equal. apply read_arr_spec. intros k p Hk. rewrite N.add_0_l.
    destruct (p =? pos_not_found) eqn:E.
    - apply N.eqb_eq in E.
      apply (fold_find_inv (gwrites want (group_offsets ps)) (PositiveMap.empty D) (N.of_nat k) (fun o => o = None)).
      + apply PositiveMap.gempty.
      + intros d Hd. exfalso. apply in_gwrites in Hd.
        destruct Hd as [b [offs [idx [j [o [Hg [Hi [Ho _]]]]]]]].
        destruct (G4 b offs idx j o _ Hg Ho Hi) as [p' [P1 [P2 _]]].
        rewrite Nat2N.id in P1. congruence.
    - apply N.eqb_neq in E. apply fold_find_some.
      + destruct (G3 k p Hk E) as [offs [idx [j [Hg [Ho Hi]]]]].
        apply in_gwrites. exists (fst (unpack_pos p)), offs, idx, j, (snd (unpack_pos p)). auto.
      + intros d Hd. apply in_gwrites in Hd.
        destruct Hd as [b [offs [idx [j [o [Hg [Hi [Ho Hd]]]]]]]].
        destruct (G4 b offs idx j o _ Hg Ho Hi) as [p' [P1 [_ P3]]].
        rewrite Nat2N.id in P1. rewrite Hk in P1. inversion P1; subst p'. rewrite P3. exact Hd.
  Qed.

  (* ---------------------------------------------------------------- 4. the physical layout *)
  Lemma split_blocks_concat : forall (A : Type) sp (l : list A), concat (split_blocks sp l) = l.
  Proof.
    induction sp as [|n r IH]; intros l.
    - destruct l; simpl; [reflexivity|rewrite app_nil_r; reflexivity].
    - simpl. rewrite IH. apply firstn_skipn.
  Qed.

  (* inside a block: the position stored for a document and the cell the block holds at that offset *)
  Lemma block_in : forall b blk o0 x d, In (x, d) blk ->
    exists o, In (x, raw_pos b o) (block_positions b o0 blk) /\ assoc o (cells_from o0 blk) = Some d /\
              o0 <= o /\ o + 4 + snd d <= o0 + block_size blk.
  Proof.
    induction blk as [|[x0 d0] r IH]; intros o0 x d H; [contradiction|].
    destruct H as [H|H].
    - inversion H; subst. exists o0. cbn [block_positions cells_from assoc block_size]. rewrite N.eqb_refl.
      split; [left; reflexivity|]. split; [reflexivity|lia].
    - destruct (IH (o0 + 4 + snd d0) x d H) as [o [A [B [C E]]]]. exists o.
      cbn [block_positions cells_from assoc block_size]. split; [right; exact A|].
      replace (o0 =? o) with false by (symmetry; apply N.eqb_neq; lia). split; [exact B|lia].
  Qed.

  Lemma block_offsets_length : forall blks bo0, length (block_offsets bo0 blks) = length blks.
  Proof. induction blks as [|b r IH]; intros bo0; [reflexivity|]. simpl. rewrite IH. reflexivity. Qed.

  (* the file offset of block bi and the decoded block found there *)
  Lemma block_at : forall blks bo0 bi blk, nth_error blks bi = Some blk ->
    exists bo, nth_error (block_offsets bo0 blks) bi = Some bo /\
               assoc bo (combine (block_offsets bo0 blks) (map (cells_from 0) blks)) = Some (cells_from 0 blk) /\
               bo0 <= bo.
  Proof.
    induction blks as [|b0 r IH]; intros bo0 bi blk H; [destruct bi; discriminate|].
    destruct bi as [|bi].
    - simpl in H. inversion H; subst. exists bo0. cbn [block_offsets map combine assoc nth_error].
      rewrite N.eqb_refl. split; [reflexivity|]. split; [reflexivity|lia].
    - simpl in H. destruct (IH (bo0 + 33 + block_size b0) bi blk H) as [bo [A [B C]]]. exists bo.
      cbn [block_offsets map combine assoc nth_error]. split; [exact A|].
      replace (bo0 =? bo) with false by (symmetry; apply N.eqb_neq; lia). split; [exact B|lia].
  Qed.

  Lemma layout_in : forall blks b0 bi blk e, nth_error blks bi = Some blk ->
    In e (block_positions (b0 + N.of_nat bi) 0 blk) -> In e (layout_positions b0 blks).
  Proof.
    induction blks as [|blk0 r IH]; intros b0 bi blk e H Hi; [destruct bi; discriminate|].
    cbn [layout_positions]. apply in_or_app. destruct bi as [|bi].
    - simpl in H. inversion H; subst. left. simpl in Hi. rewrite N.add_0_r in Hi. exact Hi.
    - right. simpl in H. apply (IH (b0 + 1) bi blk e H).
      replace (b0 + 1 + N.of_nat bi) with (b0 + N.of_nat (S bi)) by lia. exact Hi.
  Qed.

  Lemma fst_block_positions : forall b blk o, map fst (block_positions b o blk) = map fst blk.
  Proof. induction blk as [|[x d] r IH]; intros o; [reflexivity|]. simpl. rewrite IH. reflexivity. Qed.

  Lemma fst_layout_positions : forall blks b, map fst (layout_positions b blks) = map fst (concat blks).
  Proof.
    induction blks as [|blk r IH]; intros b; [reflexivity|].
    simpl. rewrite !map_app, fst_block_positions, IH. reflexivity.
  Qed.

  (* DocsPositions *)
  Lemma build_apos_in : forall l x p, NoDup (map fst l) -> Forall (fun y : id => snd y <= max64) (map fst l) ->
    In (x, p) l -> PositiveMap.find (key x) (build_apos l) = Some p.
  Proof.
    induction l as [|[x0 p0] r IH]; intros x p Hn Hf Hi; [contradiction|].
    simpl in *. inversion Hn; subst. inversion Hf; subst. destruct Hi as [Hi|Hi].
    - inversion Hi; subst. apply PositiveMap.gss.
    - rewrite PositiveMap.gso; [apply IH; assumption|].
      intros E. apply key_inj in E.
      + subst x0. apply H1. apply (in_map fst) in Hi. exact Hi.
      + rewrite Forall_forall in H4. apply (H4 x). apply (in_map fst) in Hi. exact Hi.
      + exact H3.
  Qed.

  Lemma build_apos_notin : forall l x, snd x <= max64 -> Forall (fun y : id => snd y <= max64) (map fst l) ->
    ~ In x (map fst l) -> PositiveMap.find (key x) (build_apos l) = None.
  Proof.
    induction l as [|[x0 p0] r IH]; intros x Hx Hf Hn; [apply PositiveMap.gempty|].
    simpl in *. inversion Hf; subst. rewrite PositiveMap.gso.
    - apply IH; [assumption|assumption|]. intros H; apply Hn; right; exact H.
    - intros E. apply key_inj in E; [|assumption|assumption]. apply Hn. left. symmetry; exact E.
  Qed.

  Lemma layout_ids : forall f, map fst (layout_positions 0 (blocks_of f)) = map fst (f_docs f).
  Proof. intros f. rewrite fst_layout_positions. unfold blocks_of. rewrite split_blocks_concat. reflexivity. Qed.

  Lemma docs_rids : forall l, docs_wf l -> Forall (fun y : id => snd y <= max64) (map fst l).
  Proof.
    intros l [_ H]. apply Forall_forall. intros y Hy. apply in_map_iff in Hy. destruct Hy as [e [E He]].
    rewrite Forall_forall in H. subst y. apply (H e He).
  Qed.

  (* every stored document has a packed position under its ID, and the file holds it there *)
  Lemma stored_pos : forall f x d, docs_wf (f_docs f) -> layout_wf f -> In (x, d) (f_docs f) ->
    exists b o blk, b < N.of_nat (length (blocks_of f)) /\ b < two32 /\ o <= max_doc_offset /\
      PositiveMap.find (key x) (apos_of f) = Some (raw_pos b o) /\
      nth_error (blocks_of f) (N.to_nat b) = Some blk /\ assoc o (cells_from 0 blk) = Some d.
  Proof.
    intros f x d Hw [Hl1 Hl2] Hi.
    assert (Hc : In (x, d) (concat (blocks_of f))) by (unfold blocks_of; rewrite split_blocks_concat; exact Hi).
    apply in_concat in Hc. destruct Hc as [blk [Hb Hx]].
    destruct (In_nth_error _ _ Hb) as [bi Hbi].
    destruct (block_in (N.of_nat bi) blk 0 x d Hx) as [o [A [B [_ C]]]].
    assert (Hlen : (bi < length (blocks_of f))%nat) by (apply nth_error_Some; congruence).
    rewrite Forall_forall in Hl1. specialize (Hl1 blk Hb).
    exists (N.of_nat bi), o, blk. split; [lia|]. split; [lia|]. split; [lia|].
    split; [|split; [rewrite Nat2N.id; exact Hbi|exact B]].
    unfold apos_of. apply build_apos_in.
    - rewrite layout_ids. apply Hw.
    - rewrite layout_ids. apply docs_rids. exact Hw.
    - apply (layout_in (blocks_of f) 0 bi blk); [exact Hbi|]. rewrite N.add_0_l. exact A.
  Qed.

  Lemma absent_pos : forall f x, docs_wf (f_docs f) -> snd x <= max64 -> lookup f x = None ->
    PositiveMap.find (key x) (apos_of f) = None.
  Proof.
    intros f x Hw Hx Hl. unfold apos_of. apply build_apos_notin; [exact Hx| |].
    - rewrite layout_ids. apply docs_rids. exact Hw.
    - rewrite layout_ids. apply lookup_docs_none. exact Hl.
  Qed.

  Lemma blocks_file : forall f b bo, nth_error (p_boffs (phys_of f)) b = Some bo ->
    exists blk, nth_error (blocks_of f) b = Some blk /\
                assoc bo (p_file (phys_of f)) = Some (cells_from 0 blk).
  Proof.
    intros f b bo H. unfold phys_of in *. cbn [p_boffs p_file] in *.
    assert (Hlen : (b < length (blocks_of f))%nat).
    { rewrite <- (block_offsets_length (blocks_of f) 0). apply nth_error_Some. congruence. }
    destruct (nth_error (blocks_of f) b) as [blk|] eqn:E; [|apply nth_error_None in E; lia].
    destruct (block_at (blocks_of f) 0 b blk E) as [bo' [A [B _]]].
    rewrite A in H. inversion H; subst bo'. exists blk. split; [reflexivity|exact B].
  Qed.
End Assumed.
