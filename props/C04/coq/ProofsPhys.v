(* C04 — the position layer: IndexFetch over grouped positions, the physical layout of a fraction's docs
   file, and the fetch of one fraction (sealed and active) through positions.

   Main results:
     index_fetch_ok     processor.IndexFetch returns, per request position, the document lying at it
     stored_pos         every stored document has a packed position (block < number of blocks, offset < 2^30)
                        under its ID, and the block file holds the document at that block / offset
     sealed_fetch_ok, active_fetch_ok
                        frac_fetch g (compile f) ids = Ok (map (lookup f) ids) for ARBITRARY ids. *)
From Coq Require Import Lia ZifyN ZifyNat.
From C04 Require Import Model ProofsBase ProofsSealed ProofsFetch ProofsPos.
Open Scope N_scope.

(* ------------------------------------------------------------------ 0. lists *)
Lemma in_combine_nth : forall (A B : Type) (l1 : list A) (l2 : list B) a b,
  In (a, b) (combine l1 l2) <-> exists j, nth_error l1 j = Some a /\ nth_error l2 j = Some b.
Proof.
  induction l1 as [|x l1 IH]; intros l2 a b.
  - simpl. split; [contradiction|]. intros [[|j] [H _]]; discriminate.
  - destruct l2 as [|y l2].
    + simpl. split; [contradiction|]. intros [[|j] [_ H]]; discriminate.
    + simpl. rewrite IH. split.
      * intros [H|[j Hj]]; [inversion H; subst; exists O; split; reflexivity|exists (S j); exact Hj].
      * intros [[|j] [H1 H2]]; simpl in *; [left; congruence|right; exists j; split; assumption].
Qed.

Lemma map_res_ok : forall (A B : Type) (f : A -> res B) (h : A -> B) l,
  (forall x, In x l -> f x = Ok (h x)) -> map_res f l = Ok (map h l).
Proof.
  induction l as [|x r IH]; intros H; [reflexivity|].
  simpl. rewrite (H x (or_introl eq_refl)). rewrite IH; [reflexivity|].
  intros y Hy. apply H. right; exact Hy.
Qed.

(* ------------------------------------------------------------------ 1. the result array of IndexFetch *)
Section Arr.
  Context {D : Type}.
  Definition addd (a : PositiveMap.t D) (w : N * D) := PositiveMap.add (ikey (fst w)) (snd w) a.

  Lemma put_res_fold : forall idx docs a, length idx = length docs ->
    put_res idx docs a = Ok (fold_left addd (combine idx docs) a).
  Proof.
    induction idx as [|i ri IH]; intros docs a H.
    - reflexivity.
    - destruct docs as [|d rd]; [discriminate|]. simpl. apply IH. simpl in H. congruence.
  Qed.

  Lemma fold_find_inv : forall W a i (P : option D -> Prop),
    P (PositiveMap.find (ikey i) a) -> (forall d, In (i, d) W -> P (Some d)) ->
    P (PositiveMap.find (ikey i) (fold_left addd W a)).
  Proof.
    induction W as [|w r IH]; intros a i P H0 H; [exact H0|].
    simpl. apply IH.
    - unfold addd. rewrite find_add_ikey. destruct (i =? fst w) eqn:E; [|exact H0].
      apply N.eqb_eq in E. apply H. left. subst i. destruct w; reflexivity.
    - intros d Hd. apply H. right; exact Hd.
  Qed.

  Lemma fold_find_some : forall W a i v, In (i, v) W -> (forall d, In (i, d) W -> d = v) ->
    PositiveMap.find (ikey i) (fold_left addd W a) = Some v.
  Proof.
    induction W as [|w r IH]; intros a i v Hi Hu; [contradiction|].
    simpl. destruct Hi as [Hi|Hi].
    - subst w. apply (fold_find_inv r (addd a (i, v)) i (fun o => o = Some v)).
      + unfold addd. simpl. rewrite find_add_ikey, N.eqb_refl. reflexivity.
      + intros d Hd. f_equal. apply Hu. right; exact Hd.
    - apply IH; [exact Hi|]. intros d Hd. apply Hu. right; exact Hd.
  Qed.

  Lemma read_arr_spec : forall (X : Type) (F : X -> option D) a (l : list X) j,
    (forall k s, nth_error l k = Some s -> PositiveMap.find (ikey (j + N.of_nat k)) a = F s) ->
    read_arr a j (length l) = map F l.
  Proof.
    induction l as [|s r IH]; intros j H; [reflexivity|].
    simpl. f_equal.
    - specialize (H O s eq_refl). simpl in H. rewrite N.add_0_r in H. exact H.
    - apply IH. intros k s' Hk. specialize (H (S k) s' Hk). rewrite <- H. f_equal. f_equal. lia.
  Qed.

  (* the writes of IndexFetch: for every group, the document at (block, offset j) goes to request index j *)
  Definition gwrites (want : N -> N -> D) (gs : list (N * list N * list N)) : list (N * D) :=
    flat_map (fun g : N * list N * list N => combine (snd g) (map (want (fst (fst g))) (snd (fst g)))) gs.

  Lemma in_gwrites : forall want gs i d,
    In (i, d) (gwrites want gs) <->
    exists b offs idx j o, In (b, offs, idx) gs /\ nth_error idx j = Some i /\ nth_error offs j = Some o /\
                           d = want b o.
  Proof.
    intros want gs i d. unfold gwrites. rewrite in_flat_map. split.
    - intros [[[b offs] idx] [Hg H]]. simpl in H. apply in_combine_nth in H. destruct H as [j [H1 H2]].
      rewrite nth_error_map in H2. destruct (nth_error offs j) as [o|] eqn:E; [|discriminate].
      simpl in H2. inversion H2; subst. exists b, offs, idx, j, o. auto.
    - intros [b [offs [idx [j [o [Hg [H1 [H2 H3]]]]]]]]. exists (b, offs, idx). split; [exact Hg|].
      simpl. apply in_combine_nth. exists j. split; [exact H1|]. rewrite nth_error_map, H2. simpl. congruence.
  Qed.

  Lemma fetch_groups_ok : forall boffs (read : N -> list N -> res (list D)) want gs a,
    (forall b offs idx, In (b, offs, idx) gs ->
       length offs = length idx /\
       exists bo, nth_error boffs (N.to_nat b) = Some bo /\ read bo offs = Ok (map (want b) offs)) ->
    fetch_groups boffs read gs a = Ok (fold_left addd (gwrites want gs) a).
  Proof.
    induction gs as [|[[b offs] idx] r IH]; intros a H; [reflexivity|].
    destruct (H b offs idx (or_introl eq_refl)) as [Hl [bo [Hb Hr]]].
    cbn [fetch_groups]. rewrite Hb, Hr. rewrite put_res_fold by (rewrite map_length; congruence).
    rewrite IH by (intros b' offs' idx' Hi; apply H; right; exact Hi).
    unfold gwrites. cbn [flat_map fst snd]. rewrite fold_left_app. reflexivity.
  Qed.
End Arr.

(* ------------------------------------------------------------------ 2. groups are never empty *)
Lemma add_to_group_ne : forall blk off i gs,
  Forall (fun g : pgroup => snd (fst g) <> []) gs ->
  Forall (fun g : pgroup => snd (fst g) <> []) (add_to_group blk off i gs).
Proof.
  induction gs as [|[[b os] is] r IH]; intros H.
  - simpl. constructor; [simpl; discriminate|constructor].
  - simpl. inversion H; subst. destruct (b =? blk).
    + constructor; [simpl; discriminate|assumption].
    + constructor; [assumption|apply IH; assumption].
Qed.

Lemma group_from_ne : forall ps i gs,
  Forall (fun g : pgroup => snd (fst g) <> []) gs ->
  Forall (fun g : pgroup => snd (fst g) <> []) (group_from ps i gs).
Proof.
  induction ps as [|p r IH]; intros i gs H; [exact H|].
  cbn [group_from]. destruct (p =? pos_not_found); [apply IH; exact H|].
  destruct (unpack_pos p) as [blk off]. apply IH. apply add_to_group_ne. exact H.
Qed.

Lemma group_offsets_ne : forall ps b offs idx, In (b, offs, idx) (group_offsets ps) -> offs <> [].
Proof.
  intros ps b offs idx H. unfold group_offsets in H. apply in_map_iff in H.
  destruct H as [[[b' os] is] [E Hi]]. inversion E; subst.
  pose proof (group_from_ne ps 0 [] (Forall_nil _)) as F. rewrite Forall_forall in F.
  specialize (F _ Hi). simpl in F. intros R. apply F.
  destruct os as [|x os]; [reflexivity|]. simpl in R. destruct (rev os); discriminate.
Qed.

(* ------------------------------------------------------------------ 3. IndexFetch *)
(* processor.IndexFetch: when every found position points into the block offsets table and ReadDocs returns
   the documents at the requested offsets of a block, the result holds, per request index, the document at
   its position (None for DocPosNotFound) *)
Lemma index_fetch_ok : forall (D : Type) (boffs : list N) (read : N -> list N -> res (list D)) (ps : list N)
                              (want : N -> N -> D),
  (forall p, In p ps -> p <> pos_not_found ->
     exists bo, nth_error boffs (N.to_nat (fst (unpack_pos p))) = Some bo) ->
  (forall b bo offs, nth_error boffs (N.to_nat b) = Some bo ->
     (forall o, In o offs -> exists p, In p ps /\ p <> pos_not_found /\ unpack_pos p = (b, o)) ->
     read bo offs = Ok (map (want b) offs)) ->
  index_fetch boffs read ps =
  Ok (map (fun p => if p =? pos_not_found then None
                    else Some (want (fst (unpack_pos p)) (snd (unpack_pos p)))) ps).
Proof.
  intros D boffs read ps want H1 H2. unfold index_fetch.
  pose proof (group_offsets_spec ps) as G. cbv zeta in G. destruct G as [_ [G2 [G3 [G4 _]]]].
  assert (Hsrc : forall b offs idx, In (b, offs, idx) (group_offsets ps) ->
            forall o, In o offs -> exists p, In p ps /\ p <> pos_not_found /\ unpack_pos p = (b, o)).
  { intros b offs idx Hg o Ho. destruct (In_nth_error _ _ Ho) as [j Hj].
    destruct (nth_error idx j) as [i|] eqn:Ei.
    - destruct (G4 b offs idx j o i Hg Hj Ei) as [p [P1 [P2 P3]]]. exists p.
      split; [eapply nth_error_In; exact P1|]. split; assumption.
    - exfalso. apply nth_error_None in Ei. rewrite <- (G2 b offs idx Hg) in Ei.
      assert (nth_error offs j <> None) by congruence. apply nth_error_Some in H. lia. }
  rewrite (fetch_groups_ok boffs read want).
  2:{ intros b offs idx Hg. split; [apply (G2 b offs idx Hg)|].
      pose proof (group_offsets_ne ps b offs idx Hg) as Hne.
      destruct offs as [|o0 offs']; [congruence|].
      destruct (Hsrc b _ idx Hg o0 (or_introl eq_refl)) as [p [P1 [P2 P3]]].
      destruct (H1 p P1 P2) as [bo Hbo]. rewrite P3 in Hbo. simpl in Hbo.
      exists bo. split; [exact Hbo|]. apply H2; [exact Hbo|]. apply (Hsrc b _ idx Hg). }
  f_equal. apply read_arr_spec. intros k p Hk. rewrite N.add_0_l.
  destruct (p =? pos_not_found) eqn:E.
  - apply N.eqb_eq in E.
    apply (fold_find_inv (gwrites want (group_offsets ps)) (PositiveMap.empty D) (N.of_nat k) (fun o => o = None)).
    + apply PositiveMap.gempty.
    + intros d Hd. exfalso. apply in_gwrites in Hd.
      destruct Hd as [b [offs [idx [j [o [Hg [Hi [Ho _]]]]]]]].
      destruct (G4 b offs idx j o _ Hg Ho Hi) as [p' [P1 [P2 _]]].
      rewrite Nat2N.id in P1. congruence.
  - apply N.eqb_neq in E. apply fold_find_some.
    + destruct (G3 k p Hk E) as [offs [idx [j [Hg [Ho Hi]]]]].
      apply in_gwrites. exists (fst (unpack_pos p)), offs, idx, j, (snd (unpack_pos p)). auto.
    + intros d Hd. apply in_gwrites in Hd.
      destruct Hd as [b [offs [idx [j [o [Hg [Hi [Ho Hd]]]]]]]].
      destruct (G4 b offs idx j o _ Hg Ho Hi) as [p' [P1 [_ P3]]].
      rewrite Nat2N.id in P1. rewrite Hk in P1. inversion P1; subst p'. rewrite P3. exact Hd.
Qed.

(* ---------------------------------------------------------------- 4. the physical layout *)
Lemma split_blocks_concat : forall (A : Type) sp (l : list A), concat (split_blocks sp l) = l.
Proof.
  induction sp as [|n r IH]; intros l.
  - destruct l; simpl; [reflexivity|rewrite app_nil_r; reflexivity].
  - simpl. rewrite IH. apply firstn_skipn.
Qed.

(* inside a block: the position stored for a document and the cell the block holds at that offset *)
Lemma block_in : forall b blk o0 x d, In (x, d) blk ->
  exists o, In (x, raw_pos b o) (block_positions b o0 blk) /\ assoc o (cells_from o0 blk) = Some d /\
            o0 <= o /\ o + 4 + snd d <= o0 + block_size blk.
Proof.
  induction blk as [|[x0 d0] r IH]; intros o0 x d H; [contradiction|].
  destruct H as [H|H].
  - inversion H; subst. exists o0. cbn [block_positions cells_from assoc block_size]. rewrite N.eqb_refl.
    split; [left; reflexivity|]. split; [reflexivity|lia].
  - destruct (IH (o0 + 4 + snd d0) x d H) as [o [A [B [C E]]]]. exists o.
    cbn [block_positions cells_from assoc block_size]. split; [right; exact A|].
    replace (o0 =? o) with false by (symmetry; apply N.eqb_neq; lia). split; [exact B|lia].
Qed.

Lemma block_offsets_length : forall blks bo0, length (block_offsets bo0 blks) = length blks.
Proof. induction blks as [|b r IH]; intros bo0; [reflexivity|]. simpl. rewrite IH. reflexivity. Qed.

(* the file offset of block bi and the decoded block found there *)
Lemma block_at : forall blks bo0 bi blk, nth_error blks bi = Some blk ->
  exists bo, nth_error (block_offsets bo0 blks) bi = Some bo /\
             assoc bo (combine (block_offsets bo0 blks) (map (cells_from 0) blks)) = Some (cells_from 0 blk) /\
             bo0 <= bo.
Proof.
  induction blks as [|b0 r IH]; intros bo0 bi blk H; [destruct bi; discriminate|].
  destruct bi as [|bi].
  - simpl in H. inversion H; subst. exists bo0. cbn [block_offsets map combine assoc nth_error].
    rewrite N.eqb_refl. split; [reflexivity|]. split; [reflexivity|lia].
  - simpl in H. destruct (IH (bo0 + 33 + block_size b0) bi blk H) as [bo [A [B C]]]. exists bo.
    cbn [block_offsets map combine assoc nth_error]. split; [exact A|].
    replace (bo0 =? bo) with false by (symmetry; apply N.eqb_neq; lia). split; [exact B|lia].
Qed.

Lemma layout_in : forall blks b0 bi blk e, nth_error blks bi = Some blk ->
  In e (block_positions (b0 + N.of_nat bi) 0 blk) -> In e (layout_positions b0 blks).
Proof.
  induction blks as [|blk0 r IH]; intros b0 bi blk e H Hi; [destruct bi; discriminate|].
  cbn [layout_positions]. apply in_or_app. destruct bi as [|bi].
  - simpl in H. inversion H; subst. left. simpl in Hi. rewrite N.add_0_r in Hi. exact Hi.
  - right. simpl in H. apply (IH (b0 + 1) bi blk e H).
    replace (b0 + 1 + N.of_nat bi) with (b0 + N.of_nat (S bi)) by lia. exact Hi.
Qed.

Lemma fst_block_positions : forall b blk o, map fst (block_positions b o blk) = map fst blk.
Proof. induction blk as [|[x d] r IH]; intros o; [reflexivity|]. simpl. rewrite IH. reflexivity. Qed.

Lemma fst_layout_positions : forall blks b, map fst (layout_positions b blks) = map fst (concat blks).
Proof.
  induction blks as [|blk r IH]; intros b; [reflexivity|].
  simpl. rewrite !map_app, fst_block_positions, IH. reflexivity.
Qed.

(* DocsPositions *)
Lemma build_apos_in : forall l x p, NoDup (map fst l) -> Forall (fun y : id => snd y <= max64) (map fst l) ->
  In (x, p) l -> PositiveMap.find (key x) (build_apos l) = Some p.
Proof.
  induction l as [|[x0 p0] r IH]; intros x p Hn Hf Hi; [contradiction|].
  cbn [map fst build_apos In] in *. inversion Hn; subst. inversion Hf; subst. destruct Hi as [Hi|Hi].
  - inversion Hi; subst. apply PositiveMap.gss.
  - rewrite PositiveMap.gso; [apply IH; assumption|].
    intros E. apply key_inj in E.
    + subst x0. apply H1. apply (in_map fst) in Hi. exact Hi.
    + rewrite Forall_forall in H4. apply (H4 x). apply (in_map fst) in Hi. exact Hi.
    + exact H3.
Qed.

Lemma build_apos_notin : forall l x, snd x <= max64 -> Forall (fun y : id => snd y <= max64) (map fst l) ->
  ~ In x (map fst l) -> PositiveMap.find (key x) (build_apos l) = None.
Proof.
  induction l as [|[x0 p0] r IH]; intros x Hx Hf Hn; [apply PositiveMap.gempty|].
  cbn [map fst build_apos In] in *. inversion Hf; subst. rewrite PositiveMap.gso.
  - apply IH; [assumption|assumption|]. intros H; apply Hn; right; exact H.
  - intros E. apply key_inj in E; [|assumption|assumption]. apply Hn. left. symmetry; exact E.
Qed.

Lemma layout_ids : forall f, map fst (layout_positions 0 (blocks_of f)) = map fst (f_docs f).
Proof. intros f. rewrite fst_layout_positions. unfold blocks_of. rewrite split_blocks_concat. reflexivity. Qed.

Lemma docs_rids : forall l, docs_wf l -> Forall (fun y : id => snd y <= max64) (map fst l).
Proof.
  intros l [_ H]. apply Forall_forall. intros y Hy. apply in_map_iff in Hy. destruct Hy as [e [E He]].
  rewrite Forall_forall in H. subst y. apply (H e He).
Qed.

(* every stored document has a packed position under its ID, and the file holds it there *)
Lemma stored_pos : forall f x d, docs_wf (f_docs f) -> layout_wf f -> In (x, d) (f_docs f) ->
  exists b o blk, b < N.of_nat (length (blocks_of f)) /\ b < two32 /\ o <= max_doc_offset /\
    PositiveMap.find (key x) (apos_of f) = Some (raw_pos b o) /\
    nth_error (blocks_of f) (N.to_nat b) = Some blk /\ assoc o (cells_from 0 blk) = Some d.
Proof.
  intros f x d Hw [Hl1 Hl2] Hi.
  assert (Hc : In (x, d) (concat (blocks_of f))) by (unfold blocks_of; rewrite split_blocks_concat; exact Hi).
  apply in_concat in Hc. destruct Hc as [blk [Hb Hx]].
  destruct (In_nth_error _ _ Hb) as [bi Hbi].
  destruct (block_in (N.of_nat bi) blk 0 x d Hx) as [o [A [B [_ C]]]].
  assert (Hlen : (bi < length (blocks_of f))%nat) by (apply nth_error_Some; congruence).
  rewrite Forall_forall in Hl1. specialize (Hl1 blk Hb).
  exists (N.of_nat bi), o, blk. split; [lia|]. split; [lia|]. split; [lia|].
  split; [|split; [rewrite Nat2N.id; exact Hbi|exact B]].
  unfold apos_of. apply build_apos_in.
  - rewrite layout_ids. apply Hw.
  - rewrite layout_ids. apply docs_rids. exact Hw.
  - apply (layout_in (blocks_of f) 0 bi blk); [exact Hbi|]. rewrite N.add_0_l. exact A.
Qed.

Lemma absent_pos : forall f x, docs_wf (f_docs f) -> snd x <= max64 -> lookup f x = None ->
  PositiveMap.find (key x) (apos_of f) = None.
Proof.
  intros f x Hw Hx Hl. unfold apos_of. apply build_apos_notin; [exact Hx| |].
  - rewrite layout_ids. apply docs_rids. exact Hw.
  - rewrite layout_ids. apply lookup_docs_none. exact Hl.
Qed.

Lemma blocks_file : forall f b bo, nth_error (p_boffs (phys_of f)) b = Some bo ->
  exists blk, nth_error (blocks_of f) b = Some blk /\
              assoc bo (p_file (phys_of f)) = Some (cells_from 0 blk).
Proof.
  intros f b bo H. unfold phys_of in *. cbn [p_boffs p_file] in *.
  assert (Hlen : (b < length (blocks_of f))%nat).
  { rewrite <- (block_offsets_length (blocks_of f) 0). apply nth_error_Some. congruence. }
  destruct (nth_error (blocks_of f) b) as [blk|] eqn:E; [|apply nth_error_None in E; lia].
  destruct (block_at (blocks_of f) 0 b blk E) as [bo' [A [B _]]].
  rewrite A in H. inversion H; subst bo'. exists blk. split; [reflexivity|exact B].
Qed.

(* ------------------------------------------------------------------ 5. IndexFetch over the fraction's docs file *)
(* the document lying at (block, in-block offset) *)
Definition want_of (f : frac) (b o : N) : body :=
  match nth_error (blocks_of f) (N.to_nat b) with
  | Some blk => match assoc o (cells_from 0 blk) with Some d => d | None => (0, 0) end
  | None => (0, 0)
  end.
Definition doc_at (f : frac) (p : N) : option body :=
  if p =? pos_not_found then None else Some (want_of f (fst (unpack_pos p)) (snd (unpack_pos p))).
(* a position the index may hand to IndexFetch: not found, or the packed position of a stored document *)
Definition pos_ok (f : frac) (p : N) : Prop :=
  p = pos_not_found \/
  exists b o blk d, p = raw_pos b o /\ b < two32 /\ o <= max_doc_offset /\
    nth_error (blocks_of f) (N.to_nat b) = Some blk /\ assoc o (cells_from 0 blk) = Some d.

Lemma phys_fetch : forall f ps, Forall (pos_ok f) ps ->
  index_fetch (p_boffs (phys_of f)) (read_abs (p_file (phys_of f))) ps = Ok (map (doc_at f) ps).
Proof.
  intros f ps Hp. rewrite Forall_forall in Hp.
  assert (Hinv : forall p, In p ps -> p <> pos_not_found ->
            exists b o blk d, unpack_pos p = (b, o) /\ nth_error (blocks_of f) (N.to_nat b) = Some blk /\
                              assoc o (cells_from 0 blk) = Some d).
  { intros p Hi Hn. destruct (Hp p Hi) as [E|[b [o [blk [d [E [Hb [Ho [Hblk Hd]]]]]]]]]; [contradiction|].
    destruct (pack_unpack b o Hb Ho) as [_ [U _]]. exists b, o, blk, d. subst p. auto. }
  unfold doc_at. apply (index_fetch_ok body _ _ ps (want_of f)).
  - intros p Hi Hn. destruct (Hinv p Hi Hn) as [b [o [blk [d [U [Hblk Hd]]]]]]. rewrite U. cbn [fst].
    destruct (block_at (blocks_of f) 0 (N.to_nat b) blk Hblk) as [bo [A _]]. exists bo. exact A.
  - intros b bo offs Hbo Hsrc. destruct (blocks_file f _ bo Hbo) as [blk [Hblk Hfile]].
    unfold read_abs. rewrite Hfile. apply map_res_ok. intros o Ho.
    destruct (Hsrc o Ho) as [p [Hi [Hn U]]].
    destruct (Hinv p Hi Hn) as [b' [o' [blk' [d [U' [Hblk' Hd]]]]]].
    rewrite U in U'. inversion U'; subst b' o'. rewrite Hblk in Hblk'. inversion Hblk'; subst blk'.
    unfold want_of. rewrite Hblk, Hd. reflexivity.
Qed.

Lemma doc_at_stored : forall f b o blk d, b < two32 -> o <= max_doc_offset ->
  nth_error (blocks_of f) (N.to_nat b) = Some blk -> assoc o (cells_from 0 blk) = Some d ->
  pos_ok f (raw_pos b o) /\ doc_at f (raw_pos b o) = Some d.
Proof.
  intros f b o blk d Hb Ho Hblk Hd. split.
  - right. exists b, o, blk, d. auto.
  - destruct (pack_unpack b o Hb Ho) as [_ [U [Nn _]]]. unfold doc_at.
    replace (raw_pos b o =? pos_not_found) with false by (symmetry; apply N.eqb_neq; exact Nn).
    rewrite U. cbn [fst snd]. unfold want_of. rewrite Hblk, Hd. reflexivity.
Qed.

Lemma doc_at_nf : forall f, pos_ok f pos_not_found /\ doc_at f pos_not_found = None.
Proof. intros f. split; [left; reflexivity|]. unfold doc_at. rewrite N.eqb_refl. reflexivity. Qed.

Lemma cf_fault_compile : forall f, cf_fault (compile f) = false.
Proof. intros f; unfold compile; destruct (f_sealed f); reflexivity. Qed.

Lemma cf_phys_compile : forall f, cf_phys (compile f) = phys_of f.
Proof. intros f. unfold compile. destruct (f_sealed f); reflexivity. Qed.

(* ------------------------------------------------------------------ 6. the active fraction *)
Lemma active_pos_ok : forall f x, docs_wf (f_docs f) -> layout_wf f -> id_u64 x ->
  pos_ok f (active_pos (N.of_nat (length (blocks_of f))) (apos_of f) x) /\
  doc_at f (active_pos (N.of_nat (length (blocks_of f))) (apos_of f) x) = lookup f x.
Proof.
  intros f x Hw Hl [_ Hx]. destruct (lookup f x) as [d|] eqn:E.
  - unfold lookup in E. apply lookup_docs_in in E.
    destruct (stored_pos f x d Hw Hl E) as [b [o [blk [Hb [Hb2 [Ho [Hf [Hblk Hd]]]]]]]].
    rewrite (active_pos_packed _ _ x b o Hb2 Ho Hf).
    replace (N.of_nat (length (blocks_of f)) <=? b) with false by (symmetry; apply N.leb_gt; exact Hb).
    apply (doc_at_stored f b o blk d); assumption.
  - unfold active_pos. rewrite (absent_pos f x Hw Hx E). apply doc_at_nf.
Qed.

Lemma active_fetch_ok : forall g f ids,
  f_sealed f = false -> docs_wf (f_docs f) -> layout_wf f -> Forall id_u64 ids ->
  frac_fetch g (compile f) ids = Ok (map (lookup f) ids).
Proof.
  intros g f ids Hs Hw Hl Hu. unfold frac_fetch, frac_fetch_gen. rewrite cf_fault_compile, cf_compile, Hs, cf_phys_compile.
  assert (Ek : N.of_nat (length (p_boffs (phys_of f))) = N.of_nat (length (blocks_of f))).
  { unfold phys_of. cbn [p_boffs]. rewrite block_offsets_length. reflexivity. }
  rewrite Ek. replace (p_apos (phys_of f)) with (apos_of f) by reflexivity.
  rewrite Forall_forall in Hu. rewrite phys_fetch.
  - f_equal. rewrite map_map. apply map_ext_in. intros x Hx. apply active_pos_ok; auto.
  - apply Forall_forall. intros p Hp. apply in_map_iff in Hp. destruct Hp as [x [E Hx]]. subst p.
    apply active_pos_ok; auto.
Qed.

(* ------------------------------------------------------------------ 7. the sealed fraction *)
Lemma docs_of_lids_inv : forall c lids exp, docs_of_lids c lids = Ok exp ->
  Forall2 (fun l e => if l =? 0 then e = None
                      else exists ent, tbl_get c l = Some ent /\ e = Some (snd ent)) lids exp.
Proof.
  induction lids as [|l r IH]; intros exp H.
  - cbn [docs_of_lids] in H. inversion H. constructor.
  - cbn [docs_of_lids] in H. destruct (docs_of_lids c r) as [t| |] eqn:E; try discriminate.
    destruct (l =? 0) eqn:E0.
    + inversion H; subst. constructor; [rewrite E0; reflexivity|apply IH; reflexivity].
    + destruct (tbl_get c l) as [ent|] eqn:Et; [|discriminate]. inversion H; subst.
      constructor; [rewrite E0; exists ent; auto|apply IH; reflexivity].
Qed.

Lemma sealed_pos_ok : forall f l ent, f_sealed f = true -> docs_wf (f_docs f) -> layout_wf f ->
  l <> 0 -> tbl_get (compile f) l = Some ent ->
  pos_ok f (nth (N.to_nat l) (ptab_of f) 0) /\ doc_at f (nth (N.to_nat l) (ptab_of f) 0) = Some (snd ent).
Proof.
  intros f l ent Hs Hw Hl Hn Ht. rewrite tbl_get_compile in Ht by exact Hs.
  assert (Hin : In ent (f_docs f)).
  { apply table_in. exists (N.to_nat l). split; [lia|exact Ht]. }
  destruct ent as [x d].
  destruct (stored_pos f x d Hw Hl Hin) as [b [o [blk [Hb [Hb2 [Ho [Hf [Hblk Hd]]]]]]]].
  assert (En : nth (N.to_nat l) (ptab_of f) 0 = raw_pos b o).
  { apply nth_error_nth. unfold ptab_of. rewrite (map_nth_error _ _ _ Ht).
    unfold pos_lookup. cbn [fst]. rewrite Hf. reflexivity. }
  rewrite En. cbn [snd]. apply (doc_at_stored f b o blk d); assumption.
Qed.

Lemma sealed_positions : forall f lids exp, f_sealed f = true -> docs_wf (f_docs f) -> layout_wf f ->
  Forall2 (fun l e => if l =? 0 then e = None
                      else exists ent, tbl_get (compile f) l = Some ent /\ e = Some (snd ent)) lids exp ->
  let posl := fun l => if l =? 0 then pos_not_found else nth (N.to_nat l) (ptab_of f) 0 in
  Forall (pos_ok f) (map posl lids) /\ map (doc_at f) (map posl lids) = exp /\
  Forall (fun l => l < N.of_nat (length (ptab_of f))) lids.
Proof.
  intros f lids exp Hs Hw Hl Hdl posl.
  assert (Hlen : (1 <= length (ptab_of f))%nat).
  { unfold ptab_of, table_of. cbn [map length]. lia. }
  induction Hdl as [|l e lids' exp' Hle Hrest IH]; [split; [constructor|split; [reflexivity|constructor]]|].
  destruct IH as [IH1 [IH2 IH3]]. cbn [map].
  assert (Hone : pos_ok f (posl l) /\ doc_at f (posl l) = e /\ l < N.of_nat (length (ptab_of f))).
  { unfold posl. destruct (l =? 0) eqn:E0.
    - subst e. apply N.eqb_eq in E0. split; [apply doc_at_nf|]. split; [apply doc_at_nf|lia].
    - destruct Hle as [ent [Ht He]]. subst e. apply N.eqb_neq in E0.
      destruct (sealed_pos_ok f l ent Hs Hw Hl E0 Ht) as [S1 S2]. split; [exact S1|]. split; [exact S2|].
      rewrite tbl_get_compile in Ht by exact Hs.
      assert (Hs' : nth_error (table_of f) (N.to_nat l) <> None) by congruence.
      apply nth_error_Some in Hs'. unfold ptab_of. rewrite map_length. lia. }
  destruct Hone as [O1 [O2 O3]]. split; [constructor; assumption|].
  split; [rewrite O2, IH2; reflexivity|constructor; assumption].
Qed.

Lemma sealed_fetch_ok : forall g f ids,
  1 <= ipb g -> f_sealed f = true -> docs_wf (f_docs f) -> layout_wf f ->
  frac_fetch g (compile f) ids = Ok (map (lookup f) ids).
Proof.
  intros g f ids Hg Hs Hw Hl.
  destruct (sealed_find_lids_ok g f ids Hg Hs Hw) as [lids [Hfl Hdl]]. unfold find_lids in Hfl.
  unfold frac_fetch, frac_fetch_gen. rewrite cf_fault_compile, cf_compile, Hs, Hfl, cf_phys_compile.
  assert (Ept : p_ptab (phys_of f) = build_ptab (ptab_of f) 0 (PositiveMap.empty N)).
  { unfold phys_of. cbn [p_ptab]. rewrite Hs. reflexivity. }
  assert (En : cf_n (compile f) = N.of_nat (length (ptab_of f))).
  { rewrite cf_n_compile by exact Hs. unfold ptab_of. rewrite map_length. reflexivity. }
  rewrite Ept, En. apply docs_of_lids_inv in Hdl.
  destruct (sealed_positions f lids _ Hs Hw Hl Hdl) as [H1 [H2 H3]].
  rewrite pos_by_lids_ok; [|exact Hg|exact H3|intros pi ps H; discriminate].
  rewrite phys_fetch by exact H1. rewrite H2. reflexivity.
Qed.

Print Assumptions sealed_fetch_ok.
Print Assumptions active_fetch_ok.
