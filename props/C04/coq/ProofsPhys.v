(* C04 — the position layer: IndexFetch over grouped positions, the physical layout of a fraction's docs
   file, and the fetch of one fraction (sealed and active) through positions.

   Main results:
     index_fetch_ok     processor.IndexFetch returns, per request position, the document lying at it
     stored_pos         every stored document has a packed position (block < number of blocks, offset < 2^30)
                        under its ID, and the block file holds the document at that block / offset
     sealed_fetch_ok, active_fetch_ok
                        frac_fetch g (compile f) ids = Ok (map (lookup f) ids) for ARBITRARY ids. *)
From Coq Require Import Lia ZifyN ZifyNat.
From C04 Require Import Model ProofsBase ProofsSealed ProofsFetch.
Open Scope N_scope.

(* ------------------------------------------------------------------ 0. lists *)
Lemma in_combine_nth : forall (A B : Type) (l1 : list A) (l2 : list B) a b,
  In (a, b) (combine l1 l2) <-> exists j, nth_error l1 j = Some a /\ nth_error l2 j = Some b.
Proof.
  induction l1 as [|x l1 IH]; intros l2 a b.
  - simpl. split; [contradiction|]. intros [[|j] [H _]]; discriminate.
  - destruct l2 as [|y l2].
    + simpl. split; [contradiction|]. intros [[|j] [_ H]]; discriminate.
    + simpl. rewrite IH. split.
      * intros [H|[j Hj]]; [inversion H; subst; exists O; split; reflexivity|exists (S j); exact Hj].
      * intros [[|j] [H1 H2]]; simpl in *; [left; congruence|right; exists j; split; assumption].
Qed.

Lemma map_res_ok : forall (A B : Type) (f : A -> res B) (h : A -> B) l,
  (forall x, In x l -> f x = Ok (h x)) -> map_res f l = Ok (map h l).
Proof.
  induction l as [|x r IH]; intros H; [reflexivity|].
  simpl. rewrite (H x (or_introl eq_refl)). rewrite IH; [reflexivity|].
  intros y Hy. apply H. right; exact Hy.
Qed.

(* ------------------------------------------------------------------ 1. the result array of IndexFetch *)
Section Arr.
  Context {D : Type}.
  Definition addd (a : PositiveMap.t D) (w : N * D) := PositiveMap.add (ikey (fst w)) (snd w) a.

  Lemma put_res_fold : forall idx docs a, length idx = length docs ->
    put_res idx docs a = Ok (fold_left addd (combine idx docs) a).
  Proof.
    induction idx as [|i ri IH]; intros docs a H.
    - reflexivity.
    - destruct docs as [|d rd]; [discriminate|]. simpl. apply IH. simpl in H. congruence.
  Qed.

  Lemma fold_find_inv : forall W a i (P : option D -> Prop),
    P (PositiveMap.find (ikey i) a) -> (forall d, In (i, d) W -> P (Some d)) ->
    P (PositiveMap.find (ikey i) (fold_left addd W a)).
  Proof.
    induction W as [|w r IH]; intros a i P H0 H; [exact H0|].
    simpl. apply IH.
    - unfold addd. rewrite find_add_ikey. destruct (i =? fst w) eqn:E; [|exact H0].
      apply N.eqb_eq in E. apply H. left. subst i. destruct w; reflexivity.
    - intros d Hd. apply H. right; exact Hd.
  Qed.

  Lemma fold_find_some : forall W a i v, In (i, v) W -> (forall d, In (i, d) W -> d = v) ->
    PositiveMap.find (ikey i) (fold_left addd W a) = Some v.
  Proof.
    induction W as [|w r IH]; intros a i v Hi Hu; [contradiction|].
    simpl. destruct Hi as [Hi|Hi].
    - subst w. apply (fold_find_inv r (addd a (i, v)) i (fun o => o = Some v)).
      + unfold addd. simpl. rewrite find_add_ikey, N.eqb_refl. reflexivity.
      + intros d Hd. f_equal. apply Hu. right; exact Hd.
    - apply IH; [exact Hi|]. intros d Hd. apply Hu. right; exact Hd.
  Qed.

  Lemma read_arr_spec : forall (X : Type) (F : X -> option D) a (l : list X) j,
    (forall k s, nth_error l k = Some s -> PositiveMap.find (ikey (j + N.of_nat k)) a = F s) ->
    read_arr a j (length l) = map F l.
  Proof.
    induction l as [|s r IH]; intros j H; [reflexivity|].
    simpl. f_equal.
    - specialize (H O s eq_refl). simpl in H. rewrite N.add_0_r in H. exact H.
    - apply IH. intros k s' Hk. specialize (H (S k) s' Hk). rewrite <- H. f_equal. f_equal. lia.
  Qed.

  (* the writes of IndexFetch: for every group, the document at (block, offset j) goes to request index j *)
  Definition gwrites (want : N -> N -> D) (gs : list (N * list N * list N)) : list (N * D) :=
    flat_map (fun g : N * list N * list N => combine (snd g) (map (want (fst (fst g))) (snd (fst g)))) gs.

  Lemma in_gwrites : forall want gs i d,
    In (i, d) (gwrites want gs) <->
    exists b offs idx j o, In (b, offs, idx) gs /\ nth_error idx j = Some i /\ nth_error offs j = Some o /\
                           d = want b o.
  Proof.
    intros want gs i d. unfold gwrites. rewrite in_flat_map. split.
    - intros [[[b offs] idx] [Hg H]]. simpl in H. apply in_combine_nth in H. destruct H as [j [H1 H2]].
      rewrite nth_error_map in H2. destruct (nth_error offs j) as [o|] eqn:E; [|discriminate].
      simpl in H2. inversion H2; subst. exists b, offs, idx, j, o. auto.
    - intros [b [offs [idx [j [o [Hg [H1 [H2 H3]]]]]]]]. exists (b, offs, idx). split; [exact Hg|].
      simpl. apply in_combine_nth. exists j. split; [exact H1|]. rewrite nth_error_map, H2. simpl. congruence.
  Qed.

  Lemma fetch_groups_ok : forall boffs (read : N -> list N -> res (list D)) want gs a,
    (forall b offs idx, In (b, offs, idx) gs ->
       length offs = length idx /\
       exists bo, nth_error boffs (N.to_nat b) = Some bo /\ read bo offs = Ok (map (want b) offs)) ->
    fetch_groups boffs read gs a = Ok (fold_left addd (gwrites want gs) a).
  Proof.
    induction gs as [|[[b offs] idx] r IH]; intros a H; [reflexivity|].
    destruct (H b offs idx (or_introl eq_refl)) as [Hl [bo [Hb Hr]]].
    cbn [fetch_groups]. rewrite Hb, Hr. rewrite put_res_fold by (rewrite map_length; congruence).
    rewrite IH by (intros b' offs' idx' Hi; apply H; right; exact Hi).
    unfold gwrites. cbn [flat_map fst snd]. rewrite fold_left_app. reflexivity.
  Qed.
End Arr.

(* ------------------------------------------------------------------ 2. groups are never empty *)
Lemma add_to_group_ne : forall blk off i gs,
  Forall (fun g : pgroup => snd (fst g) <> []) gs ->
  Forall (fun g : pgroup => snd (fst g) <> []) (add_to_group blk off i gs).
Proof.
  induction gs as [|[[b os] is] r IH]; intros H.
  - simpl. constructor; [simpl; discriminate|constructor].
  - simpl. inversion H; subst. destruct (b =? blk).
    + constructor; [simpl; discriminate|assumption].
    + constructor; [assumption|apply IH; assumption].
Qed.

Lemma group_from_ne : forall ps i gs,
  Forall (fun g : pgroup => snd (fst g) <> []) gs ->
  Forall (fun g : pgroup => snd (fst g) <> []) (group_from ps i gs).
Proof.
  induction ps as [|p r IH]; intros i gs H; [exact H|].
  simpl. destruct (p =? pos_not_found); [apply IH; exact H|].
  destruct (unpack_pos p) as [blk off]. apply IH. apply add_to_group_ne. exact H.
Qed.

Lemma group_offsets_ne : forall ps b offs idx, In (b, offs, idx) (group_offsets ps) -> offs <> [].
Proof.
  intros ps b offs idx H. unfold group_offsets in H. apply in_map_iff in H.
  destruct H as [[[b' os] is] [E Hi]]. inversion E; subst.
  pose proof (group_from_ne ps 0 [] (Forall_nil _)) as F. rewrite Forall_forall in F.
  specialize (F _ Hi). simpl in F. intros R. apply F.
  destruct os as [|x os]; [reflexivity|]. simpl in R. destruct (rev os); discriminate.
Qed.
