"""C04 — fetch returns each stored document verbatim; unknown IDs are just 'not found' (DESIGN.md section 7, C04)."""
import vcheck

PROP = "C04"

TRUSTED = [
    "go2coq translator (harness/cmd/go2coq, semantics coq/lib/GoSem.v): props/C04/coq/Gen.v is regenerated from the Go source of seq.LessOrEqual, seq.Less, seq.PackDocPos, seq.DocPos.Unpack, storeapi docsStream.calcChunkSize on every run; supported subset: integer/boolean expressions over int, int64, uint64, uint32, uint8 and named integer types with explicit wrap-around, truncated signed division, checked division/indexing/slicing/shift counts (Panic), if/else with early return, local assignments, tuples, calls between translated functions, min/max/len, numeric struct fields, fuelled for-loops, range loops as folds; anything else is rejected (red gate). externs: none; logger.Panic = panic, logger.Debug = no effect on the result; conf.MaxFetchSizeBytes is a parameter of the generated calcChunkSize; doc bodies enter calcChunkSize as their lengths. Validated on every run by the gen-* correspondence classes (real function vs generated definition on boundary and random arguments)",
    "Coq 8.16.1 kernel (coqc), vm_compute for case evaluation; no native_compute",
    "hand-written model props/C04/coq/Model.v of docsStream.batchLoader/calcChunkSize, doFetch framing, "
    "Fetcher.FetchDocs/sortIDs/groupIDsByFraction/fetchDocsAsync, Info.IsIntersecting (+ distribution, bytewise "
    "HasBitsIn), sealed findLIDs/LessOrEqual/BinSearchInRange/getDocPosByLIDs, active GetDocPos with its snapshot "
    "guard, PackDocPos/Unpack, GroupDocsOffsets, IndexFetch, ReadDocs/extractDocsFromBlockFunc "
    "(tied to /repo by the correspondence run, not verified code)",
    "Go harness harness/cmd/hC04 (scenario/ID generators, in-process gRPC stream, byte-exact mapping of returned "
    "bytes to document numbers inside the store child) and harness/internal/{storectl,fracbuild}",
    "export files storeapi/export_verif_c04.go and frac/export_verif_c04.go (state builders for the unit-level classes)",
    "hand-written model props/C04/coq/ModelDocsCache.v of disk.DocsReader.ReadDocsFunc in front of "
    "cache.Cache.GetWithError (lookup by uint32 key, load on miss, a failed load stores nothing, offsets above "
    "MaxUint32 bypass the cache as repaired by 871e0d8; eviction of any key at any time = cleaner pass / Reset; "
    "read_v0 = key uint32(blockOffset) for every offset) and props/C04/coq/ModelSlots.v of the worker-slot "
    "semaphore of fracmanager.Fetcher (fetchDocsAsync as a transition system: the select of the dispatch loop "
    "(slot / ctx.Done), worker end with error bookkeeping + cancel() + slot release, client cancel; any "
    "interleaving as a schedule; the seeded early exit C04-m9 as the variant leak = true); both tied to /repo by "
    "the classes docs-cache-far-offset and fetch-slots-history / fetch-after-history, not verified code",
    "export files cache/export_verif_c04.go (keys held by a cache), fracmanager/export_verif_c04.go (slots of the "
    "fetcher's semaphore in use / capacity), storeapi/export_verif_c04_slots.go (the store's fetcher); the child "
    "sets conf.FetchWorkers (1, 2, 3 or the default) before the store's GrpcV1 is created",
    "zstd is NOT modelled (a decoded block is an abstract value in the docs-cache model; the generation "
    "accounting and the concurrency inside cache.Cache are property C18); the end-to-end cases run the "
    "position layer on document descriptors in the harness's block layout (one block per bulk), real bytes and "
    "real positions only in the unit-level classes; in the slot model the requests of a history follow one "
    "another (slots held by concurrent requests enter C04_fetch_slots_every_schedule as the number u only) and "
    "whether a call made with a context that is already done returns the context's error or the documents "
    "(the select is random) is neither modelled nor compared",
]
ASSUME = [
    "time-range/occupancy pruning is sound for stored documents (hypothesis info_sound B of thm C04_fetch_exact; "
    "proved here for fractions without occupancy map (C04_pruning_sound_without_map), property C14 for the map; the "
    "model still executes the map: midToIndex as repaired by 6d376ea and the bytewise HasBitsIn)",
    "the sealed ID table is the descending sort of the fraction's IDs behind the (MaxUint64,MaxUint64) sentinel and "
    "MinBlockIDs[b] is the last ID of block b (sealing is C03/C08)",
    "IDs inside one request are distinct and an ID is stored in at most one fraction (the property's quantifier)",
    "a decoded doc block has at most 2^30 bytes and a docs file at most 2^32 blocks (layout_wf; the writer panics "
    "beyond 30-bit offsets)",
    "the store is quiescent during a request; the active provider's snapshot guard is stated and tested at unit level",
    "C04_fetch_slots_returned: the calls of a history follow one another on the Fetcher (each under any interleaving "
    "of its own goroutines); a buffered Go channel of capacity W is a counter 0..W, sync.Once / WaitGroup as documented",
    "C04_docs_cache_transparent: one reader at a time (the concurrency of cache.Cache is C18); an entry holds the value "
    "its load returned (no corruption of cached blocks)",
]
RULE = ("real stores (1-4 fractions, sealed + at most one active, optional restart, with/without sorted docs; some "
        "sealed fractions span several ID blocks of 4096) x requests: present / absent / mixed in any order, absent IDs "
        "generated relative to every fraction's borders (From/To with smaller/larger random part, just outside, "
        "neighbours of stored IDs, 0, 2^63, MaxUint64), >1000 IDs with 1-3 small documents found, documents up to "
        "64 KiB so that chunks shrink, right/wrong/unknown fraction hints, repeated IDs, the same ID in two fractions; "
        "scenario kind 'recent' (timestamps of the last 20 minutes, the only wall-clock dependent inputs) so that the "
        "occupancy-map window holds the documents, with the regression class mid-above-int64 (stored IDs + an ID whose "
        "MID >= 2^63); scenario kind 'chunked' (3-4 non-empty fractions, the last one active, disjoint or identical time ranges) with "
        "requests of 1100-2200 IDs loaded in >= 2 chunks whose first 1000 IDs ask only some fractions (a middle one left "
        "out, routed by time range or by hints) and whose later chunks ask the others; fault injection: the active "
        "fraction's Fetch panics on entry (schedule point fetch.start) and a sealed fraction's docs file is cut down "
        "between stop and start - the request must end with an error, never report such a fraction's stored documents "
        "as not found with a nil error; thorough: requests of 20k and 100k IDs; plus unit-level classes on generated inputs: calcChunkSize, "
        "PackDocPos/Unpack (offsets around 2^30, block indices up to 2^32-1), GroupDocsOffsets, IndexFetch over a real "
        "DocsReader on files of 1-4 packed/compressed blocks (permuted block table, nil entries, block index past the "
        "table), activeFetchIndex.GetDocPos (snapshot of k blocks, positions in blocks < k, = k, > k), getDocPosByLIDs "
        "(one and several position blocks, LIDs around the block border and past the table); class docs-cache-far-offset: "
        "a SPARSE file with real compressed/packed doc blocks written at offsets x and x + k*2^32 (k = 1..3; x = 0, "
        "small, 2^31, just below 2^32, MaxUint32 itself, random; some blocks undecodable) read through the real "
        "disk.DocsReader with a real cache.Cache (no cleaner / cleaner with a small / a large limit): repeated reads, "
        "offsets sharing their low 32 bits one after the other in both orders, reads past the end of the file and of "
        "undecodable blocks (twice), cleaner passes (evicted keys recorded), cache Reset - every read must return the "
        "block stored at the requested offset (permanent regression for 871e0d8); scenario kind 'slots' (3-5 "
        "fractions with disjoint time ranges, the last one active; conf.FetchWorkers 1, 2, 3 or default; no fault / "
        "a damaged sealed docs file / the active Fetch panics): class fetch-slots-history = a history on the store's "
        "one long-lived Fetcher: live FetchDocs calls, >= FetchWorkers calls with a context cancelled before the call, "
        ">= FetchWorkers calls whose deadline has passed, calls cancelled by the client at the schedule point "
        "fetch.start, >= FetchWorkers calls failing in one fraction (sibling cancellation), after each call the number "
        "of taken worker slots is read: every call must return (15 s limit) and leave no slot in use; then class "
        "fetch-after-history = ordinary requests through GrpcV1.Fetch under a 20 s deadline that must deliver exactly "
        "the stored documents (a request ending only by its deadline is reported as not terminating). non-trivial = request mixes present and absent IDs or needs more than one batch "
        "(calc: 0 < found bytes < number of IDs); distinct by input")


def harness_args(tier, seed, outdir):
    return ["-seed", str(seed), "-tier", tier, "-out", outdir]


def main(argv):
    return vcheck.standard_check(PROP, argv, harness_args, TRUSTED, ASSUME, RULE, coqchk=True, gen=True)
