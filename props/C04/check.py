"""C04 — fetch returns each stored document verbatim; unknown IDs are just 'not found' (DESIGN.md section 7, C04)."""
import vcheck

PROP = "C04"

TRUSTED = [
    "go2coq translator (harness/cmd/go2coq, semantics coq/lib/GoSem.v): props/C04/coq/Gen.v is regenerated from the Go source of seq.LessOrEqual, seq.Less, seq.PackDocPos, seq.DocPos.Unpack, storeapi docsStream.calcChunkSize on every run; supported subset: integer/boolean expressions over int, int64, uint64, uint32, uint8 and named integer types with explicit wrap-around, truncated signed division, checked division/indexing/slicing/shift counts (Panic), if/else with early return, local assignments, tuples, calls between translated functions, min/max/len, numeric struct fields, fuelled for-loops, range loops as folds; anything else is rejected (red gate). externs: none; logger.Panic = panic, logger.Debug = no effect on the result; conf.MaxFetchSizeBytes is a parameter of the generated calcChunkSize; doc bodies enter calcChunkSize as their lengths. Validated on every run by the gen-* correspondence classes (real function vs generated definition on boundary and random arguments)",
    "Coq 8.16.1 kernel (coqc), vm_compute for case evaluation; no native_compute",
    "hand-written model props/C04/coq/Model.v of docsStream.batchLoader/calcChunkSize, doFetch framing, "
    "Fetcher.FetchDocs/sortIDs/groupIDsByFraction/fetchDocsAsync, Info.IsIntersecting (+ distribution, bytewise "
    "HasBitsIn), sealed findLIDs/LessOrEqual/BinSearchInRange/getDocPosByLIDs, active GetDocPos with its snapshot "
    "guard, PackDocPos/Unpack, GroupDocsOffsets, IndexFetch, ReadDocs/extractDocsFromBlockFunc "
    "(tied to /repo by the correspondence run, not verified code)",
    "Go harness harness/cmd/hC04 (scenario/ID generators, in-process gRPC stream, byte-exact mapping of returned "
    "bytes to document numbers inside the store child) and harness/internal/{storectl,fracbuild}",
    "export files storeapi/export_verif_c04.go and frac/export_verif_c04.go (state builders for the unit-level classes)",
    "zstd and the docs cache (key = uint32 of the block offset) are NOT modelled; the end-to-end cases run the "
    "position layer on document descriptors in the harness's block layout (one block per bulk), real bytes and "
    "real positions only in the unit-level classes",
]
ASSUME = [
    "time-range/occupancy pruning is sound for stored documents (hypothesis info_sound B of thm C04_fetch_exact; "
    "proved here for fractions without occupancy map (C04_pruning_sound_without_map), property C14 for the map; the "
    "model still executes the map: midToIndex as repaired by 6d376ea and the bytewise HasBitsIn)",
    "the sealed ID table is the descending sort of the fraction's IDs behind the (MaxUint64,MaxUint64) sentinel and "
    "MinBlockIDs[b] is the last ID of block b (sealing is C03/C08)",
    "IDs inside one request are distinct and an ID is stored in at most one fraction (the property's quantifier)",
    "a decoded doc block has at most 2^30 bytes and a docs file at most 2^32 blocks (layout_wf; the writer panics "
    "beyond 30-bit offsets)",
    "the store is quiescent during a request; the active provider's snapshot guard is stated and tested at unit level",
]
RULE = ("real stores (1-4 fractions, sealed + at most one active, optional restart, with/without sorted docs; some "
        "sealed fractions span several ID blocks of 4096) x requests: present / absent / mixed in any order, absent IDs "
        "generated relative to every fraction's borders (From/To with smaller/larger random part, just outside, "
        "neighbours of stored IDs, 0, 2^63, MaxUint64), >1000 IDs with 1-3 small documents found, documents up to "
        "64 KiB so that chunks shrink, right/wrong/unknown fraction hints, repeated IDs, the same ID in two fractions; "
        "scenario kind 'recent' (timestamps of the last 20 minutes, the only wall-clock dependent inputs) so that the "
        "occupancy-map window holds the documents, with the regression class mid-above-int64 (stored IDs + an ID whose "
        "MID >= 2^63); scenario kind 'chunked' (3-4 non-empty fractions, the last one active, disjoint or identical time ranges) with "
        "requests of 1100-2200 IDs loaded in >= 2 chunks whose first 1000 IDs ask only some fractions (a middle one left "
        "out, routed by time range or by hints) and whose later chunks ask the others; fault injection: the active "
        "fraction's Fetch panics on entry (schedule point fetch.start) and a sealed fraction's docs file is cut down "
        "between stop and start - the request must end with an error, never report such a fraction's stored documents "
        "as not found with a nil error; thorough: requests of 20k and 100k IDs; plus unit-level classes on generated inputs: calcChunkSize, "
        "PackDocPos/Unpack (offsets around 2^30, block indices up to 2^32-1), GroupDocsOffsets, IndexFetch over a real "
        "DocsReader on files of 1-4 packed/compressed blocks (permuted block table, nil entries, block index past the "
        "table), activeFetchIndex.GetDocPos (snapshot of k blocks, positions in blocks < k, = k, > k), getDocPosByLIDs "
        "(one and several position blocks, LIDs around the block border and past the table). non-trivial = request mixes present and absent IDs or needs more than one batch "
        "(calc: 0 < found bytes < number of IDs); distinct by input")


def harness_args(tier, seed, outdir):
    return ["-seed", str(seed), "-tier", tier, "-out", outdir]


def main(argv):
    return vcheck.standard_check(PROP, argv, harness_args, TRUSTED, ASSUME, RULE, coqchk=True, gen=True)
