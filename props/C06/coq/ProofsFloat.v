(* C06 — proofs about the float64 data path (ModelFloat.v): the model's spec_float operations are Flocq's
   binary64 operations (round to nearest even); exact sums when every partial sum is representable, for every
   merge tree; exact Min/Max; Avg = correctly rounded quotient; error bound of one fraction's chain.
   Real numbers (R) appear ONLY here and in the theorem statements, never in the executable model. *)
From Coq Require Import ZArith Reals List Bool SpecFloat Lia Lra Permutation.
From Flocq Require Import Core IEEE754.BinarySingleNaN.
From Flocq Require IEEE754.PrimFloat.
From Flocq Require Import Relative Plus_error.
From C06 Require Import Model ModelFloat.
Import ListNotations.
Open Scope Z_scope.

Notation bf := (binary_float 53 1024).
Notation HP := PrimFloat.Hprec.
Notation HM := PrimFloat.Hmax.
Definition bplus : bf -> bf -> bf := @Bplus 53 1024 HP HM mode_NE.
Definition bmult : bf -> bf -> bf := @Bmult 53 1024 HP HM mode_NE.
Definition bdiv : bf -> bf -> bf := @Bdiv 53 1024 HP HM mode_NE.
Definition bofint (z : Z) : bf := @binary_normalize 53 1024 HP HM mode_NE z 0 false.
Definition fexp64 := SpecFloat.fexp 53 1024.
Notation rnd64 := (round radix2 fexp64 ZnearestE).

Global Instance valid_fexp64 : Valid_exp fexp64 := @fexp_correct 53 1024 HP.

Lemma fexp64_FLT : fexp64 = FLT_exp (-1074) 53.
Proof. reflexivity. Qed.

Lemma fadd_link : forall x y : bf, fadd (B2SF x) (B2SF y) = B2SF (bplus x y).
Proof.
  intros x y. unfold fadd, bplus. symmetry.
  destruct x as [sx|sx| |sx mx ex Bx]; destruct y as [sy|sy| |sy my ey By];
    try reflexivity; try (simpl; now destruct (Bool.eqb _ _)).
  symmetry. apply PrimFloat.binary_normalize_equiv.
Qed.

Lemma fmul_link : forall x y : bf, fmul (B2SF x) (B2SF y) = B2SF (bmult x y).
Proof.
  intros x y. unfold fmul, bmult.
  destruct x as [sx|sx| |sx mx ex Bx]; destruct y as [sy|sy| |sy my ey By]; try reflexivity.
  simpl. rewrite B2SF_SF2B. apply PrimFloat.binary_round_aux_equiv.
Qed.

Lemma fdiv_link : forall x y : bf, fdiv (B2SF x) (B2SF y) = B2SF (bdiv x y).
Proof.
  intros x y. unfold fdiv, bdiv.
  destruct x as [sx|sx| |sx mx ex Bx]; destruct y as [sy|sy| |sy my ey By]; try reflexivity.
  simpl. rewrite B2SF_SF2B.
  set (melz := SFdiv_core_binary _ _ _ _ _ _). destruct melz as [[mz ez] lz].
  apply PrimFloat.binary_round_aux_equiv.
Qed.

Lemma of_int_link : forall z, of_int z = B2SF (bofint z).
Proof. intros z. apply PrimFloat.binary_normalize_equiv. Qed.

Lemma fcmp_link : forall x y : bf, SFcompare (B2SF x) (B2SF y) = Bcompare x y.
Proof. reflexivity. Qed.

(* ---------------------------------------------------------------- representable reals, exact operations *)
Open Scope R_scope.

Definition repr (r : R) : Prop := generic_format radix2 fexp64 r /\ Rabs r < bpow radix2 1024.

(* v is (the spec_float of) a finite binary64 number of real value r *)
Definition isB (v : sf) (r : R) : Prop := exists b : bf, B2SF b = v /\ is_finite b = true /\ B2R b = r.

Lemma isB_valid : forall v r, isB v r -> sf_valid v = true /\ sf_finite v = true /\ SF2R radix2 v = r.
Proof.
  intros v r (b & <- & F & <-). split; [apply valid_binary_B2SF|]. split; [|apply SF2R_B2SF].
  destruct b; try discriminate; reflexivity.
Qed.

Lemma isB_of_valid : forall v, sf_valid v = true -> sf_finite v = true -> isB v (SF2R radix2 v).
Proof.
  intros v V F. exists (SF2B v V). rewrite B2SF_SF2B. split; [reflexivity|]. split.
  - destruct v; try discriminate; reflexivity.
  - rewrite <- SF2R_B2SF, B2SF_SF2B. reflexivity.
Qed.

Lemma isB_repr : forall v r, isB v r -> repr r.
Proof.
  intros v r (b & _ & _ & <-). split; [apply generic_format_B2R|apply abs_B2R_lt_emax].
Qed.

Lemma isB_inj : forall v r1 r2, isB v r1 -> isB v r2 -> r1 = r2.
Proof. intros v r1 r2 H1 H2. apply isB_valid in H1, H2. destruct H1 as (_ & _ & <-), H2 as (_ & _ & <-). reflexivity. Qed.

Lemma rnd_repr : forall r, repr r -> Rlt_bool (Rabs (rnd64 r)) (bpow radix2 1024) = true /\ rnd64 r = r.
Proof.
  intros r [G L]. assert (E : rnd64 r = r) by (apply round_generic; [typeclasses eauto|exact G]).
  split; [|exact E]. rewrite E. apply Rlt_bool_true. exact L.
Qed.

Lemma fadd_exact : forall a b ra rb, isB a ra -> isB b rb -> repr (ra + rb) -> isB (fadd a b) (ra + rb).
Proof.
  intros a b ra rb (x & <- & Fx & <-) (y & <- & Fy & <-) R.
  destruct (rnd_repr _ R) as [L E].
  generalize (Bplus_correct 53 1024 HP HM mode_NE x y Fx Fy). simpl round_mode.
  change (SpecFloat.fexp 53 1024) with fexp64. rewrite L, E. intros (V & F & _).
  exists (bplus x y). split; [symmetry; apply fadd_link|]. split; assumption.
Qed.

Lemma fmul_exact : forall a b ra rb, isB a ra -> isB b rb -> repr (ra * rb) -> isB (fmul a b) (ra * rb).
Proof.
  intros a b ra rb (x & <- & Fx & <-) (y & <- & Fy & <-) R.
  destruct (rnd_repr _ R) as [L E].
  generalize (Bmult_correct 53 1024 HP HM mode_NE x y). simpl round_mode.
  change (SpecFloat.fexp 53 1024) with fexp64. rewrite L, E, Fx, Fy. intros (V & F & _).
  exists (bmult x y). split; [symmetry; apply fmul_link|]. split; assumption.
Qed.

Lemma F2R_int : forall z, F2R (Float radix2 z 0) = IZR z.
Proof. intros z. unfold F2R. simpl. ring. Qed.

Lemma of_int_exact : forall z, repr (IZR z) -> isB (of_int z) (IZR z).
Proof.
  intros z R. destruct (rnd_repr _ R) as [L E].
  generalize (binary_normalize_correct 53 1024 HP HM mode_NE z 0 false). simpl round_mode. cbv zeta.
  rewrite F2R_int. change (SpecFloat.fexp 53 1024) with fexp64. rewrite L, E. intros (V & F & _).
  exists (bofint z). split; [symmetry; apply of_int_link|]. split; assumption.
Qed.

(* integers of magnitude <= 2^53 are representable *)
Lemma repr_int : forall z, (Z.abs z <= 2 ^ 53)%Z -> repr (IZR z).
Proof.
  intros z H. split.
  - destruct (Z.eq_dec (Z.abs z) (2 ^ 53)) as [E|NE].
    + assert (G : generic_format radix2 fexp64 (bpow radix2 53)).
      { apply generic_format_bpow. unfold fexp64, SpecFloat.fexp, SpecFloat.emin. lia. }
      assert (B : bpow radix2 53 = IZR (2 ^ 53)) by (rewrite <- (IZR_Zpower radix2) by lia; reflexivity).
      destruct (Z.abs_eq_or_opp z) as [A|A]; rewrite A in E.
      * rewrite E, <- B. exact G.
      * replace z with (- 2 ^ 53)%Z by lia. rewrite opp_IZR, <- B. apply generic_format_opp. exact G.
    + rewrite fexp64_FLT. apply generic_format_FLT. apply (FLT_spec _ _ _ _ (Float radix2 z 0)).
      * symmetry. apply F2R_int.
      * simpl. lia.
      * simpl. lia.
  - rewrite <- abs_IZR. assert (B : bpow radix2 53 = IZR (2 ^ 53)) by (rewrite <- (IZR_Zpower radix2) by lia; reflexivity).
    apply Rle_lt_trans with (bpow radix2 53); [rewrite B; apply IZR_le; exact H|]. apply bpow_lt. lia.
Qed.

(* ---------------------------------------------------------------- exact sums over merge trees *)

Definition val (e : sf * Z) : R := SF2R radix2 (fst e).
Definition term (e : sf * Z) : R := val e * IZR (snd e).
(* the exact (real) sum of the values, every value counted cnt times *)
Definition rsum (es : list (sf * Z)) : R := fold_right (fun e acc => term e + acc) 0 es.
Definition cnt_sum (es : list (sf * Z)) : Z := fold_right (fun e acc => (snd e + acc)%Z) 0%Z es.

Definition entry_ok (e : sf * Z) : Prop := sf_valid (fst e) = true /\ sf_finite (fst e) = true /\ (0 < snd e)%Z.

(* every number one fraction forms while inserting: float64(cnt), num * float64(cnt), the running sum *)
Fixpoint leaf_repr (acc : R) (es : list (sf * Z)) : Prop :=
  match es with
  | [] => True
  | e :: r => repr (IZR (snd e)) /\ repr (term e) /\ repr (acc + term e) /\ leaf_repr (acc + term e) r
  end.

(* ... and every sum a Merge forms *)
Fixpoint all_repr (t : stree) : Prop :=
  match t with
  | SLeaf es => leaf_repr 0 es
  | SNode l r => all_repr l /\ all_repr r /\ repr (rsum (sentries l) + rsum (sentries r))
  end.

Lemma rsum_app : forall a b, rsum (a ++ b) = rsum a + rsum b.
Proof. induction a as [|e a IH]; intros b; simpl; [ring|rewrite IH; ring]. Qed.

Lemma cnt_sum_app : forall a b, cnt_sum (a ++ b) = (cnt_sum a + cnt_sum b)%Z.
Proof. induction a as [|e a IH]; intros b; simpl; [reflexivity|rewrite IH; ring]. Qed.

Lemma rsum_perm : forall a b, Permutation a b -> rsum a = rsum b.
Proof. induction 1; simpl; try lra. Qed.

Lemma cnt_sum_pos : forall es, Forall entry_ok es -> (0 <= cnt_sum es)%Z /\ (cnt_sum es = 0%Z -> es = []).
Proof.
  induction 1 as [|e es (_ & _ & P) _ [IH1 IH2]]; simpl; [split; [lia|reflexivity]|]. split; [lia|]. intros; lia.
Qed.

Lemma leaf_sum_exact : forall es s acc,
  Forall entry_ok es -> leaf_repr acc es -> isB (f_sum s) acc ->
  let s' := fold_left (fun s e => finsert_n (fst e) (snd e) s) es s in
  isB (f_sum s') (acc + rsum es) /\ f_total s' = (f_total s + cnt_sum es)%Z.
Proof.
  induction es as [|e es IH]; intros s acc F L I; simpl.
  - split; [replace (acc + 0) with acc by ring; exact I|ring].
  - inversion F as [|? ? (V & Fi & P) F']; subst. destruct L as (Rc & Rt & Ra & L).
    assert (I' : isB (f_sum (finsert_n (fst e) (snd e) s)) (acc + term e)).
    { simpl. apply fadd_exact; [exact I| |exact Ra]. apply fmul_exact; [apply isB_of_valid; assumption|apply of_int_exact; exact Rc|exact Rt]. }
    destruct (IH _ _ F' L I') as [A B]. split.
    + replace (acc + (term e + rsum es)) with (acc + term e + rsum es) by ring. exact A.
    + rewrite B. simpl. ring.
Qed.

Lemma isB_zero : isB (S754_zero false) 0.
Proof. exists (B754_zero false). repeat split. Qed.

Lemma tree_sum_exact : forall t,
  Forall entry_ok (sentries t) -> all_repr t ->
  isB (f_sum (eval_stree t)) (rsum (sentries t)) /\ f_total (eval_stree t) = cnt_sum (sentries t).
Proof.
  induction t as [es|l IHl r IHr]; intros F A; simpl in *.
  - destruct (leaf_sum_exact es fnew 0 F A isB_zero) as [S T]. unfold eval_leaf. split.
    + replace (rsum es) with (0 + rsum es) by ring. exact S.
    + rewrite T. reflexivity.
  - apply Forall_app in F. destruct F as [Fl Fr]. destruct A as (Al & Ar & Rs).
    destruct (IHl Fl Al) as [Sl Tl]. destruct (IHr Fr Ar) as [Sr Tr].
    rewrite rsum_app, cnt_sum_app. unfold fmerge. destruct (Z.eqb_spec (f_total (eval_stree r)) 0) as [E|NE].
    + rewrite Tr in E. apply (proj2 (cnt_sum_pos _ Fr)) in E. rewrite E. simpl. split.
      * replace (rsum (sentries l) + 0) with (rsum (sentries l)) by ring. exact Sl.
      * rewrite Tl. ring.
    + simpl. split; [apply fadd_exact; assumption|]. rewrite Tl, Tr. reflexivity.
Qed.

(* the theorem: Sum is exact, for every merge tree; two merge trees over the same multiset of entries agree;
   integers of magnitude <= 2^53 are representable *)
Lemma float_sum_exact_when_representable :
  (forall t, Forall entry_ok (sentries t) -> all_repr t ->
     sf_valid (f_sum (eval_stree t)) = true /\ sf_finite (f_sum (eval_stree t)) = true /\
     SF2R radix2 (f_sum (eval_stree t)) = rsum (sentries t)) /\
  (forall t1 t2, Permutation (sentries t1) (sentries t2) ->
     Forall entry_ok (sentries t1) -> all_repr t1 -> all_repr t2 ->
     SF2R radix2 (f_sum (eval_stree t1)) = SF2R radix2 (f_sum (eval_stree t2))) /\
  (forall z, (Z.abs z <= 2 ^ 53)%Z -> repr (IZR z)).
Proof.
  split; [|split].
  - intros t F A. apply isB_valid. apply tree_sum_exact; assumption.
  - intros t1 t2 P F A1 A2.
    assert (F2 : Forall entry_ok (sentries t2)).
    { apply Forall_forall. intros x I. apply (proj1 (Forall_forall _ _) F). apply Permutation_sym in P. apply (Permutation_in _ P I). }
    destruct (isB_valid _ _ (proj1 (tree_sum_exact t1 F A1))) as (_ & _ & ->).
    destruct (isB_valid _ _ (proj1 (tree_sum_exact t2 F2 A2))) as (_ & _ & ->).
    apply rsum_perm. exact P.
  - exact repr_int.
Qed.

(* ---------------------------------------------------------------- Min / Max *)

Definition is_min (m : R) (l : list R) : Prop := In m l /\ forall x, In x l -> m <= x.
Definition is_max (m : R) (l : list R) : Prop := In m l /\ forall x, In x l -> x <= m.

Lemma gmin_exact : forall a b ra rb, isB a ra -> isB b rb -> isB (gmin a b) (Rmin ra rb).
Proof.
  intros a b ra rb (x & <- & Fx & <-) (y & <- & Fy & <-). unfold gmin.
  rewrite fcmp_link, (Bcompare_correct _ _ x y Fx Fy).
  destruct (Rcompare_spec (B2R x) (B2R y)) as [L|E|G].
  - rewrite Rmin_left by lra. exists x; repeat split; assumption.
  - rewrite Rmin_left by lra.
    destruct (sf_is_zero (B2SF x)); [destruct (sf_sign (B2SF x))|]; try (exists x; repeat split; assumption).
    exists y; repeat split; try assumption. symmetry; exact E.
  - rewrite Rmin_right by lra. exists y; repeat split; assumption.
Qed.

Lemma gmax_exact : forall a b ra rb, isB a ra -> isB b rb -> isB (gmax a b) (Rmax ra rb).
Proof.
  intros a b ra rb (x & <- & Fx & <-) (y & <- & Fy & <-). unfold gmax.
  rewrite fcmp_link, (Bcompare_correct _ _ x y Fx Fy).
  destruct (Rcompare_spec (B2R x) (B2R y)) as [L|E|G].
  - rewrite Rmax_right by lra. exists y; repeat split; assumption.
  - rewrite Rmax_left by lra.
    destruct (sf_is_zero (B2SF x)); [destruct (sf_sign (B2SF x))|]; try (exists x; repeat split; assumption).
    exists y; repeat split; try assumption. symmetry; exact E.
  - rewrite Rmax_left by lra. exists x; repeat split; assumption.
Qed.

Lemma is_min_app : forall a b la lb, is_min a la -> is_min b lb -> is_min (Rmin a b) (la ++ lb).
Proof.
  intros a b la lb [Ia La] [Ib Lb]. split.
  - apply in_or_app. destruct (Rle_dec a b); [rewrite Rmin_left by lra; left|rewrite Rmin_right by lra; right]; assumption.
  - intros x I. apply in_app_or in I. destruct I as [I|I]; [apply La in I|apply Lb in I].
    + apply Rle_trans with a; [apply Rmin_l|exact I].
    + apply Rle_trans with b; [apply Rmin_r|exact I].
Qed.

Lemma is_max_app : forall a b la lb, is_max a la -> is_max b lb -> is_max (Rmax a b) (la ++ lb).
Proof.
  intros a b la lb [Ia La] [Ib Lb]. split.
  - apply in_or_app. destruct (Rle_dec a b); [rewrite Rmax_right by lra; right|rewrite Rmax_left by lra; left]; assumption.
  - intros x I. apply in_app_or in I. destruct I as [I|I]; [apply La in I|apply Lb in I].
    + apply Rle_trans with a; [exact I|apply Rmax_l].
    + apply Rle_trans with b; [exact I|apply Rmax_r].
Qed.

Lemma is_min_single : forall a, is_min a [a].
Proof. intros a. split; [left; reflexivity|]. intros x [<-|[]]. lra. Qed.
Lemma is_max_single : forall a, is_max a [a].
Proof. intros a. split; [left; reflexivity|]. intros x [<-|[]]. lra. Qed.

(* the container describes the values vs: Total = 0 iff there are none; otherwise Min and Max are finite
   binary64 numbers whose values are the exact minimum and maximum of vs *)
Definition fdesc (s : fsumm) (vs : list R) : Prop :=
  (0 <= f_total s)%Z /\ (f_total s = 0%Z <-> vs = []) /\
  (vs <> [] -> exists mn mx, isB (f_min s) mn /\ is_min mn vs /\ isB (f_max s) mx /\ is_max mx vs).

Lemma fdesc_new : fdesc fnew [].
Proof. split; [simpl; lia|]. split; [split; reflexivity|]. intros H; now elim H. Qed.

Lemma fdesc_insert : forall s vs e, entry_ok e -> fdesc s vs -> fdesc (finsert_n (fst e) (snd e) s) (vs ++ [val e]).
Proof.
  intros s vs e (V & F & P) (T0 & TE & D). pose proof (isB_of_valid _ V F) as Iv. fold (val e) in Iv.
  split; [simpl; lia|]. split.
  - simpl. split; [lia|]. intros H. destruct vs; discriminate.
  - intros _. unfold finsert_n. simpl f_min. simpl f_max. destruct (Z.eqb_spec (f_total s) 0) as [E|NE].
    + apply TE in E. subst vs. simpl. exists (val e), (val e). repeat split; try assumption; try (left; reflexivity);
        intros x [<-|[]]; lra.
    + assert (NV : vs <> []) by (intros H; apply NE; apply TE; exact H).
      destruct (D NV) as (mn & mx & Imn & Mn & Imx & Mx).
      exists (Rmin mn (val e)), (Rmax mx (val e)). split; [apply gmin_exact; assumption|]. split; [apply is_min_app; [assumption|apply is_min_single]|].
      split; [apply gmax_exact; assumption|apply is_max_app; [assumption|apply is_max_single]].
Qed.

Lemma fdesc_leaf : forall es s vs, Forall entry_ok es -> fdesc s vs ->
  fdesc (fold_left (fun s e => finsert_n (fst e) (snd e) s) es s) (vs ++ map val es).
Proof.
  induction es as [|e es IH]; intros s vs F D; simpl.
  - rewrite app_nil_r. exact D.
  - inversion F; subst. replace (vs ++ val e :: map val es) with ((vs ++ [val e]) ++ map val es) by (rewrite <- app_assoc; reflexivity).
    apply IH; [assumption|]. apply fdesc_insert; assumption.
Qed.

Lemma fdesc_merge : forall h x va vb, fdesc h va -> fdesc x vb -> fdesc (fmerge h x) (va ++ vb).
Proof.
  intros h x va vb (Th & Eh & Dh) (Tx & Ex & Dx). unfold fmerge.
  destruct (Z.eqb_spec (f_total x) 0) as [E|NE].
  - apply Ex in E. subst vb. rewrite app_nil_r. repeat split; try assumption; apply Eh.
  - assert (NVb : vb <> []) by (intros H; apply NE; apply Ex; exact H).
    destruct (Dx NVb) as (mnx & mxx & Imnx & Mnx & Imxx & Mxx).
    split; [simpl; lia|]. split.
    + simpl. split; [lia|]. intros H. apply app_eq_nil in H. destruct H as [_ H]. contradiction.
    + intros _. simpl f_min. simpl f_max. destruct (Z.eqb_spec (f_total h) 0) as [E0|NE0].
      * apply Eh in E0. subst va. simpl. exists mnx, mxx. repeat split; try assumption; try apply Mnx; try apply Mxx.
      * assert (NVa : va <> []) by (intros H; apply NE0; apply Eh; exact H).
        destruct (Dh NVa) as (mnh & mxh & Imnh & Mnh & Imxh & Mxh).
        exists (Rmin mnh mnx), (Rmax mxh mxx). split; [apply gmin_exact; assumption|]. split; [apply is_min_app; assumption|].
        split; [apply gmax_exact; assumption|apply is_max_app; assumption].
Qed.

Lemma fdesc_tree : forall t, Forall entry_ok (sentries t) -> fdesc (eval_stree t) (map val (sentries t)).
Proof.
  induction t as [es|l IHl r IHr]; intros F; simpl in *.
  - apply (fdesc_leaf es fnew [] F fdesc_new).
  - apply Forall_app in F. destruct F as [Fl Fr]. rewrite map_app. apply fdesc_merge; [apply IHl|apply IHr]; assumption.
Qed.

Lemma float_minmax_exact : forall t, Forall entry_ok (sentries t) -> sentries t <> [] ->
  sf_valid (f_min (eval_stree t)) = true /\ sf_finite (f_min (eval_stree t)) = true /\
  sf_valid (f_max (eval_stree t)) = true /\ sf_finite (f_max (eval_stree t)) = true /\
  is_min (SF2R radix2 (f_min (eval_stree t))) (map val (sentries t)) /\
  is_max (SF2R radix2 (f_max (eval_stree t))) (map val (sentries t)).
Proof.
  intros t F NE. destruct (fdesc_tree t F) as (_ & _ & D).
  destruct D as (mn & mx & Imn & Mn & Imx & Mx); [intros H; apply map_eq_nil in H; contradiction|].
  destruct (isB_valid _ _ Imn) as (V1 & F1 & <-). destruct (isB_valid _ _ Imx) as (V2 & F2 & <-).
  repeat split; try assumption; try apply Mn; try apply Mx.
Qed.

(* ---------------------------------------------------------------- Avg *)

Lemma float_avg_rounded : forall s rs, isB (f_sum s) rs -> (0 < f_total s <= 2 ^ 53)%Z ->
  fvalue FAvg s = fdiv (f_sum s) (of_int (f_total s)) /\
  isB (fvalue FAvg s) (rnd64 (rs / IZR (f_total s))).
Proof.
  intros s rs I T. unfold fvalue. destruct (Z.eqb_spec (f_total s) 0) as [E|NE]; [lia|]. split; [reflexivity|].
  assert (Rn : repr (IZR (f_total s))) by (apply repr_int; lia).
  destruct (of_int_exact _ Rn) as (y & Ey & Fy & Vy). destruct I as (x & Ex & Fx & Vx).
  rewrite <- Ex, <- Ey, fdiv_link.
  assert (N1 : 1 <= IZR (f_total s)) by (apply IZR_le; lia).
  assert (NZ : B2R y <> 0) by (rewrite Vy; lra).
  generalize (Bdiv_correct 53 1024 HP HM mode_NE x y NZ). simpl round_mode.
  change (SpecFloat.fexp 53 1024) with fexp64. rewrite Vx, Vy.
  assert (LT : Rabs (rnd64 (rs / IZR (f_total s))) < bpow radix2 1024).
  { apply Rle_lt_trans with (Rabs rs); [|rewrite <- Vx; apply abs_B2R_lt_emax].
    apply abs_round_le_generic; [typeclasses eauto|typeclasses eauto| |].
    - apply generic_format_abs. rewrite <- Vx. apply generic_format_B2R.
    - unfold Rdiv. rewrite Rabs_mult. rewrite <- (Rmult_1_r (Rabs rs)) at 2.
      apply Rmult_le_compat_l; [apply Rabs_pos|]. rewrite Rabs_inv.
      rewrite Rabs_pos_eq by lra. rewrite <- Rinv_1. apply Rinv_le_contravar; lra. }
  rewrite (Rlt_bool_true _ _ LT). intros (V & F & _).
  exists (bdiv x y). split; [reflexivity|]. split; [unfold bdiv; rewrite F; exact Fx|exact V].
Qed.

(* with an exact Sum, Avg is the correctly rounded true mean *)
Lemma float_avg_is_rounded_quotient :
  (forall s, sf_valid (f_sum s) = true -> sf_finite (f_sum s) = true -> (0 < f_total s <= 2 ^ 53)%Z ->
     fvalue FAvg s = fdiv (f_sum s) (of_int (f_total s)) /\
     sf_valid (fvalue FAvg s) = true /\ sf_finite (fvalue FAvg s) = true /\
     SF2R radix2 (fvalue FAvg s) = rnd64 (SF2R radix2 (f_sum s) / IZR (f_total s))) /\
  (forall t, Forall entry_ok (sentries t) -> all_repr t -> (0 < cnt_sum (sentries t) <= 2 ^ 53)%Z ->
     SF2R radix2 (fvalue FAvg (eval_stree t)) = rnd64 (rsum (sentries t) / IZR (cnt_sum (sentries t)))).
Proof.
  split.
  - intros s V F T. destruct (float_avg_rounded s _ (isB_of_valid _ V F) T) as [E I]. split; [exact E|]. apply isB_valid. exact I.
  - intros t F A T. destruct (tree_sum_exact t F A) as [S Tt]. rewrite <- Tt in T.
    destruct (float_avg_rounded _ _ S T) as [_ I]. apply isB_valid in I. destruct I as (_ & _ & ->). rewrite Tt. reflexivity.
Qed.

(* ---------------------------------------------------------------- rounded sums: error bound of one fraction's chain *)


Definition u64 : R := u_ro radix2 53.

Lemma u64_val : u64 = bpow radix2 (-53).
Proof.
  unfold u64, u_ro. rewrite bpow_plus_1. change (IZR radix2) with 2. simpl Z.opp. generalize (bpow radix2 (-53)). intros r. field.
Qed.

Lemma u64_pos : 0 <= u64.
Proof. apply u_ro_pos. Qed.

Lemma overflow_NE : forall s, binary_overflow 53 1024 mode_NE s = S754_infinity s.
Proof. reflexivity. Qed.

Lemma fadd_round : forall a b ra rb, isB a ra -> isB b rb -> sf_finite (fadd a b) = true ->
  isB (fadd a b) (rnd64 (ra + rb)).
Proof.
  intros a b ra rb (x & <- & Fx & <-) (y & <- & Fy & <-) Fin.
  generalize (Bplus_correct 53 1024 HP HM mode_NE x y Fx Fy). simpl round_mode.
  change (SpecFloat.fexp 53 1024) with fexp64. rewrite fadd_link in Fin. fold bplus.
  destruct (Rlt_bool _ _).
  - intros (V & F & _). exists (bplus x y). split; [symmetry; apply fadd_link|]. split; assumption.
  - intros (O & _). rewrite O, overflow_NE in Fin. discriminate.
Qed.

Lemma rnd_plus_eps : forall x y, generic_format radix2 fexp64 x -> generic_format radix2 fexp64 y ->
  exists eps, Rabs eps <= u64 /\ rnd64 (x + y) = (x + y) * (1 + eps).
Proof.
  intros x y Gx Gy. rewrite fexp64_FLT in *.
  destruct (@FLT_plus_error_N_ex radix2 (-1074) 53 HP (fun z => negb (Z.even z)) x y Gx Gy) as (eps & B & E).
  exists eps. split; [|exact E]. apply Rle_trans with (1 := B). fold u64.
  assert (P := u64_pos). assert (H1 : 0 < 1 + u64) by lra.
  apply Rmult_le_reg_r with (1 + u64); [exact H1|]. unfold Rdiv. rewrite Rmult_assoc, Rinv_l by lra. nra.
Qed.

Definition rabs_sum (es : list (sf * Z)) : R := fold_right (fun e acc => Rabs (term e) + acc) 0 es.

(* no running sum of the chain overflows *)
Fixpoint chain_finite (s : fsumm) (es : list (sf * Z)) : Prop :=
  match es with
  | [] => True
  | e :: r => sf_finite (f_sum (finsert_n (fst e) (snd e) s)) = true /\ chain_finite (finsert_n (fst e) (snd e) s) r
  end.

Definition entry_one (e : sf * Z) : Prop := sf_valid (fst e) = true /\ sf_finite (fst e) = true /\ snd e = 1%Z.

Lemma step_bound : forall d eps S v cn A u,
  Rabs d <= cn * A -> Rabs eps <= u -> Rabs S <= A -> 0 <= cn -> 0 <= u -> 0 <= A ->
  Rabs (d * (1 + eps) + (S + v) * eps) <= (cn * (1 + u) + u) * (A + Rabs v).
Proof.
  intros d eps S v cn A u Hd He HS Hc Hu HA.
  assert (V := Rabs_pos v). assert (D := Rabs_pos d). assert (E := Rabs_pos eps). assert (SS := Rabs_pos S).
  apply Rle_trans with (Rabs d * (1 + Rabs eps) + (Rabs S + Rabs v) * Rabs eps).
  - eapply Rle_trans; [apply Rabs_triang|]. rewrite !Rabs_mult. apply Rplus_le_compat.
    + apply Rmult_le_compat_l; [exact D|]. eapply Rle_trans; [apply Rabs_triang|]. rewrite Rabs_R1. lra.
    + apply Rmult_le_compat_r; [exact E|]. apply Rabs_triang.
  - assert (Rabs d * (1 + Rabs eps) <= cn * A * (1 + u)).
    { apply Rmult_le_compat; try lra. }
    assert ((Rabs S + Rabs v) * Rabs eps <= (A + Rabs v) * u).
    { apply Rmult_le_compat; try lra. }
    assert (cn * A * (1 + u) <= cn * (A + Rabs v) * (1 + u)).
    { apply Rmult_le_compat_r; [lra|]. apply Rmult_le_compat_l; lra. }
    lra.
Qed.

Lemma chain_bound : forall es s fs S A n,
  Forall entry_one es -> chain_finite s es ->
  isB (f_sum s) fs -> Rabs (fs - S) <= ((1 + u64) ^ n - 1) * A -> Rabs S <= A ->
  let s' := fold_left (fun s e => finsert_n (fst e) (snd e) s) es s in
  exists fs', isB (f_sum s') fs' /\
    Rabs (fs' - (S + rsum es)) <= ((1 + u64) ^ (n + length es) - 1) * (A + rabs_sum es).
Proof.
  induction es as [|e es IH]; intros s fs S A n F C I B HS; simpl.
  - exists fs. split; [exact I|]. rewrite Nat.add_0_r, !Rplus_0_r. exact B.
  - inversion F as [|? ? (V & Fi & One) F']; subst. destruct C as [Fin C].
    pose proof (isB_of_valid _ V Fi) as Iv. fold (val e) in Iv.
    assert (T : term e = val e) by (unfold term; rewrite One; simpl; ring).
    assert (Ip : isB (fmul (fst e) (of_int (snd e))) (val e)).
    { replace (val e) with (val e * IZR (snd e)) by (rewrite One; simpl; ring).
      apply fmul_exact; [exact Iv|apply of_int_exact; apply repr_int; rewrite One; simpl; lia|].
      rewrite One. simpl. rewrite Rmult_1_r. apply (isB_repr _ _ Iv). }
    simpl in Fin.
    pose proof (fadd_round _ _ _ _ I Ip Fin) as I'.
    destruct (rnd_plus_eps fs (val e) (proj1 (isB_repr _ _ I)) (proj1 (isB_repr _ _ Iv))) as (eps & Be & Ee).
    rewrite Ee in I'.
    assert (P := u64_pos).
    assert (Cn : 0 <= (1 + u64) ^ n - 1).
    { assert (1 <= (1 + u64) ^ n) by (apply pow_R1_Rle; lra). lra. }
    assert (HA : 0 <= A) by (apply Rle_trans with (2 := HS); apply Rabs_pos).
    destruct (IH (finsert_n (fst e) (snd e) s) ((fs + val e) * (1 + eps)) (S + val e) (A + Rabs (val e)) (Datatypes.S n) F' C I') as (fs' & If & Bf).
    + replace ((fs + val e) * (1 + eps) - (S + val e)) with ((fs - S) * (1 + eps) + (S + val e) * eps) by ring.
      replace ((1 + u64) ^ Datatypes.S n - 1) with (((1 + u64) ^ n - 1) * (1 + u64) + u64) by (simpl; ring).
      apply step_bound; assumption.
    + eapply Rle_trans; [apply Rabs_triang|]. lra.
    + exists fs'. split; [exact If|]. rewrite T.
      replace (S + (val e + rsum es)) with (S + val e + rsum es) by ring.
      replace (n + Datatypes.S (length es))%nat with (Datatypes.S n + length es)%nat by lia.
      replace (A + (Rabs (val e) + rabs_sum es)) with (A + Rabs (val e) + rabs_sum es) by ring. exact Bf.
Qed.

(* one fraction without group (every document inserted once): if no running sum overflows, the float64 Sum
   differs from the exact sum by at most ((1+u)^n - 1) * sum |x_i|, u = 2^-53 *)
Lemma float_sum_error_bound_chain : forall es,
  Forall entry_one es -> chain_finite fnew es ->
  sf_finite (f_sum (eval_leaf es)) = true /\
  Rabs (SF2R radix2 (f_sum (eval_leaf es)) - rsum es) <= ((1 + u64) ^ length es - 1) * rabs_sum es.
Proof.
  intros es F C.
  destruct (chain_bound es fnew 0 0 0 0%nat F C isB_zero) as (fs' & I & B).
  - rewrite Rminus_0_r, Rabs_R0. simpl. lra.
  - rewrite Rabs_R0. lra.
  - apply isB_valid in I. destruct I as (_ & Fi & E). split; [exact Fi|].
    unfold eval_leaf. rewrite E. rewrite !Rplus_0_l in B. exact B.
Qed.

(* ---------------------------------------------------------------- rounded sums: error bound over merge trees (counts 1) *)

(* no running sum of any fraction and no sum formed by a Merge overflows *)
Fixpoint tree_finite (t : stree) : Prop :=
  match t with
  | SLeaf es => chain_finite fnew es
  | SNode l r => tree_finite l /\ tree_finite r /\ sf_finite (f_sum (eval_stree (SNode l r))) = true
  end.

(* the largest number of rounded additions any value goes through: a fraction's chain of k values counts k,
   every Merge above it one more *)
Fixpoint rounds (t : stree) : nat :=
  match t with
  | SLeaf es => length es
  | SNode l r => S (Nat.max (rounds l) (rounds r))
  end.

Lemma leaf_total : forall es s, f_total (fold_left (fun s e => finsert_n (fst e) (snd e) s) es s) = (f_total s + cnt_sum es)%Z.
Proof. induction es as [|e es IH]; intros s; simpl; [ring|]. rewrite IH. simpl. ring. Qed.

Lemma tree_total : forall t, f_total (eval_stree t) = cnt_sum (sentries t).
Proof.
  induction t as [es|l IHl r IHr]; simpl.
  - unfold eval_leaf. rewrite leaf_total. reflexivity.
  - rewrite cnt_sum_app. unfold fmerge. destruct (Z.eqb_spec (f_total (eval_stree r)) 0) as [E|NE].
    + rewrite <- IHr, E, IHl. ring.
    + simpl. rewrite IHl, IHr. reflexivity.
Qed.

Lemma cnt_sum_one : forall es, Forall entry_one es -> cnt_sum es = Z.of_nat (length es).
Proof. induction 1 as [|e es (_ & _ & One) _ IH]; simpl length; simpl cnt_sum; [reflexivity|]. rewrite IH, One. lia. Qed.

Lemma rabs_sum_app : forall a b, rabs_sum (a ++ b) = rabs_sum a + rabs_sum b.
Proof. induction a as [|e a IH]; intros b; simpl; [ring|rewrite IH; ring]. Qed.

Lemma rabs_sum_pos : forall es, 0 <= rabs_sum es.
Proof. induction es as [|e es IH]; simpl; [lra|]. assert (H := Rabs_pos (term e)). lra. Qed.

Lemma rsum_le_rabs : forall es, Rabs (rsum es) <= rabs_sum es.
Proof.
  induction es as [|e es IH]; simpl; [rewrite Rabs_R0; lra|].
  eapply Rle_trans; [apply Rabs_triang|]. lra.
Qed.

Lemma node_bound : forall dl dr eps Sl Sr c Al Ar u,
  Rabs dl <= c * Al -> Rabs dr <= c * Ar -> Rabs eps <= u -> Rabs Sl <= Al -> Rabs Sr <= Ar -> 0 <= c -> 0 <= u ->
  Rabs ((dl + dr) * (1 + eps) + (Sl + Sr) * eps) <= (c * (1 + u) + u) * (Al + Ar).
Proof.
  intros dl dr eps Sl Sr c Al Ar u Hl Hr He HSl HSr Hc Hu.
  assert (E := Rabs_pos eps).
  assert (D : Rabs (dl + dr) <= c * (Al + Ar)).
  { eapply Rle_trans; [apply Rabs_triang|]. lra. }
  assert (S : Rabs (Sl + Sr) <= Al + Ar).
  { eapply Rle_trans; [apply Rabs_triang|]. lra. }
  assert (D0 := Rabs_pos (dl + dr)). assert (S0 := Rabs_pos (Sl + Sr)).
  apply Rle_trans with (Rabs (dl + dr) * (1 + Rabs eps) + Rabs (Sl + Sr) * Rabs eps).
  - eapply Rle_trans; [apply Rabs_triang|]. rewrite !Rabs_mult. apply Rplus_le_compat_r.
    apply Rmult_le_compat_l; [exact D0|]. eapply Rle_trans; [apply Rabs_triang|]. rewrite Rabs_R1. lra.
  - assert (Rabs (dl + dr) * (1 + Rabs eps) <= c * (Al + Ar) * (1 + u)) by (apply Rmult_le_compat; lra).
    assert (Rabs (Sl + Sr) * Rabs eps <= (Al + Ar) * u) by (apply Rmult_le_compat; lra).
    lra.
Qed.

Lemma pow1u_mono : forall a b, (a <= b)%nat -> (1 + u64) ^ a - 1 <= (1 + u64) ^ b - 1.
Proof. intros a b H. assert (P := u64_pos). assert ((1 + u64) ^ a <= (1 + u64) ^ b) by (apply Rle_pow; [lra|exact H]). lra. Qed.

Lemma pow1u_pos : forall a, 0 <= (1 + u64) ^ a - 1.
Proof. intros a. assert (P := u64_pos). assert (1 <= (1 + u64) ^ a) by (apply pow_R1_Rle; lra). lra. Qed.

Lemma tree_bound : forall t, Forall entry_one (sentries t) -> tree_finite t ->
  exists fs, isB (f_sum (eval_stree t)) fs /\
    Rabs (fs - rsum (sentries t)) <= ((1 + u64) ^ rounds t - 1) * rabs_sum (sentries t).
Proof.
  induction t as [es|l IHl r IHr]; intros F T; simpl in *.
  - destruct (chain_bound es fnew 0 0 0 0%nat F T isB_zero) as (fs' & I & B).
    + rewrite Rminus_0_r, Rabs_R0. simpl. lra.
    + rewrite Rabs_R0. lra.
    + exists fs'. split; [exact I|]. rewrite !Rplus_0_l in B. exact B.
  - apply Forall_app in F. destruct F as [Fl Fr]. destruct T as (Tl & Tr & Fin).
    destruct (IHl Fl Tl) as (fl & Il & Bl). destruct (IHr Fr Tr) as (fr & Ir & Br).
    rewrite rsum_app, rabs_sum_app. unfold fmerge in *.
    assert (Al := rabs_sum_pos (sentries l)). assert (Ar := rabs_sum_pos (sentries r)).
    set (c := (1 + u64) ^ Nat.max (rounds l) (rounds r) - 1).
    assert (Hc : 0 <= c) by apply pow1u_pos.
    assert (Bl' : Rabs (fl - rsum (sentries l)) <= c * rabs_sum (sentries l)).
    { eapply Rle_trans; [exact Bl|]. apply Rmult_le_compat_r; [exact Al|]. apply pow1u_mono. apply Nat.le_max_l. }
    assert (Br' : Rabs (fr - rsum (sentries r)) <= c * rabs_sum (sentries r)).
    { eapply Rle_trans; [exact Br|]. apply Rmult_le_compat_r; [exact Ar|]. apply pow1u_mono. apply Nat.le_max_r. }
    assert (P := u64_pos).
    assert (CS : (1 + u64) * (1 + u64) ^ Nat.max (rounds l) (rounds r) - 1 = c * (1 + u64) + u64) by (unfold c; ring).
    destruct (Z.eqb_spec (f_total (eval_stree r)) 0) as [E|NE].
    + rewrite tree_total, (cnt_sum_one _ Fr) in E.
      assert (L : sentries r = []) by (destruct (sentries r); [reflexivity|simpl in E; lia]).
      rewrite L. simpl rsum. simpl rabs_sum. rewrite !Rplus_0_r. exists fl. split; [exact Il|].
      eapply Rle_trans; [exact Bl'|]. apply Rmult_le_compat_r; [exact Al|]. rewrite CS. nra.
    + simpl f_sum in *. pose proof (fadd_round _ _ _ _ Il Ir Fin) as I'.
      destruct (rnd_plus_eps fl fr (proj1 (isB_repr _ _ Il)) (proj1 (isB_repr _ _ Ir))) as (eps & Be & Ee).
      rewrite Ee in I'. exists ((fl + fr) * (1 + eps)). split; [exact I'|].
      replace ((fl + fr) * (1 + eps) - (rsum (sentries l) + rsum (sentries r)))
        with (((fl - rsum (sentries l)) + (fr - rsum (sentries r))) * (1 + eps) + (rsum (sentries l) + rsum (sentries r)) * eps) by ring.
      rewrite CS. apply node_bound; try assumption; apply rsum_le_rabs.
Qed.

(* every merge tree whose entries all have count 1 (fractions without group): if no running sum and no merged sum
   overflows, |Sum - exact sum| <= ((1+u)^k - 1) * sum|x_i|, u = 2^-53, k = rounds t <= (values) + (merges) *)
Lemma float_sum_error_bound_tree : forall t, Forall entry_one (sentries t) -> tree_finite t ->
  sf_finite (f_sum (eval_stree t)) = true /\
  Rabs (SF2R radix2 (f_sum (eval_stree t)) - rsum (sentries t)) <= ((1 + u64) ^ rounds t - 1) * rabs_sum (sentries t).
Proof.
  intros t F T. destruct (tree_bound t F T) as (fs & I & B).
  apply isB_valid in I. destruct I as (_ & Fi & E). split; [exact Fi|]. rewrite E. exact B.
Qed.

(* ---------------------------------------------------------------- a concrete witness of the hypotheses *)
Lemma exact_nonvacuous :
  let t := SNode (SLeaf [(sf_of_bits 0x4008000000000000, 2%Z); (sf_of_bits 0x4014000000000000, 1%Z)])
                 (SLeaf [(sf_of_bits 0xC010000000000000, 1%Z)]) in
  Forall entry_ok (sentries t) /\ all_repr t /\ sentries t <> [] /\ (0 < cnt_sum (sentries t) <= 2 ^ 53)%Z /\
  bits_of_sf (f_sum (eval_stree t)) = 0x401C000000000000%Z /\
  bits_of_sf (fvalue FAvg (eval_stree t)) = 0x3FFC000000000000%Z.
Proof.
  cbv zeta.
  change (sf_of_bits 0x4008000000000000) with (S754_finite false 6755399441055744 (-51)).
  change (sf_of_bits 0x4014000000000000) with (S754_finite false 5629499534213120 (-50)).
  change (sf_of_bits 0xC010000000000000) with (S754_finite true 4503599627370496 (-50)).
  assert (V3 : SF2R radix2 (S754_finite false 6755399441055744 (-51)) = 3).
  { unfold SF2R, F2R, Fnum, Fexp, cond_Zopp. change (bpow radix2 (-51)) with (/ IZR (2 ^ 51)).
    change (2 ^ 51)%Z with 2251799813685248%Z.
    apply Rmult_eq_reg_r with 2251799813685248; [|lra]. rewrite Rmult_assoc, Rinv_l by lra. lra. }
  assert (V5 : SF2R radix2 (S754_finite false 5629499534213120 (-50)) = 5).
  { unfold SF2R, F2R, Fnum, Fexp, cond_Zopp. change (bpow radix2 (-50)) with (/ IZR (2 ^ 50)).
    change (2 ^ 50)%Z with 1125899906842624%Z.
    apply Rmult_eq_reg_r with 1125899906842624; [|lra]. rewrite Rmult_assoc, Rinv_l by lra. lra. }
  assert (V4 : SF2R radix2 (S754_finite true 4503599627370496 (-50)) = -4).
  { unfold SF2R, F2R, Fnum, Fexp, cond_Zopp. simpl Z.opp. change (bpow radix2 (-50)) with (/ IZR (2 ^ 50)).
    change (2 ^ 50)%Z with 1125899906842624%Z.
    apply Rmult_eq_reg_r with 1125899906842624; [|lra]. rewrite Rmult_assoc, Rinv_l by lra. lra. }
  assert (RI : forall z : Z, (Z.abs z <= 2 ^ 53)%Z -> forall r, r = IZR z -> repr r) by (intros z H r ->; apply repr_int; exact H).
  split; [repeat constructor; simpl; lia|]. split.
  - simpl. unfold term, val. simpl fst. simpl snd. rewrite V3, V5, V4.
    repeat split;
      first [ apply (RI 2%Z); [simpl; lia|lra] | apply (RI 1%Z); [simpl; lia|lra] | apply (RI 6%Z); [simpl; lia|lra]
            | apply (RI 5%Z); [simpl; lia|lra] | apply (RI 11%Z); [simpl; lia|lra] | apply (RI (-4)%Z); [simpl; lia|lra]
            | apply (RI 7%Z); [simpl; lia|lra] ].
  - split; [discriminate|]. split; [simpl; lia|]. split; vm_compute; reflexivity.
Qed.
