(* C06 — executable model of aggregations and histograms.
   Mirrors (as the code is NOW, i.e. with the repaired Quantile of commit e5a0cc6):
     frac/processor/aggregator.go  SourcedNodeIterator.ConsumeTokenSource, the four aggregators
                                   (SingleSourceCount/Unique/Histogram, TwoSource), provideExtractTimeFunc
     node/node_or.go, node/builder.go  nodeOrAgg.NextSourced, BuildORTreeAgg/TreeFold
     frac/processor/search.go      iterateEvalTree (histogram bucket = mid - mid % interval)
     seq/qpr.go                    NewSamplesContainers, InsertNTimes, InsertSample, SamplesContainer.Merge,
                                   AggregatableSamples.Merge, MergeQPRs (histogram/aggs part),
                                   Aggregate/getAggBucket/sortBuckets, Quantile
   Numbers: every field value of a case is an integer number of units 2^-scale (chosen by the
   harness per case), so sums are exact integers; see CaseDefs.v for how float64 outputs are
   compared.  No proofs in this file. *)
From Coq Require Export List Bool ZArith NArith.
From C06 Require Export ZSortLib.
Export ListNotations.
Open Scope Z_scope.

(* ---------------------------------------------------------------- inputs *)

(* a document as one aggregation query sees it: timestamp, does the search query select it,
   its (single) group token and its (single) numeric field value *)
Record doc := Doc { d_mid : N; d_match : bool; d_grp : option N; d_fld : option Z }.

Inductive func := FCount | FSum | FMin | FMax | FAvg | FQuantile | FUnique.

Definition func_eqb (a b : func) : bool :=
  match a, b with
  | FCount, FCount | FSum, FSum | FMin, FMin | FMax, FMax | FAvg, FAvg
  | FQuantile, FQuantile | FUnique, FUnique => true
  | _, _ => false
  end.

(* a quantile a / 2^b (0 <= a <= 2^b): the harness only uses dyadic quantiles, for which
   float64(len-1)*q + 0.5 is computed without rounding *)
Definition quant := (N * N)%type.

Record query := Query {
  q_from : N; q_to : N;           (* time range, inclusive *)
  q_func : func;
  q_group : bool;                 (* AggQuery.GroupBy != nil *)
  q_interval : N;                 (* AggQuery.Interval (0 = no time series) *)
  q_quants : list quant;
  q_netok : N;                    (* id of the token "_not_exists" in this case's token table *)
  q_scale : Z                     (* the case's unit is 2^-scale (only the sentinels of a fresh container need it) *)
}.

Definition selected (from to : N) (d : doc) : bool :=
  d_match d && (from <=? d_mid d)%N && (d_mid d <=? to)%N.

(* provideExtractTimeFunc / iterateEvalTree: bucket = mid - mid % interval; DummyMID = 0 *)
Definition bucket_of (interval mid : N) : N :=
  if (interval =? 0)%N then 0%N else (mid - mid mod interval)%N.

(* ---------------------------------------------------------------- SamplesContainer *)

Definition max_samples : N := 8096.

Record summ := Summ {
  s_min : Z; s_max : Z; s_sum : Z;
  s_total : N; s_ne : N;
  s_samples : list Z;
  s_ovf : bool      (* a sample was inserted into a full reservoir: the random replacement is
                       not modelled, the sample list is unreliable from then on *)
}.

(* NewSamplesContainers: Min = float64(math.MaxInt64) = 2^63, Max = float64(math.MinInt64) = -2^63
   (in units 2^-sc).  These sentinels are NOT neutral for min/max: field values may lie beyond
   +-2^63 (uint64 ids, "1e19", "1e300"), which is why InsertNTimes and Merge special-case Total = 0
   instead of relying on them. *)
Definition sentinel (sc : Z) : Z := 2 ^ 63 * 2 ^ sc.
Definition new_summ (sc : Z) : summ := Summ (sentinel sc) (- sentinel sc) 0 0 0 [] false.

Definition insert_sample (v : Z) (s : summ) : summ :=
  if (N.of_nat (length (s_samples s)) <? max_samples)%N
  then Summ (s_min s) (s_max s) (s_sum s) (s_total s) (s_ne s) (v :: s_samples s) (s_ovf s)
  else Summ (s_min s) (s_max s) (s_sum s) (s_total s) (s_ne s) (s_samples s) true.

(* InsertNTimes(num, cnt) *)
Definition insert_n (v : Z) (cnt : N) (s : summ) : summ :=
  let mn := if (s_total s =? 0)%N then v else Z.min (s_min s) v in
  let mx := if (s_total s =? 0)%N then v else Z.max (s_max s) v in
  Summ mn mx (s_sum s + v * Z.of_N cnt) (s_total s + cnt)%N (s_ne s) (s_samples s) (s_ovf s).

(* one value: InsertNTimes(num, 1) and, when samples are collected, InsertSample(num) *)
Definition insert_val (collect : bool) (v : Z) (s : summ) : summ :=
  let s' := insert_n v 1 s in if collect then insert_sample v s' else s'.

Definition add_ne (s : summ) : summ :=
  Summ (s_min s) (s_max s) (s_sum s) (s_total s) (s_ne s + 1)%N (s_samples s) (s_ovf s).

Definition add_total (s : summ) : summ :=
  Summ (s_min s) (s_max s) (s_sum s) (s_total s + 1)%N (s_ne s) (s_samples s) (s_ovf s).

(* SamplesContainer.Merge: h.Merge(x) *)
Definition merge_summ (h x : summ) : summ :=
  let ne := (s_ne h + s_ne x)%N in
  if (s_total x =? 0)%N then
    Summ (s_min h) (s_max h) (s_sum h) (s_total h) ne (s_samples h) (s_ovf h)
  else
    let mn := if (s_total h =? 0)%N then s_min x else Z.min (s_min h) (s_min x) in
    let mx := if (s_total h =? 0)%N then s_max x else Z.max (s_max h) (s_max x) in
    let h1 := Summ mn mx (s_sum h + s_sum x) (s_total h + s_total x)%N ne (s_samples h)
                   (s_ovf h || s_ovf x) in
    fold_left (fun acc v => insert_sample v acc) (s_samples x) h1.

(* Merge with the Total = 0 case of the destination collapsed into plain min/max, i.e. relying on the
   sentinels of a fresh container (NOT the code; kept to document why the special case is needed) *)
Definition merge_summ_v0 (h x : summ) : summ :=
  let ne := (s_ne h + s_ne x)%N in
  if (s_total x =? 0)%N then
    Summ (s_min h) (s_max h) (s_sum h) (s_total h) ne (s_samples h) (s_ovf h)
  else
    let h1 := Summ (Z.min (s_min h) (s_min x)) (Z.max (s_max h) (s_max x)) (s_sum h + s_sum x)
                   (s_total h + s_total x)%N ne (s_samples h) (s_ovf h || s_ovf x) in
    fold_left (fun acc v => insert_sample v acc) (s_samples x) h1.

(* ---------------------------------------------------------------- maps of bins *)

Definition key := (N * N)%type.     (* AggBin: (MID, token id) *)
Definition key_eqb (a b : key) : bool := (fst a =? fst b)%N && (snd a =? snd b)%N.

Definition bins := list (key * summ).

Fixpoint lookup (k : key) (m : bins) : option summ :=
  match m with
  | [] => None
  | (k', v) :: r => if key_eqb k k' then Some v else lookup k r
  end.

(* m[k] = f(m[k]) ; a missing key is appended *)
Fixpoint alter (k : key) (f : option summ -> summ) (m : bins) : bins :=
  match m with
  | [] => [(k, f None)]
  | (k', v) :: r => if key_eqb k k' then (k', f (Some v)) :: r else (k', v) :: alter k f r
  end.

Definition or_new (sc : Z) (o : option summ) : summ := match o with Some s => s | None => new_summ sc end.

(* AggregatableSamples *)
Record aggs := Aggs { a_bins : bins; a_ne : N }.
Definition empty_aggs : aggs := Aggs [] 0.

(* AggregatableSamples.Merge: q.Merge(a) *)
Definition merge_aggs (sc : Z) (q a : aggs) : aggs :=
  Aggs (fold_left (fun m kv => alter (fst kv) (fun o => merge_summ (or_new sc o) (snd kv)) m) (a_bins a) (a_bins q))
       (a_ne q + a_ne a).

(* ---------------------------------------------------------------- sourced OR tree, lock-step walk *)

(* the stream a Sourced node produces: (lid, source) pairs *)
Definition stream := list (N * nat).

(* nodeOrAgg.NextSourced: left when left < right, otherwise right (no deduplication) *)
Fixpoint or_agg (l : stream) : stream -> stream :=
  fix aux (r : stream) : stream :=
    match l, r with
    | [], _ => r
    | _, [] => l
    | (a, sa) :: l', (b, sb) :: r' =>
        if (a <? b)%N then (a, sa) :: or_agg l' r else (b, sb) :: aux r'
    end.

(* TreeFold over WrapWithSource(nodes): split at len/2 *)
Fixpoint tree_fold (fuel : nat) (vs : list stream) : stream :=
  match fuel with
  | O => []
  | S f =>
      match vs with
      | [] => []                       (* emptyNodeSourced *)
      | [v] => v
      | _ => let mid := Nat.div2 (length vs) in
             or_agg (tree_fold f (firstn mid vs)) (tree_fold f (skipn mid vs))
      end
  end.

Fixpoint wrap_sources (i : nat) (ls : list (list N)) : list stream :=
  match ls with
  | [] => []
  | l :: r => map (fun lid => (lid, i)) l :: wrap_sources (S i) r
  end.

Definition or_tree_agg (ls : list (list N)) : stream := tree_fold (S (length ls)) (wrap_sources 0 ls).

(* SourcedNodeIterator.ConsumeTokenSource(lid): skip entries below lid, report the head if it is lid.
   The iterator state is the not yet consumed part of the stream (head = lastID/lastSource). *)
Fixpoint skip_below (lid : N) (s : stream) : stream :=
  match s with
  | (l, src) :: r => if (l <? lid)%N then skip_below lid r else s
  | [] => []
  end.

Definition consume (lid : N) (s : stream) : option nat * stream :=
  let s' := skip_below lid s in
  match s' with
  | (l, src) :: _ => if (l =? lid)%N then (Some src, s') else (None, s')
  | [] => (None, [])
  end.

(* the token table of one field inside one fraction: distinct tokens (first-appearance order;
   the real TID order is not observable) with the ascending LIDs of the documents carrying them *)
Section TokenIndex.
  Context {K : Type}.
  Variable eqb : K -> K -> bool.

  Fixpoint add_lid (t : K) (lid : N) (tab : list (K * list N)) : list (K * list N) :=
    match tab with
    | [] => [(t, [lid])]
    | (t', ls) :: r => if eqb t t' then (t', ls ++ [lid]) :: r else (t', ls) :: add_lid t lid r
    end.

  Fixpoint token_table (proj : doc -> option K) (lid : N) (ds : list doc) (tab : list (K * list N))
    : list (K * list N) :=
    match ds with
    | [] => tab
    | d :: r => token_table proj (N.succ lid) r
                  (match proj d with Some t => add_lid t lid tab | None => tab end)
    end.
End TokenIndex.

(* ---------------------------------------------------------------- the aggregators *)

Definition is_field_func (f : func) : bool :=
  match f with FCount | FUnique => false | _ => true end.

(* haveNotMinMaxQuantiles *)
Definition collect_samples (q : query) : bool :=
  func_eqb (q_func q) FQuantile &&
  existsb (fun '(a, b) => (0 <? a)%N && (a <? 2 ^ b)%N) (q_quants q).

(* what Next(lid) does with the tokens the two iterators found for this document
   (per-document form: the count-by-source maps of the code and InsertNTimes(num, cnt) in
   Aggregate() are the same as inserting once per document over exact numbers) *)
Definition step (q : query) (mid : N) (g : option N) (f : option Z) (st : aggs) : aggs :=
  let b := bucket_of (q_interval q) mid in
  let collect := collect_samples q in
  match q_func q with
  | FCount =>                                   (* SingleSourceCountAggregator *)
      match g with
      | Some t => Aggs (alter (b, t) (fun o => add_total (or_new (q_scale q) o)) (a_bins st)) (a_ne st)
      | None => Aggs (a_bins st) (a_ne st + 1)
      end
  | FUnique =>                                  (* SingleSourceUniqueAggregator *)
      match g with
      | Some t => Aggs (alter (0%N, t) (or_new (q_scale q)) (a_bins st)) (a_ne st)
      | None => Aggs (a_bins st) (a_ne st + 1)
      end
  | _ =>
      if q_group q then                         (* TwoSourceAggregator *)
        match g, f with
        | None, None => st
        | Some t, None => Aggs (alter (b, t) (fun o => add_ne (or_new (q_scale q) o)) (a_bins st)) (a_ne st)   (* f3224d2: in the document's time bin *)
        | None, Some _ => Aggs (a_bins st) (a_ne st + 1)
        | Some t, Some v => Aggs (alter (b, t) (fun o => insert_val collect v (or_new (q_scale q) o)) (a_bins st)) (a_ne st)
        end
      else                                      (* SingleSourceHistogramAggregator; token "" = id 0 *)
        match f with
        | None => Aggs (alter (b, 0%N) (fun o => add_ne (or_new (q_scale q) o)) (a_bins st)) (a_ne st)
        | Some v => Aggs (alter (b, 0%N) (fun o => insert_val collect v (or_new (q_scale q) o)) (a_bins st)) (a_ne st)
        end
  end.

(* TwoSourceAggregator before the repair f3224d2: a document with the group token but without the field
   was counted in the bin WITHOUT timestamp (MID 0, group) even for a time series, where Aggregate
   (SkipWithoutTimestamp) then drops it.  Kept to document the finding. *)
Definition step_v0 (q : query) (mid : N) (g : option N) (f : option Z) (st : aggs) : aggs :=
  if is_field_func (q_func q) && q_group q then
    match g, f with
    | Some t, None => Aggs (alter (0%N, t) (fun o => add_ne (or_new (q_scale q) o)) (a_bins st)) (a_ne st)
    | _, _ => step q mid g f st
    end
  else step q mid g f st.

(* SingleSourceCountAggregator.Aggregate: the legacy "_not_exists" bin (overwrites) *)
Definition finish (q : query) (st : aggs) : aggs :=
  match q_func q with
  | FCount =>
      if (0 <? a_ne st)%N
      then Aggs (alter (0%N, q_netok q) (fun _ => Summ 0 0 0 (a_ne st) 0 [] false) (a_bins st)) (a_ne st)
      else st
  | _ => st
  end.

(* SingleSourceHistogramAggregator never sets AggregatableSamples.NotExists: [step] leaves a_ne at 0
   for a field function without group *)

(* one fraction with the aggregator as it was before f3224d2 *)
Definition frac_direct_v0 (q : query) (ds : list doc) : aggs :=
  fold_left (fun st d => if selected (q_from q) (q_to q) d
                         then step_v0 q (d_mid d) (d_grp d) (d_fld d) st else st) ds empty_aggs.

(* direct per-document pass over one fraction (documents in LID order) *)
Definition frac_direct (q : query) (ds : list doc) : aggs :=
  finish q (fold_left (fun st d => if selected (q_from q) (q_to q) d
                                   then step q (d_mid d) (d_grp d) (d_fld d) st else st) ds empty_aggs).

(* the same pass as the code does it: LIDs 1..n; one sourced OR tree per field over the LID lists
   of its tokens; the iterators are walked in lock-step with the selected LIDs *)
Definition src_token {K} (tab : list (K * list N)) (o : option nat) : option K :=
  match o with
  | Some i => match nth_error tab i with Some (t, _) => Some t | None => None end
  | None => None
  end.

Definition uses_group (q : query) : bool := negb (is_field_func (q_func q)) || q_group q.
Definition uses_field (q : query) : bool := is_field_func (q_func q).

Fixpoint walk (q : query) (gtab : list (N * list N)) (ftab : list (Z * list N))
         (lid : N) (ds : list doc) (git fit : stream) (st : aggs) : aggs :=
  match ds with
  | [] => st
  | d :: r =>
      if selected (q_from q) (q_to q) d then
        let '(gs, git') := if uses_group q then consume lid git else (None, git) in
        let '(fs, fit') := if uses_field q then consume lid fit else (None, fit) in
        walk q gtab ftab (N.succ lid) r git' fit'
             (step q (d_mid d) (src_token gtab gs) (src_token ftab fs) st)
      else walk q gtab ftab (N.succ lid) r git fit st
  end.

Definition frac_run (q : query) (ds : list doc) : aggs :=
  let gtab := token_table N.eqb d_grp 1 ds [] in
  let ftab := token_table Z.eqb d_fld 1 ds [] in
  finish q (walk q gtab ftab 1 ds (or_tree_agg (map snd gtab)) (or_tree_agg (map snd ftab)) empty_aggs).

(* ---------------------------------------------------------------- merge trees *)

(* MergeQPRs(dst, [a; b; ...]) = ((dst + a) + b) + ... : every merge order the searcher, the active
   index and the proxy can produce is a binary tree over the per-fraction results *)
Inductive mtree := Leaf (ds : list doc) | Node (l r : mtree).

Fixpoint eval_tree (q : query) (t : mtree) : aggs :=
  match t with
  | Leaf ds => frac_run q ds
  | Node l r => merge_aggs (q_scale q) (eval_tree q l) (eval_tree q r)
  end.

Fixpoint tree_docs (t : mtree) : list doc :=
  match t with
  | Leaf ds => ds
  | Node l r => tree_docs l ++ tree_docs r
  end.

(* ---------------------------------------------------------------- histogram *)

Definition hist := list (N * N).

Fixpoint hlookup (b : N) (h : hist) : N :=
  match h with
  | [] => 0%N
  | (b', c) :: r => if (b =? b')%N then c else hlookup b r
  end.

Fixpoint hadd (b c : N) (h : hist) : hist :=
  match h with
  | [] => [(b, c)]
  | (b', c') :: r => if (b =? b')%N then (b', (c' + c)%N) :: r else (b', c') :: hadd b c r
  end.

(* iterateEvalTree: histogram[mid - mid % interval]++ for every selected document *)
Definition hist_frac (interval from to : N) (ds : list doc) : hist :=
  fold_left (fun h d => if selected from to d then hadd (bucket_of interval (d_mid d)) 1 h else h) ds [].

(* MergeQPRs: dst.Histogram[time] += count *)
Definition hist_merge (a b : hist) : hist := fold_left (fun h bc => hadd (fst bc) (snd bc) h) b a.

Fixpoint hist_tree (interval from to : N) (t : mtree) : hist :=
  match t with
  | Leaf ds => hist_frac interval from to ds
  | Node l r => hist_merge (hist_tree interval from to l) (hist_tree interval from to r)
  end.

(* ---------------------------------------------------------------- Aggregate (proxy side) *)

(* bucket value: NaN, an exact number of units, the exact quotient sum/total (avg), or a plain count *)
Inductive mval := MNaN | MNum (z : Z) | MRat (s : Z) (t : N) | MCnt (n : N).

Definition qindex (n : nat) (qt : quant) : nat :=
  let '(a, b) := qt in
  (* int(float64(n-1)*q + 0.5), exact for q = a/2^b *)
  N.to_nat ((2 * N.of_nat (n - 1) * a + 2 ^ b) / 2 ^ (b + 1))%N.

(* SamplesContainer.Quantile (repaired, commit e5a0cc6) *)
Definition quantile (s : summ) (qt : quant) : mval :=
  let '(a, b) := qt in
  if (s_total s =? 0)%N then MNaN
  else if (a =? 2 ^ b)%N then MNum (s_max s)
  else if (a =? 0)%N then MNum (s_min s)
  else match s_samples s with
       | [] => MNaN
       | _ => MNum (nth (qindex (length (s_samples s)) qt) (ZSort.sort (s_samples s)) 0)
       end.

(* Quantile before the repair: NaN whenever no samples were collected, even for q = 0 / q = 1 *)
Definition quantile_v0 (s : summ) (qt : quant) : mval :=
  let '(a, b) := qt in
  match s_samples s with
  | [] => MNaN
  | _ => if (a =? 2 ^ b)%N then MNum (s_max s)
         else if (a =? 0)%N then MNum (s_min s)
         else MNum (nth (qindex (length (s_samples s)) qt) (ZSort.sort (s_samples s)) 0)
  end.

Record bucket := Bucket { b_name : N; b_mid : N; b_val : mval; b_quants : list mval; b_ne : N }.

(* getAggBucket *)
Definition agg_bucket (q : query) (k : key) (s : summ) : bucket :=
  let qs := match q_func q with FQuantile => map (quantile s) (q_quants q) | _ => [] end in
  let v :=
    match q_func q with
    | FCount | FUnique => MCnt (s_total s)
    | FSum => MNum (s_sum s)
    | FMin => MNum (s_min s)
    | FMax => MNum (s_max s)
    | FAvg => MRat (s_sum s) (s_total s)
    | FQuantile => match qs with v :: _ => v | [] => MNaN end
    end in
  let v := if (s_total s =? 0)%N && is_field_func (q_func q) then MNaN else v in
  Bucket (snd k) (fst k) v qs (s_ne s).

(* cmp.Compare on float64: NaN is below everything and equal to NaN *)
Definition mval_cmp (a b : mval) : comparison :=
  match a, b with
  | MNaN, MNaN => Eq
  | MNaN, _ => Lt
  | _, MNaN => Gt
  | MNum x, MNum y => Z.compare x y
  | MNum x, MRat s t => Z.compare (x * Z.of_N t) s
  | MRat s t, MNum y => Z.compare s (y * Z.of_N t)
  | MRat s1 t1, MRat s2 t2 => Z.compare (s1 * Z.of_N t2) (s2 * Z.of_N t1)
  | MCnt x, MCnt y => N.compare x y
  | _, _ => Eq                     (* counts are never mixed with numbers in one result *)
  end.

Definition cmp_or (a b : comparison) : comparison := match a with Eq => b | _ => a end.

(* sortBuckets *)
Definition bucket_cmp (f : func) (l r : bucket) : comparison :=
  let m := N.compare (b_mid l) (b_mid r) in
  let vdesc := mval_cmp (b_val r) (b_val l) in
  let vasc := mval_cmp (b_val l) (b_val r) in
  let nm := N.compare (b_name l) (b_name r) in
  match f with
  | FMin => cmp_or m (cmp_or vasc nm)
  | FQuantile => cmp_or m (cmp_or nm vdesc)
  | _ => cmp_or m (cmp_or vdesc nm)
  end.

Fixpoint binsert (f : func) (x : bucket) (l : list bucket) : list bucket :=
  match l with
  | [] => [x]
  | y :: r => match bucket_cmp f x y with Gt => y :: binsert f x r | _ => x :: l end
  end.

Definition bsort (f : func) (l : list bucket) : list bucket := fold_right (binsert f) [] l.

(* AggregatableSamples.Aggregate; SkipWithoutTimestamp = the request has an interval *)
Definition aggregate (q : query) (a : aggs) : list bucket * N :=
  let skip := (0 <? q_interval q)%N in
  let bs := filter (fun kv => negb (skip && (fst (fst kv) =? 0)%N)) (a_bins a) in
  (bsort (q_func q) (map (fun kv => agg_bucket q (fst kv) (snd kv)) bs), a_ne a).

(* ---------------------------------------------------------------- AggBin key codec (seq/qpr.go toKey/fromKey)
   strings are lists of bytes; MID < 2^63 (strconv.Itoa(int(mid)) prints no sign) *)
Open Scope N_scope.
Definition sep : N := 124%N.   (* '|' *)

Fixpoint itoa_aux (fuel : nat) (n : N) (acc : list N) : list N :=
  match fuel with
  | O => acc
  | S f => let acc' := (48 + n mod 10) :: acc in
           if n / 10 =? 0 then acc' else itoa_aux f (n / 10) acc'
  end.
(* strconv.Itoa for a non-negative int; fuel = number of bits bounds the number of digits *)
Definition itoa (n : N) : list N := itoa_aux (S (N.to_nat (N.log2 n))) n [].

Fixpoint atoi_acc (a : N) (cs : list N) : option N :=
  match cs with
  | [] => Some a
  | c :: r => if (48 <=? c) && (c <=? 57) then atoi_acc (a * 10 + (c - 48)) r else None
  end.
(* strconv.Atoi on an unsigned decimal; None = error (fromKey panics) *)
Definition atoi (cs : list N) : option N := match cs with [] => None | _ => atoi_acc 0 cs end.

(* strings.Cut(k, "|") *)
Fixpoint cut (cs : list N) : option (list N * list N) :=
  match cs with
  | [] => None
  | c :: r => if c =? sep then Some ([], r)
              else match cut r with Some (a, b) => Some (c :: a, b) | None => None end
  end.

(* AggBin.toKey / fromKey *)
Definition to_key (mid : N) (tok : list N) : list N := itoa mid ++ sep :: tok.
Definition from_key (k : list N) : option (N * list N) :=
  match cut k with
  | Some (smid, tok) => match atoi smid with Some mid => Some (mid, tok) | None => None end
  | None => None
  end.

Close Scope N_scope.
