(* C06 — the final statements over the executed model (eval_tree: lock-step leaves, real merge shape). *)
From Coq Require Import Lia Permutation ZifyN ZifyNat.
From C06 Require Import Model CaseDefs Proofs ProofsQ ProofsA ProofsC ProofsL.
Open Scope Z_scope.

Lemma eval_tree_eq q t : eval_tree q t = eval_tree_direct q t.
Proof. induction t as [ds|l IHl r IHr]; simpl; [apply frac_run_direct|rewrite IHl, IHr; reflexivity]. Qed.

Definition selected_docs (q : query) (t : mtree) : list doc := filter (sel q) (tree_docs t).

Lemma agg_exact q t : is_field_func (q_func q) = true ->
  NoDup (map fst (a_bins (eval_tree q t))) /\
  a_ne (eval_tree q t) = expected_ne q (selected_docs q t) /\
  forall k, odesc (collect_samples q) (lookup k (a_bins (eval_tree q t)))
                  (bin_vals q k (selected_docs q t)) (bin_ne q k (selected_docs q t)).
Proof.
  intros FF. rewrite eval_tree_eq. destruct (agg_exact_field q t FF) as [ND O].
  split; [exact ND|]. split; [apply agg_ne_exact|exact O].
Qed.

Lemma agg_exact_count_final q t : q_func q = FCount -> no_netok_group q (selected_docs q t) ->
  NoDup (map fst (a_bins (eval_tree q t))) /\
  a_ne (eval_tree q t) = expected_ne q (selected_docs q t) /\
  forall k, ocdesc (lookup k (a_bins (eval_tree q t))) (bin_count q k (selected_docs q t)).
Proof.
  intros FC NN. rewrite eval_tree_eq. destruct (agg_exact_count q t FC NN) as (ND & NE & O).
  split; [exact ND|]. split; [apply agg_ne_exact|].
  intros k. rewrite bin_count_ecnt by exact NN. apply O.
Qed.

Lemma agg_exact_unique_final q t : q_func q = FUnique ->
  NoDup (map fst (a_bins (eval_tree q t))) /\
  a_ne (eval_tree q t) = expected_ne q (selected_docs q t) /\
  forall k, oudesc (lookup k (a_bins (eval_tree q t))) (ucnt k (selected_docs q t)).
Proof.
  intros FU. rewrite eval_tree_eq. destruct (agg_exact_unique q t FU) as (ND & NE & O).
  split; [exact ND|]. split; [apply agg_ne_exact|exact O].
Qed.

Lemma any_merge_order q t1 t2 k : is_field_func (q_func q) = true ->
  Permutation (tree_docs t1) (tree_docs t2) ->
  let D := selected_docs q t1 in
  a_ne (eval_tree q t1) = a_ne (eval_tree q t2) /\
  odesc (collect_samples q) (lookup k (a_bins (eval_tree q t1))) (bin_vals q k D) (bin_ne q k D) /\
  odesc (collect_samples q) (lookup k (a_bins (eval_tree q t2))) (bin_vals q k D) (bin_ne q k D).
Proof.
  intros FF P D. rewrite !eval_tree_eq. split; [|apply any_merge_order_field; assumption].
  rewrite !agg_ne_exact. unfold expected_ne, no_group_cnt.
  assert (PD : Permutation (filter (sel q) (tree_docs t1)) (filter (sel q) (tree_docs t2))) by (apply filter_perm; exact P).
  destruct (q_func q); try (apply count_perm; exact PD); destruct (q_group q); try reflexivity; apply count_perm; exact PD.
Qed.

(* getAggBucket on a described bin: the reported value is the one computed from the values *)
Lemma agg_bucket_exact q k c s vs ne :
  sdesc c s vs ne -> is_field_func (q_func q) = true ->
  b_ne (agg_bucket q k s) = ne /\ b_name (agg_bucket q k s) = snd k /\ b_mid (agg_bucket q k s) = fst k /\
  (vs = [] -> b_val (agg_bucket q k s) = MNaN) /\
  (vs <> [] ->
   match q_func q with
   | FSum => b_val (agg_bucket q k s) = MNum (Proofs.sum_list vs)
   | FMin => b_val (agg_bucket q k s) = MNum (Proofs.list_min vs)
   | FMax => b_val (agg_bucket q k s) = MNum (Proofs.list_max vs)
   | FAvg => b_val (agg_bucket q k s) = MRat (Proofs.sum_list vs) (N.of_nat (length vs))
   | FQuantile => b_quants (agg_bucket q k s) = map (quantile s) (q_quants q) /\
                  b_val (agg_bucket q k s) = match q_quants q with qt :: _ => quantile s qt | [] => MNaN end
   | _ => True
   end).
Proof.
  intros [dt dn ds dmin dmax _ _ _] FF. unfold agg_bucket. cbn [b_ne b_name b_mid b_val b_quants].
  split; [exact dn|]. split; [reflexivity|]. split; [reflexivity|]. rewrite FF, andb_true_r. split.
  - intros ->. simpl in dt. rewrite dt. reflexivity.
  - intros NE. destruct (N.eqb_spec (s_total s) 0) as [Z0|_].
    { rewrite dt in Z0. apply len0 in Z0. congruence. }
    destruct (q_func q); try exact I; try discriminate; rewrite ?ds, ?dt, ?dmin, ?dmax by assumption; try reflexivity.
    split; [reflexivity|]. destruct (q_quants q); reflexivity.
Qed.

(* Merge is associative and commutative with the new container as unit, on everything an observer can
   see: both sides are described by the same values *)
Lemma merge_monoid sc c a va na b vb nb d vd nd :
  sdesc c a va na -> sdesc c b vb nb -> sdesc c d vd nd ->
  sdesc c (merge_summ (merge_summ a b) d) (va ++ vb ++ vd) (na + nb + nd) /\
  sdesc c (merge_summ a (merge_summ b d)) (va ++ vb ++ vd) (na + nb + nd) /\
  sdesc c (merge_summ a b) (va ++ vb) (na + nb) /\ sdesc c (merge_summ b a) (va ++ vb) (na + nb) /\
  sdesc c (merge_summ (new_summ sc) a) va na /\ sdesc c (merge_summ a (new_summ sc)) va na.
Proof.
  intros A B D. split; [|split; [|split; [|split; [|split]]]].
  - rewrite app_assoc. apply sdesc_merge; [apply sdesc_merge|]; assumption.
  - rewrite <- N.add_assoc. apply sdesc_merge; [|apply sdesc_merge]; assumption.
  - apply sdesc_merge; assumption.
  - rewrite (N.add_comm na nb). eapply sdesc_perm; [apply Permutation_app_comm|]. apply sdesc_merge; assumption.
  - change va with ([] ++ va). change na with (0 + na)%N. apply sdesc_merge; [apply (sdesc_new sc)|assumption].
  - rewrite <- (app_nil_r va), <- (N.add_0_r na). apply sdesc_merge; [assumption|apply (sdesc_new sc)].
Qed.

(* why Merge needs its Total = 0 case: the sentinels of a fresh container are not neutral beyond
   +-2^63.  One value 10^19 > 2^63 merged into a fresh container with the collapsed variant keeps the
   sentinel as Min; the real Merge gives the value. *)
Lemma merge_v0_refuted :
  exists x vs, sdesc false x vs 0 /\ vs <> [] /\
    s_min (merge_summ_v0 (new_summ 0) x) = 2 ^ 63 /\ s_min (merge_summ_v0 (new_summ 0) x) <> Proofs.list_min vs /\
    s_min (merge_summ (new_summ 0) x) = Proofs.list_min vs.
Proof.
  exists (insert_val false (10 ^ 19) (new_summ 0)), [10 ^ 19].
  split; [apply sdesc_insert; apply sdesc_new|]. split; [discriminate|]. split; [reflexivity|]. split; [|reflexivity].
  vm_compute. discriminate.
Qed.
