(* C06 — lemmas about Quantile and the histogram. *)
From Coq Require Import Lia Permutation Sorting.Sorted ZifyN ZifyNat RelationClasses.
From C06 Require Import Model Proofs.
Open Scope Z_scope.

(* ---------------------------------------------------------------- sorted lists *)

Definition zle (x y : Z) : Prop := is_true (x <=? y).

Lemma zle_trans : Transitive (fun x y => is_true (ZOrder.leb x y)).
Proof. intros x y z. unfold ZOrder.leb, is_true. rewrite !Z.leb_le. lia. Qed.

Lemma ssorted_sort l : StronglySorted (fun x y => is_true (ZOrder.leb x y)) (ZSort.sort l).
Proof. apply ZSort.StronglySorted_sort. exact zle_trans. Qed.

Lemma ssorted_perm_eq l1 : forall l2,
  StronglySorted (fun x y => is_true (ZOrder.leb x y)) l1 ->
  StronglySorted (fun x y => is_true (ZOrder.leb x y)) l2 ->
  Permutation l1 l2 -> l1 = l2.
Proof.
  induction l1 as [|x r1 IH]; intros l2 S1 S2 P.
  - apply Permutation_nil in P. congruence.
  - destruct l2 as [|y r2]; [apply Permutation_sym, Permutation_nil in P; discriminate|].
    inversion S1 as [|? ? S1' F1]; subst. inversion S2 as [|? ? S2' F2]; subst.
    assert (x = y).
    { assert (In y (x :: r1)) by (eapply Permutation_in; [apply Permutation_sym; exact P|left; reflexivity]).
      assert (In x (y :: r2)) by (eapply Permutation_in; [exact P|left; reflexivity]).
      rewrite Forall_forall in F1, F2. unfold ZOrder.leb, is_true in *.
      destruct H as [->|H]; [reflexivity|]. destruct H0 as [->|H0]; [reflexivity|].
      specialize (F1 _ H). specialize (F2 _ H0). rewrite Z.leb_le in *. lia. }
    subst y. f_equal. apply IH; try assumption. eapply Permutation_cons_inv; exact P.
Qed.

Lemma sort_perm l l' : Permutation l l' -> ZSort.sort l = ZSort.sort l'.
Proof.
  intros P. apply ssorted_perm_eq; try apply ssorted_sort.
  rewrite <- (ZSort.Permuted_sort l), <- (ZSort.Permuted_sort l'). exact P.
Qed.

Lemma list_min_spec l : l <> [] -> In (list_min l) l /\ forall x, In x l -> list_min l <= x.
Proof.
  induction l as [|a l IH]; [congruence|intros _].
  destruct l as [|b l].
  - simpl. split; [auto|]. intros x [->|[]]. lia.
  - rewrite list_min_cons by congruence. destruct IH as [I L]; [congruence|]. split.
    + destruct (Z.min_spec (list_min (b :: l)) a) as [[_ ->]|[_ ->]]; [right; exact I|left; reflexivity].
    + intros x [->|H]; [lia|]. specialize (L _ H). lia.
Qed.

Lemma list_max_spec l : l <> [] -> In (list_max l) l /\ forall x, In x l -> x <= list_max l.
Proof.
  induction l as [|a l IH]; [congruence|intros _].
  destruct l as [|b l].
  - simpl. split; [auto|]. intros x [->|[]]. lia.
  - rewrite list_max_cons by congruence. destruct IH as [I L]; [congruence|]. split.
    + destruct (Z.max_spec (list_max (b :: l)) a) as [[_ ->]|[_ ->]]; [left; reflexivity|right; exact I].
    + intros x [->|H]; [lia|]. specialize (L _ H). lia.
Qed.

(* first element of a sorted list is below, the last above every element *)
Lemma ssorted_first l : StronglySorted (fun x y => is_true (ZOrder.leb x y)) l ->
  forall x, In x l -> nth 0 l 0 <= x.
Proof.
  intros S x I. destruct l as [|a l]; [destruct I|]. simpl. inversion S as [|? ? _ F]; subst.
  destruct I as [->|I]; [lia|]. rewrite Forall_forall in F. specialize (F _ I).
  unfold ZOrder.leb, is_true in F. rewrite Z.leb_le in F. exact F.
Qed.

Lemma ssorted_last l : StronglySorted (fun x y => is_true (ZOrder.leb x y)) l ->
  forall x, In x l -> x <= nth (length l - 1) l 0.
Proof.
  induction 1 as [|a l SS IH F]; intros x I; [destruct I|].
  destruct l as [|b l].
  - destruct I as [->|[]]. simpl. lia.
  - replace (length (a :: b :: l) - 1)%nat with (S (length (b :: l) - 1)) by (cbn [length]; lia).
    cbn [nth]. destruct I as [->|I]; [|apply IH; exact I].
    assert (In (nth (length (b :: l) - 1) (b :: l) 0) (b :: l)) by (apply nth_In; simpl; lia).
    rewrite Forall_forall in F. specialize (F _ H). unfold ZOrder.leb, is_true in F. rewrite Z.leb_le in F. exact F.
Qed.

Lemma sort_first vs : vs <> [] -> nth 0 (ZSort.sort vs) 0 = list_min vs.
Proof.
  intros H. destruct (list_min_spec vs H) as [I L].
  pose proof (ZSort.Permuted_sort vs) as P.
  assert (N0 : ZSort.sort vs <> []) by (intros E; rewrite E in P; apply Permutation_sym, Permutation_nil in P; congruence).
  assert (A : nth 0 (ZSort.sort vs) 0 <= list_min vs).
  { apply ssorted_first; [apply ssorted_sort|]. eapply Permutation_in; [exact P|exact I]. }
  assert (B : list_min vs <= nth 0 (ZSort.sort vs) 0).
  { apply L. eapply Permutation_in; [apply Permutation_sym; exact P|].
    apply nth_In. destruct (ZSort.sort vs); [congruence|simpl; lia]. }
  lia.
Qed.

Lemma sort_last vs : vs <> [] -> nth (length vs - 1) (ZSort.sort vs) 0 = list_max vs.
Proof.
  intros H. destruct (list_max_spec vs H) as [I L].
  pose proof (ZSort.Permuted_sort vs) as P.
  rewrite (Permutation_length P).
  assert (N0 : ZSort.sort vs <> []) by (intros E; rewrite E in P; apply Permutation_sym, Permutation_nil in P; congruence).
  assert (A : list_max vs <= nth (length (ZSort.sort vs) - 1) (ZSort.sort vs) 0).
  { apply ssorted_last; [apply ssorted_sort|]. eapply Permutation_in; [exact P|exact I]. }
  assert (B : nth (length (ZSort.sort vs) - 1) (ZSort.sort vs) 0 <= list_max vs).
  { apply L. eapply Permutation_in; [apply Permutation_sym; exact P|].
    apply nth_In. destruct (ZSort.sort vs); [congruence|simpl; lia]. }
  lia.
Qed.

(* ---------------------------------------------------------------- the quantile index *)

Lemma qindex_zero n b : qindex n (0%N, b) = 0%nat.
Proof.
  unfold qindex. replace (2 * N.of_nat (n - 1) * 0 + 2 ^ b)%N with (2 ^ b)%N by lia.
  rewrite N.div_small; [reflexivity|]. rewrite N.pow_add_r. simpl. assert (2 ^ b <> 0)%N by (apply N.pow_nonzero; lia). lia.
Qed.

Lemma qindex_one n b : qindex n ((2 ^ b)%N, b) = (n - 1)%nat.
Proof.
  unfold qindex. assert (P : (2 ^ b <> 0)%N) by (apply N.pow_nonzero; lia).
  replace (2 * N.of_nat (n - 1) * 2 ^ b + 2 ^ b)%N with ((2 * N.of_nat (n - 1) + 1) * 2 ^ b)%N by lia.
  rewrite N.pow_add_r. change (2 ^ 1)%N with 2%N.
  rewrite (N.mul_comm (2 ^ b) 2). rewrite N.div_mul_cancel_r by lia.
  replace ((2 * N.of_nat (n - 1) + 1) / 2)%N with (N.of_nat (n - 1)).
  - apply Nat2N.id.
  - apply N.div_unique with (r := 1%N); lia.
Qed.

Lemma qindex_bound n a b : (0 < n)%nat -> (a <= 2 ^ b)%N -> (qindex n (a, b) < n)%nat.
Proof.
  intros Hn Ha. unfold qindex. assert (P : (2 ^ b <> 0)%N) by (apply N.pow_nonzero; lia).
  assert ((2 * N.of_nat (n - 1) * a + 2 ^ b) / 2 ^ (b + 1) < N.of_nat n)%N; [|lia].
  apply N.div_lt_upper_bound; [rewrite N.pow_add_r; simpl; lia|].
  rewrite N.pow_add_r. change (2 ^ 1)%N with 2%N. nia.
Qed.

(* ---------------------------------------------------------------- Quantile *)

Lemma quantile_exact c s vs ne a b :
  sdesc c s vs ne -> vs <> [] -> (N.of_nat (length vs) <= max_samples)%N -> (a <= 2 ^ b)%N ->
  (c = true \/ a = 0%N \/ a = (2 ^ b)%N) ->
  quantile s (a, b) = MNum (nth (qindex (length vs) (a, b)) (ZSort.sort vs) 0)
  /\ (qindex (length vs) (a, b) < length vs)%nat.
Proof.
  intros D Hvs Hn Ha Hc. split; [|apply qindex_bound; [destruct vs; [congruence|simpl; lia]|assumption]].
  destruct D as [d_total0 d_ne0 d_sum0 d_min0 d_max0 d_nocollect0 d_small0 d_big0]. unfold quantile.
  destruct (N.eqb_spec (s_total s) 0) as [Z0|Z0].
  { rewrite d_total0 in Z0. apply len0 in Z0. congruence. }
  destruct (N.eqb_spec a (2 ^ b)) as [E1|E1].
  { subst a. rewrite qindex_one. rewrite sort_last by assumption. rewrite d_max0 by assumption. reflexivity. }
  destruct (N.eqb_spec a 0) as [E0|E0].
  { subst a. rewrite qindex_zero. rewrite sort_first by assumption. rewrite d_min0 by assumption. reflexivity. }
  destruct Hc as [->|[?|?]]; try congruence.
  destruct (d_small0 eq_refl Hn) as [_ P].
  destruct (s_samples s) as [|x r] eqn:E.
  { apply Permutation_nil in P. congruence. }
  rewrite (Permutation_length P). rewrite (sort_perm _ _ P). reflexivity.
Qed.

Lemma quantile_empty c s ne qt : sdesc c s [] ne -> quantile s qt = MNaN.
Proof. intros [dt _ _ _ _ _ _ _]. destruct qt as [a b]. unfold quantile. rewrite dt. reflexivity. Qed.

(* ---------------------------------------------------------------- histogram *)

Definition hcount (interval from to b : N) (ds : list doc) : N :=
  N.of_nat (length (filter (fun d => selected from to d && (bucket_of interval (d_mid d) =? b)%N) ds)).

Lemma hcount_app i f t b a c : hcount i f t b (a ++ c) = (hcount i f t b a + hcount i f t b c)%N.
Proof. unfold hcount. rewrite filter_app, app_length. lia. Qed.

Lemma hlookup_hadd b b' c h :
  hlookup b (hadd b' c h) = if (b =? b')%N then (hlookup b h + c)%N else hlookup b h.
Proof.
  induction h as [|[k v] h IH]; simpl.
  - destruct (N.eqb_spec b b'); reflexivity.
  - destruct (N.eqb_spec b' k) as [->|Hk]; simpl.
    + destruct (N.eqb_spec b k); reflexivity.
    + rewrite IH. destruct (N.eqb_spec b k) as [->|]; [|reflexivity].
      destruct (N.eqb_spec k b'); [congruence|reflexivity].
Qed.

Lemma hkeys_hadd b c h : forall k, In k (map fst (hadd b c h)) <-> k = b \/ In k (map fst h).
Proof.
  induction h as [|[k' v] h IH]; intros k; simpl.
  - intuition.
  - destruct (N.eqb_spec b k') as [->|]; simpl; [intuition|]. rewrite IH. intuition.
Qed.

Lemma hadd_nodup b c h : NoDup (map fst h) -> NoDup (map fst (hadd b c h)).
Proof.
  induction h as [|[k v] h IH]; simpl; intros ND.
  - constructor; [intros []|constructor].
  - inversion ND as [|? ? NI ND']; subst. destruct (N.eqb_spec b k) as [->|Hk]; simpl.
    + constructor; assumption.
    + constructor; [|apply IH; assumption]. rewrite hkeys_hadd. intros [->|H]; [congruence|contradiction].
Qed.

Lemma hlookup_notin b h : ~ In b (map fst h) -> hlookup b h = 0%N.
Proof.
  induction h as [|[k v] h IH]; simpl; intros NI; [reflexivity|].
  destruct (N.eqb_spec b k) as [->|]; [tauto|]. apply IH. tauto.
Qed.

Lemma hist_fold_lookup i f t b ds : forall h0,
  hlookup b (fold_left (fun h d => if selected f t d then hadd (bucket_of i (d_mid d)) 1 h else h) ds h0)
  = (hlookup b h0 + hcount i f t b ds)%N.
Proof.
  induction ds as [|d ds IH]; intros h0; simpl; [unfold hcount; simpl; lia|].
  rewrite IH. unfold hcount. cbn [filter].
  destruct (selected f t d); cbn [andb]; [|lia].
  rewrite hlookup_hadd. rewrite (N.eqb_sym b). destruct (N.eqb_spec (bucket_of i (d_mid d)) b); cbn [length]; lia.
Qed.

Lemma hist_fold_nodup i f t ds : forall h0, NoDup (map fst h0) ->
  NoDup (map fst (fold_left (fun h d => if selected f t d then hadd (bucket_of i (d_mid d)) 1 h else h) ds h0)).
Proof.
  induction ds as [|d ds IH]; intros h0 ND; simpl; [assumption|].
  apply IH. destruct (selected f t d); [apply hadd_nodup|]; assumption.
Qed.

Lemma hist_merge_lookup b bs : forall a, NoDup (map fst bs) ->
  hlookup b (hist_merge a bs) = (hlookup b a + hlookup b bs)%N.
Proof.
  unfold hist_merge. induction bs as [|[k c] r IH]; intros a ND; simpl; [lia|].
  inversion ND as [|? ? NI ND']; subst. rewrite IH by assumption. rewrite hlookup_hadd.
  destruct (N.eqb_spec b k) as [->|]; [|lia]. rewrite (hlookup_notin k r NI). lia.
Qed.

Lemma hist_merge_nodup bs : forall a, NoDup (map fst a) -> NoDup (map fst (hist_merge a bs)).
Proof.
  unfold hist_merge. induction bs as [|[k c] r IH]; intros a ND; simpl; [assumption|].
  apply IH. apply hadd_nodup. assumption.
Qed.

Lemma hist_tree_nodup i f t tr : NoDup (map fst (hist_tree i f t tr)).
Proof.
  induction tr; simpl.
  - apply hist_fold_nodup. constructor.
  - apply hist_merge_nodup. assumption.
Qed.

(* every bucket of the merged histogram, for every merge tree *)
Lemma hist_exact i f t tr b : hlookup b (hist_tree i f t tr) = hcount i f t b (tree_docs tr).
Proof.
  induction tr as [ds|l IHl r IHr]; simpl.
  - unfold hist_frac. rewrite hist_fold_lookup. simpl. lia.
  - rewrite hist_merge_lookup by apply hist_tree_nodup. rewrite IHl, IHr, hcount_app. reflexivity.
Qed.

(* a bucket is present exactly when some selected document falls into it *)
Lemma hist_keys_fold i f t ds : forall h0 k,
  In k (map fst (fold_left (fun h d => if selected f t d then hadd (bucket_of i (d_mid d)) 1 h else h) ds h0))
  <-> In k (map fst h0) \/ exists d, In d ds /\ selected f t d = true /\ bucket_of i (d_mid d) = k.
Proof.
  induction ds as [|d ds IH]; intros h0 k; simpl.
  - split; [auto|]. intros [H|(d & [] & _)]. exact H.
  - rewrite IH. destruct (selected f t d) eqn:E.
    + rewrite hkeys_hadd. split.
      * intros [[->|H]|(d' & I & S & B)]; [right; exists d; auto|left; exact H|right; exists d'; auto].
      * intros [H|(d' & [->|I] & S & B)]; [left; right; exact H|left; left; congruence|right; exists d'; auto].
    + split.
      * intros [H|(d' & I & S & B)]; [left; exact H|right; exists d'; auto].
      * intros [H|(d' & [->|I] & S & B)]; [left; exact H|congruence|right; exists d'; auto].
Qed.
