(* C06 — shape of the generated cases and the two executable verdicts. No proofs.

   Floats: the harness never prints a float64 as text.  Every float64 of an implementation output is
   written as its exact value m * 2^e (FNum m e) or FNaN / FInf.  The case carries [scale]: all field
   values of the case are integers in units 2^-scale, and the harness chooses scale so large that
   every finite output float is an integer number of units too; [units] converts exactly.
   exact = true  : the case's values are dyadic with small magnitude: every partial sum is exactly
                   representable, so Sum must be bit-exact and Avg the correctly rounded quotient.
   exact = false : general decimals/exponents (values = float64 nearest to the decimal token): min, max,
                   samples and quantiles are still exact, Sum/Avg are compared with relative tolerance
                   1e-9 of the sum of magnitudes (float64 addition is not associative). *)
From VLib Require Import CaseLib.
From Coq Require Import SpecFloat.
From C06 Require Import Model ModelFloat ModelLimits.
Open Scope Z_scope.

Inductive fl := FNaN | FInf | FNum (m e : Z).

Definition units (scale : Z) (f : fl) : option Z :=
  match f with
  | FNum m e => if m =? 0 then Some 0 else if 0 <=? e + scale then Some (m * 2 ^ (e + scale)) else None
  | _ => None
  end.

Definition units_is (scale : Z) (f : fl) (z : Z) : bool :=
  match units scale f with Some u => u =? z | None => false end.

Fixpoint units_list (scale : Z) (l : list fl) : option (list Z) :=
  match l with
  | [] => Some []
  | f :: r => match units scale f, units_list scale r with
              | Some u, Some us => Some (u :: us)
              | _, _ => None
              end
  end.

Fixpoint all2 {A B} (p : A -> B -> bool) (a : list A) (b : list B) : bool :=
  match a, b with
  | [], [] => true
  | x :: a', y :: b' => p x y && all2 p a' b'
  | _, _ => false
  end.

Definition is_nan (f : fl) : bool := match f with FNaN => true | _ => false end.

Definition sum_abs (l : list Z) : Z := fold_right (fun v acc => Z.abs v + acc) 0 l.
Definition sum_list (l : list Z) : Z := fold_right Z.add 0 l.
Definition list_min (d : Z) (l : list Z) : Z := match l with [] => d | x :: r => fold_right Z.min x r end.
Definition list_max (d : Z) (l : list Z) : Z := match l with [] => d | x :: r => fold_right Z.max x r end.

Definition E9 : Z := 1000000000.

(* f (a float) against the exact sum s; slack = an upper bound of the sum of magnitudes *)
Definition sum_ok (exact : bool) (scale : Z) (f : fl) (s slack : Z) : bool :=
  match units scale f with
  | Some u => if exact then u =? s else Z.abs (u - s) * E9 <=? slack
  | None => false
  end.

(* f against the exact quotient s / t (t > 0): correctly rounded (error <= ulp/2) when exact,
   otherwise within 1e-9 * slack / t *)
Definition avg_ok (exact : bool) (scale : Z) (f : fl) (s : Z) (t : N) (slack : Z) : bool :=
  match f with
  | FNum m e =>
      match units scale f with
      | Some u =>
          let tz := Z.of_N t in
          if exact then
            if m =? 0 then s =? 0
            else Z.abs (u * tz - s) * 2 ^ 54 <=? 2 ^ (Z.log2 (Z.abs m) + 1 + e + scale) * tz
          else Z.abs (u * tz - s) * E9 <=? slack
      | None => false
      end
  | _ => false
  end.

(* ---------------------------------------------------------------- implementation outputs *)

Record isumm := ISumm { i_min : fl; i_max : fl; i_sum : fl; i_total : Z; i_ne : Z; i_samples : list fl }.
Record ibucket := IBucket { ib_name : N; ib_mid : N; ib_val : fl; ib_quants : list fl; ib_ne : Z }.
Record iout := IOut {
  o_bins : list (key * isumm);      (* QPR.Aggs[i].SamplesByBin, sorted by (mid, token) *)
  o_ne : Z;                         (* QPR.Aggs[i].NotExists *)
  o_buckets : list ibucket;         (* QPR.Aggregate(args)[i].Buckets in the order returned *)
  o_bne : Z }.                      (* ... .NotExists *)

(* float observations: bit patterns (all NaNs printed as the canonical one) *)
Record fbin := FBin { fb_key : key; fb_min : Z; fb_max : Z; fb_sum : Z; fb_total : Z }.
Record fbucket := FBucket { fk_name : N; fk_mid : N; fk_val : Z }.
Record fout := FOut { fo_bins : list fbin; fo_buckets : list fbucket }.

Inductive case :=
(* one aggregation of one search over the fractions at the leaves of t, per-fraction results merged
   in the shape of t by the real MergeQPRs *)
| CAgg (scale : Z) (exact : bool) (t : mtree) (q : query) (o : iout)
(* histogram of one search *)
| CHist (interval from to : N) (t : mtree) (impl : list (N * N))
(* AggBin{mid, tok}.toKey() = key; fromKey(key) = (bmid, btok) (bytes as numbers) *)
| CKey (mid : N) (tok : list N) (key : list N) (bmid : N) (btok : list N)
(* FLOAT path of one sum/min/max/avg/quantile aggregation: the fractions at the leaves of t (documents in the
   order the search visits them, field values as IEEE bit patterns, map iteration order as witness), merged by
   the real MergeQPRs in the shape of t; o = Min/Max/Sum bit patterns and Total of every bin, bucket values *)
| CAggF (t : ftree) (q : query) (o : fout)
(* does the search over the fractions of t fail (parseNum error: NaN / Inf / unparsable field token)? *)
| CFErr (t : ftree) (q : query) (impl_err : bool)
(* one REAL SourcedNodeIterator (uniqSourcesLimit = limit) over the sourced OR tree of the given LID lists (source i =
   list i, TID tids[i], GetValByTID = vtab): ConsumeTokenSource for lids in order up to the first failure
   (impl_cons: found source / failed), then ValueBySource for srcs (impl_vals: value ids) *)
| CIter (limit : N) (tids : list N) (vtab : list (N * N)) (lidlists : list (list N)) (lids : list N) (srcs : list N)
        (impl_cons : list (option nat * bool)) (impl_vals : list N)
(* does a search fail with ErrTooManyUniqValues under the aggregation limits lim?  parts = its aggregations, each with
   the fractions it visits as the leaves (documents as that aggregation sees them; the field token's ID stands in
   the place of the value) *)
| CLimErr (lim : limits) (parts : list (query * mtree)) (impl_err : bool)
(* parseNum on one token: bits = what strconv.ParseFloat (called by the harness) says about the token (NaN pattern =
   syntax error, +-Inf = out of range); impl_ok / impl_bits = verdict and value of the real parseNum *)
| CParse (bits : Z) (impl_ok : bool) (impl_bits : Z).

(* ---------------------------------------------------------------- model output = implementation output *)

Definition sorted_eqb (a b : list Z) : bool := list_eqb Z.eqb (ZSort.sort a) (ZSort.sort b).

(* numeric: the aggregation is over field values (for count/unique Min and Max are never written) *)
Definition summ_agrees (scale : Z) (exact numeric collect : bool) (s : summ) (i : isumm) : bool :=
  (i_total i =? Z.of_N (s_total s)) && (i_ne i =? Z.of_N (s_ne s)) &&
  if (s_total s =? 0)%N || negb numeric then
    match i_samples i with [] => units_is scale (i_sum i) 0 | _ => false end
  else
    units_is scale (i_min i) (s_min s) && units_is scale (i_max i) (s_max s) &&
    sum_ok exact scale (i_sum i) (s_sum s) (Z.of_N (s_total s) * Z.max (Z.abs (s_min s)) (Z.abs (s_max s))) &&
    match units_list scale (i_samples i) with
    | Some us => if negb collect then true     (* samples nobody asked for are not an observable *)
                 else if s_ovf s then (Z.of_nat (length us) =? Z.of_N max_samples)
                 else sorted_eqb us (s_samples s)
    | None => false
    end.

Definition mval_agrees (scale : Z) (exact : bool) (slack : Z) (v : mval) (f : fl) : bool :=
  match v with
  | MNaN => is_nan f
  | MNum z => units_is scale f z
  | MCnt n => units_is 0 f (Z.of_N n)
  | MRat s t => avg_ok exact scale f s t slack
  end.

(* a sum bucket of a tolerant case: the model's exact sum against the rounded float *)
Definition bucket_agrees (scale : Z) (exact ovf : bool) (q : query) (slack : Z) (b : bucket) (i : ibucket) : bool :=
  (b_name b =? ib_name i)%N && (b_mid b =? ib_mid i)%N && (ib_ne i =? Z.of_N (b_ne b)) &&
  (if ovf then true else
   (match q_func q, b_val b with
    | FSum, MNum z => sum_ok exact scale (ib_val i) z slack
    | _, v => mval_agrees scale exact slack v (ib_val i)
    end) &&
   all2 (fun v f => mval_agrees scale exact slack v f) (b_quants b) (ib_quants i)).

Definition slack_of (s : summ) : Z := Z.of_N (s_total s) * Z.max (Z.abs (s_min s)) (Z.abs (s_max s)).

Definition find_bucket (name mid : N) (l : list bucket) : option bucket :=
  find (fun b => (b_name b =? name)%N && (b_mid b =? mid)%N) l.

Definition agg_agrees (scale : Z) (exact : bool) (t : mtree) (q : query) (o : iout) : bool :=
  let a := eval_tree q t in
  let '(bs, bne) := aggregate q a in
  let info (name mid : N) := or_new scale (lookup (mid, name) (a_bins a)) in
  (length (o_bins o) =? length (a_bins a))%nat &&
  forallb (fun ki => match lookup (fst ki) (a_bins a) with
                     | Some s => summ_agrees scale exact (is_field_func (q_func q)) (collect_samples q) s (snd ki)
                     | None => false
                     end) (o_bins o) &&
  (o_ne o =? Z.of_N (a_ne a)) && (o_bne o =? Z.of_N bne) &&
  (length (o_buckets o) =? length bs)%nat &&
  if exact then
    (* same buckets in the same order (sortBuckets) *)
    all2 (fun b i => let s := info (b_name b) (b_mid b) in
                     bucket_agrees scale exact (s_ovf s) q (slack_of s) b i) bs (o_buckets o)
  else
    (* rounded sums may order two nearly equal buckets differently: compare by key *)
    forallb (fun i => match find_bucket (ib_name i) (ib_mid i) bs with
                      | Some b => let s := info (b_name b) (b_mid b) in
                                  bucket_agrees scale exact (s_ovf s) q (slack_of s) b i
                      | None => false
                      end) (o_buckets o).

Definition hist_agrees (interval from to : N) (t : mtree) (impl : list (N * N)) : bool :=
  let h := hist_tree interval from to t in
  (length impl =? length h)%nat &&
  forallb (fun bc => (0 <? snd bc)%N && (hlookup (fst bc) h =? snd bc)%N) impl.

(* ---- float path: bit-exact replay of the recorded merge tree *)
Definition bits_eqb (x : sf) (z : Z) : bool := bits_of_sf x =? z.

Definition fbin_agrees (q : query) (t : ftree) (b : fbin) : bool :=
  let s := bin_float q (fb_key b) t in
  (f_total s =? fb_total b) && bits_eqb (f_min s) (fb_min b) && bits_eqb (f_max s) (fb_max b) &&
  bits_eqb (f_sum s) (fb_sum b).

Definition fbucket_agrees (q : query) (t : ftree) (k : fbucket) : bool :=
  bits_eqb (fvalue (q_func q) (bin_float q (fk_mid k, fk_name k) t)) (fk_val k).

(* every field value of the case is a valid binary64 (hypothesis of the float theorems, checked per case) *)
Definition values_valid (t : ftree) : bool :=
  forallb (fun d => match fd_fld d with Some (_, b) => sf_valid (sf_of_bits b) | None => true end) (ftree_docs t).

Definition aggf_agrees (t : ftree) (q : query) (o : fout) : bool :=
  negb (tree_err q t) && orders_ok q t && values_valid t &&
  forallb (fbin_agrees q t) (fo_bins o) && forallb (fbucket_agrees q t) (fo_buckets o).

(* ---- limits, cache, parseNum *)
Definition cons_eqb (a b : option nat * bool) : bool :=
  Bool.eqb (snd a) (snd b) && (snd a || option_eqb Nat.eqb (fst a) (fst b)).

Definition iter_agrees (limit : N) (tids : list N) (vtab : list (N * N)) (lidlists : list (list N)) (lids srcs : list N)
           (ic : list (option nat * bool)) (iv : list N) : bool :=
  let '(mc, mv) := iter_run key_code limit tids vtab lidlists lids srcs in
  list_eqb cons_eqb mc ic && list_eqb N.eqb mv iv.

(* parseNum given the oracle's verdict: accepted iff finite, and then that very value *)
Definition parse_num (bits : Z) : option Z := if bits_finite bits then Some (bits_of_sf (sf_of_bits bits)) else None.

Definition parse_agrees (bits : Z) (ok : bool) (ibits : Z) : bool :=
  match parse_num bits with
  | Some b => ok && (ibits =? b)
  | None => negb ok
  end.

Definition case_agrees (c : case) : bool :=
  match c with
  | CIter limit tids vtab lidlists lids srcs ic iv => iter_agrees limit tids vtab lidlists lids srcs ic iv
  | CLimErr lim parts e => Bool.eqb (search_fails lim parts) e
  | CParse bits ok ibits => parse_agrees bits ok ibits
  | CAggF t q o => aggf_agrees t q o
  | CFErr t q e => Bool.eqb (tree_err q t) e
  | CAgg scale exact t q o => agg_agrees scale exact t q o
  | CHist interval from to t impl => hist_agrees interval from to t impl
  | CKey mid tok key bmid btok =>
      list_eqb N.eqb key (to_key mid tok) &&
      match from_key key with
      | Some (m, t) => (m =? bmid)%N && list_eqb N.eqb t btok
      | None => false
      end
  end.

(* ---------------------------------------------------------------- the property, evaluated on the
   implementation's output: values computed DIRECTLY from the selected documents (filters and
   counts over the whole corpus; no per-fraction pass, no merge) *)

Definition count {A} (p : A -> bool) (l : list A) : N := N.of_nat (length (filter p l)).

Definition opt_is (o : option N) (g : N) : bool := match o with Some x => (x =? g)%N | None => false end.
Definition is_none {A} (o : option A) : bool := match o with None => true | Some _ => false end.

(* values the documents contribute to bin k, and the bin's not-exists count *)
Definition bin_vals (q : query) (k : key) (D : list doc) : list Z :=
  let inb d := (bucket_of (q_interval q) (d_mid d) =? fst k)%N in
  flat_map (fun d => match d_fld d with
                     | Some v => if inb d && (if q_group q then opt_is (d_grp d) (snd k) else (snd k =? 0)%N)
                                 then [v] else []
                     | None => []
                     end) D.

Definition bin_ne (q : query) (k : key) (D : list doc) : N :=
  if q_group q then
    count (fun d => (bucket_of (q_interval q) (d_mid d) =? fst k)%N && opt_is (d_grp d) (snd k) && is_none (d_fld d)) D
  else
    if (snd k =? 0)%N
    then count (fun d => (bucket_of (q_interval q) (d_mid d) =? fst k)%N && is_none (d_fld d)) D else 0%N.

Definition no_group_cnt (D : list doc) : N := count (fun d => is_none (d_grp d)) D.

(* documents counted in bin k by count(group) *)
Definition bin_count (q : query) (k : key) (D : list doc) : N :=
  if key_eqb k (0%N, q_netok q) && (0 <? no_group_cnt D)%N then no_group_cnt D
  else count (fun d => opt_is (d_grp d) (snd k) && (bucket_of (q_interval q) (d_mid d) =? fst k)%N) D.

(* the bins a document must appear in *)
Definition doc_keys (q : query) (d : doc) : list key :=
  let b := bucket_of (q_interval q) (d_mid d) in
  match q_func q with
  | FCount => match d_grp d with Some g => [(b, g)] | None => [(0%N, q_netok q)] end
  | FUnique => match d_grp d with Some g => [(0%N, g)] | None => [] end
  | _ => if q_group q then
           match d_grp d, d_fld d with
           | Some g, Some _ => [(b, g)]
           | Some g, None => [(b, g)]
           | _, _ => []
           end
         else [(b, 0%N)]
  end.

Definition expected_ne (q : query) (D : list doc) : N :=
  match q_func q with
  | FCount | FUnique => no_group_cnt D
  | _ => if q_group q then count (fun d => is_none (d_grp d) && negb (is_none (d_fld d))) D else 0%N
  end.

Definition mem_z (x : Z) (l : list Z) : bool := existsb (Z.eqb x) l.

(* summary of bin k against the values computed from the documents *)
Definition summ_spec (scale : Z) (exact : bool) (q : query) (k : key) (D : list doc) (i : isumm) : bool :=
  match q_func q with
  | FCount =>
      (0 <? bin_count q k D)%N && (i_total i =? Z.of_N (bin_count q k D)) && (i_ne i =? 0) &&
      match i_samples i with [] => true | _ => false end
  | FUnique =>
      (fst k =? 0)%N && (0 <? count (fun d => opt_is (d_grp d) (snd k)) D)%N &&
      (i_total i =? 0) && (i_ne i =? 0) && match i_samples i with [] => true | _ => false end
  | _ =>
      let vs := bin_vals q k D in
      let ne := bin_ne q k D in
      let n := N.of_nat (length vs) in
      (* the bin is not empty *)
      ((0 <? n)%N || (0 <? ne)%N ||
       (negb (q_group q) && (0 <? count (fun d => (bucket_of (q_interval q) (d_mid d) =? fst k)%N) D)%N)) &&
      (i_total i =? Z.of_N n) && (i_ne i =? Z.of_N ne) &&
      (if (n =? 0)%N then units_is scale (i_sum i) 0 && match i_samples i with [] => true | _ => false end
       else
         units_is scale (i_min i) (list_min 0 vs) && units_is scale (i_max i) (list_max 0 vs) &&
         sum_ok exact scale (i_sum i) (sum_list vs) (sum_abs vs) &&
         match units_list scale (i_samples i) with
         | Some us =>
             if collect_samples q then
               if (n <=? max_samples)%N then sorted_eqb us vs
               else (N.of_nat (length us) =? max_samples)%N && forallb (fun u => mem_z u vs) us
             else forallb (fun u => mem_z u vs) us   (* not requested: anything, but only real values *)
         | None => false
         end)
  end.

(* quantile a/2^b computed directly from the values *)
Definition quantile_spec (scale : Z) (vs : list Z) (qt : quant) (f : fl) : bool :=
  let '(a, b) := qt in
  match vs with
  | [] => is_nan f
  | _ =>
      if (a =? 2 ^ b)%N then units_is scale f (list_max 0 vs)
      else if (a =? 0)%N then units_is scale f (list_min 0 vs)
      else if (N.of_nat (length vs) <=? max_samples)%N
           then units_is scale f (nth (qindex (length vs) qt) (ZSort.sort vs) 0)
           else match units scale f with Some u => mem_z u vs | None => false end
  end.

Definition bucket_spec (scale : Z) (exact : bool) (q : query) (D : list doc) (i : ibucket) : bool :=
  let k := (ib_mid i, ib_name i) in
  match q_func q with
  | FCount => units_is 0 (ib_val i) (Z.of_N (bin_count q k D)) && (ib_ne i =? 0) &&
              match ib_quants i with [] => true | _ => false end
  | FUnique => units_is 0 (ib_val i) 0 && (ib_ne i =? 0) && match ib_quants i with [] => true | _ => false end
  | f =>
      let vs := bin_vals q k D in
      (ib_ne i =? Z.of_N (bin_ne q k D)) &&
      match f with
      | FQuantile =>
          (length (ib_quants i) =? length (q_quants q))%nat &&
          forallb (fun qf => quantile_spec scale vs (fst qf) (snd qf)) (combine (q_quants q) (ib_quants i)) &&
          match q_quants q, ib_quants i with
          | qt :: _, f0 :: _ =>
              (* Value is the first quantile *)
              quantile_spec scale vs qt (ib_val i)
          | _, _ => false
          end
      | _ =>
          match ib_quants i with [] => true | _ => false end &&
          match vs with
          | [] => is_nan (ib_val i)
          | _ => match f with
                 | FSum => sum_ok exact scale (ib_val i) (sum_list vs) (sum_abs vs)
                 | FMin => units_is scale (ib_val i) (list_min 0 vs)
                 | FMax => units_is scale (ib_val i) (list_max 0 vs)
                 | _ => avg_ok exact scale (ib_val i) (sum_list vs) (N.of_nat (length vs)) (sum_abs vs)
                 end
          end
      end
  end.

Fixpoint keys_unique (l : list key) : bool :=
  match l with
  | [] => true
  | k :: r => negb (existsb (key_eqb k) r) && keys_unique r
  end.

Definition agg_spec (scale : Z) (exact : bool) (t : mtree) (q : query) (o : iout) : bool :=
  let D := filter (selected (q_from q) (q_to q)) (tree_docs t) in
  let ks := map fst (o_bins o) in
  let skip := (0 <? q_interval q)%N in
  let shown := filter (fun k => negb (skip && (fst k =? 0)%N)) ks in
  keys_unique ks &&
  (* every bin holds exactly what the documents say *)
  forallb (fun ki => summ_spec scale exact q (fst ki) D (snd ki)) (o_bins o) &&
  (* every selected document is in its bin(s) *)
  forallb (fun d => forallb (fun k => existsb (key_eqb k) ks) (doc_keys q d)) D &&
  (o_ne o =? Z.of_N (expected_ne q D)) && (o_bne o =? Z.of_N (expected_ne q D)) &&
  (* Aggregate: one bucket per (shown) bin, each with the directly computed value *)
  keys_unique (map (fun i => (ib_mid i, ib_name i)) (o_buckets o)) &&
  (length (o_buckets o) =? length shown)%nat &&
  forallb (fun i => existsb (key_eqb (ib_mid i, ib_name i)) shown && bucket_spec scale exact q D i) (o_buckets o).

Definition hist_spec (interval from to : N) (t : mtree) (impl : list (N * N)) : bool :=
  let D := filter (selected from to) (tree_docs t) in
  keys_unique (map (fun bc => (fst bc, 0%N)) impl) &&
  forallb (fun bc => (0 <? snd bc)%N &&
                     (snd bc =? count (fun d => (bucket_of interval (d_mid d) =? fst bc)%N) D)%N) impl &&
  forallb (fun d => existsb (fun bc => (fst bc =? bucket_of interval (d_mid d))%N) impl) D.

(* ---- float path, evaluated on the implementation's output, exact integer arithmetic in units 2^-1074
   (every finite binary64 is an integer number of such units); no replay of the merge tree *)
Definition zval (x : sf) : Z :=
  match x with
  | S754_finite s m e => (if s then -1 else 1) * Z.shiftl (Zpos m) (e + 1074)
  | _ => 0
  end.

(* the values the selected documents of the whole corpus contribute to bin k *)
Definition fbin_vals (q : query) (k : key) (D : list fdoc) : list sf :=
  flat_map (fun d => if fselected q d && (bucket_of (q_interval q) (fd_mid d) =? fst k)%N &&
                        (if q_group q then opt_is (fd_grp d) (snd k) else (snd k =? 0)%N)
                     then match fd_fld d with Some (_, b) => [sf_of_bits b] | None => [] end
                     else []) D.

(* Sum against the exact sum S of the n values: with N = n + (number of fractions) + 2 roundings at most on
   any path, |Sum - S| <= N * 2^-52 * sum|x| + N units (the second term covers an underflowing num * cnt);
   an infinite or NaN Sum needs sum|x| >= 2^1023 *)
Definition fsum_spec (vs : list sf) (nleaves : Z) (sumbits : Z) : bool :=
  let zs := map zval vs in
  let S := sum_list zs in let A := sum_abs zs in
  let n := Z.of_nat (length vs) + nleaves + 2 in
  let x := sf_of_bits sumbits in
  if sf_finite x then Z.abs (zval x - S) * 2 ^ 52 <=? n * A + n * 2 ^ 52
  else 2 ^ (1023 + 1074) <=? A.

Definition fbin_spec (q : query) (D : list fdoc) (nleaves : Z) (b : fbin) : bool :=
  let vs := fbin_vals q (fb_key b) D in
  let zs := map zval vs in
  (fb_total b =? Z.of_nat (length vs)) &&
  match vs with
  | [] => fb_sum b =? 0
  | _ => (zval (sf_of_bits (fb_min b)) =? list_min 0 zs) && existsb (fun v => bits_of_sf v =? fb_min b) vs &&
         (zval (sf_of_bits (fb_max b)) =? list_max 0 zs) && existsb (fun v => bits_of_sf v =? fb_max b) vs &&
         fsum_spec vs nleaves (fb_sum b)
  end.

(* getAggBucket on the implementation's own bin: Sum / Min / Max as they are, Avg = RNE(Sum / float64(Total)) *)
Definition fbucket_spec (q : query) (o : fout) (k : fbucket) : bool :=
  match find (fun b => key_eqb (fb_key b) (fk_mid k, fk_name k)) (fo_bins o) with
  | None => false
  | Some b =>
      if fb_total b =? 0 then fk_val k =? nan_bits
      else match q_func q with
           | FSum => fk_val k =? fb_sum b
           | FMin => fk_val k =? fb_min b
           | FMax => fk_val k =? fb_max b
           | FAvg => fk_val k =? bits_of_sf (fdiv (sf_of_bits (fb_sum b)) (of_int (fb_total b)))
           | _ => false
           end
  end.

Definition aggf_spec (t : ftree) (q : query) (o : fout) : bool :=
  let D := ftree_docs t in
  let nl := Z.of_nat (length (ftree_leaves t)) in
  keys_unique (map fb_key (fo_bins o)) &&
  forallb (fbin_spec q D nl) (fo_bins o) && forallb (fbucket_spec q o) (fo_buckets o).

(* the search fails iff a selected document (with the group token, when grouped) has a field token that
   is not a finite number *)
Definition ferr_spec (t : ftree) (q : query) (e : bool) : bool :=
  Bool.eqb e (existsb (fun d => fselected q d &&
                               (if q_group q then negb (is_none (fd_grp d)) else true) &&
                               match fd_fld d with Some (_, b) => negb (bits_finite b) | None => false end)
                      (ftree_docs t)).

(* ---- ValueBySource: every answer is the value of the source's own token (no cache in the statement);
   ConsumeTokenSource: the source of the list that holds the LID; fails exactly when the limit is on and the number of
   distinct sources found so far exceeds it, and nothing is consumed after a failure *)
Fixpoint find_src (lidlists : list (list N)) (lid : N) (i : nat) : option nat :=
  match lidlists with
  | [] => None
  | l :: r => if existsb (N.eqb lid) l then Some i else find_src r lid (S i)
  end.

Fixpoint cons_spec (limit : N) (lidlists : list (list N)) (lids : list N) (found : list nat)
         (impl : list (option nat * bool)) : bool :=
  match lids, impl with
  | [], [] => true
  | l :: r, (o, e) :: ir =>
      let s := find_src lidlists l 0 in
      let found' := match s with Some x => x :: found | None => found end in
      let expect := (0 <? limit)%N && negb (is_none s) && (limit <? nkeys found')%N in
      Bool.eqb e expect &&
      (if e then match ir with [] => true | _ => false end
       else option_eqb Nat.eqb o s && cons_spec limit lidlists r found' ir)
  | _, _ => false
  end.

Definition iter_spec (limit : N) (tids : list N) (vtab : list (N * N)) (lidlists : list (list N)) (lids srcs : list N)
           (ic : list (option nat * bool)) (iv : list N) : bool :=
  cons_spec limit lidlists lids [] ic &&
  list_eqb N.eqb iv (map (fun s => val_of vtab (tid_of tids s)) srcs).

(* ---- limits: computed directly from the documents.  One fraction fails iff
   - the field / group has more tokens in the fraction (ALL its documents) than MaxTIDsPerFraction, or
   - the SELECTED documents carry more distinct group tokens than MaxGroupTokens / field tokens than MaxFieldTokens, or
   - the selected documents touch more bins than MaxGroupTokens
   (each limit only when > 0); the search fails iff one of the fractions it visits fails for one of its aggregations *)
Fixpoint dedup {A} (eqb : A -> A -> bool) (l : list A) : list A :=
  match l with
  | [] => []
  | x :: r => if existsb (eqb x) r then dedup eqb r else x :: dedup eqb r
  end.

Definition ndist {A} (eqb : A -> A -> bool) (l : list A) : N := N.of_nat (length (dedup eqb l)).

Definition somes {A B} (f : A -> option B) (l : list A) : list B :=
  flat_map (fun x => match f x with Some y => [y] | None => [] end) l.

Definition frac_fails_spec (lim : limits) (q : query) (ds : list doc) : bool :=
  let D := filter (selected (q_from q) (q_to q)) ds in
  (uses_field q && over (l_tids lim) (ndist Z.eqb (somes d_fld ds))) ||
  (uses_group q && over (l_tids lim) (ndist N.eqb (somes d_grp ds))) ||
  (uses_group q && over (l_group lim) (ndist N.eqb (somes d_grp D))) ||
  (uses_field q && over (l_field lim) (ndist Z.eqb (somes d_fld D))) ||
  over (l_group lim) (ndist key_eqb (flat_map (doc_keys q) D)).

Fixpoint tree_leaves (t : mtree) : list (list doc) :=
  match t with
  | Leaf ds => [ds]
  | Node l r => tree_leaves l ++ tree_leaves r
  end.

Definition limerr_spec (lim : limits) (parts : list (query * mtree)) (e : bool) : bool :=
  Bool.eqb e (existsb (fun qt => existsb (frac_fails_spec lim (fst qt)) (tree_leaves (snd qt))) parts).

(* a token contributes the value v iff strconv.ParseFloat accepts it with the finite value v: accepted <-> finite,
   and the value is ParseFloat's, bit for bit (any other accepted syntax or any other value fails here) *)
Definition parse_spec (bits : Z) (ok : bool) (ibits : Z) : bool :=
  Bool.eqb ok (sf_finite (sf_of_bits bits)) && (negb ok || (ibits =? bits mod 2 ^ 64)).

Definition case_spec_ok (c : case) : bool :=
  match c with
  | CIter limit tids vtab lidlists lids srcs ic iv => iter_spec limit tids vtab lidlists lids srcs ic iv
  | CLimErr lim parts e => limerr_spec lim parts e
  | CParse bits ok ibits => parse_spec bits ok ibits
  | CAggF t q o => aggf_spec t q o
  | CFErr t q e => ferr_spec t q e
  | CAgg scale exact t q o => agg_spec scale exact t q o
  | CHist interval from to t impl => hist_spec interval from to t impl
  | CKey mid tok key bmid btok => (bmid =? mid)%N && list_eqb N.eqb btok tok
  end.

Definition diff_indices (l : list case) : list nat := bad_indices (fun c => negb (case_agrees c)) l.
Definition specfail_indices (l : list case) : list nat := bad_indices (fun c => negb (case_spec_ok c)) l.
