(* C06 — count / unique per group, and the global not-exists counter, for every merge tree. *)
From Coq Require Import Lia Permutation ZifyN ZifyNat.
From C06 Require Import Model CaseDefs Proofs ProofsQ ProofsA.
Open Scope Z_scope.

(* a container that only counts *)
Definition cdesc (s : summ) (n : N) : Prop :=
  s_total s = n /\ s_ne s = 0%N /\ s_sum s = 0 /\ s_samples s = [] /\ s_ovf s = false.

Lemma cdesc_new sc : cdesc (new_summ sc) 0.
Proof. repeat split. Qed.

Lemma cdesc_add_total s n : cdesc s n -> cdesc (add_total s) (n + 1).
Proof. intros (A & B & C & D & E). repeat split; simpl; auto. lia. Qed.

Lemma cdesc_merge a n b m : cdesc a n -> cdesc b m -> cdesc (merge_summ a b) (n + m).
Proof.
  intros (A & B & C & D & E) (A' & B' & C' & D' & E'). unfold merge_summ.
  destruct (N.eqb_spec (s_total b) 0).
  - repeat split; simpl; auto; lia.
  - rewrite D'. simpl. rewrite E, E'. repeat split; simpl; auto; lia.
Qed.

Definition ocdesc (o : option summ) (n : N) : Prop :=
  match o with Some s => cdesc s n /\ (0 < n)%N | None => n = 0%N end.

(* ---------------------------------------------------------------- count(group) *)

Definition cnt (q : query) (k : key) (D : list doc) : N :=
  count (fun d => opt_is (d_grp d) (snd k) && (bucket_of (q_interval q) (d_mid d) =? fst k)%N) D.

Definition count_ok (q : query) (st : aggs) (D : list doc) : Prop :=
  NoDup (map fst (a_bins st)) /\ a_ne st = no_group_cnt D /\
  forall k, ocdesc (lookup k (a_bins st)) (cnt q k D).

Lemma cdesc_or_new sc o n : ocdesc o n -> cdesc (or_new sc o) n.
Proof. destruct o; simpl; [tauto|]. intros ->. apply cdesc_new. Qed.

Lemma fold_count q ds : q_func q = FCount -> forall st P,
  Forall (fun d => sel q d = true) ds ->
  count_ok q st P -> count_ok q (fold_left (dstep q) ds st) (P ++ ds).
Proof.
  intros FC. induction ds as [|d ds IH]; intros st P F (ND & NE & O); simpl.
  - rewrite app_nil_r. repeat split; assumption.
  - inversion F as [|? ? Sd F']; subst. replace (P ++ d :: ds) with ((P ++ [d]) ++ ds) by (rewrite <- app_assoc; reflexivity).
    apply IH; [assumption|]. unfold dstep. rewrite Sd. unfold step. rewrite FC.
    unfold count_ok, no_group_cnt, cnt. setoid_rewrite count_app. unfold count at 2 4. cbn [filter].
    destruct (d_grp d) as [g|]; cbn [a_bins a_ne is_none opt_is andb length N.of_nat].
    + split; [apply alter_nodup; assumption|]. split; [unfold no_group_cnt in NE; lia|].
      intros k. rewrite lookup_alter. specialize (O k). unfold cnt in O. unfold key_eqb. cbn [fst snd].
      rewrite (N.eqb_sym g), (N.eqb_sym (bucket_of _ _)).
      destruct (N.eqb_spec (snd k) g), (N.eqb_spec (fst k) (bucket_of (q_interval q) (d_mid d)));
        cbn [andb length N.of_nat ocdesc]; try (rewrite N.add_0_r; exact O).
      split; [|lia]. apply (cdesc_add_total _ _ (cdesc_or_new _ _ _ O)).
    + split; [assumption|]. split; [unfold no_group_cnt in NE; lia|].
      intros k. rewrite N.add_0_r. apply O.
Qed.

(* expected total of bin k after the legacy "_not_exists" bin was added *)
Definition ecnt (q : query) (k : key) (D : list doc) : N :=
  (cnt q k D + if key_eqb k (0%N, q_netok q) then no_group_cnt D else 0)%N.

Definition no_netok_group (q : query) (D : list doc) : Prop :=
  forall d, In d D -> d_grp d <> Some (q_netok q).

Lemma cnt_netok q D b : no_netok_group q D -> cnt q (b, q_netok q) D = 0%N.
Proof.
  intros H. unfold cnt, count. induction D as [|d D IH]; [reflexivity|]. cbn [filter snd fst].
  assert (opt_is (d_grp d) (q_netok q) = false).
  { specialize (H d (or_introl eq_refl)). unfold opt_is. destruct (d_grp d) as [g|]; [|reflexivity].
    destruct (N.eqb_spec g (q_netok q)); [congruence|reflexivity]. }
  rewrite H0. cbn [andb]. apply IH. intros x I. apply H. right. exact I.
Qed.

Definition ecount_ok (q : query) (st : aggs) (D : list doc) : Prop :=
  NoDup (map fst (a_bins st)) /\ a_ne st = no_group_cnt D /\
  forall k, ocdesc (lookup k (a_bins st)) (ecnt q k D).

Lemma frac_direct_count q ds : q_func q = FCount -> no_netok_group q (filter (sel q) ds) ->
  ecount_ok q (frac_direct q ds) (filter (sel q) ds).
Proof.
  intros FC NN. unfold frac_direct.
  change (fun st d => if selected (q_from q) (q_to q) d then step q (d_mid d) (d_grp d) (d_fld d) st else st)
    with (dstep q).
  rewrite fold_dstep_filter.
  destruct (fold_count q (filter (sel q) ds) FC empty_aggs []) as (ND & NE & O).
  { rewrite Forall_forall. intros d I. apply filter_In in I. tauto. }
  { split; [constructor|]. split; [reflexivity|]. intros k. reflexivity. }
  cbn [app] in *. set (D := filter (sel q) ds) in *. set (st := fold_left (dstep q) D empty_aggs) in *.
  unfold finish. rewrite FC. destruct (N.ltb_spec 0 (a_ne st)) as [Pos|Zero].
  - split; [apply alter_nodup; assumption|]. split; [exact NE|].
    intros k. cbn [a_bins]. rewrite lookup_alter. unfold ecnt. destruct (key_eqb_spec k (0%N, q_netok q)) as [->|].
    + rewrite cnt_netok by assumption. cbn [ocdesc]. rewrite <- NE. split; [|lia]. repeat split; simpl; lia.
    + rewrite N.add_0_r. apply O.
  - split; [assumption|]. split; [exact NE|]. intros k. unfold ecnt.
    replace (no_group_cnt D) with 0%N by lia. destruct (key_eqb _ _); rewrite N.add_0_r; apply O.
Qed.

Lemma ecnt_app q k a b : ecnt q k (a ++ b) = (ecnt q k a + ecnt q k b)%N.
Proof. unfold ecnt, cnt, no_group_cnt. rewrite !count_app. destruct (key_eqb _ _); lia. Qed.

Lemma ocdesc_merge sc ox nx oy ny : ocdesc ox nx -> ocdesc oy ny ->
  ocdesc (match oy with Some h => Some (merge_summ (or_new sc ox) h) | None => ox end) (nx + ny).
Proof.
  intros X Y. destruct oy as [h|]; simpl in *.
  - destruct Y. split; [|lia]. apply cdesc_merge; [apply cdesc_or_new|]; assumption.
  - subst ny. rewrite N.add_0_r. exact X.
Qed.

Lemma no_netok_app q a b : no_netok_group q (a ++ b) -> no_netok_group q a /\ no_netok_group q b.
Proof. unfold no_netok_group. split; intros d I; apply H; apply in_or_app; auto. Qed.

Lemma agg_exact_count q t : q_func q = FCount ->
  no_netok_group q (filter (sel q) (tree_docs t)) ->
  ecount_ok q (eval_tree_direct q t) (filter (sel q) (tree_docs t)).
Proof.
  intros FC. induction t as [ds|l IHl r IHr]; cbn [eval_tree_direct tree_docs]; intros NN.
  - apply frac_direct_count; assumption.
  - rewrite filter_app in *. destruct (no_netok_app _ _ _ NN) as [Nl Nr].
    destruct (IHl Nl) as (NDl & NEl & Ol). destruct (IHr Nr) as (NDr & NEr & Or).
    unfold ecount_ok. rewrite merge_aggs_bins. split; [apply merge_bins_nodup; assumption|]. split.
    + unfold merge_aggs. cbn [a_ne]. unfold no_group_cnt in *. rewrite count_app. lia.
    + intros k. rewrite merge_bins_lookup by assumption. rewrite ecnt_app. apply ocdesc_merge; [apply Ol|apply Or].
Qed.

(* the spec checker's expected total is the same number *)
Lemma bin_count_ecnt q k D : no_netok_group q D -> bin_count q k D = ecnt q k D.
Proof.
  intros NN. unfold bin_count, ecnt. fold (cnt q k D).
  destruct (key_eqb_spec k (0%N, q_netok q)) as [->|]; cbn [andb]; [|lia].
  rewrite cnt_netok by assumption. destruct (N.ltb_spec 0 (no_group_cnt D)); lia.
Qed.

(* ---------------------------------------------------------------- unique(group) *)

Definition ucnt (k : key) (D : list doc) : N :=
  if (fst k =? 0)%N then count (fun d => opt_is (d_grp d) (snd k)) D else 0%N.

(* a bin exists exactly for the group tokens that occur, and it is an empty container *)
Definition oudesc (o : option summ) (n : N) : Prop :=
  match o with Some s => cdesc s 0 /\ (0 < n)%N | None => n = 0%N end.

Definition unique_ok (st : aggs) (D : list doc) : Prop :=
  NoDup (map fst (a_bins st)) /\ a_ne st = no_group_cnt D /\
  forall k, oudesc (lookup k (a_bins st)) (ucnt k D).

Lemma ucnt_app k a b : ucnt k (a ++ b) = (ucnt k a + ucnt k b)%N.
Proof. unfold ucnt. destruct (fst k =? 0)%N; [apply count_app|reflexivity]. Qed.

Lemma oudesc_or_new sc o n : oudesc o n -> cdesc (or_new sc o) 0.
Proof. destruct o; simpl; [tauto|]. intros _. apply cdesc_new. Qed.

Lemma fold_unique q ds : q_func q = FUnique -> forall st P,
  Forall (fun d => sel q d = true) ds ->
  unique_ok st P -> unique_ok (fold_left (dstep q) ds st) (P ++ ds).
Proof.
  intros FU. induction ds as [|d ds IH]; intros st P F (ND & NE & O); simpl.
  - rewrite app_nil_r. repeat split; assumption.
  - inversion F as [|? ? Sd F']; subst. replace (P ++ d :: ds) with ((P ++ [d]) ++ ds) by (rewrite <- app_assoc; reflexivity).
    apply IH; [assumption|]. unfold dstep. rewrite Sd. unfold step. rewrite FU.
    unfold unique_ok. setoid_rewrite ucnt_app. unfold no_group_cnt. rewrite count_app. unfold count at 2. cbn [filter].
    destruct (d_grp d) as [g|] eqn:G; cbn [a_bins a_ne is_none length N.of_nat].
    + split; [apply alter_nodup; assumption|]. split; [unfold no_group_cnt in NE; lia|].
      intros k. rewrite lookup_alter. specialize (O k). unfold ucnt at 2. unfold count. cbn [filter]. rewrite G. cbn [opt_is].
      unfold key_eqb. cbn [fst snd]. rewrite (N.eqb_sym g).
      destruct (N.eqb_spec (fst k) 0), (N.eqb_spec (snd k) g); cbn [andb length N.of_nat oudesc];
        try (rewrite N.add_0_r; exact O).
      split; [|lia]. apply (oudesc_or_new _ _ _ O).
    + split; [assumption|]. split; [unfold no_group_cnt in NE; lia|].
      intros k. unfold ucnt at 2. unfold count. cbn [filter]. rewrite G. cbn [opt_is].
      destruct (fst k =? 0)%N; cbn [length N.of_nat]; rewrite N.add_0_r; apply O.
Qed.

Lemma oudesc_merge sc ox nx oy ny : oudesc ox nx -> oudesc oy ny ->
  oudesc (match oy with Some h => Some (merge_summ (or_new sc ox) h) | None => ox end) (nx + ny).
Proof.
  intros X Y. destruct oy as [h|]; simpl in *.
  - destruct Y. split; [|lia]. change 0%N with (0 + 0)%N. apply cdesc_merge; [eapply oudesc_or_new; eauto|assumption].
  - subst ny. rewrite N.add_0_r. exact X.
Qed.

Lemma agg_exact_unique q t : q_func q = FUnique ->
  unique_ok (eval_tree_direct q t) (filter (sel q) (tree_docs t)).
Proof.
  intros FU. induction t as [ds|l (NDl & NEl & Ol) r (NDr & NEr & Or)]; cbn [eval_tree_direct tree_docs].
  - unfold frac_direct.
    change (fun st d => if selected (q_from q) (q_to q) d then step q (d_mid d) (d_grp d) (d_fld d) st else st)
      with (dstep q).
    rewrite fold_dstep_filter. unfold finish. rewrite FU.
    apply (fold_unique q (filter (sel q) ds) FU empty_aggs []).
    + rewrite Forall_forall. intros d I. apply filter_In in I. tauto.
    + split; [constructor|]. split; [reflexivity|]. intros k. unfold ucnt, count. simpl. destruct (fst k =? 0)%N; reflexivity.
  - rewrite filter_app. unfold unique_ok. rewrite merge_aggs_bins. split; [apply merge_bins_nodup; assumption|]. split.
    + unfold merge_aggs. cbn [a_ne]. unfold no_group_cnt in *. rewrite count_app. lia.
    + intros k. rewrite merge_bins_lookup by assumption. rewrite ucnt_app. apply oudesc_merge; [apply Ol|apply Or].
Qed.

(* ---------------------------------------------------------------- the global NotExists counter *)

Lemma expected_ne_app q a b : expected_ne q (a ++ b) = (expected_ne q a + expected_ne q b)%N.
Proof.
  unfold expected_ne, no_group_cnt. destruct (q_func q); try apply count_app;
  destruct (q_group q); try apply count_app; reflexivity.
Qed.

Lemma step_ne q d st :
  a_ne (step q (d_mid d) (d_grp d) (d_fld d) st) = (a_ne st + expected_ne q [d])%N.
Proof.
  unfold step, expected_ne, no_group_cnt, count, is_none. cbn [filter].
  destruct (q_func q), (q_group q), (d_grp d), (d_fld d); cbn [a_ne negb andb length N.of_nat]; lia.
Qed.

Lemma fold_ne q ds : forall st, Forall (fun d => sel q d = true) ds ->
  a_ne (fold_left (dstep q) ds st) = (a_ne st + expected_ne q ds)%N.
Proof.
  induction ds as [|d ds IH]; intros st F; simpl.
  - unfold expected_ne, no_group_cnt, count. simpl. destruct (q_func q), (q_group q); lia.
  - inversion F as [|? ? Sd F']; subst. rewrite IH by assumption. unfold dstep. rewrite Sd. rewrite step_ne.
    change (d :: ds) with ([d] ++ ds). rewrite expected_ne_app. lia.
Qed.

Lemma finish_ne q st : a_ne (finish q st) = a_ne st.
Proof. unfold finish. destruct (q_func q); try reflexivity. destruct (0 <? a_ne st)%N; reflexivity. Qed.

Lemma agg_ne_exact q t : a_ne (eval_tree_direct q t) = expected_ne q (filter (sel q) (tree_docs t)).
Proof.
  induction t as [ds|l IHl r IHr]; cbn [eval_tree_direct tree_docs].
  - unfold frac_direct. rewrite finish_ne.
    change (fun st d => if selected (q_from q) (q_to q) d then step q (d_mid d) (d_grp d) (d_fld d) st else st)
      with (dstep q).
    rewrite fold_dstep_filter. rewrite fold_ne; [simpl; lia|].
    rewrite Forall_forall. intros d I. apply filter_In in I. tauto.
  - rewrite filter_app, expected_ne_app. unfold merge_aggs. cbn [a_ne]. lia.
Qed.
