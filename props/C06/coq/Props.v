(* C06 — property theorems. Statements only, each closed by `exact <lemma>` from Proofs.v, with
   Print Assumptions beneath, and the non-vacuity examples. *)
From Coq Require Import Permutation.
From C06 Require Import Model CaseDefs Proofs ProofsQ ProofsA ProofsC ProofsL ProofsT ProofsK ProofsS.
Open Scope Z_scope.

(* SamplesContainer.Merge (all values in Z, also beyond the int64 range of the sentinels): if container a holds exactly (Total, Sum, Min, Max, NotExists, sample
   multiset while <= 8096) of the value list va and b that of vb, then a.Merge(b) holds exactly that
   of va ++ vb — for all value lists, with or without sample collection. *)
Theorem C06_merge_exact :
  forall c a va na b vb nb,
    sdesc c a va na -> sdesc c b vb nb -> sdesc c (merge_summ a b) (va ++ vb) (na + nb).
Proof. exact sdesc_merge. Qed.
Print Assumptions C06_merge_exact.

(* Merge is associative and commutative with the fresh container (sentinels +-2^63, any scale) as unit on
   everything observable, for ALL values in Z — no range hypothesis, values beyond +-2^63 included:
   (a+b)+d and a+(b+d), a+b and b+a, new+a and a+new are described by the same value lists. *)
Theorem C06_merge_monoid :
  forall sc c a va na b vb nb d vd nd,
    sdesc c a va na -> sdesc c b vb nb -> sdesc c d vd nd ->
    sdesc c (merge_summ (merge_summ a b) d) (va ++ vb ++ vd) (na + nb + nd) /\
    sdesc c (merge_summ a (merge_summ b d)) (va ++ vb ++ vd) (na + nb + nd) /\
    sdesc c (merge_summ a b) (va ++ vb) (na + nb) /\ sdesc c (merge_summ b a) (va ++ vb) (na + nb) /\
    sdesc c (merge_summ (new_summ sc) a) va na /\ sdesc c (merge_summ a (new_summ sc)) va na.
Proof. exact ProofsT.merge_monoid. Qed.
Print Assumptions C06_merge_monoid.

(* Quantile (as repaired by e5a0cc6): for a non-empty bin with at most 8096 values, Quantile(a/2^b) is
   element floor((n-1)*a/2^b + 1/2) of the sorted VALUES (so q = 0 is the minimum, q = 1 the maximum),
   also when no samples were collected because only 0 and 1 were requested; the index is in range. *)
Theorem C06_quantile_exact :
  forall c s vs ne a b,
    sdesc c s vs ne -> vs <> [] -> (N.of_nat (length vs) <= max_samples)%N -> (a <= 2 ^ b)%N ->
    (c = true \/ a = 0%N \/ a = (2 ^ b)%N) ->
    quantile s (a, b) = MNum (nth (qindex (length vs) (a, b)) (ZSort.sort vs) 0)
    /\ (qindex (length vs) (a, b) < length vs)%nat.
Proof. exact ProofsQ.quantile_exact. Qed.
Print Assumptions C06_quantile_exact.

(* an empty bin has no quantile (NaN) *)
Theorem C06_quantile_empty : forall c s ne qt, sdesc c s [] ne -> quantile s qt = MNaN.
Proof. exact ProofsQ.quantile_empty. Qed.
Print Assumptions C06_quantile_empty.

(* Histogram: for every merge tree over the fractions, every interval and time range, the count of
   bucket b is the number of selected documents of the whole corpus whose timestamp falls in b. *)
Theorem C06_hist_exact :
  forall interval from to t b,
    hlookup b (hist_tree interval from to t) = ProofsQ.hcount interval from to b (tree_docs t).
Proof. exact ProofsQ.hist_exact. Qed.
Print Assumptions C06_hist_exact.

(* the finding repaired by e5a0cc6, kept on the old definition: a non-empty bin whose samples were
   not collected (only quantiles 0/1 requested) answered NaN for the minimum *)
Example C06_quantile_v0_refuted :
  exists s vs, sdesc false s vs 0 /\ vs <> [] /\ quantile_v0 s (0%N, 0%N) = MNaN
               /\ quantile s (0%N, 0%N) = MNum (-150).
Proof.
  exists (insert_val false (-150) (new_summ 0)), [-150]. split; [|split; [discriminate|split; reflexivity]].
  apply sdesc_insert. apply sdesc_new.
Qed.

(* non-vacuity: the hypotheses of C06_merge_exact / C06_quantile_exact are met by real containers:
   two fractions' containers with collected samples, merged, median = element 1 of [1;2;3] *)
Example C06_nonvacuous :
  let a := insert_val true 3 (insert_val true 1 (new_summ 0)) in
  let b := insert_val true 2 (new_summ 0) in
  sdesc true (merge_summ a b) ([3; 1] ++ [2]) (0 + 0) /\ quantile (merge_summ a b) (1%N, 1%N) = MNum 2.
Proof.
  split; [|reflexivity].
  apply sdesc_merge; repeat apply sdesc_insert; apply sdesc_new.
Qed.

(* ------------------------------------------------------------------------------------------------
   The aggregation theorems.  [eval_tree q t] is the executed model: every leaf of t is one fraction,
   evaluated the way the code does it (token tables, sourced OR trees, ConsumeTokenSource in lock-step
   with the selected LIDs), inner nodes are AggregatableSamples.Merge in the shape of t.
   [selected_docs q t] = the documents of ALL fractions that the query selects; [bin_vals]/[bin_ne]/
   [bin_count]/[expected_ne] are the spec checker's direct computations (CaseDefs.v: filters/counts). *)

(* Mechanism: the lock-step walk over the sourced OR tree finds, for every selected document, exactly
   the document's own group and field token — the pass of the code equals the direct per-document pass,
   for all documents (single-valued tokens), all queries. *)
Theorem C06_lockstep_exact : forall q ds, frac_run q ds = frac_direct q ds.
Proof. exact ProofsL.frac_run_direct. Qed.
Print Assumptions C06_lockstep_exact.

(* sum / min / max / avg / quantile of a numeric field, with or without group, with or without
   interval: for EVERY merge tree and every bin key k, the bin is absent only if no document
   contributes to it, and otherwise holds exactly Total/Sum/Min/Max/NotExists (and the sample multiset
   while <= 8096) of the values the selected documents contribute; the global NotExists is exact. *)
Theorem C06_agg_exact :
  forall q t, is_field_func (q_func q) = true ->
    NoDup (map fst (a_bins (eval_tree q t))) /\
    a_ne (eval_tree q t) = CaseDefs.expected_ne q (ProofsT.selected_docs q t) /\
    forall k, ProofsA.odesc (collect_samples q) (lookup k (a_bins (eval_tree q t)))
                (CaseDefs.bin_vals q k (ProofsT.selected_docs q t))
                (CaseDefs.bin_ne q k (ProofsT.selected_docs q t)).
Proof. exact ProofsT.agg_exact. Qed.
Print Assumptions C06_agg_exact.

(* count per group (with the legacy "_not_exists" bin), for every merge tree: a bin exists iff its
   expected count is positive and then holds exactly that count.  Hypothesis: no document's group token
   is literally the "_not_exists" token (the code overwrites that bin). *)
Theorem C06_agg_exact_count :
  forall q t, q_func q = FCount -> ProofsC.no_netok_group q (ProofsT.selected_docs q t) ->
    NoDup (map fst (a_bins (eval_tree q t))) /\
    a_ne (eval_tree q t) = CaseDefs.expected_ne q (ProofsT.selected_docs q t) /\
    forall k, ProofsC.ocdesc (lookup k (a_bins (eval_tree q t))) (CaseDefs.bin_count q k (ProofsT.selected_docs q t)).
Proof. exact ProofsT.agg_exact_count_final. Qed.
Print Assumptions C06_agg_exact_count.

(* unique per group: a bin (an empty container) exists exactly for the group tokens that occur *)
Theorem C06_agg_exact_unique :
  forall q t, q_func q = FUnique ->
    NoDup (map fst (a_bins (eval_tree q t))) /\
    a_ne (eval_tree q t) = CaseDefs.expected_ne q (ProofsT.selected_docs q t) /\
    forall k, ProofsC.oudesc (lookup k (a_bins (eval_tree q t))) (ProofsC.ucnt k (ProofsT.selected_docs q t)).
Proof. exact ProofsT.agg_exact_unique_final. Qed.
Print Assumptions C06_agg_exact_unique.

(* Any merge order: two merge trees over the same multiset of documents (any split into fractions,
   any order, any grouping) give bins with the same description, and the same global NotExists. *)
Theorem C06_any_merge_order :
  forall q t1 t2 k, is_field_func (q_func q) = true -> Permutation (tree_docs t1) (tree_docs t2) ->
    let D := ProofsT.selected_docs q t1 in
    a_ne (eval_tree q t1) = a_ne (eval_tree q t2) /\
    ProofsA.odesc (collect_samples q) (lookup k (a_bins (eval_tree q t1))) (CaseDefs.bin_vals q k D) (CaseDefs.bin_ne q k D) /\
    ProofsA.odesc (collect_samples q) (lookup k (a_bins (eval_tree q t2))) (CaseDefs.bin_vals q k D) (CaseDefs.bin_ne q k D).
Proof. exact ProofsT.any_merge_order. Qed.
Print Assumptions C06_any_merge_order.

(* Aggregate (getAggBucket) on a bin described by vs: the reported value is sum / min / max / the exact
   quotient sum/n of vs, NaN for an empty bin; quantiles are Quantile of the bin (see C06_quantile_exact) *)
Theorem C06_bucket_value_exact :
  forall q k c s vs ne, sdesc c s vs ne -> is_field_func (q_func q) = true ->
    b_ne (agg_bucket q k s) = ne /\ b_name (agg_bucket q k s) = snd k /\ b_mid (agg_bucket q k s) = fst k /\
    (vs = [] -> b_val (agg_bucket q k s) = MNaN) /\
    (vs <> [] ->
     match q_func q with
     | FSum => b_val (agg_bucket q k s) = MNum (Proofs.sum_list vs)
     | FMin => b_val (agg_bucket q k s) = MNum (Proofs.list_min vs)
     | FMax => b_val (agg_bucket q k s) = MNum (Proofs.list_max vs)
     | FAvg => b_val (agg_bucket q k s) = MRat (Proofs.sum_list vs) (N.of_nat (length vs))
     | FQuantile => b_quants (agg_bucket q k s) = map (quantile s) (q_quants q) /\
                    b_val (agg_bucket q k s) = match q_quants q with qt :: _ => quantile s qt | [] => MNaN end
     | _ => True
     end).
Proof. exact ProofsT.agg_bucket_exact. Qed.
Print Assumptions C06_bucket_value_exact.

(* non-vacuity of the aggregation theorems: two fractions, avg with group over a time series; the
   hypotheses hold and the merged bin of group 1 in bucket 1000 is the one described by the theorem *)
Example C06_agg_nonvacuous :
  let q := Query 0 5000 FAvg true 1000 [] 9 0 in
  let t := Node (Leaf [Doc 1200 true (Some 1%N) (Some 8); Doc 1300 true None (Some 3)])
                (Leaf [Doc 1900 true (Some 1%N) (Some (-2)); Doc 1950 false (Some 1%N) (Some 100)]) in
  is_field_func (q_func q) = true /\
  CaseDefs.bin_vals q (1000%N, 1%N) (ProofsT.selected_docs q t) = [8; -2] /\
  lookup (1000%N, 1%N) (a_bins (eval_tree q t)) = Some (Summ (-2) 8 6 2 0 [] false) /\
  a_ne (eval_tree q t) = 1%N.
Proof. repeat split. Qed.

Example C06_count_nonvacuous :
  let q := Query 0 5000 FCount false 0 [] 9 0 in
  let t := Node (Leaf [Doc 1200 true (Some 1%N) None; Doc 1300 true None None]) (Leaf [Doc 1900 true (Some 1%N) None]) in
  ProofsC.no_netok_group q (ProofsT.selected_docs q t) /\
  CaseDefs.bin_count q (0%N, 1%N) (ProofsT.selected_docs q t) = 2%N /\
  CaseDefs.bin_count q (0%N, 9%N) (ProofsT.selected_docs q t) = 1%N.
Proof.
  split; [|split; reflexivity]. intros d I. simpl in I. destruct I as [<-|[<-|[<-|[]]]]; discriminate.
Qed.

(* non-vacuity of C06_any_merge_order: two different splits/orders of the same documents *)
Example C06_merge_order_nonvacuous :
  let d1 := Doc 1200 true (Some 1%N) (Some 8) in let d2 := Doc 1300 true None (Some 3) in
  let d3 := Doc 1900 true (Some 1%N) (Some (-2)) in
  let t1 := Node (Leaf [d1; d2]) (Leaf [d3]) in let t2 := Node (Node (Leaf [d3]) (Leaf [d1])) (Leaf [d2]) in
  Permutation (tree_docs t1) (tree_docs t2) /\
  lookup (0%N, 1%N) (a_bins (eval_tree (Query 0 5000 FSum true 0 [] 9 0) t2)) = Some (Summ (-2) 8 6 2 0 [] false).
Proof.
  split; [|reflexivity]. simpl. apply Permutation_sym. apply (Permutation_cons_app [_; _] [] _). apply Permutation_refl.
Qed.

(* AggBin key codec (JSON form of AggregatableSamples): fromKey (toKey b) = b for every token, also
   one containing the separator '|', and every MID (decimal codec modelled digit by digit; the model
   corresponds to the code for MID < 2^63, where strconv.Itoa(int(mid)) prints no sign). *)
Theorem C06_aggbin_key_codec : forall mid tok, from_key (to_key mid tok) = Some (mid, tok).
Proof. exact ProofsK.key_codec. Qed.
Print Assumptions C06_aggbin_key_codec.

(* Why Merge special-cases an empty destination (Total = 0) instead of relying on the sentinels a fresh
   container starts with: for a value beyond 2^63 (10^19) the collapsed variant merge_summ_v0 leaves the
   sentinel 2^63 as Min, the real Merge gives the value.  (merge_summ_v0 is NOT the code in /repo.) *)
Example C06_merge_v0_refuted :
  exists x vs, sdesc false x vs 0 /\ vs <> [] /\
    s_min (merge_summ_v0 (new_summ 0) x) = 2 ^ 63 /\ s_min (merge_summ_v0 (new_summ 0) x) <> Proofs.list_min vs /\
    s_min (merge_summ (new_summ 0) x) = Proofs.list_min vs.
Proof. exact ProofsT.merge_v0_refuted. Qed.

(* non-vacuity beyond the int64 range: two fractions whose values all lie above 2^63 / below -2^63,
   merged into fresh containers (Leaf [] = the Searcher's empty total): min and max are the values *)
Example C06_huge_nonvacuous :
  let q := Query 0 5000 FMin false 0 [] 9 0 in
  let t := Node (Node (Leaf []) (Leaf [Doc 1200 true None (Some (10 ^ 19)); Doc 1300 true None (Some (2 ^ 64))]))
                (Leaf [Doc 1900 true None (Some (3 * 10 ^ 19))]) in
  lookup (0%N, 0%N) (a_bins (eval_tree q t)) = Some (Summ (10 ^ 19) (3 * 10 ^ 19) (4 * 10 ^ 19 + 2 ^ 64) 3 0 [] false) /\
  (2 ^ 63 < 10 ^ 19).
Proof. split; [vm_compute; reflexivity|vm_compute; reflexivity]. Qed.

(* Aggregate / sortBuckets: the reported bucket list is a permutation of the buckets of the shown bins
   (all bins, or with an interval those that carry a timestamp) and is sorted by the order the code
   requests for the function (time, then value desc / value asc for min / name for quantile, then the
   remaining key): no adjacent pair is out of order; NotExists is passed through.  Two buckets compare
   equal only if they are the same (time, name) bin, so with the bins' distinct keys the order is
   strict and any correct (also unstable) sort returns this very list. *)
Theorem C06_buckets_sorted :
  forall q a,
    Permutation (fst (aggregate q a))
                (map (fun kv => agg_bucket q (fst kv) (snd kv)) (ProofsS.shown_bins q a)) /\
    Sorting.Sorted.Sorted (ProofsS.ble (q_func q)) (fst (aggregate q a)) /\
    snd (aggregate q a) = a_ne a /\
    (forall x y, bucket_cmp (q_func q) y x = CompOpp (bucket_cmp (q_func q) x y)) /\
    (forall x y, bucket_cmp (q_func q) x y = Eq -> b_mid x = b_mid y /\ b_name x = b_name y).
Proof.
  intros q a. destruct (ProofsS.aggregate_sorted q a) as (P & S & N).
  repeat split; try assumption; [apply ProofsS.bucket_cmp_antisym|apply (ProofsS.bucket_cmp_eq _ _ _ H)|apply (ProofsS.bucket_cmp_eq _ _ _ H)].
Qed.
Print Assumptions C06_buckets_sorted.

(* Which bins exist (sum/min/max/avg/quantile, every merge tree): bin k exists if and only if a selected
   document touches it, i.e. contributes a value to it or is counted in its NotExists.  Together with
   C06_agg_exact: no spurious empty bin is ever created and no touched bin is lost.  (The bins that hold
   no value but exist are exactly those with NotExists > 0: the (time bucket, group) of documents that
   have the group token but lack the field, or the time bucket of documents that lack the field when
   there is no group.  Since f3224d2 there is no special (MID 0, group) bin for a time series any more.) *)
Theorem C06_bins_exist_iff_touched :
  forall q t k, is_field_func (q_func q) = true ->
    (lookup k (a_bins (eval_tree q t)) <> None <->
     (CaseDefs.bin_vals q k (ProofsT.selected_docs q t) <> [] \/ (0 < CaseDefs.bin_ne q k (ProofsT.selected_docs q t))%N)).
Proof. exact ProofsS.bins_exist_iff. Qed.
Print Assumptions C06_bins_exist_iff_touched.

(* non-vacuity: sum with group; buckets come out by value descending; the bin of a group that only
   has a document without the field exists (NotExists 1, value NaN) and sorts last *)
Example C06_sorted_nonvacuous :
  let q := Query 0 5000 FSum true 0 [] 9 0 in
  let t := Node (Leaf [Doc 1200 true (Some 1%N) (Some 8); Doc 1300 true (Some 2%N) (Some 30)])
                (Leaf [Doc 1900 true (Some 3%N) None]) in
  map (fun b => (b_name b, b_val b, b_ne b)) (fst (aggregate q (eval_tree q t)))
  = [(2%N, MNum 30, 0%N); (1%N, MNum 8, 0%N); (3%N, MNaN, 1%N)].
Proof. reflexivity. Qed.

(* The finding repaired by f3224d2, kept on the old aggregator (step_v0 / frac_direct_v0): request
   avg(v) group_by g interval 1000 over one selected document {ts 1000500, g:api (token 2), no v}.
   Before the repair the per-group not-exists count sat in bin (MID 0, api), which a time-series
   Aggregate drops: no bucket at all.  The repaired model keeps it in the document's time bin and reports
   {api, ts 1000000, NaN, not_exists 1} — what the documents imply (bin_ne = 1). *)
Example C06_ts_group_notexists_v0_refuted :
  let q := Query 0 (2 ^ 40) FAvg true 1000 [] 1 0 in
  let ds := [Doc 1000500 true (Some 2%N) None] in
  CaseDefs.bin_ne q (1000000%N, 2%N) (ProofsT.selected_docs q (Leaf ds)) = 1%N /\
  (exists s, lookup (0%N, 2%N) (a_bins (frac_direct_v0 q ds)) = Some s /\ s_ne s = 1%N) /\
  fst (aggregate q (frac_direct_v0 q ds)) = [] /\
  fst (aggregate q (eval_tree q (Leaf ds))) = [Bucket 2 1000000 MNaN [] 1].
Proof. split; [reflexivity|]. split; [eexists; split; reflexivity|]. split; reflexivity. Qed.

(* ================================================================================================
   Aggregation limits and the token-value cache (ModelLimits.v).  [eval_tree_lim lim q t] is [eval_tree q t] as the
   code runs it under the configuration lim = (MaxFieldTokens, MaxGroupTokens, MaxTIDsPerFraction), 0 = off:
   iteratorFromLiteral's TID-count check, the counting of ConsumeTokenSource (group iterator, then field iterator),
   the bin-count check after Aggregate(); None = the search fails with ErrTooManyUniqValues. *)
From C06 Require Import ModelLimits ProofsLimits.

(* With limits on, a search either fails or returns EXACTLY the result of the unlimited search — never a truncated
   or otherwise different set of bins — for every configuration, query, corpus and merge tree.  (Together with
   C06_agg_exact / C06_agg_exact_count / C06_agg_exact_unique: a result that passes the limits is exact.) *)
Theorem C06_limits_only_reject :
  forall lim q t a, eval_tree_lim lim q t = Some a -> a = eval_tree q t.
Proof. exact ProofsLimits.limits_only_reject. Qed.
Print Assumptions C06_limits_only_reject.

(* limits off (all three 0, the configuration of every test environment): nothing is ever rejected *)
Theorem C06_limits_off_never_reject :
  forall q t, eval_tree_lim limits_off q t = Some (eval_tree q t).
Proof. exact ProofsLimits.limits_off_never_reject. Qed.
Print Assumptions C06_limits_off_never_reject.

(* non-vacuity: count by group over two fractions with groups {1,2} and {2}: MaxGroupTokens = 1 rejects (the first
   fraction has two groups), 2 passes with the unlimited result, and so do the production defaults;
   MaxTIDsPerFraction = 1 rejects although only one document is selected (the check counts all tokens) *)
Example C06_limits_nonvacuous :
  let q := Query 0 5000 FCount false 0 [] 9 0 in
  let t := Node (Leaf [Doc 1200 true (Some 1%N) None; Doc 1300 true (Some 2%N) None]) (Leaf [Doc 1900 true (Some 2%N) None]) in
  eval_tree_lim (Limits 0 1 0) q t = None /\
  eval_tree_lim (Limits 0 2 0) q t = Some (eval_tree q t) /\
  eval_tree_lim limits_prod q t = Some (eval_tree q t) /\
  eval_tree_lim (Limits 0 0 1) (Query 0 1250 FCount false 0 [] 9 0) t = None /\
  eval_tree_lim (Limits 0 1 0) (Query 0 1250 FCount false 0 [] 9 0) t <> None.
Proof. repeat split; try reflexivity. vm_compute. discriminate. Qed.

(* ValueBySource: for every TID list, token table, state of countBySource (cnt: cache in use or not) and every
   sequence of lookups, starting from the empty cache every answer is the value of the source's own token — a cache
   hit equals the recomputation — with the cache keyed by source as the code keys it (and equally when keyed by TID
   consistently); in particular the answers with the cache never used (counts 0: limits off) and with it are equal *)
Theorem C06_value_cache_transparent :
  forall tids val cnt srcs,
    lookups key_code tids val cnt srcs [] = map (fun s => val (tid_of tids s)) srcs /\
    lookups key_by_tid tids val cnt srcs [] = map (fun s => val (tid_of tids s)) srcs /\
    lookups key_code tids val (fun _ => 0%N) srcs [] = lookups key_code tids val cnt srcs [].
Proof. exact ProofsLimits.value_cache_transparent. Qed.
Print Assumptions C06_value_cache_transparent.

(* the half re-keyed cache (looked up by TID, filled by source; NOT the code in /repo) is refuted: TID list
   [7;2;1], both tokens counted twice, lookups of source 2 then source 1 answer [1;1] instead of [1;2] *)
Example C06_value_cache_wrong_key_refuted :
  exists tids val cnt srcs,
    lookups key_by_tid_get tids val cnt srcs [] <> map (fun s => val (tid_of tids s)) srcs /\
    lookups key_by_tid_get tids val cnt srcs [] = [1; 1]%N /\ map (fun s => val (tid_of tids s)) srcs = [1; 2]%N.
Proof. exact ProofsLimits.wrong_key_refuted. Qed.

(* ================================================================================================
   The FLOAT64 data path (ModelFloat.v).  [eval_stree t] is what ONE bin goes through: every leaf of t is
   one fraction's sequence of InsertNTimes(num, cnt) calls on a fresh container (Min/Max by Go's min/max,
   Sum += num * float64(cnt)), inner nodes are SamplesContainer.Merge in the shape of the merge tree; all
   operations are IEEE 754 binary64, round to nearest even (Coq's SpecFloat operations, proved equal to
   Flocq's Bplus/Bmult/Bdiv/Bcompare/binary_normalize in ProofsFloat.v).  The correspondence run evaluates
   exactly this function ([bin_float q k t] = [eval_stree (project q k t)]) on the recorded merge tree and
   compares Min/Max/Sum/Avg bit for bit.  [SF2R radix2 x] is the real value of x, [rsum es] the exact real
   sum of the entries (value * count), [repr r] = r is a binary64 number (generic_format for FLT(-1074, 53),
   |r| < 2^1024).  These theorems mention R and therefore depend on the standard library's real-number
   axioms (see Print Assumptions); the executable model does not. *)
From Coq Require Import Reals SpecFloat.
From Flocq Require Import Core IEEE754.BinarySingleNaN.
From C06 Require Import ModelFloat ProofsFloat.

(* Sum is EXACT whenever every number the tree forms (float64(cnt), num*cnt, every running sum of a fraction,
   every sum formed by a Merge) is representable — for every merge tree; hence two merge trees over the same
   multiset of entries that both satisfy this give the same Sum (this is what transfers C06_merge_exact /
   C06_any_merge_order from the exact-integer model to float64); integers of magnitude <= 2^53 are
   representable, so integer-valued fields whose partial sums stay within +-2^53 are always exact. *)
Theorem C06_float_sum_exact_when_representable :
  (forall t, Forall entry_ok (sentries t) -> all_repr t ->
     sf_valid (f_sum (eval_stree t)) = true /\ sf_finite (f_sum (eval_stree t)) = true /\
     SF2R radix2 (f_sum (eval_stree t)) = rsum (sentries t)) /\
  (forall t1 t2, Permutation (sentries t1) (sentries t2) ->
     Forall entry_ok (sentries t1) -> all_repr t1 -> all_repr t2 ->
     SF2R radix2 (f_sum (eval_stree t1)) = SF2R radix2 (f_sum (eval_stree t2))) /\
  (forall z, (Z.abs z <= 2 ^ 53)%Z -> repr (IZR z)).
Proof. exact ProofsFloat.float_sum_exact_when_representable. Qed.
Print Assumptions C06_float_sum_exact_when_representable.

(* Min / Max: for every merge tree over finite values (parseNum admits no NaN/Inf) with at least one entry,
   Min and Max are finite binary64 numbers whose values are the exact minimum / maximum of all values: one of
   the values, and <= / >= every value. *)
Theorem C06_float_minmax_exact :
  forall t, Forall entry_ok (sentries t) -> sentries t <> [] ->
    sf_valid (f_min (eval_stree t)) = true /\ sf_finite (f_min (eval_stree t)) = true /\
    sf_valid (f_max (eval_stree t)) = true /\ sf_finite (f_max (eval_stree t)) = true /\
    is_min (SF2R radix2 (f_min (eval_stree t))) (map val (sentries t)) /\
    is_max (SF2R radix2 (f_max (eval_stree t))) (map val (sentries t)).
Proof. exact ProofsFloat.float_minmax_exact. Qed.
Print Assumptions C06_float_minmax_exact.

(* Avg: for a container with a finite Sum and 0 < Total <= 2^53, the reported value is Sum / float64(Total)
   as binary64 division gives it, it is finite, and its value is round-to-nearest-even of the real quotient;
   when the Sum is exact (previous theorem) it is the correctly rounded true mean. *)
Theorem C06_float_avg_is_rounded_quotient :
  (forall s, sf_valid (f_sum s) = true -> sf_finite (f_sum s) = true -> (0 < f_total s <= 2 ^ 53)%Z ->
     fvalue FAvg s = fdiv (f_sum s) (of_int (f_total s)) /\
     sf_valid (fvalue FAvg s) = true /\ sf_finite (fvalue FAvg s) = true /\
     SF2R radix2 (fvalue FAvg s) = round radix2 fexp64 ZnearestE (SF2R radix2 (f_sum s) / IZR (f_total s))) /\
  (forall t, Forall entry_ok (sentries t) -> all_repr t -> (0 < cnt_sum (sentries t) <= 2 ^ 53)%Z ->
     SF2R radix2 (fvalue FAvg (eval_stree t)) =
     round radix2 fexp64 ZnearestE (rsum (sentries t) / IZR (cnt_sum (sentries t)))).
Proof. exact ProofsFloat.float_avg_is_rounded_quotient. Qed.
Print Assumptions C06_float_avg_is_rounded_quotient.

(* fexp64 is the binary64 exponent function *)
Example C06_fexp64_is_binary64 : fexp64 = FLT_exp (-1074) 53.
Proof. exact ProofsFloat.fexp64_FLT. Qed.

(* Error bound, PARTIAL: one fraction without group (a left-to-right chain, every document inserted once):
   if no running sum overflows, |Sum - exact sum| <= ((1+u)^n - 1) * sum|x_i| with u = 2^-53 (u64_val).
   Merge trees with all counts 1 are covered by C06_float_sum_error_bound_tree below.  Full statement NOT proved
   (kept as comment): for every merge tree t, ALSO with counts > 1, whose intermediate sums do not overflow and whose
   products num*float64(cnt) neither overflow nor underflow,
     Rabs (SF2R radix2 (f_sum (eval_stree t)) - rsum (sentries t)) <= ((1+u)^(rounds t + 1) - 1) * rabs_sum (sentries t).
   Missing: the relative-error step for the rounded product num*float64(cnt) (needs an underflow side condition).
   The correspondence's spec checker uses the coarser executable bound N*2^-52*sum|x| + N units of 2^-1074 on every case. *)
Theorem C06_float_sum_error_bound_partial :
  forall es, Forall entry_one es -> chain_finite fnew es ->
    sf_finite (f_sum (eval_leaf es)) = true /\
    (Rabs (SF2R radix2 (f_sum (eval_leaf es)) - rsum es) <= ((1 + u64) ^ length es - 1) * rabs_sum es)%R.
Proof. exact ProofsFloat.float_sum_error_bound_chain. Qed.
Print Assumptions C06_float_sum_error_bound_partial.

Example C06_u64_is_2pow_minus53 : u64 = bpow radix2 (-53).
Proof. exact ProofsFloat.u64_val. Qed.

(* float64 addition is not associative: the three decimals 0.1, 0.2, 0.3 (as strconv.ParseFloat gives them),
   one per fraction, merged as (f1+f2)+f3 give Sum 0.6000000000000001, merged as f1+(f2+f3) give 0.6 — same
   multiset of values, different bit patterns.  Bit-exact order-independence of Sum/Avg can therefore NOT be
   claimed for general decimals; it holds under the hypothesis of C06_float_sum_exact_when_representable. *)
Example C06_float_sum_order_dependence_refuted_example :
  let a := sf_of_bits 0x3FB999999999999A in let b := sf_of_bits 0x3FC999999999999A in
  let c := sf_of_bits 0x3FD3333333333333 in
  let t1 := SNode (SNode (SLeaf [(a, 1%Z)]) (SLeaf [(b, 1%Z)])) (SLeaf [(c, 1%Z)]) in
  let t2 := SNode (SLeaf [(a, 1%Z)]) (SNode (SLeaf [(b, 1%Z)]) (SLeaf [(c, 1%Z)])) in
  Permutation (sentries t1) (sentries t2) /\
  bits_of_sf (f_sum (eval_stree t1)) = 0x3FE3333333333334%Z /\
  bits_of_sf (f_sum (eval_stree t2)) = 0x3FE3333333333333%Z /\
  f_sum (eval_stree t1) <> f_sum (eval_stree t2).
Proof.
  cbv zeta. split; [apply Permutation_refl|]. split; [vm_compute; reflexivity|]. split; [vm_compute; reflexivity|].
  vm_compute. discriminate.
Qed.

(* non-vacuity of the chain bound's hypotheses: the same three decimals in one fraction *)
Example C06_float_chain_nonvacuous :
  let es := [(sf_of_bits 0x3FB999999999999A, 1%Z); (sf_of_bits 0x3FC999999999999A, 1%Z); (sf_of_bits 0x3FD3333333333333, 1%Z)] in
  Forall entry_one es /\ chain_finite fnew es.
Proof.
  cbv zeta. split; [repeat constructor|]. vm_compute. repeat split.
Qed.

(* non-vacuity of entry_ok / all_repr / the Total bounds: integer values 3 (twice) and 5 in one fraction, -4 in
   another: every number formed is an integer of small magnitude *)
Example C06_float_exact_nonvacuous :
  let t := SNode (SLeaf [(sf_of_bits 0x4008000000000000, 2%Z); (sf_of_bits 0x4014000000000000, 1%Z)])
                 (SLeaf [(sf_of_bits 0xC010000000000000, 1%Z)]) in
  Forall entry_ok (sentries t) /\ all_repr t /\ sentries t <> [] /\ (0 < cnt_sum (sentries t) <= 2 ^ 53)%Z /\
  bits_of_sf (f_sum (eval_stree t)) = 0x401C000000000000%Z /\       (* 7.0 *)
  bits_of_sf (fvalue FAvg (eval_stree t)) = 0x3FFC000000000000%Z.   (* 1.75 *)
Proof. exact ProofsFloat.exact_nonvacuous. Qed.

(* Error bound over MERGE TREES, every count 1 (fractions without group: one InsertNTimes(num, 1) per document; the
   product num * float64(1) is exact): for every merge tree t in which no running sum of a fraction and no sum formed
   by a Merge overflows ([tree_finite]), |Sum - exact sum| <= ((1+u)^k - 1) * sum|x_i| with u = 2^-53 and
   k = [rounds t] = the largest number of rounded additions any value goes through (a fraction's chain of m values
   counts m, every Merge above it one more; k <= number of values + number of merges).  Proved by induction over the
   tree with the single-addition error lemma |fl(a+b) - (a+b)| <= u|a+b| (Flocq FLT_plus_error_N_ex, valid also in the
   subnormal range).  Still excluded: counts > 1 (the rounded product num * float64(cnt) of the grouped aggregator). *)
Theorem C06_float_sum_error_bound_tree :
  forall t, Forall entry_one (sentries t) -> tree_finite t ->
    sf_finite (f_sum (eval_stree t)) = true /\
    (Rabs (SF2R radix2 (f_sum (eval_stree t)) - rsum (sentries t)) <= ((1 + u64) ^ rounds t - 1) * rabs_sum (sentries t))%R.
Proof. exact ProofsFloat.float_sum_error_bound_tree. Qed.
Print Assumptions C06_float_sum_error_bound_tree.

(* non-vacuity: 0.1 and 0.2 in one fraction, 0.3 in a second, 0.1 in a third, merged as (f1 + f2) + f3: the hypotheses
   hold, k = 4 *)
Example C06_float_tree_bound_nonvacuous :
  let a := sf_of_bits 0x3FB999999999999A in let b := sf_of_bits 0x3FC999999999999A in
  let c := sf_of_bits 0x3FD3333333333333 in
  let t := SNode (SNode (SLeaf [(a, 1%Z); (b, 1%Z)]) (SLeaf [(c, 1%Z)])) (SLeaf [(a, 1%Z)]) in
  Forall entry_one (sentries t) /\ tree_finite t /\ rounds t = 4%nat.
Proof.
  cbv zeta. split; [repeat constructor|]. split; [|reflexivity]. vm_compute. repeat split.
Qed.
