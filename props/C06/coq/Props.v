(* C06 — property theorems. Statements only, each closed by `exact <lemma>` from Proofs.v, with
   Print Assumptions beneath, and the non-vacuity examples. *)
From Coq Require Import Permutation.
From C06 Require Import Model Proofs.
Open Scope Z_scope.

(* SamplesContainer.Merge: if container a holds exactly (Total, Sum, Min, Max, NotExists, sample
   multiset while <= 8096) of the value list va and b that of vb, then a.Merge(b) holds exactly that
   of va ++ vb — for all value lists, with or without sample collection. *)
Theorem C06_merge_exact :
  forall c a va na b vb nb,
    sdesc c a va na -> sdesc c b vb nb -> sdesc c (merge_summ a b) (va ++ vb) (na + nb).
Proof. exact sdesc_merge. Qed.
Print Assumptions C06_merge_exact.
