(* C06 — property theorems. Statements only, each closed by `exact <lemma>` from Proofs.v, with
   Print Assumptions beneath, and the non-vacuity examples. *)
From Coq Require Import Permutation.
From C06 Require Import Model Proofs ProofsQ.
Open Scope Z_scope.

(* SamplesContainer.Merge: if container a holds exactly (Total, Sum, Min, Max, NotExists, sample
   multiset while <= 8096) of the value list va and b that of vb, then a.Merge(b) holds exactly that
   of va ++ vb — for all value lists, with or without sample collection. *)
Theorem C06_merge_exact :
  forall c a va na b vb nb,
    sdesc c a va na -> sdesc c b vb nb -> sdesc c (merge_summ a b) (va ++ vb) (na + nb).
Proof. exact sdesc_merge. Qed.
Print Assumptions C06_merge_exact.

(* Quantile (as repaired by e5a0cc6): for a non-empty bin with at most 8096 values, Quantile(a/2^b) is
   element floor((n-1)*a/2^b + 1/2) of the sorted VALUES (so q = 0 is the minimum, q = 1 the maximum),
   also when no samples were collected because only 0 and 1 were requested; the index is in range. *)
Theorem C06_quantile_exact :
  forall c s vs ne a b,
    sdesc c s vs ne -> vs <> [] -> (N.of_nat (length vs) <= max_samples)%N -> (a <= 2 ^ b)%N ->
    (c = true \/ a = 0%N \/ a = (2 ^ b)%N) ->
    quantile s (a, b) = MNum (nth (qindex (length vs) (a, b)) (ZSort.sort vs) 0)
    /\ (qindex (length vs) (a, b) < length vs)%nat.
Proof. exact ProofsQ.quantile_exact. Qed.
Print Assumptions C06_quantile_exact.

(* an empty bin has no quantile (NaN) *)
Theorem C06_quantile_empty : forall c s ne qt, sdesc c s [] ne -> quantile s qt = MNaN.
Proof. exact ProofsQ.quantile_empty. Qed.
Print Assumptions C06_quantile_empty.

(* Histogram: for every merge tree over the fractions, every interval and time range, the count of
   bucket b is the number of selected documents of the whole corpus whose timestamp falls in b. *)
Theorem C06_hist_exact :
  forall interval from to t b,
    hlookup b (hist_tree interval from to t) = ProofsQ.hcount interval from to b (tree_docs t).
Proof. exact ProofsQ.hist_exact. Qed.
Print Assumptions C06_hist_exact.

(* the finding repaired by e5a0cc6, kept on the old definition: a non-empty bin whose samples were
   not collected (only quantiles 0/1 requested) answered NaN for the minimum *)
Example C06_quantile_v0_refuted :
  exists s vs, sdesc false s vs 0 /\ vs <> [] /\ quantile_v0 s (0%N, 0%N) = MNaN
               /\ quantile s (0%N, 0%N) = MNum (-150).
Proof.
  exists (insert_val false (-150) new_summ), [-150]. split; [|split; [discriminate|split; reflexivity]].
  apply sdesc_insert. apply sdesc_new.
Qed.

(* non-vacuity: the hypotheses of C06_merge_exact / C06_quantile_exact are met by real containers:
   two fractions' containers with collected samples, merged, median = element 1 of [1;2;3] *)
Example C06_nonvacuous :
  let a := insert_val true 3 (insert_val true 1 new_summ) in
  let b := insert_val true 2 new_summ in
  sdesc true (merge_summ a b) ([3; 1] ++ [2]) (0 + 0) /\ quantile (merge_summ a b) (1%N, 1%N) = MNum 2.
Proof.
  split; [|reflexivity].
  apply sdesc_merge; repeat apply sdesc_insert; apply sdesc_new.
Qed.
