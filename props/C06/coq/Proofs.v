(* C06 — lemmas. *)
From Coq Require Import Lia Permutation Sorting.Sorted ZifyN ZifyNat.
From C06 Require Import Model.
Open Scope Z_scope.

(* ---------------------------------------------------------------- values of a bin, described directly *)

Definition sum_list (l : list Z) : Z := fold_right Z.add 0 l.
Definition list_min (l : list Z) : Z := match l with [] => 0 | x :: r => fold_right Z.min x r end.
Definition list_max (l : list Z) : Z := match l with [] => 0 | x :: r => fold_right Z.max x r end.

(* [sdesc c s vs ne]: container s is exactly what the property asks for the value list vs and ne
   documents without value: Total, Sum, Min, Max computed directly from vs; the sample reservoir
   (collected iff c) is the multiset vs while there are at most 8096 values *)
Record sdesc (c : bool) (s : summ) (vs : list Z) (ne : N) : Prop := {
  d_total : s_total s = N.of_nat (length vs);
  d_ne : s_ne s = ne;
  d_sum : s_sum s = sum_list vs;
  d_min : vs <> [] -> s_min s = list_min vs;
  d_max : vs <> [] -> s_max s = list_max vs;
  d_nocollect : c = false -> s_samples s = [] /\ s_ovf s = false;
  d_small : c = true -> (N.of_nat (length vs) <= max_samples)%N -> s_ovf s = false /\ Permutation (s_samples s) vs;
  d_big : c = true -> (max_samples < N.of_nat (length vs))%N -> s_ovf s = true
}.

Lemma fr_min_swap r : forall a b, Z.min a (fold_right Z.min b r) = Z.min b (fold_right Z.min a r).
Proof. induction r as [|y r IH]; intros a b; cbn [fold_right]; [lia|]. specialize (IH a b). lia. Qed.
Lemma fr_max_swap r : forall a b, Z.max a (fold_right Z.max b r) = Z.max b (fold_right Z.max a r).
Proof. induction r as [|y r IH]; intros a b; cbn [fold_right]; [lia|]. specialize (IH a b). lia. Qed.

Lemma list_min_cons v vs : vs <> [] -> list_min (v :: vs) = Z.min (list_min vs) v.
Proof.
  destruct vs as [|x r]; [congruence|intros _]. cbn [list_min fold_right].
  rewrite (fr_min_swap r x v). lia.
Qed.

Lemma list_max_cons v vs : vs <> [] -> list_max (v :: vs) = Z.max (list_max vs) v.
Proof.
  destruct vs as [|x r]; [congruence|intros _]. cbn [list_max fold_right].
  rewrite (fr_max_swap r x v). lia.
Qed.

Lemma sdesc_new sc c : sdesc c (new_summ sc) [] 0.
Proof. constructor; simpl; try tauto; try reflexivity; intros; try (split; [reflexivity|constructor]). unfold max_samples in *. lia. Qed.

Lemma insert_sample_fields v s :
  let s' := insert_sample v s in
  s_min s' = s_min s /\ s_max s' = s_max s /\ s_sum s' = s_sum s /\ s_total s' = s_total s /\ s_ne s' = s_ne s.
Proof. unfold insert_sample. destruct (_ <? _)%N; simpl; tauto. Qed.

Lemma sdesc_insert c s vs ne v : sdesc c s vs ne -> sdesc c (insert_val c v s) (v :: vs) ne.
Proof.
  intros D. destruct D.
  assert (Hmin : s_min (insert_n v 1 s) = list_min (v :: vs)).
  { unfold insert_n; simpl s_min. destruct vs as [|x r].
    - rewrite d_total0. reflexivity.
    - rewrite d_total0. cbn [length]. destruct (N.eqb_spec (N.of_nat (S (length r))) 0); [lia|].
      rewrite list_min_cons by congruence. rewrite d_min0 by congruence. reflexivity. }
  assert (Hmax : s_max (insert_n v 1 s) = list_max (v :: vs)).
  { unfold insert_n; simpl s_max. destruct vs as [|x r].
    - rewrite d_total0. reflexivity.
    - rewrite d_total0. cbn [length]. destruct (N.eqb_spec (N.of_nat (S (length r))) 0); [lia|].
      rewrite list_max_cons by congruence. rewrite d_max0 by congruence. reflexivity. }
  assert (Hsum : s_sum (insert_n v 1 s) = sum_list (v :: vs)) by (unfold insert_n; simpl; lia).
  assert (Htot : s_total (insert_n v 1 s) = N.of_nat (length (v :: vs))) by (unfold insert_n; simpl; lia).
  assert (Hne : s_ne (insert_n v 1 s) = ne) by (unfold insert_n; simpl; assumption).
  unfold insert_val. destruct c.
  - pose proof (insert_sample_fields v (insert_n v 1 s)) as F. cbv zeta in F.
    destruct F as (F1 & F2 & F3 & F4 & F5).
    constructor.
    + rewrite F4. exact Htot.
    + rewrite F5. exact Hne.
    + rewrite F3. exact Hsum.
    + intros _. rewrite F1. exact Hmin.
    + intros _. rewrite F2. exact Hmax.
    + intros; congruence.
    + intros _ L0. unfold insert_sample. simpl s_samples.
      assert (L : (N.of_nat (length vs) <= max_samples)%N) by (cbn [length] in L0; lia).
      destruct (d_small0 eq_refl L) as [O P].
      rewrite (Permutation_length P).
      destruct (N.ltb_spec (N.of_nat (length vs)) max_samples); [|cbn [length] in L0; lia].
      simpl. split; [assumption|]. constructor. assumption.
    + intros _ L0. unfold insert_sample. simpl s_samples. simpl s_ovf.
      destruct (N.ltb_spec (N.of_nat (length (s_samples s))) max_samples); simpl; [|reflexivity].
      destruct (N.le_gt_cases (N.of_nat (length vs)) max_samples) as [L|L].
      * destruct (d_small0 eq_refl L) as [O P]. rewrite (Permutation_length P) in *. cbn [length] in L0. lia.
      * apply d_big0; [reflexivity|assumption].
  - constructor; intros; try congruence; auto.
Qed.

Lemma sdesc_add_ne c s vs ne : sdesc c s vs ne -> sdesc c (add_ne s) vs (ne + 1).
Proof. intros []. constructor; simpl; intros; auto. lia. Qed.

(* ---------------------------------------------------------------- SamplesContainer.Merge *)

Definition ins_all (xs : list Z) (h : summ) : summ := fold_left (fun acc v => insert_sample v acc) xs h.

Lemma ins_all_fields xs : forall h,
  s_min (ins_all xs h) = s_min h /\ s_max (ins_all xs h) = s_max h /\ s_sum (ins_all xs h) = s_sum h /\
  s_total (ins_all xs h) = s_total h /\ s_ne (ins_all xs h) = s_ne h.
Proof.
  induction xs as [|x xs IH]; intros h; simpl; [tauto|].
  destruct (IH (insert_sample x h)) as (A & B & C & D & E).
  destruct (insert_sample_fields x h) as (A' & B' & C' & D' & E').
  unfold ins_all in *. rewrite A, B, C, D, E. tauto.
Qed.

Lemma ins_all_ovf_stays xs : forall h, s_ovf h = true -> s_ovf (ins_all xs h) = true.
Proof.
  induction xs as [|x xs IH]; intros h H; simpl; [assumption|].
  apply IH. unfold insert_sample. destruct (_ <? _)%N; simpl; auto.
Qed.

Lemma ins_all_small xs : forall h,
  (N.of_nat (length (s_samples h) + length xs) <= max_samples)%N ->
  s_samples (ins_all xs h) = rev xs ++ s_samples h /\ s_ovf (ins_all xs h) = s_ovf h.
Proof.
  induction xs as [|x xs IH]; intros h L; simpl; [tauto|].
  cbn [length] in L.
  assert (E : insert_sample x h = Summ (s_min h) (s_max h) (s_sum h) (s_total h) (s_ne h) (x :: s_samples h) (s_ovf h)).
  { unfold insert_sample. destruct (N.ltb_spec (N.of_nat (length (s_samples h))) max_samples); [reflexivity|lia]. }
  unfold ins_all in *. rewrite E. destruct (IH (Summ (s_min h) (s_max h) (s_sum h) (s_total h) (s_ne h) (x :: s_samples h) (s_ovf h))) as [A B].
  - simpl. lia.
  - simpl in *. rewrite A, B. rewrite <- app_assoc. simpl. tauto.
Qed.

Lemma ins_all_big xs : forall h,
  (max_samples < N.of_nat (length (s_samples h) + length xs))%N ->
  (N.of_nat (length (s_samples h)) <= max_samples)%N ->
  s_ovf (ins_all xs h) = true.
Proof.
  induction xs as [|x xs IH]; intros h L M; simpl.
  - simpl in L. lia.
  - cbn [length] in L. unfold insert_sample.
    destruct (N.ltb_spec (N.of_nat (length (s_samples h))) max_samples).
    + apply IH; simpl; lia.
    + apply ins_all_ovf_stays. reflexivity.
Qed.

Lemma sum_list_app a b : sum_list (a ++ b) = sum_list a + sum_list b.
Proof. induction a; simpl; lia. Qed.

Lemma list_min_app a b : a <> [] -> b <> [] -> list_min (a ++ b) = Z.min (list_min a) (list_min b).
Proof.
  induction a as [|x a IH]; [congruence|]. intros _ Hb.
  destruct a as [|y a].
  - simpl app. rewrite list_min_cons by assumption. simpl. lia.
  - change ((x :: y :: a) ++ b) with (x :: ((y :: a) ++ b)).
    rewrite list_min_cons by (simpl; congruence). rewrite IH by congruence.
    rewrite (list_min_cons x (y :: a)) by congruence. lia.
Qed.

Lemma list_max_app a b : a <> [] -> b <> [] -> list_max (a ++ b) = Z.max (list_max a) (list_max b).
Proof.
  induction a as [|x a IH]; [congruence|]. intros _ Hb.
  destruct a as [|y a].
  - simpl app. rewrite list_max_cons by assumption. simpl. lia.
  - change ((x :: y :: a) ++ b) with (x :: ((y :: a) ++ b)).
    rewrite list_max_cons by (simpl; congruence). rewrite IH by congruence.
    rewrite (list_max_cons x (y :: a)) by congruence. lia.
Qed.

Lemma len0 {A} (l : list A) : N.of_nat (length l) = 0%N <-> l = [].
Proof. destruct l; simpl; split; intros; try reflexivity; try discriminate; lia. Qed.

(* merging two described containers gives the container described by the union of the values *)
Lemma sdesc_merge c a va na b vb nb :
  sdesc c a va na -> sdesc c b vb nb -> sdesc c (merge_summ a b) (va ++ vb) (na + nb).
Proof.
  intros [] []. unfold merge_summ.
  destruct (N.eqb_spec (s_total b) 0) as [Zb|Zb].
  - assert (vb = []) by (apply len0; congruence). subst vb. rewrite app_nil_r.
    constructor; simpl; intros; auto. lia.
  - assert (Hb : vb <> []) by (intros ->; simpl in *; congruence).
    set (h1 := Summ _ _ _ _ _ _ _).
    destruct (ins_all_fields (s_samples b) h1) as (F1 & F2 & F3 & F4 & F5).
    fold (ins_all (s_samples b) h1).
    assert (Hab : va ++ vb <> []) by (destruct va; simpl; congruence).
    constructor.
    + rewrite F4. simpl. rewrite app_length. lia.
    + rewrite F5. simpl. lia.
    + rewrite F3. simpl. rewrite sum_list_app. lia.
    + intros _. rewrite F1. simpl.
      destruct (N.eqb_spec (s_total a) 0) as [Za|Za].
      * assert (va = []) by (apply len0; congruence). subst va. simpl. auto.
      * assert (Ha : va <> []) by (intros ->; simpl in *; congruence).
        rewrite list_min_app by assumption. rewrite d_min0, d_min1 by assumption. reflexivity.
    + intros _. rewrite F2. simpl.
      destruct (N.eqb_spec (s_total a) 0) as [Za|Za].
      * assert (va = []) by (apply len0; congruence). subst va. simpl. auto.
      * assert (Ha : va <> []) by (intros ->; simpl in *; congruence).
        rewrite list_max_app by assumption. rewrite d_max0, d_max1 by assumption. reflexivity.
    + intros C. destruct (d_nocollect0 C) as [S1 O1]. destruct (d_nocollect1 C) as [S2 O2].
      rewrite S2. simpl. rewrite S1, O1, O2. tauto.
    + intros C L. rewrite app_length in L.
      destruct (d_small0 C) as [O1 P1]; [lia|]. destruct (d_small1 C) as [O2 P2]; [lia|].
      destruct (ins_all_small (s_samples b) h1) as [S O].
      { simpl. rewrite (Permutation_length P1), (Permutation_length P2). lia. }
      rewrite S, O. simpl. rewrite O1, O2. split; [reflexivity|].
      rewrite Permutation_app_comm. apply Permutation_app; [assumption|].
      rewrite <- Permutation_rev. assumption.
    + intros C L. rewrite app_length in L.
      destruct (N.le_gt_cases (N.of_nat (length va)) max_samples) as [La|La].
      * destruct (N.le_gt_cases (N.of_nat (length vb)) max_samples) as [Lb|Lb].
        -- destruct (d_small0 C La) as [O1 P1]. destruct (d_small1 C Lb) as [O2 P2].
           apply ins_all_big; simpl; rewrite (Permutation_length P1); [rewrite (Permutation_length P2)|]; lia.
        -- apply ins_all_ovf_stays. simpl. rewrite (d_big1 C Lb). apply orb_true_r.
      * apply ins_all_ovf_stays. simpl. rewrite (d_big0 C La). reflexivity.
Qed.
