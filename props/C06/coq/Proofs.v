(* C06 — lemmas. *)
From Coq Require Import Lia Permutation Sorting.Sorted ZifyN ZifyNat.
From C06 Require Import Model.
Open Scope Z_scope.

(* ---------------------------------------------------------------- values of a bin, described directly *)

Definition sum_list (l : list Z) : Z := fold_right Z.add 0 l.
Definition list_min (l : list Z) : Z := match l with [] => 0 | x :: r => fold_right Z.min x r end.
Definition list_max (l : list Z) : Z := match l with [] => 0 | x :: r => fold_right Z.max x r end.

(* [sdesc c s vs ne]: container s is exactly what the property asks for the value list vs and ne
   documents without value: Total, Sum, Min, Max computed directly from vs; the sample reservoir
   (collected iff c) is the multiset vs while there are at most 8096 values *)
Record sdesc (c : bool) (s : summ) (vs : list Z) (ne : N) : Prop := {
  d_total : s_total s = N.of_nat (length vs);
  d_ne : s_ne s = ne;
  d_sum : s_sum s = sum_list vs;
  d_min : vs <> [] -> s_min s = list_min vs;
  d_max : vs <> [] -> s_max s = list_max vs;
  d_nocollect : c = false -> s_samples s = [] /\ s_ovf s = false;
  d_small : c = true -> (N.of_nat (length vs) <= max_samples)%N -> s_ovf s = false /\ Permutation (s_samples s) vs;
  d_big : c = true -> (max_samples < N.of_nat (length vs))%N -> s_ovf s = true
}.

Lemma fr_min_swap r : forall a b, Z.min a (fold_right Z.min b r) = Z.min b (fold_right Z.min a r).
Proof. induction r as [|y r IH]; intros a b; cbn [fold_right]; [lia|]. specialize (IH a b). lia. Qed.
Lemma fr_max_swap r : forall a b, Z.max a (fold_right Z.max b r) = Z.max b (fold_right Z.max a r).
Proof. induction r as [|y r IH]; intros a b; cbn [fold_right]; [lia|]. specialize (IH a b). lia. Qed.

Lemma list_min_cons v vs : vs <> [] -> list_min (v :: vs) = Z.min (list_min vs) v.
Proof.
  destruct vs as [|x r]; [congruence|intros _]. cbn [list_min fold_right].
  rewrite (fr_min_swap r x v). lia.
Qed.

Lemma list_max_cons v vs : vs <> [] -> list_max (v :: vs) = Z.max (list_max vs) v.
Proof.
  destruct vs as [|x r]; [congruence|intros _]. cbn [list_max fold_right].
  rewrite (fr_max_swap r x v). lia.
Qed.

Lemma sdesc_new c : sdesc c new_summ [] 0.
Proof. constructor; simpl; try tauto; try reflexivity; intros; try (split; [reflexivity|constructor]). unfold max_samples in *. lia. Qed.

Lemma insert_sample_fields v s :
  let s' := insert_sample v s in
  s_min s' = s_min s /\ s_max s' = s_max s /\ s_sum s' = s_sum s /\ s_total s' = s_total s /\ s_ne s' = s_ne s.
Proof. unfold insert_sample. destruct (_ <? _)%N; simpl; tauto. Qed.

Lemma sdesc_insert c s vs ne v : sdesc c s vs ne -> sdesc c (insert_val c v s) (v :: vs) ne.
Proof.
  intros D. destruct D.
  assert (Hmin : s_min (insert_n v 1 s) = list_min (v :: vs)).
  { unfold insert_n; simpl s_min. destruct vs as [|x r].
    - rewrite d_total0. reflexivity.
    - rewrite d_total0. cbn [length]. destruct (N.eqb_spec (N.of_nat (S (length r))) 0); [lia|].
      rewrite list_min_cons by congruence. rewrite d_min0 by congruence. reflexivity. }
  assert (Hmax : s_max (insert_n v 1 s) = list_max (v :: vs)).
  { unfold insert_n; simpl s_max. destruct vs as [|x r].
    - rewrite d_total0. reflexivity.
    - rewrite d_total0. cbn [length]. destruct (N.eqb_spec (N.of_nat (S (length r))) 0); [lia|].
      rewrite list_max_cons by congruence. rewrite d_max0 by congruence. reflexivity. }
  assert (Hsum : s_sum (insert_n v 1 s) = sum_list (v :: vs)) by (unfold insert_n; simpl; lia).
  assert (Htot : s_total (insert_n v 1 s) = N.of_nat (length (v :: vs))) by (unfold insert_n; simpl; lia).
  assert (Hne : s_ne (insert_n v 1 s) = ne) by (unfold insert_n; simpl; assumption).
  unfold insert_val. destruct c.
  - pose proof (insert_sample_fields v (insert_n v 1 s)) as F. cbv zeta in F.
    destruct F as (F1 & F2 & F3 & F4 & F5).
    constructor.
    + rewrite F4. exact Htot.
    + rewrite F5. exact Hne.
    + rewrite F3. exact Hsum.
    + intros _. rewrite F1. exact Hmin.
    + intros _. rewrite F2. exact Hmax.
    + intros; congruence.
    + intros _ L0. unfold insert_sample. simpl s_samples.
      assert (L : (N.of_nat (length vs) <= max_samples)%N) by (cbn [length] in L0; lia).
      destruct (d_small0 eq_refl L) as [O P].
      rewrite (Permutation_length P).
      destruct (N.ltb_spec (N.of_nat (length vs)) max_samples); [|cbn [length] in L0; lia].
      simpl. split; [assumption|]. constructor. assumption.
    + intros _ L0. unfold insert_sample. simpl s_samples. simpl s_ovf.
      destruct (N.ltb_spec (N.of_nat (length (s_samples s))) max_samples); simpl; [|reflexivity].
      destruct (N.le_gt_cases (N.of_nat (length vs)) max_samples) as [L|L].
      * destruct (d_small0 eq_refl L) as [O P]. rewrite (Permutation_length P) in *. cbn [length] in L0. lia.
      * apply d_big0; [reflexivity|assumption].
  - constructor; intros; try congruence; auto.
Qed.

Lemma sdesc_add_ne c s vs ne : sdesc c s vs ne -> sdesc c (add_ne s) vs (ne + 1).
Proof. intros []. constructor; simpl; intros; auto. lia. Qed.
