(* C06 — instance of the standard library's merge sort on Z (used by the model's Quantile,
   which mirrors slices.Sort(h.Samples)).  The functor needs totality of the order; nothing else
   is proved here. *)
From Coq Require Import ZArith Orders Sorting.Mergesort Lia.

Module ZOrder <: TotalLeBool.
  Definition t := Z.
  Definition leb := Z.leb.
  Theorem leb_total : forall a1 a2, leb a1 a2 = true \/ leb a2 a1 = true.
  Proof. intros a b. unfold leb. destruct (Z.leb_spec a b); [left; reflexivity|right]. apply Z.leb_le. lia. Qed.
End ZOrder.

Module ZSort := Sort ZOrder.
