(* C06 — AggBin.fromKey (toKey b) = b for every token (also containing '|') and every MID. *)
From Coq Require Import Lia ZifyN ZifyNat.
From C06 Require Import Model.
Open Scope N_scope.

Definition is_digit (c : N) : Prop := 48 <= c <= 57.

Lemma itoa_aux_digits f : forall n acc, Forall is_digit acc -> Forall is_digit (itoa_aux f n acc).
Proof.
  induction f as [|f IH]; intros n acc H; simpl; [assumption|].
  assert (D : Forall is_digit ((48 + n mod 10) :: acc)).
  { constructor; [|assumption]. unfold is_digit. pose proof (N.mod_upper_bound n 10). lia. }
  destruct (n / 10 =? 0); [assumption|apply IH; assumption].
Qed.

Lemma itoa_aux_keeps f : forall n acc, acc <> [] -> itoa_aux f n acc <> [].
Proof.
  induction f as [|f IH]; intros n acc H; simpl; [assumption|].
  destruct (n / 10 =? 0); [discriminate|apply IH; discriminate].
Qed.

Lemma itoa_aux_nonempty f n acc : itoa_aux (S f) n acc <> [].
Proof. simpl. destruct (n / 10 =? 0); [discriminate|apply itoa_aux_keeps; discriminate]. Qed.

Lemma atoi_itoa_aux f : forall n acc, n < 2 ^ N.of_nat f ->
  atoi_acc 0 (itoa_aux f n acc) = atoi_acc n acc.
Proof.
  induction f as [|f IH]; intros n acc H.
  - change (N.of_nat 0) with 0 in H. rewrite N.pow_0_r in H. assert (n = 0) by lia. subst. reflexivity.
  - cbn [itoa_aux]. pose proof (N.mod_upper_bound n 10 ltac:(lia)) as M.
    pose proof (N.div_mod n 10 ltac:(lia)) as DM.
    assert (Step : atoi_acc (n / 10) ((48 + n mod 10) :: acc) = atoi_acc n acc).
    { cbn [atoi_acc]. destruct (N.leb_spec 48 (48 + n mod 10)); [|lia].
      destruct (N.leb_spec (48 + n mod 10) 57); [|lia]. cbn [andb]. f_equal. lia. }
    destruct (N.eqb_spec (n / 10) 0) as [Z|NZ].
    + rewrite <- Step. rewrite Z. reflexivity.
    + rewrite IH; [exact Step|].
      replace (N.of_nat (S f)) with (N.succ (N.of_nat f)) in H by lia. rewrite N.pow_succ_r' in H.
      apply N.div_lt_upper_bound; lia.
Qed.

Lemma atoi_itoa n : atoi (itoa n) = Some n.
Proof.
  unfold atoi, itoa. destruct (itoa_aux _ n []) eqn:E; [exfalso; eapply itoa_aux_nonempty; exact E|].
  rewrite <- E. rewrite atoi_itoa_aux; [reflexivity|].
  destruct (N.eq_dec n 0) as [->|NZ]; [simpl; lia|].
  replace (N.of_nat (S (N.to_nat (N.log2 n)))) with (N.succ (N.log2 n)) by lia.
  apply N.log2_spec. lia.
Qed.

Lemma cut_digits ds tok : Forall is_digit ds -> cut (ds ++ sep :: tok) = Some (ds, tok).
Proof.
  induction 1 as [|c ds Hc _ IH]; cbn [app cut].
  - rewrite N.eqb_refl. reflexivity.
  - destruct (N.eqb_spec c sep) as [E|_]; [unfold is_digit, sep in *; lia|]. rewrite IH. reflexivity.
Qed.

Lemma key_codec mid tok : from_key (to_key mid tok) = Some (mid, tok).
Proof.
  unfold from_key, to_key. rewrite cut_digits.
  - rewrite atoi_itoa. reflexivity.
  - apply itoa_aux_digits. constructor.
Qed.
