(* C06 — the aggregation limits only reject, and the token-value cache of ValueBySource is transparent. *)
From Coq Require Import Lia ZifyN ZifyNat.
From C06 Require Import Model ModelLimits.
Open Scope N_scope.

(* ---------------------------------------------------------------- ValueBySource cache *)

Section CacheProofs.
  Variable tids : list N.
  Variable val : N -> N.
  Variable cnt : N -> N.

  (* keyed by source: every entry holds the value of the key's own token *)
  Definition cache_by_src_ok (c : cache) : Prop := forall k v, cget k c = Some v -> v = val (tid_of tids k).
  (* keyed by tid *)
  Definition cache_by_tid_ok (c : cache) : Prop := forall k v, cget k c = Some v -> v = val k.

  Lemma vbs_code s c : cache_by_src_ok c ->
    fst (value_by_source key_code tids val cnt s c) = val (tid_of tids s) /\
    cache_by_src_ok (snd (value_by_source key_code tids val cnt s c)).
  Proof.
    intros OK. unfold value_by_source. destruct (cnt s <? 2); [split; [reflexivity|exact OK]|].
    simpl. destruct (cget s c) as [v|] eqn:G; simpl.
    - split; [apply OK; exact G|exact OK].
    - split; [reflexivity|]. intros k v. simpl. destruct (N.eqb_spec k s) as [->|]; [|apply OK].
      intros E. inversion E. reflexivity.
  Qed.

  Lemma vbs_tid s c : cache_by_tid_ok c ->
    fst (value_by_source key_by_tid tids val cnt s c) = val (tid_of tids s) /\
    cache_by_tid_ok (snd (value_by_source key_by_tid tids val cnt s c)).
  Proof.
    intros OK. unfold value_by_source. destruct (cnt s <? 2); [split; [reflexivity|exact OK]|].
    simpl. destruct (cget (tid_of tids s) c) as [v|] eqn:G; simpl.
    - split; [apply OK; exact G|exact OK].
    - split; [reflexivity|]. intros k v. simpl. destruct (N.eqb_spec k (tid_of tids s)) as [->|]; [|apply OK].
      intros E. inversion E. reflexivity.
  Qed.

  Lemma lookups_code srcs : forall c, cache_by_src_ok c ->
    lookups key_code tids val cnt srcs c = map (fun s => val (tid_of tids s)) srcs.
  Proof.
    induction srcs as [|s r IH]; intros c OK; [reflexivity|].
    cbn [lookups map]. destruct (vbs_code s c OK) as [A B].
    destruct (value_by_source key_code tids val cnt s c) as [v c']. simpl in A, B. subst v.
    rewrite (IH c' B). reflexivity.
  Qed.

  Lemma lookups_tid srcs : forall c, cache_by_tid_ok c ->
    lookups key_by_tid tids val cnt srcs c = map (fun s => val (tid_of tids s)) srcs.
  Proof.
    induction srcs as [|s r IH]; intros c OK; [reflexivity|].
    cbn [lookups map]. destruct (vbs_tid s c OK) as [A B].
    destruct (value_by_source key_by_tid tids val cnt s c) as [v c']. simpl in A, B. subst v.
    rewrite (IH c' B). reflexivity.
  Qed.
End CacheProofs.

Lemma cache_empty_src tids val : cache_by_src_ok tids val [].
Proof. intros k v E. discriminate. Qed.

Lemma cache_empty_tid val : cache_by_tid_ok val [].
Proof. intros k v E. discriminate. Qed.

(* for every TID list, every token table, every state of countBySource (cache in use or not) and every sequence of
   lookups, each answer is the value of the source's own token — a cache hit equals the recomputation *)
Lemma value_cache_transparent tids val cnt srcs :
  lookups key_code tids val cnt srcs [] = map (fun s => val (tid_of tids s)) srcs /\
  lookups key_by_tid tids val cnt srcs [] = map (fun s => val (tid_of tids s)) srcs /\
  lookups key_code tids val (fun _ => 0) srcs [] = lookups key_code tids val cnt srcs [].
Proof.
  split; [apply lookups_code, cache_empty_src|]. split; [apply lookups_tid, cache_empty_tid|].
  rewrite !lookups_code by apply cache_empty_src. reflexivity.
Qed.

(* looked up by TID but filled by source: TID list [7;2;1] (source 1 -> TID 2, source 2 -> TID 1), both tokens
   counted twice; the lookup of source 2 stores the value of TID 1 under key 2, the lookup of source 1 (TID 2)
   then hits that entry and answers with the other token's value *)
Lemma wrong_key_refuted :
  exists tids val cnt srcs,
    lookups key_by_tid_get tids val cnt srcs [] <> map (fun s => val (tid_of tids s)) srcs /\
    lookups key_by_tid_get tids val cnt srcs [] = [1; 1] /\ map (fun s => val (tid_of tids s)) srcs = [1; 2].
Proof.
  exists [7; 2; 1], (fun t => t), (fun _ => 2), [2; 1]. split; [|split]; vm_compute; [discriminate|reflexivity|reflexivity].
Qed.

(* ---------------------------------------------------------------- the limits only reject *)

Lemma consume_lim_proj limit lid s c :
  fst (fst (consume_lim limit lid (s, c))) = fst (consume lid s) /\
  fst (snd (consume_lim limit lid (s, c))) = snd (consume lid s).
Proof.
  unfold consume_lim. simpl. destruct (consume lid s) as [[src|] s']; simpl; [|auto].
  destruct (note limit src c); simpl; auto.
Qed.

Lemma note_off src c : note 0 src c = (c, false).
Proof. reflexivity. Qed.

Lemma consume_lim_off lid s c : snd (fst (consume_lim 0 lid (s, c))) = false.
Proof. unfold consume_lim. simpl. destruct (consume lid s) as [[src|] s']; reflexivity. Qed.

Lemma walk_lim_only_rejects lim q gtab ftab ds : forall lid git fit gc fc st st',
  walk_lim lim q gtab ftab lid ds git fit gc fc st = Some st' ->
  st' = walk q gtab ftab lid ds git fit st.
Proof.
  induction ds as [|d r IH]; intros lid git fit gc fc st st' H; cbn [walk_lim walk] in *.
  - inversion H. reflexivity.
  - destruct (selected (q_from q) (q_to q) d); [|apply (IH _ _ _ _ _ _ _ H)].
    destruct (uses_group q).
    + destruct (consume_lim_proj (l_group lim) lid git gc) as [A B].
      destruct (consume_lim (l_group lim) lid (git, gc)) as [[gs ge] [git' gc']]. simpl in A, B.
      destruct ge; [discriminate|].
      destruct (consume lid git) as [gs0 git0]. simpl in A, B. subst gs0 git0.
      destruct (uses_field q).
      * destruct (consume_lim_proj (l_field lim) lid fit fc) as [A' B'].
        destruct (consume_lim (l_field lim) lid (fit, fc)) as [[fs fe] [fit' fc']]. simpl in A', B'.
        destruct fe; [discriminate|].
        destruct (consume lid fit) as [fs0 fit0]. simpl in A', B'. subst fs0 fit0.
        apply (IH _ _ _ _ _ _ _ H).
      * apply (IH _ _ _ _ _ _ _ H).
    + destruct (uses_field q).
      * destruct (consume_lim_proj (l_field lim) lid fit fc) as [A' B'].
        destruct (consume_lim (l_field lim) lid (fit, fc)) as [[fs fe] [fit' fc']]. simpl in A', B'.
        destruct fe; [discriminate|].
        destruct (consume lid fit) as [fs0 fit0]. simpl in A', B'. subst fs0 fit0.
        apply (IH _ _ _ _ _ _ _ H).
      * apply (IH _ _ _ _ _ _ _ H).
Qed.

Lemma walk_lim_off q gtab ftab ds : forall lid git fit gc fc st,
  walk_lim limits_off q gtab ftab lid ds git fit gc fc st = Some (walk q gtab ftab lid ds git fit st).
Proof.
  induction ds as [|d r IH]; intros lid git fit gc fc st; cbn [walk_lim walk]; [reflexivity|].
  destruct (selected (q_from q) (q_to q) d); [|apply IH].
  cbn [l_group l_field limits_off].
  destruct (uses_group q).
  - destruct (consume_lim_proj 0 lid git gc) as [A B]. pose proof (consume_lim_off lid git gc) as E.
    destruct (consume_lim 0 lid (git, gc)) as [[gs ge] [git' gc']]. simpl in A, B, E. subst ge.
    destruct (consume lid git) as [gs0 git0]. simpl in A, B. subst gs0 git0.
    destruct (uses_field q).
    + destruct (consume_lim_proj 0 lid fit fc) as [A' B']. pose proof (consume_lim_off lid fit fc) as E'.
      destruct (consume_lim 0 lid (fit, fc)) as [[fs fe] [fit' fc']]. simpl in A', B', E'. subst fe.
      destruct (consume lid fit) as [fs0 fit0]. simpl in A', B'. subst fs0 fit0. apply IH.
    + apply IH.
  - destruct (uses_field q).
    + destruct (consume_lim_proj 0 lid fit fc) as [A' B']. pose proof (consume_lim_off lid fit fc) as E'.
      destruct (consume_lim 0 lid (fit, fc)) as [[fs fe] [fit' fc']]. simpl in A', B', E'. subst fe.
      destruct (consume lid fit) as [fs0 fit0]. simpl in A', B'. subst fs0 fit0. apply IH.
    + apply IH.
Qed.

Lemma frac_lim_only_rejects lim q ds a : frac_run_lim lim q ds = Some a -> a = frac_run q ds.
Proof.
  unfold frac_run_lim, frac_run.
  destruct ((uses_field q && over (l_tids lim) _) || (uses_group q && over (l_tids lim) _)); [discriminate|].
  destruct (walk_lim lim q _ _ 1 ds _ _ [] [] empty_aggs) as [st|] eqn:W; [|discriminate].
  apply walk_lim_only_rejects in W. subst st.
  destruct (over (l_group lim) _); [discriminate|]. intros E. inversion E. reflexivity.
Qed.

Lemma over_off n : over 0 n = false.
Proof. reflexivity. Qed.

Lemma frac_lim_off q ds : frac_run_lim limits_off q ds = Some (frac_run q ds).
Proof.
  unfold frac_run_lim, frac_run. cbn [l_tids l_group limits_off]. rewrite !over_off, !andb_false_r. simpl.
  rewrite walk_lim_off. reflexivity.
Qed.

(* with limits on, a search either fails or returns exactly the result of the unlimited search: never a
   different set of bins, never a truncated one — for every merge tree *)
Lemma limits_only_reject lim q t : forall a, eval_tree_lim lim q t = Some a -> a = eval_tree q t.
Proof.
  induction t as [ds|l IHl r IHr]; intros a H; simpl in *.
  - apply (frac_lim_only_rejects lim q ds a H).
  - destruct (eval_tree_lim lim q l) as [x|]; [|discriminate].
    destruct (eval_tree_lim lim q r) as [y|]; [|discriminate].
    inversion H. rewrite (IHl x eq_refl), (IHr y eq_refl). reflexivity.
Qed.

Lemma limits_off_never_reject q t : eval_tree_lim limits_off q t = Some (eval_tree q t).
Proof.
  induction t as [ds|l IHl r IHr]; simpl.
  - apply frac_lim_off.
  - rewrite IHl, IHr. reflexivity.
Qed.
