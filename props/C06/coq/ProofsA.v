(* C06 — aggregation bins equal the values computed directly from the selected documents, for every
   merge tree (field functions: sum, min, max, avg, quantile; with/without group, with/without interval). *)
From Coq Require Import Lia Permutation ZifyN ZifyNat.
From C06 Require Import Model CaseDefs Proofs ProofsQ.
Open Scope Z_scope.

(* ---------------------------------------------------------------- sdesc is invariant under permutation *)

Lemma sum_list_perm l l' : Permutation l l' -> Proofs.sum_list l = Proofs.sum_list l'.
Proof. induction 1; simpl; lia. Qed.

Lemma list_min_perm l l' : l <> [] -> Permutation l l' -> Proofs.list_min l = Proofs.list_min l'.
Proof.
  intros H P. assert (H' : l' <> []) by (intros ->; apply Permutation_sym, Permutation_nil in P; congruence).
  destruct (list_min_spec l H) as [I L]. destruct (list_min_spec l' H') as [I' L'].
  assert (Proofs.list_min l' <= Proofs.list_min l) by (apply L'; eapply Permutation_in; eauto).
  assert (Proofs.list_min l <= Proofs.list_min l') by (apply L; eapply Permutation_in; [apply Permutation_sym|]; eauto).
  lia.
Qed.

Lemma list_max_perm l l' : l <> [] -> Permutation l l' -> Proofs.list_max l = Proofs.list_max l'.
Proof.
  intros H P. assert (H' : l' <> []) by (intros ->; apply Permutation_sym, Permutation_nil in P; congruence).
  destruct (list_max_spec l H) as [I L]. destruct (list_max_spec l' H') as [I' L'].
  assert (Proofs.list_max l <= Proofs.list_max l') by (apply L'; eapply Permutation_in; eauto).
  assert (Proofs.list_max l' <= Proofs.list_max l) by (apply L; eapply Permutation_in; [apply Permutation_sym|]; eauto).
  lia.
Qed.

Lemma sdesc_perm c s vs vs' ne : Permutation vs vs' -> sdesc c s vs ne -> sdesc c s vs' ne.
Proof.
  intros P [dt dn ds dmin dmax dnc dsm dbg].
  assert (NE : vs' <> [] -> vs <> []) by (intros H ->; apply Permutation_nil in P; congruence).
  constructor; auto.
  - rewrite <- (Permutation_length P). exact dt.
  - rewrite <- (sum_list_perm _ _ P). exact ds.
  - intros H. rewrite <- (list_min_perm vs vs') by auto. auto.
  - intros H. rewrite <- (list_max_perm vs vs') by auto. auto.
  - intros C L. rewrite <- (Permutation_length P) in L. destruct (dsm C L). split; [assumption|].
    eapply Permutation_trans; eauto.
  - intros C L. rewrite <- (Permutation_length P) in L. auto.
Qed.

(* ---------------------------------------------------------------- maps *)

Lemma key_eqb_spec a b : reflect (a = b) (key_eqb a b).
Proof.
  destruct a as [a1 a2], b as [b1 b2]. unfold key_eqb. simpl.
  destruct (N.eqb_spec a1 b1), (N.eqb_spec a2 b2); simpl; constructor; congruence.
Qed.

Lemma lookup_alter k k' f m :
  lookup k (alter k' f m) = if key_eqb k k' then Some (f (lookup k m)) else lookup k m.
Proof.
  induction m as [|[k0 v] m IH]; simpl.
  - destruct (key_eqb_spec k k'); reflexivity.
  - destruct (key_eqb_spec k' k0) as [->|N0]; simpl.
    + destruct (key_eqb_spec k k0); reflexivity.
    + rewrite IH. destruct (key_eqb_spec k k0) as [->|]; [|reflexivity].
      destruct (key_eqb_spec k0 k'); [congruence|reflexivity].
Qed.

Lemma alter_keys k f m : forall x, In x (map fst (alter k f m)) <-> x = k \/ In x (map fst m).
Proof.
  induction m as [|[k0 v] m IH]; intros x; simpl; [intuition|].
  destruct (key_eqb_spec k k0) as [->|]; simpl; [intuition|]. rewrite IH. intuition.
Qed.

Lemma alter_nodup k f m : NoDup (map fst m) -> NoDup (map fst (alter k f m)).
Proof.
  induction m as [|[k0 v] m IH]; simpl; intros ND; [constructor; [intros []|constructor]|].
  inversion ND as [|? ? NI ND']; subst. destruct (key_eqb_spec k k0) as [->|]; simpl.
  - constructor; assumption.
  - constructor; [|auto]. rewrite alter_keys. intros [->|H]; [congruence|contradiction].
Qed.

Lemma lookup_notin k m : ~ In k (map fst m) -> lookup k m = None.
Proof.
  induction m as [|[k0 v] m IH]; simpl; intros NI; [reflexivity|].
  destruct (key_eqb_spec k k0) as [->|]; [tauto|]. apply IH; tauto.
Qed.

Definition merge_bins (sc : Z) (x y : bins) : bins :=
  fold_left (fun m kv => alter (fst kv) (fun o => merge_summ (or_new sc o) (snd kv)) m) y x.

Lemma merge_bins_lookup sc k y : forall x, NoDup (map fst y) ->
  lookup k (merge_bins sc x y) =
  match lookup k y with Some h => Some (merge_summ (or_new sc (lookup k x)) h) | None => lookup k x end.
Proof.
  unfold merge_bins. induction y as [|[k0 h] y IH]; intros x ND; simpl; [reflexivity|].
  inversion ND as [|? ? NI ND']; subst. rewrite IH by assumption. rewrite lookup_alter. simpl.
  destruct (key_eqb_spec k k0) as [->|]; [|reflexivity].
  rewrite (lookup_notin k0 y NI). reflexivity.
Qed.

Lemma merge_bins_nodup sc y : forall x, NoDup (map fst x) -> NoDup (map fst (merge_bins sc x y)).
Proof.
  unfold merge_bins. induction y as [|[k0 h] y IH]; intros x ND; simpl; [assumption|].
  apply IH. apply alter_nodup. assumption.
Qed.

(* ---------------------------------------------------------------- one bin, described *)

Definition odesc (c : bool) (o : option summ) (vs : list Z) (ne : N) : Prop :=
  match o with Some s => sdesc c s vs ne | None => vs = [] /\ ne = 0%N end.

Lemma odesc_or_new sc c o vs ne : odesc c o vs ne -> sdesc c (or_new sc o) vs ne.
Proof. destruct o; simpl; [auto|]. intros [-> ->]. apply sdesc_new. Qed.

Lemma odesc_merge sc c ox vx nx oy vy ny :
  odesc c ox vx nx -> odesc c oy vy ny ->
  odesc c (match oy with Some h => Some (merge_summ (or_new sc ox) h) | None => ox end) (vx ++ vy) (nx + ny).
Proof.
  intros X Y. destruct oy as [h|]; simpl in *.
  - apply sdesc_merge; [apply odesc_or_new|]; assumption.
  - destruct Y as [-> ->]. rewrite app_nil_r, N.add_0_r. exact X.
Qed.

(* ---------------------------------------------------------------- the spec's values are additive *)

Lemma bin_vals_app q k a b : bin_vals q k (a ++ b) = bin_vals q k a ++ bin_vals q k b.
Proof. unfold bin_vals. apply flat_map_app. Qed.

Lemma count_app {A} (p : A -> bool) a b : count p (a ++ b) = (count p a + count p b)%N.
Proof. unfold count. rewrite filter_app, app_length. lia. Qed.

Lemma bin_ne_app q k a b : bin_ne q k (a ++ b) = (bin_ne q k a + bin_ne q k b)%N.
Proof.
  unfold bin_ne. destruct (q_group q).
  - apply count_app.
  - destruct (snd k =? 0)%N; [apply count_app|reflexivity].
Qed.

(* ---------------------------------------------------------------- one document *)

Definition sel (q : query) (d : doc) : bool := selected (q_from q) (q_to q) d.

Definition dstep (q : query) (st : aggs) (d : doc) : aggs :=
  if sel q d then step q (d_mid d) (d_grp d) (d_fld d) st else st.

Lemma fold_dstep_filter q ds : forall st, fold_left (dstep q) ds st = fold_left (dstep q) (filter (sel q) ds) st.
Proof.
  induction ds as [|d ds IH]; intros st; simpl; [reflexivity|].
  unfold dstep at 2. destruct (sel q d) eqn:E; simpl; [|apply IH].
  unfold dstep at 3. rewrite E. apply IH.
Qed.

Lemma step_nodup q mid g f st : NoDup (map fst (a_bins st)) -> NoDup (map fst (a_bins (step q mid g f st))).
Proof.
  intros ND. unfold step.
  destruct (q_func q), g, f, (q_group q); simpl; try assumption; apply alter_nodup; assumption.
Qed.

(* the effect of one selected document on bin k, for a field function *)
Lemma step_field q k d st vs ne :
  is_field_func (q_func q) = true ->
  odesc (collect_samples q) (lookup k (a_bins st)) vs ne ->
  odesc (collect_samples q) (lookup k (a_bins (step q (d_mid d) (d_grp d) (d_fld d) st)))
        (vs ++ bin_vals q k [d]) (ne + bin_ne q k [d]).
Proof.
  intros FF O. destruct k as [kb kt].
  assert (Same : forall o, odesc (collect_samples q) o vs ne ->
                 bin_vals q (kb, kt) [d] = [] -> bin_ne q (kb, kt) [d] = 0%N ->
                 odesc (collect_samples q) o (vs ++ bin_vals q (kb, kt) [d]) (ne + bin_ne q (kb, kt) [d])).
  { intros o H -> ->. rewrite app_nil_r, N.add_0_r. exact H. }
  assert (Ins : forall v, bin_vals q (kb, kt) [d] = [v] -> bin_ne q (kb, kt) [d] = 0%N ->
                sdesc (collect_samples q) (insert_val (collect_samples q) v (or_new (q_scale q) (lookup (kb, kt) (a_bins st))))
                      (vs ++ bin_vals q (kb, kt) [d]) (ne + bin_ne q (kb, kt) [d])).
  { intros v -> ->. rewrite N.add_0_r. eapply sdesc_perm; [apply Permutation_cons_append|].
    apply sdesc_insert. apply odesc_or_new. exact O. }
  assert (Ne : bin_vals q (kb, kt) [d] = [] -> bin_ne q (kb, kt) [d] = 1%N ->
               sdesc (collect_samples q) (add_ne (or_new (q_scale q) (lookup (kb, kt) (a_bins st))))
                     (vs ++ bin_vals q (kb, kt) [d]) (ne + bin_ne q (kb, kt) [d])).
  { intros -> ->. rewrite app_nil_r. apply sdesc_add_ne. apply odesc_or_new. exact O. }
  unfold step. unfold bin_vals, bin_ne, count, opt_is, is_none in *. cbn [flat_map filter fst snd app length] in *.
  destruct (q_func q); try discriminate; clear FF;
  destruct (q_group q); destruct (d_grp d) as [g|]; destruct (d_fld d) as [v|]; cbn [a_bins];
  rewrite ?lookup_alter; unfold key_eqb; cbn [fst snd];
  repeat match goal with
         | |- context [(?a =? ?b)%N] => destruct (N.eqb_spec a b); subst; cbn [andb negb app length N.of_nat flat_map filter]
         end;
  cbn [odesc]; try (apply Same; [exact O|reflexivity|reflexivity]);
  try (apply Ins; reflexivity); try (apply Ne; reflexivity); try congruence; try lia.
Qed.

(* ---------------------------------------------------------------- one fraction, then every merge tree *)

Definition bins_ok (q : query) (st : aggs) (D : list doc) : Prop :=
  NoDup (map fst (a_bins st)) /\
  forall k, odesc (collect_samples q) (lookup k (a_bins st)) (bin_vals q k D) (bin_ne q k D).

Lemma fold_field q ds : is_field_func (q_func q) = true -> forall st P,
  Forall (fun d => sel q d = true) ds ->
  bins_ok q st P -> bins_ok q (fold_left (dstep q) ds st) (P ++ ds).
Proof.
  intros FF. induction ds as [|d ds IH]; intros st P F [ND O]; simpl.
  - rewrite app_nil_r. split; assumption.
  - inversion F as [|? ? Sd F']; subst. replace (P ++ d :: ds) with ((P ++ [d]) ++ ds) by (rewrite <- app_assoc; reflexivity).
    apply IH; [assumption|]. unfold dstep. rewrite Sd. split.
    + apply step_nodup. assumption.
    + intros k. rewrite bin_vals_app, bin_ne_app. apply step_field; [assumption|apply O].
Qed.

Lemma finish_field q st : is_field_func (q_func q) = true -> finish q st = st.
Proof. unfold finish. destruct (q_func q); simpl; congruence. Qed.

Lemma frac_direct_field q ds : is_field_func (q_func q) = true ->
  bins_ok q (frac_direct q ds) (filter (sel q) ds).
Proof.
  intros FF. unfold frac_direct. rewrite finish_field by assumption.
  change (fun st d => if selected (q_from q) (q_to q) d then step q (d_mid d) (d_grp d) (d_fld d) st else st)
    with (dstep q).
  rewrite fold_dstep_filter.
  apply (fold_field q (filter (sel q) ds) FF empty_aggs []).
  - rewrite Forall_forall. intros d I. apply filter_In in I. tauto.
  - split; [constructor|]. intros k. simpl. unfold bin_vals, bin_ne, count. simpl.
    destruct (q_group q), (fst k =? 0)%N, (snd k =? 0)%N; auto.
Qed.

(* merge trees whose leaves are evaluated by the direct per-document pass *)
Fixpoint eval_tree_direct (q : query) (t : mtree) : aggs :=
  match t with
  | Leaf ds => frac_direct q ds
  | Node l r => merge_aggs (q_scale q) (eval_tree_direct q l) (eval_tree_direct q r)
  end.

Lemma merge_aggs_bins sc x y : a_bins (merge_aggs sc x y) = merge_bins sc (a_bins x) (a_bins y).
Proof. reflexivity. Qed.

Lemma agg_exact_field q t : is_field_func (q_func q) = true ->
  bins_ok q (eval_tree_direct q t) (filter (sel q) (tree_docs t)).
Proof.
  intros FF. induction t as [ds|l [NDl Ol] r [NDr Or]]; cbn [eval_tree_direct tree_docs].
  - apply frac_direct_field. assumption.
  - unfold bins_ok. rewrite merge_aggs_bins.
    split; [apply merge_bins_nodup; assumption|].
    intros k. rewrite merge_bins_lookup by assumption.
    rewrite filter_app, bin_vals_app, bin_ne_app. apply odesc_merge; [apply Ol|apply Or].
Qed.

(* ---------------------------------------------------------------- any merge order *)

Lemma filter_perm {A} (p : A -> bool) l l' : Permutation l l' -> Permutation (filter p l) (filter p l').
Proof.
  induction 1; simpl; auto.
  - destruct (p x); auto.
  - destruct (p x), (p y); auto. apply perm_swap.
  - eapply Permutation_trans; eauto.
Qed.

Lemma count_perm {A} (p : A -> bool) l l' : Permutation l l' -> count p l = count p l'.
Proof. intros P. unfold count. rewrite (Permutation_length (filter_perm p _ _ P)). reflexivity. Qed.

Lemma bin_vals_perm q k l l' : Permutation l l' -> Permutation (bin_vals q k l) (bin_vals q k l').
Proof.
  unfold bin_vals. set (f := fun d : doc => _). induction 1; simpl; auto.
  - apply Permutation_app_head. assumption.
  - rewrite !app_assoc. apply Permutation_app_tail. apply Permutation_app_comm.
  - eapply Permutation_trans; eauto.
Qed.

Lemma bin_ne_perm q k l l' : Permutation l l' -> bin_ne q k l = bin_ne q k l'.
Proof.
  intros P. unfold bin_ne. destruct (q_group q).
  - apply count_perm; assumption.
  - destruct (snd k =? 0)%N; [apply count_perm; assumption|reflexivity].
Qed.

Lemma odesc_perm c o vs vs' ne : Permutation vs vs' -> odesc c o vs ne -> odesc c o vs' ne.
Proof.
  intros P. destruct o; simpl; [apply sdesc_perm; assumption|].
  intros [-> ->]. apply Permutation_nil in P. auto.
Qed.

Lemma any_merge_order_field q t1 t2 k : is_field_func (q_func q) = true ->
  Permutation (tree_docs t1) (tree_docs t2) ->
  let D := filter (sel q) (tree_docs t1) in
  odesc (collect_samples q) (lookup k (a_bins (eval_tree_direct q t1))) (bin_vals q k D) (bin_ne q k D) /\
  odesc (collect_samples q) (lookup k (a_bins (eval_tree_direct q t2))) (bin_vals q k D) (bin_ne q k D).
Proof.
  intros FF P D. split; [apply (agg_exact_field q t1 FF)|].
  destruct (agg_exact_field q t2 FF) as [_ O]. specialize (O k).
  assert (PD : Permutation (filter (sel q) (tree_docs t2)) D) by (apply filter_perm, Permutation_sym; exact P).
  rewrite (bin_ne_perm q k _ _ PD) in O. eapply odesc_perm; [|exact O]. apply bin_vals_perm. exact PD.
Qed.
