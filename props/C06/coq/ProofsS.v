(* C06 — sortBuckets / Aggregate: the reported bucket list is the sorted permutation of the shown bins'
   buckets; and: a bin of a field function exists exactly when a selected document touches it. *)
From Coq Require Import Lia Permutation Sorting.Sorted ZifyN ZifyNat.
From C06 Require Import Model CaseDefs Proofs ProofsQ ProofsA ProofsC ProofsL ProofsT.
Open Scope Z_scope.

(* ---------------------------------------------------------------- the comparator is antisymmetric *)

Lemma mval_cmp_antisym a b : mval_cmp b a = CompOpp (mval_cmp a b).
Proof.
  destruct a, b; simpl; try reflexivity; try apply Z.compare_antisym; try apply N.compare_antisym.
Qed.

Lemma cmp_or_opp a b : CompOpp (cmp_or a b) = cmp_or (CompOpp a) (CompOpp b).
Proof. destruct a; reflexivity. Qed.

Lemma bucket_cmp_antisym f x y : bucket_cmp f y x = CompOpp (bucket_cmp f x y).
Proof.
  unfold bucket_cmp. destruct f; rewrite !cmp_or_opp, <- ?mval_cmp_antisym, <- ?N.compare_antisym; reflexivity.
Qed.

(* x may stand before y *)
Definition ble (f : func) (x y : bucket) : Prop := bucket_cmp f x y <> Gt.

Lemma ble_total f x y : bucket_cmp f x y = Gt -> ble f y x.
Proof. intros H. unfold ble. rewrite bucket_cmp_antisym, H. discriminate. Qed.

(* two buckets compare equal only if they are the same (time, name) bin: with distinct bin keys the
   order is strict, so ANY correct sort (Go's slices.SortFunc is not stable) returns this very list *)
Lemma cmp_or_eq a b : cmp_or a b = Eq -> a = Eq /\ b = Eq.
Proof. destruct a; simpl; intros; try discriminate; auto. Qed.

Lemma bucket_cmp_eq f x y : bucket_cmp f x y = Eq -> b_mid x = b_mid y /\ b_name x = b_name y.
Proof.
  unfold bucket_cmp. intros H.
  destruct f; apply cmp_or_eq in H; destruct H as [H1 H2]; apply cmp_or_eq in H2; destruct H2 as [H2 H3];
    apply N.compare_eq in H1; (apply N.compare_eq in H2 || apply N.compare_eq in H3); auto.
Qed.

(* ---------------------------------------------------------------- insertion sort *)

Lemma binsert_perm f x l : Permutation (binsert f x l) (x :: l).
Proof.
  induction l as [|y r IH]; simpl; [apply Permutation_refl|].
  destruct (bucket_cmp f x y); try apply Permutation_refl.
  eapply Permutation_trans; [apply perm_skip; exact IH|apply perm_swap].
Qed.

Lemma binsert_sorted f x l : Sorted (ble f) l -> Sorted (ble f) (binsert f x l).
Proof.
  induction 1 as [|y r S IH H]; simpl; [repeat constructor|].
  destruct (bucket_cmp f x y) eqn:E.
  - constructor; [constructor; assumption|]. constructor. unfold ble. rewrite E. discriminate.
  - constructor; [constructor; assumption|]. constructor. unfold ble. rewrite E. discriminate.
  - constructor; [exact IH|].
    destruct r as [|z r']; simpl.
    + constructor. apply ble_total. exact E.
    + destruct (bucket_cmp f x z); constructor; try (apply ble_total; exact E); inversion H; assumption.
Qed.

Lemma bsort_perm f l : Permutation (bsort f l) l.
Proof.
  unfold bsort. induction l as [|x l IH]; simpl; [constructor|].
  eapply Permutation_trans; [apply binsert_perm|]. constructor. exact IH.
Qed.

Lemma bsort_sorted f l : Sorted (ble f) (bsort f l).
Proof. unfold bsort. induction l as [|x l IH]; simpl; [constructor|apply binsert_sorted; exact IH]. Qed.

(* the bins Aggregate shows: all of them, or (time series) those with a timestamp *)
Definition shown_bins (q : query) (a : aggs) : bins :=
  filter (fun kv => negb ((0 <? q_interval q)%N && (fst (fst kv) =? 0)%N)) (a_bins a).

Lemma aggregate_sorted q a :
  Permutation (fst (aggregate q a)) (map (fun kv => agg_bucket q (fst kv) (snd kv)) (shown_bins q a)) /\
  Sorted (ble (q_func q)) (fst (aggregate q a)) /\
  snd (aggregate q a) = a_ne a.
Proof.
  unfold aggregate, shown_bins. cbn [fst snd]. split; [apply bsort_perm|]. split; [apply bsort_sorted|reflexivity].
Qed.

(* ---------------------------------------------------------------- which bins exist (field functions) *)

(* a selected document touches bin k: it contributes a value to it, or it is counted in its NotExists *)
Definition touch (q : query) (k : key) (D : list doc) : Prop :=
  bin_vals q k D <> [] \/ (0 < bin_ne q k D)%N.

Lemma touch_app q k a b : touch q k (a ++ b) <-> touch q k a \/ touch q k b.
Proof.
  unfold touch. rewrite bin_vals_app, bin_ne_app. split.
  - intros [H|H].
    + destruct (bin_vals q k a) eqn:E; [right; left; exact H|left; left; discriminate].
    + destruct (N.eq_dec (bin_ne q k a) 0); [right; right; lia|left; right; lia].
  - intros [[H|H]|[H|H]]; try (right; lia); left; intros E; apply app_eq_nil in E; tauto.
Qed.

Lemma lookup_in k m s : lookup k m = Some s -> In k (map fst m).
Proof.
  induction m as [|[k0 v] m IH]; simpl; [discriminate|].
  destruct (key_eqb_spec k k0) as [->|]; [auto|]. intros H. right. apply IH. exact H.
Qed.

Lemma step_keys_field q k d st :
  is_field_func (q_func q) = true ->
  In k (map fst (a_bins (step q (d_mid d) (d_grp d) (d_fld d) st))) ->
  In k (map fst (a_bins st)) \/ touch q k [d].
Proof.
  intros FF. unfold step, touch, bin_vals, bin_ne, count, opt_is, is_none. cbn [flat_map filter app].
  destruct (q_func q); try discriminate; clear FF;
  destruct (q_group q); destruct (d_grp d) as [g|]; destruct (d_fld d) as [v|]; cbn [a_bins];
  rewrite ?alter_keys; try (intros H; left; exact H);
  (intros [->|H]; [right|left; exact H]); cbn [fst snd];
  rewrite ?N.eqb_refl; cbn [andb app length N.of_nat]; try (left; discriminate); try (right; lia).
Qed.

Definition keys_touched (q : query) (st : aggs) (D : list doc) : Prop :=
  forall k, In k (map fst (a_bins st)) -> touch q k D.

Lemma fold_keys_field q ds : is_field_func (q_func q) = true -> forall st P,
  Forall (fun d => sel q d = true) ds ->
  keys_touched q st P -> keys_touched q (fold_left (dstep q) ds st) (P ++ ds).
Proof.
  intros FF. induction ds as [|d ds IH]; intros st P F K; simpl.
  - rewrite app_nil_r. exact K.
  - inversion F as [|? ? Sd F']; subst. replace (P ++ d :: ds) with ((P ++ [d]) ++ ds) by (rewrite <- app_assoc; reflexivity).
    apply IH; [assumption|]. unfold dstep. rewrite Sd. intros k I. apply touch_app.
    destruct (step_keys_field q k d st FF I) as [H|H]; [left; apply K; exact H|right; exact H].
Qed.

Lemma merge_bins_keys sc y : forall x k,
  In k (map fst (merge_bins sc x y)) <-> In k (map fst x) \/ In k (map fst y).
Proof.
  unfold merge_bins. induction y as [|[k0 h] y IH]; intros x k; simpl; [tauto|].
  rewrite IH, alter_keys. simpl. intuition.
Qed.

Lemma keys_touched_tree q t : is_field_func (q_func q) = true ->
  keys_touched q (eval_tree_direct q t) (filter (sel q) (tree_docs t)).
Proof.
  intros FF. induction t as [ds|l IHl r IHr]; cbn [eval_tree_direct tree_docs].
  - unfold frac_direct. rewrite finish_field by assumption.
    change (fun st d => if selected (q_from q) (q_to q) d then step q (d_mid d) (d_grp d) (d_fld d) st else st)
      with (dstep q).
    rewrite fold_dstep_filter.
    apply (fold_keys_field q (filter (sel q) ds) FF empty_aggs []).
    + rewrite Forall_forall. intros d I. apply filter_In in I. tauto.
    + intros k [].
  - intros k I. rewrite merge_aggs_bins in I. apply merge_bins_keys in I. rewrite filter_app. apply touch_app.
    destruct I as [I|I]; [left; apply IHl|right; apply IHr]; exact I.
Qed.

(* a bin exists exactly when a selected document touches it: no spurious empty bins, no lost bins *)
Lemma bins_exist_iff q t k : is_field_func (q_func q) = true ->
  (lookup k (a_bins (eval_tree q t)) <> None <-> touch q k (selected_docs q t)).
Proof.
  intros FF. rewrite eval_tree_eq. split.
  - destruct (lookup k (a_bins (eval_tree_direct q t))) as [s|] eqn:E; [intros _|congruence].
    apply (keys_touched_tree q t FF). eapply lookup_in. exact E.
  - intros T. destruct (agg_exact_field q t FF) as [_ O]. specialize (O k).
    destruct (lookup k (a_bins (eval_tree_direct q t))); [discriminate|].
    simpl in O. destruct O as [V N0]. unfold selected_docs in T. destruct T as [T|T]; [congruence|lia].
Qed.
