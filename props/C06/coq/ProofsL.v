(* C06 — the lock-step walk over the sourced OR tree finds, for every selected document, exactly the
   document's own group / field token: frac_run (the pass as the code does it) = frac_direct. *)
From Coq Require Import Lia Permutation Sorting.Sorted ZifyN ZifyNat.
From C06 Require Import Model.
Open Scope N_scope.

Definition le1 (a b : N * nat) : Prop := fst a <= fst b.
Definition ssorted (s : stream) : Prop := StronglySorted le1 s.

(* ---------------------------------------------------------------- nodeOrAgg: a sorted merge *)

Lemma or_agg_nil_r l : or_agg l [] = l.
Proof. destruct l as [|[a sa] l]; reflexivity. Qed.

Lemma or_agg_perm l : forall r, Permutation (or_agg l r) (l ++ r).
Proof.
  induction l as [|[a sa] l IHl]; intros r.
  - destruct r; simpl; apply Permutation_refl.
  - induction r as [|[b sb] r IHr].
    + rewrite or_agg_nil_r, app_nil_r. apply Permutation_refl.
    + cbn [or_agg]. destruct (a <? b).
      * simpl. constructor. apply IHl.
      * change ((fix aux (r0 : stream) : stream :=
                   match r0 with
                   | [] => (a, sa) :: l
                   | (b0, sb0) :: r' => if a <? b0 then (a, sa) :: or_agg l r0 else (b0, sb0) :: aux r'
                   end) r) with (or_agg ((a, sa) :: l) r).
        eapply Permutation_trans; [constructor; apply IHr|].
        apply (Permutation_middle ((a, sa) :: l) r (b, sb)).
Qed.

Lemma ssorted_cons_inv x s : ssorted (x :: s) -> ssorted s /\ Forall (le1 x) s.
Proof. intros H. inversion H; subst. split; assumption. Qed.

Lemma or_agg_sorted l : forall r, ssorted l -> ssorted r -> ssorted (or_agg l r).
Proof.
  induction l as [|[a sa] l IHl]; intros r Sl Sr.
  - destruct r; simpl; assumption.
  - induction r as [|[b sb] r IHr].
    + rewrite or_agg_nil_r. assumption.
    + cbn [or_agg]. destruct (N.ltb_spec a b).
      * destruct (ssorted_cons_inv _ _ Sl) as [Sl' Fl]. constructor; [apply IHl; assumption|].
        eapply Permutation_Forall; [apply Permutation_sym, or_agg_perm|].
        apply Forall_app. split; [assumption|].
        destruct (ssorted_cons_inv _ _ Sr) as [_ Fr]. constructor; [unfold le1; simpl; lia|].
        eapply Forall_impl; [|exact Fr]. intros x Hx. unfold le1 in *. simpl in *. lia.
      * change ((fix aux (r0 : stream) : stream :=
                   match r0 with
                   | [] => (a, sa) :: l
                   | (b0, sb0) :: r' => if a <? b0 then (a, sa) :: or_agg l r0 else (b0, sb0) :: aux r'
                   end) r) with (or_agg ((a, sa) :: l) r).
        destruct (ssorted_cons_inv _ _ Sr) as [Sr' Fr]. constructor; [apply IHr; assumption|].
        eapply Permutation_Forall; [apply Permutation_sym, or_agg_perm|].
        apply Forall_app. split; [|assumption].
        destruct (ssorted_cons_inv _ _ Sl) as [_ Fl]. constructor; [unfold le1; simpl; lia|].
        eapply Forall_impl; [|exact Fl]. intros x Hx. unfold le1 in *. simpl in *. lia.
Qed.

(* ---------------------------------------------------------------- TreeFold *)

Lemma tree_fold_ok fuel : forall vs, (length vs <= fuel)%nat -> (0 < fuel)%nat ->
  Forall ssorted vs ->
  Permutation (tree_fold fuel vs) (concat vs) /\ ssorted (tree_fold fuel vs).
Proof.
  induction fuel as [|f IH]; intros vs L P F; [lia|].
  destruct vs as [|v [|w vs]].
  - simpl. split; [constructor|constructor].
  - simpl. rewrite app_nil_r. inversion F; subst. split; [apply Permutation_refl|assumption].
  - cbn [tree_fold]. set (all := v :: w :: vs) in *. set (mid := Nat.div2 (length all)).
    assert (M1 : (1 <= mid)%nat) by (unfold mid, all; simpl; lia).
    assert (M2 : (mid < length all)%nat) by (unfold mid; apply Nat.lt_div2; unfold all; simpl; lia).
    assert (L1 : length (firstn mid all) = mid) by (apply firstn_length_le; lia).
    assert (L2 : length (skipn mid all) = (length all - mid)%nat) by apply skipn_length.
    assert (F1 : Forall ssorted (firstn mid all)).
    { rewrite Forall_forall in *. intros x I. apply F. rewrite <- (firstn_skipn mid all). apply in_or_app. left. exact I. }
    assert (F2 : Forall ssorted (skipn mid all)).
    { rewrite Forall_forall in *. intros x I. apply F. rewrite <- (firstn_skipn mid all). apply in_or_app. right. exact I. }
    destruct (IH (firstn mid all)) as [P1 S1]; [lia|lia|assumption|].
    destruct (IH (skipn mid all)) as [P2 S2]; [lia|lia|assumption|].
    split; [|apply or_agg_sorted; assumption].
    eapply Permutation_trans; [apply or_agg_perm|].
    rewrite <- (firstn_skipn mid all) at 3. rewrite concat_app. apply Permutation_app; assumption.
Qed.

(* ---------------------------------------------------------------- WrapWithSource *)

Lemma wrap_in lss : forall i0 l i,
  In (l, i) (concat (wrap_sources i0 lss)) <->
  exists ls, (i0 <= i)%nat /\ nth_error lss (i - i0) = Some ls /\ In l ls.
Proof.
  induction lss as [|ls r IH]; intros i0 l i; simpl.
  - split; [intros []|]. intros (ls & _ & H & _). destruct (i - i0)%nat; discriminate.
  - rewrite in_app_iff, IH, in_map_iff. split.
    + intros [(x & E & I)|(ls' & Hi & Hn & I)].
      * inversion E; subst. exists ls. rewrite Nat.sub_diag. auto.
      * exists ls'. split; [lia|]. replace (i - i0)%nat with (S (i - S i0)) by lia. auto.
    + intros (ls' & Hi & Hn & I). destruct (Nat.eq_dec i i0) as [->|Ne].
      * rewrite Nat.sub_diag in Hn. simpl in Hn. inversion Hn; subst. left. exists l. auto.
      * right. exists ls'. split; [lia|]. replace (i - i0)%nat with (S (i - S i0)) in Hn by lia. auto.
Qed.

Lemma wrap_sorted lss : forall i0, Forall (StronglySorted N.lt) lss -> Forall ssorted (wrap_sources i0 lss).
Proof.
  induction lss as [|ls r IH]; intros i0 F; simpl; [constructor|].
  inversion F as [|? ? S F']; subst. constructor; [|apply IH; assumption].
  clear -S. induction S as [|a l S IH Fa]; simpl; [constructor|].
  constructor; [assumption|]. rewrite Forall_map. eapply Forall_impl; [|exact Fa].
  intros x H. unfold le1. simpl. lia.
Qed.

Lemma wrap_length lss : forall i0, length (wrap_sources i0 lss) = length lss.
Proof. induction lss; intros; simpl; auto. Qed.

(* the stream of the whole OR tree: sorted, and (lid, i) occurs iff lid is in the i-th LID list *)
Lemma or_tree_agg_ok lss : Forall (StronglySorted N.lt) lss ->
  ssorted (or_tree_agg lss) /\
  forall l i, In (l, i) (or_tree_agg lss) <-> exists ls, nth_error lss i = Some ls /\ In l ls.
Proof.
  intros F. unfold or_tree_agg.
  destruct (tree_fold_ok (S (length lss)) (wrap_sources 0 lss)) as [P S].
  - rewrite wrap_length. lia.
  - lia.
  - apply wrap_sorted. assumption.
  - split; [assumption|]. intros l i. split.
    + intros I. apply (Permutation_in _ P) in I. apply wrap_in in I. destruct I as (ls & _ & Hn & I).
      rewrite Nat.sub_0_r in Hn. eauto.
    + intros (ls & Hn & I). apply (Permutation_in _ (Permutation_sym P)). apply wrap_in.
      exists ls. rewrite Nat.sub_0_r. split; [lia|auto].
Qed.

(* ---------------------------------------------------------------- ConsumeTokenSource *)

Lemma skip_skip s : forall l0 l, l0 <= l -> skip_below l (skip_below l0 s) = skip_below l s.
Proof.
  induction s as [|[a sa] s IH]; intros l0 l H; simpl; [reflexivity|].
  destruct (N.ltb_spec a l0).
  - rewrite IH by assumption. destruct (N.ltb_spec a l); [reflexivity|lia].
  - reflexivity.
Qed.

Lemma skip_zero s : skip_below 0 s = s.
Proof. destruct s as [|[a sa] s]; simpl; [reflexivity|]. destruct (N.ltb_spec a 0); [lia|reflexivity]. Qed.

Lemma consume_snd l s : snd (consume l s) = skip_below l s.
Proof. unfold consume. destruct (skip_below l s) as [|[a sa] r]; [reflexivity|]. destruct (a =? l); reflexivity. Qed.

Lemma consume_skip l0 l s : l0 <= l -> consume l (skip_below l0 s) = consume l s.
Proof. intros H. unfold consume. rewrite skip_skip by assumption. reflexivity. Qed.

Lemma consume_found s : forall l i, ssorted s -> In (l, i) s -> (forall j, In (l, j) s -> j = i) ->
  fst (consume l s) = Some i.
Proof.
  induction s as [|[a sa] s IH]; intros l i S I U; [destruct I|].
  unfold consume. simpl. destruct (N.ltb_spec a l) as [Lt|Ge].
  - destruct I as [E|I]; [inversion E; lia|].
    destruct (ssorted_cons_inv _ _ S) as [S' _].
    apply (IH l i S' I). intros j Hj. apply U. right. exact Hj.
  - assert (a = l).
    { destruct I as [E|I]; [inversion E; reflexivity|].
      destruct (ssorted_cons_inv _ _ S) as [_ F]. rewrite Forall_forall in F. specialize (F _ I).
      unfold le1 in F. simpl in F. lia. }
    subst a. rewrite N.eqb_refl. simpl. f_equal. apply U. left. reflexivity.
Qed.

Lemma skip_below_in l s x : In x (skip_below l s) -> In x s.
Proof.
  induction s as [|[a sa] s IH]; simpl; [auto|]. destruct (a <? l); [intros H; right; apply IH; exact H|auto].
Qed.

Lemma consume_none s l : (forall j, ~ In (l, j) s) -> fst (consume l s) = None.
Proof.
  intros H. unfold consume. destruct (skip_below l s) as [|[a sa] r] eqn:E; [reflexivity|].
  destruct (N.eqb_spec a l) as [->|]; [|reflexivity].
  exfalso. apply (H sa). apply (skip_below_in l). rewrite E. left. reflexivity.
Qed.

(* ---------------------------------------------------------------- the token table of one field *)

Section Table.
  Context {K : Type}.
  Variable eqb : K -> K -> bool.
  Hypothesis eqb_spec : forall a b, reflect (a = b) (eqb a b).
  Variable proj : doc -> option K.
  Variable all : list doc.

  (* token of the document with LID l (LIDs start at 1) *)
  Definition tok_at (l : N) : option K :=
    if l =? 0 then None else match nth_error all (N.to_nat l - 1) with Some d => proj d | None => None end.

  Record tab_ok (tab : list (K * list N)) (hi : N) : Prop := {
    t_in : forall t ls, In (t, ls) tab -> forall l, In l ls <-> (1 <= l < hi /\ tok_at l = Some t);
    t_nodup : NoDup (map fst tab);
    t_all : forall l t, 1 <= l < hi -> tok_at l = Some t -> In t (map fst tab);
    t_sorted : forall t ls, In (t, ls) tab -> StronglySorted N.lt ls
  }.

  Lemma add_lid_keys t0 l tab : forall x, In x (map fst (add_lid eqb t0 l tab)) <-> x = t0 \/ In x (map fst tab).
  Proof.
    induction tab as [|[t ls] tab IH]; intros x; simpl; [intuition|].
    destruct (eqb_spec t0 t) as [->|]; simpl; [intuition|]. rewrite IH. intuition.
  Qed.

  Lemma add_lid_nodup t0 l tab : NoDup (map fst tab) -> NoDup (map fst (add_lid eqb t0 l tab)).
  Proof.
    induction tab as [|[t ls] tab IH]; simpl; intros ND; [constructor; [intros []|constructor]|].
    inversion ND as [|? ? NI ND']; subst. destruct (eqb_spec t0 t) as [->|]; simpl.
    - constructor; assumption.
    - constructor; [|auto]. rewrite add_lid_keys. intros [->|H]; [congruence|contradiction].
  Qed.

  Lemma add_lid_in t0 l tab : NoDup (map fst tab) -> forall t ls, In (t, ls) (add_lid eqb t0 l tab) ->
    (t <> t0 /\ In (t, ls) tab) \/
    (t = t0 /\ ((ls = [l] /\ ~ In t0 (map fst tab)) \/ exists ls0, In (t0, ls0) tab /\ ls = ls0 ++ [l])).
  Proof.
    induction tab as [|[t1 ls1] tab IH]; simpl; intros ND t ls I.
    - destruct I as [E|[]]. inversion E; subst. right. split; [reflexivity|]. left. split; [reflexivity|tauto].
    - inversion ND as [|? ? NI ND']; subst. destruct (eqb_spec t0 t1) as [->|Ne]; simpl in I.
      + destruct I as [E|I].
        * inversion E; subst. right. split; [reflexivity|]. right. exists ls1. split; [left; reflexivity|reflexivity].
        * left. split; [|right; exact I]. intros ->. apply NI. apply (in_map fst) in I. exact I.
      + destruct I as [E|I].
        * inversion E; subst. left. split; [congruence|left; reflexivity].
        * destruct (IH ND' t ls I) as [[A B]|[A [[B C]|(ls0 & B & C)]]].
          -- left. split; [assumption|right; assumption].
          -- right. split; [assumption|]. left. split; [assumption|]. intros [H|H]; [congruence|contradiction].
          -- right. split; [assumption|]. right. exists ls0. split; [right; assumption|assumption].
  Qed.

  Lemma sorted_snoc ls l : StronglySorted N.lt ls -> (forall x, In x ls -> x < l) -> StronglySorted N.lt (ls ++ [l]).
  Proof.
    induction 1 as [|a ls S IH F]; intros H; simpl.
    - constructor; constructor.
    - constructor; [apply IH; intros x I; apply H; right; exact I|].
      apply Forall_app. split; [assumption|]. constructor; [apply H; left; reflexivity|constructor].
  Qed.

  Lemma token_table_ok ds : forall pre tab,
    all = pre ++ ds -> tab_ok tab (N.of_nat (length pre) + 1) ->
    tab_ok (token_table eqb proj (N.of_nat (length pre) + 1) ds tab) (N.of_nat (length all) + 1).
  Proof.
    induction ds as [|d ds IH]; intros pre tab E T; simpl.
    - assert (EL : length all = length pre) by (rewrite E, app_nil_r; reflexivity). rewrite EL. exact T.
    - set (hi := N.of_nat (length pre) + 1) in *.
      assert (Hd : tok_at hi = proj d).
      { unfold tok_at. destruct (N.eqb_spec hi 0); [lia|].
        replace (N.to_nat hi - 1)%nat with (length pre) by lia. rewrite E. rewrite nth_error_app2 by lia.
        rewrite Nat.sub_diag. reflexivity. }
      replace (N.succ hi) with (N.of_nat (length (pre ++ [d])) + 1) by (rewrite app_length; simpl; lia).
      apply IH; [rewrite <- app_assoc; exact E|].
      replace (N.of_nat (length (pre ++ [d])) + 1) with (hi + 1) by (rewrite app_length; simpl; lia).
      destruct T as [Tin Tnd Tall Tso]. destruct (proj d) as [t0|] eqn:P.
      + constructor.
        * intros t ls I l. destruct (add_lid_in t0 hi tab Tnd t ls I) as [[A B]|[A [[B C]|(ls0 & B & C)]]].
          -- rewrite (Tin t ls B l). split; [intros [H1 H2]; split; [lia|assumption]|].
             intros [H1 H2]. split; [|assumption]. destruct (N.eq_dec l hi) as [->|]; [|lia]. congruence.
          -- subst. simpl. split.
             ++ intros [<-|[]]. split; [lia|assumption].
             ++ intros [H1 H2]. destruct (N.eq_dec l hi) as [->|]; [left; reflexivity|].
                exfalso. apply C. apply (Tall l t0); [lia|assumption].
          -- subst. rewrite in_app_iff. rewrite (Tin t0 ls0 B l). simpl. split.
             ++ intros [[H1 H2]|[<-|[]]]; (split; [lia|assumption]).
             ++ intros [H1 H2]. destruct (N.eq_dec l hi) as [->|]; [right; left; reflexivity|left; split; [lia|assumption]].
        * apply add_lid_nodup. assumption.
        * intros l t H1 H2. rewrite add_lid_keys. destruct (N.eq_dec l hi) as [->|].
          -- left. congruence.
          -- right. apply (Tall l t); [lia|assumption].
        * intros t ls I. destruct (add_lid_in t0 hi tab Tnd t ls I) as [[A B]|[A [[B C]|(ls0 & B & C)]]].
          -- apply (Tso t ls B).
          -- subst. constructor; constructor.
          -- subst. apply sorted_snoc; [apply (Tso t0 ls0 B)|]. intros x Hx. apply (Tin t0 ls0 B x) in Hx. lia.
      + constructor; try assumption.
        * intros t ls I l. rewrite (Tin t ls I l). split; [intros [H1 H2]; split; [lia|assumption]|].
          intros [H1 H2]. split; [|assumption]. destruct (N.eq_dec l hi) as [->|]; [congruence|lia].
        * intros l t H1 H2. destruct (N.eq_dec l hi) as [->|]; [congruence|]. apply (Tall l t); [lia|assumption].
  Qed.

  Lemma tab_ok_empty : tab_ok [] 1.
  Proof. constructor; simpl; intros; try tauto; try lia. constructor. Qed.

  (* what the iterator answers for the document with LID l *)
  Lemma table_stream l d :
    let tab := token_table eqb proj 1 all [] in
    1 <= l -> nth_error all (N.to_nat l - 1) = Some d ->
    src_token tab (fst (consume l (or_tree_agg (map snd tab)))) = proj d.
  Proof.
    intros tab L Hd.
    assert (T : tab_ok tab (N.of_nat (length all) + 1)).
    { apply (token_table_ok all [] []); [reflexivity|apply tab_ok_empty]. }
    destruct T as [Tin Tnd Tall Tso].
    assert (Hi : l < N.of_nat (length all) + 1).
    { assert (N.to_nat l - 1 < length all)%nat by (apply nth_error_Some; congruence). lia. }
    assert (Ht : tok_at l = proj d).
    { unfold tok_at. destruct (N.eqb_spec l 0); [lia|]. rewrite Hd. reflexivity. }
    destruct (or_tree_agg_ok (map snd tab)) as [GS GI].
    { rewrite Forall_forall. intros ls I. apply in_map_iff in I. destruct I as ([t ls'] & E & I). simpl in E. subst.
      apply (Tso t ls I). }
    assert (Entry : forall j, In (l, j) (or_tree_agg (map snd tab)) ->
                    exists t ls, nth_error tab j = Some (t, ls) /\ tok_at l = Some t).
    { intros j I. apply GI in I. destruct I as (ls & Hn & Il).
      destruct (nth_error tab j) as [[t ls']|] eqn:En.
      - rewrite (map_nth_error snd j tab En) in Hn. inversion Hn; subst. exists t, ls. split; [reflexivity|].
        apply (Tin t ls (nth_error_In _ _ En) l). exact Il.
      - rewrite nth_error_map, En in Hn. discriminate. }
    destruct (proj d) as [t|] eqn:P.
    - assert (It : In t (map fst tab)) by (apply (Tall l t); [lia|congruence]).
      apply in_map_iff in It. destruct It as ([t' ls] & E & I). simpl in E. subst t'.
      destruct (In_nth_error _ _ I) as [i Hi'].
      rewrite (consume_found _ l i GS).
      + simpl. rewrite Hi'. reflexivity.
      + apply GI. exists ls. split; [apply (map_nth_error snd i tab Hi')|]. apply (Tin t ls I l). split; [lia|congruence].
      + intros j Hj. destruct (Entry j Hj) as (t' & ls' & Hn & Ht').
        assert (t' = t) by congruence. subst t'.
        apply (proj1 (NoDup_nth_error (map fst tab)) Tnd j i).
        * rewrite map_length. apply nth_error_Some. congruence.
        * rewrite (map_nth_error fst j tab Hn), (map_nth_error fst i tab Hi'). reflexivity.
    - rewrite consume_none; [reflexivity|]. intros j Hj. destruct (Entry j Hj) as (t' & ls' & _ & Ht'). congruence.
  Qed.
End Table.

(* ---------------------------------------------------------------- the whole pass over one fraction *)

Lemma step_no_group q mid g g' f st : uses_group q = false -> step q mid g f st = step q mid g' f st.
Proof. unfold uses_group, step. destruct (q_func q), (q_group q); simpl; intros; try discriminate; reflexivity. Qed.

Lemma step_no_field q mid g f f' st : uses_field q = false -> step q mid g f st = step q mid g f' st.
Proof. unfold uses_field, step. destruct (q_func q); simpl; intros; try discriminate; reflexivity. Qed.

Section Walk.
  Variable q : query.
  Variable all : list doc.
  Let gtab := token_table N.eqb d_grp 1 all [].
  Let ftab := token_table Z.eqb d_fld 1 all [].
  Let G := or_tree_agg (map snd gtab).
  Let F := or_tree_agg (map snd ftab).

  Lemma walk_direct ds : forall pre g0 f0 st,
    all = pre ++ ds ->
    g0 <= N.of_nat (length pre) + 1 -> f0 <= N.of_nat (length pre) + 1 ->
    walk q gtab ftab (N.of_nat (length pre) + 1) ds (skip_below g0 G) (skip_below f0 F) st =
    fold_left (fun st d => if selected (q_from q) (q_to q) d
                           then step q (d_mid d) (d_grp d) (d_fld d) st else st) ds st.
  Proof.
    induction ds as [|d ds IH]; intros pre g0 f0 st E Hg Hf; [reflexivity|].
    set (lid := N.of_nat (length pre) + 1) in *.
    assert (Hd : nth_error all (N.to_nat lid - 1) = Some d).
    { replace (N.to_nat lid - 1)%nat with (length pre) by lia. rewrite E, nth_error_app2 by lia.
      rewrite Nat.sub_diag. reflexivity. }
    assert (EL : N.succ lid = N.of_nat (length (pre ++ [d])) + 1) by (rewrite app_length; simpl; lia).
    assert (E' : all = (pre ++ [d]) ++ ds) by (rewrite <- app_assoc; exact E).
    cbn [walk fold_left]. destruct (selected (q_from q) (q_to q) d).
    - assert (HG : src_token gtab (fst (consume lid G)) = d_grp d).
      { apply (table_stream N.eqb N.eqb_spec d_grp all lid d); [lia|exact Hd]. }
      assert (HF : src_token ftab (fst (consume lid F)) = d_fld d).
      { apply (table_stream Z.eqb Z.eqb_spec d_fld all lid d); [lia|exact Hd]. }
      destruct (uses_group q) eqn:UG; destruct (uses_field q) eqn:UF;
        rewrite ?(consume_skip g0 lid G Hg), ?(consume_skip f0 lid F Hf).
      + destruct (consume lid G) as [gs git'] eqn:CG. destruct (consume lid F) as [fs fit'] eqn:CF.
        pose proof (consume_snd lid G) as SG. pose proof (consume_snd lid F) as SF. rewrite CG in SG. rewrite CF in SF.
        simpl in *. subst git' fit'. rewrite HG, HF. rewrite EL. apply IH; [exact E'|lia|lia].
      + destruct (consume lid G) as [gs git'] eqn:CG.
        pose proof (consume_snd lid G) as SG. rewrite CG in SG. simpl in *. subst git'. rewrite HG.
        rewrite (step_no_field q _ _ (src_token ftab None) (d_fld d)) by assumption.
        rewrite EL. apply IH; [exact E'|lia|lia].
      + destruct (consume lid F) as [fs fit'] eqn:CF.
        pose proof (consume_snd lid F) as SF. rewrite CF in SF. simpl in *. subst fit'. rewrite HF.
        rewrite (step_no_group q _ (src_token gtab None) (d_grp d)) by assumption.
        rewrite EL. apply IH; [exact E'|lia|lia].
      + rewrite (step_no_group q _ (src_token gtab None) (d_grp d)) by assumption.
        rewrite (step_no_field q _ _ (src_token ftab None) (d_fld d)) by assumption.
        rewrite EL. apply IH; [exact E'|lia|lia].
    - rewrite EL. apply IH; [exact E'|lia|lia].
  Qed.
End Walk.

(* the pass as the code does it (token tables, sourced OR trees, lock-step iterators) computes exactly
   the direct per-document pass *)
Lemma frac_run_direct q ds : frac_run q ds = frac_direct q ds.
Proof.
  unfold frac_run, frac_direct. f_equal.
  pose proof (walk_direct q ds ds [] 0 0 empty_aggs eq_refl) as W. simpl in W.
  rewrite !skip_zero in W. apply W; lia.
Qed.
