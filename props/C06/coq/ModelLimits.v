(* C06 — executable model of the aggregation LIMITS and of the token-value cache.  No proofs in this file.

   Mirrors (frac/processor/aggregator.go, eval_tree.go, search.go; configuration frac.Config.Search.AggLimits,
   set from the flags agg-max-field-tokens (default 1000000), agg-max-group-tokens (2000),
   agg-max-fraction-tids (100000); 0 = limit off — every test environment of the repository runs with 0):

     iteratorFromLiteral        len(tids) > MaxTIDsPerFraction > 0  => ErrTooManyUniqValues (before any document
                                is visited; counts ALL tokens of the field in the fraction, selected or not)
     SourcedNodeIterator.ConsumeTokenSource
                                with uniqSourcesLimit > 0 every found source is counted (countBySource[src]++)
                                and the call fails as soon as len(countBySource) > uniqSourcesLimit
                                (group iterator: MaxGroupTokens, field iterator: MaxFieldTokens);
                                with the limit off nothing is counted (countBySource stays empty)
     SourcedNodeIterator.ValueBySource
                                countBySource[src] < 2  => GetValByTID(tids[src]) directly;
                                otherwise the per-iterator cache tokensCache, looked up AND filled by source
     IndexSearch                after Aggregate(): len(SamplesByBin) > MaxGroupTokens > 0 => ErrTooManyUniqValues
                                (counts BINS: (time bucket, token) pairs, the legacy "_not_exists" bin included,
                                also for an aggregation without group_by, where the bins are the time buckets)
   Every limit only rejects: there is no truncation anywhere.  A fraction that fails makes the whole search
   fail (Searcher, store API: the error is passed on; proxy: "store forbids aggregation request"). *)
From Coq Require Import List Bool ZArith NArith.
From C06 Require Import Model.
Import ListNotations.
Open Scope N_scope.

Record limits := Limits { l_field : N; l_group : N; l_tids : N }.

Definition limits_off : limits := Limits 0 0 0.
Definition limits_prod : limits := Limits 1000000 2000 100000.

(* "n > limit && limit > 0" *)
Definition over (limit n : N) : bool := (0 <? limit) && (limit <? n).

(* ---------------------------------------------------------------- ConsumeTokenSource with a limit *)

(* countBySource as the list of every counted source (its keys = the distinct elements, the count of a
   source = its number of occurrences) *)
Definition counted := list nat.

Definition mem_nat (x : nat) (l : list nat) : bool := existsb (Nat.eqb x) l.

Fixpoint distinct (l : list nat) : list nat :=
  match l with
  | [] => []
  | x :: r => if mem_nat x r then distinct r else x :: distinct r
  end.

Definition nkeys (c : counted) : N := N.of_nat (length (distinct c)).
Definition count_of (c : counted) (src : nat) : N := N.of_nat (length (filter (Nat.eqb src) c)).

(* what the limit part of ConsumeTokenSource does with a found source: (new countBySource, failed?) *)
Definition note (limit : N) (src : nat) (c : counted) : counted * bool :=
  if limit =? 0 then (c, false)
  else let c' := src :: c in (c', limit <? nkeys c').

(* one call: the lock-step part is Model.consume *)
Definition consume_lim (limit lid : N) (st : stream * counted) : (option nat * bool) * (stream * counted) :=
  let '(o, s') := consume lid (fst st) in
  match o with
  | None => ((None, false), (s', snd st))
  | Some src => let '(c', e) := note limit src (snd st) in ((Some src, e), (s', c'))
  end.

(* ---------------------------------------------------------------- ValueBySource and its cache *)

(* token values are ids (N); GetValByTID is a table tid -> value id *)
Definition cache := list (N * N).

Fixpoint cget (k : N) (c : cache) : option N :=
  match c with
  | [] => None
  | (k', v) :: r => if k =? k' then Some v else cget k r
  end.

(* the key discipline: which key the lookup / the fill uses, given (source, tid) *)
Record keying := Keying { k_get : N -> N -> N; k_put : N -> N -> N }.
(* the code: looked up and filled by source *)
Definition key_code : keying := Keying (fun s _ => s) (fun s _ => s).
(* the half re-keyed variant (NOT the code): looked up by TID, still filled by source *)
Definition key_by_tid_get : keying := Keying (fun _ t => t) (fun s _ => s).
(* consistently keyed by TID (NOT the code; equally correct) *)
Definition key_by_tid : keying := Keying (fun _ t => t) (fun _ t => t).

Definition tid_of (tids : list N) (src : N) : N := nth (N.to_nat src) tids 0.

Definition value_by_source (kd : keying) (tids : list N) (val : N -> N) (cnt : N -> N)
           (src : N) (c : cache) : N * cache :=
  let tid := tid_of tids src in
  if cnt src <? 2 then (val tid, c)
  else match cget (k_get kd src tid) c with
       | Some v => (v, c)
       | None => (val tid, (k_put kd src tid, val tid) :: c)
       end.

(* a sequence of lookups, starting from any cache *)
Fixpoint lookups (kd : keying) (tids : list N) (val : N -> N) (cnt : N -> N) (srcs : list N) (c : cache) : list N :=
  match srcs with
  | [] => []
  | s :: r => let '(v, c') := value_by_source kd tids val cnt s c in v :: lookups kd tids val cnt r c'
  end.

(* GetValByTID as a table *)
Fixpoint val_of (tab : list (N * N)) (tid : N) : N :=
  match tab with
  | [] => 0
  | (t, v) :: r => if tid =? t then v else val_of r tid
  end.

(* one iterator driven as the aggregators drive it: ConsumeTokenSource for the LIDs in order (stopping at the
   first failure, as the search does), then ValueBySource for the requested sources *)
Fixpoint consume_all (limit : N) (lids : list N) (st : stream * counted) : list (option nat * bool) * counted :=
  match lids with
  | [] => ([], snd st)
  | l :: r => let '((o, e), st') := consume_lim limit l st in
              if e then ([(o, true)], snd st')
              else let '(outs, c) := consume_all limit r st' in ((o, false) :: outs, c)
  end.

Definition iter_run (kd : keying) (limit : N) (tids : list N) (vtab : list (N * N)) (lidlists : list (list N))
           (lids : list N) (srcs : list N) : list (option nat * bool) * list N :=
  let '(outs, c) := consume_all limit lids (or_tree_agg lidlists, []) in
  (outs, lookups kd tids (val_of vtab) (fun s => count_of c (N.to_nat s)) srcs []).

(* ---------------------------------------------------------------- one fraction with limits *)

(* the lock-step walk of Model.walk with the counting of ConsumeTokenSource: group iterator first, then the
   field iterator (TwoSourceAggregator.Next; the single-source aggregators have one of them).  None = the
   search fails with ErrTooManyUniqValues. *)
Fixpoint walk_lim (lim : limits) (q : query) (gtab : list (N * list N)) (ftab : list (Z * list N))
         (lid : N) (ds : list doc) (git fit : stream) (gc fc : counted) (st : aggs) : option aggs :=
  match ds with
  | [] => Some st
  | d :: r =>
      if selected (q_from q) (q_to q) d then
        let '((gs, ge), (git', gc')) :=
          if uses_group q then consume_lim (l_group lim) lid (git, gc) else ((None, false), (git, gc)) in
        if ge then None else
        let '((fs, fe), (fit', fc')) :=
          if uses_field q then consume_lim (l_field lim) lid (fit, fc) else ((None, false), (fit, fc)) in
        if fe then None else
        walk_lim lim q gtab ftab (N.succ lid) r git' fit' gc' fc'
                 (step q (d_mid d) (src_token gtab gs) (src_token ftab fs) st)
      else walk_lim lim q gtab ftab (N.succ lid) r git fit gc fc st
  end.

Definition tlen {K} (tab : list (K * list N)) : N := N.of_nat (length tab).

(* IndexSearch for one aggregation over one fraction.  (In a [doc] the field token is identified by its value;
   the correspondence cases for the limits carry the field token's id in that place, so that two tokens with the
   same numeric value, "1" and "1.0", stay two tokens.) *)
Definition frac_run_lim (lim : limits) (q : query) (ds : list doc) : option aggs :=
  let gtab := token_table N.eqb d_grp 1 ds [] in
  let ftab := token_table Z.eqb d_fld 1 ds [] in
  if (uses_field q && over (l_tids lim) (tlen ftab)) || (uses_group q && over (l_tids lim) (tlen gtab)) then None
  else match walk_lim lim q gtab ftab 1 ds (or_tree_agg (map snd gtab)) (or_tree_agg (map snd ftab)) [] [] empty_aggs with
       | None => None
       | Some st => let a := finish q st in
                    if over (l_group lim) (N.of_nat (length (a_bins a))) then None else Some a
       end.

(* the fractions a search visits, merged in the shape of the tree; a failing fraction fails the search *)
Fixpoint eval_tree_lim (lim : limits) (q : query) (t : mtree) : option aggs :=
  match t with
  | Leaf ds => frac_run_lim lim q ds
  | Node l r => match eval_tree_lim lim q l, eval_tree_lim lim q r with
                | Some a, Some b => Some (merge_aggs (q_scale q) a b)
                | _, _ => None
                end
  end.

(* does the search (one or several aggregations, each with its own view of the documents) fail? *)
Definition search_fails (lim : limits) (parts : list (query * mtree)) : bool :=
  existsb (fun qt => match eval_tree_lim lim (fst qt) (snd qt) with None => true | Some _ => false end) parts.

(* ---------------------------------------------------------------- parseNum
   The accepted language and the value are strconv.ParseFloat's (an ORACLE the harness consults itself, it never
   asks the code under test): [bits] is the IEEE pattern ParseFloat returns for the token, a NaN pattern when it
   reports a syntax error, +-Inf for a range error.  parseNum accepts exactly the finite ones and returns that
   very value (ModelFloat.bits_finite / sf_of_bits). *)
