(* C06 — executable model of the FLOAT64 data path of the aggregations.  No proofs in this file.

   Mirrors, operation by operation and in the order the code performs them:
     seq/qpr.go   NewSamplesContainers (Min = float64(MaxInt64) = 2^63, Max = float64(MinInt64) = -2^63, Sum = +0)
                  SamplesContainer.InsertNTimes   Min/Max (Go builtin min/max on float64), Sum += num * float64(cnt)
                  SamplesContainer.Merge          Total = 0 cases, min/max, h.Sum += hist.Sum
                  getAggBucket                    Sum / Min / Max, Avg = Sum / float64(Total), NaN for Total = 0
     frac/processor/aggregator.go
                  parseNum                        strconv.ParseFloat value; NaN / +-Inf / unparsable => error
                  SingleSourceHistogramAggregator.Next   one InsertNTimes(num, 1) per selected document, in the
                                                  order the search visits the documents (ID order, see harness)
                  TwoSourceAggregator.Next/Aggregate     countBySource[(bin, group, FIELD TOKEN)]++, then ONE
                                                  InsertNTimes(num, cnt) per map entry — in Go's unspecified map
                                                  iteration order, which the case supplies as a witness
                                                  ([fl_order]) that the model validates (a permutation of the
                                                  entries) before using it.
   Arithmetic: IEEE 754 binary64, round to nearest even, as the Coq standard library specifies it on
   [spec_float] (Coq.Floats.SpecFloat: SFadd / SFmul / SFdiv / SFcompare / binary_normalize with prec = 53,
   emax = 1024) — pure computation, no real numbers.  ProofsFloat.v links these operations to Flocq's
   Bplus / Bmult / Bdiv / Bcompare / binary_normalize (mode_NE), whose correctness theorems speak about R.
   Values enter and leave as IEEE bit patterns (Z, 0 <= z < 2^64); all NaNs are one value (canonical
   pattern 0x7FF8000000000000) — the payload of a NaN is not an observable.
   Not modelled: fused multiply-add (Go fuses x*y+z on arm64/ppc64/s390x/riscv64 and on amd64 only with
   GOAMD64=v3; the run is amd64 v1, every operation is rounded on its own), int64 wrap of Total. *)
From Coq Require Import ZArith List Bool SpecFloat.
From C06 Require Import Model.
Import ListNotations.
Open Scope Z_scope.

Definition sf := spec_float.

Definition fadd : sf -> sf -> sf := SFadd 53 1024.
Definition fmul : sf -> sf -> sf := SFmul 53 1024.
Definition fdiv : sf -> sf -> sf := SFdiv 53 1024.
(* float64(int64) *)
Definition of_int (z : Z) : sf := binary_normalize 53 1024 z 0 false.

(* ---------------------------------------------------------------- bit patterns *)

Definition sf_of_bits (z0 : Z) : sf :=
  let z := z0 mod 2 ^ 64 in
  let s := 2 ^ 63 <=? z in
  let e := (z / 2 ^ 52) mod 2 ^ 11 in
  let m := z mod 2 ^ 52 in
  if e =? 0 then match m with Zpos p => S754_finite s p (-1074) | _ => S754_zero s end
  else if e =? 2047 then (if m =? 0 then S754_infinity s else S754_nan)
  else match m + 2 ^ 52 with Zpos p => S754_finite s p (e - 1075) | _ => S754_nan end.

Definition nan_bits : Z := 0x7FF8000000000000.

Definition bits_of_sf (x : sf) : Z :=
  let sb (s : bool) := if s then 2 ^ 63 else 0 in
  match x with
  | S754_zero s => sb s
  | S754_infinity s => sb s + 2047 * 2 ^ 52
  | S754_nan => nan_bits
  | S754_finite s m e =>
      sb s + (if Zpos m <? 2 ^ 52 then Zpos m else (e + 1075) * 2 ^ 52 + (Zpos m - 2 ^ 52))
  end.

Definition sf_is_nan (x : sf) : bool := match x with S754_nan => true | _ => false end.
Definition sf_is_zero (x : sf) : bool := match x with S754_zero _ => true | _ => false end.
Definition sf_finite (x : sf) : bool := match x with S754_zero _ | S754_finite _ _ _ => true | _ => false end.
Definition sf_sign (x : sf) : bool :=
  match x with S754_zero s | S754_infinity s | S754_finite s _ _ => s | S754_nan => false end.
Definition sf_valid (x : sf) : bool := valid_binary 53 1024 x.

(* equality of observables: the bit pattern, all NaNs identified *)
Definition sf_eqb (x y : sf) : bool := bits_of_sf x =? bits_of_sf y.

(* Go's builtin min / max on float64 (runtime fmin/fmax): NaN if either is NaN; -0 < +0 *)
Definition gmin (x y : sf) : sf :=
  match SFcompare x y with
  | None => S754_nan
  | Some Lt => x
  | Some Gt => y
  | Some Eq => if sf_is_zero x then (if sf_sign x then x else y) else x
  end.

Definition gmax (x y : sf) : sf :=
  match SFcompare x y with
  | None => S754_nan
  | Some Gt => x
  | Some Lt => y
  | Some Eq => if sf_is_zero x then (if sf_sign x then y else x) else x
  end.

(* ---------------------------------------------------------------- SamplesContainer, float fields *)

Record fsumm := FSumm { f_min : sf; f_max : sf; f_sum : sf; f_total : Z }.

(* NewSamplesContainers *)
Definition fnew : fsumm := FSumm (of_int (2 ^ 63 - 1)) (of_int (- 2 ^ 63)) (S754_zero false) 0.

(* InsertNTimes(num, cnt) *)
Definition finsert_n (v : sf) (cnt : Z) (s : fsumm) : fsumm :=
  FSumm (if f_total s =? 0 then v else gmin (f_min s) v)
        (if f_total s =? 0 then v else gmax (f_max s) v)
        (fadd (f_sum s) (fmul v (of_int cnt)))
        (f_total s + cnt).

(* SamplesContainer.Merge: h.Merge(x) *)
Definition fmerge (h x : fsumm) : fsumm :=
  if f_total x =? 0 then h
  else FSumm (if f_total h =? 0 then f_min x else gmin (f_min h) (f_min x))
             (if f_total h =? 0 then f_max x else gmax (f_max h) (f_max x))
             (fadd (f_sum h) (f_sum x))
             (f_total h + f_total x).

(* what ONE bin goes through: every leaf is one fraction's sequence of InsertNTimes calls on a fresh
   container, inner nodes are Merge in the shape of the merge tree.  (A fraction or partial result that
   does not have the bin is the empty leaf: merging it changes nothing, merging INTO it is the merge into
   the fresh container that AggregatableSamples.Merge creates.) *)
Inductive stree := SLeaf (es : list (sf * Z)) | SNode (l r : stree).

Definition eval_leaf (es : list (sf * Z)) : fsumm :=
  fold_left (fun s e => finsert_n (fst e) (snd e) s) es fnew.

Fixpoint eval_stree (t : stree) : fsumm :=
  match t with
  | SLeaf es => eval_leaf es
  | SNode l r => fmerge (eval_stree l) (eval_stree r)
  end.

Fixpoint sentries (t : stree) : list (sf * Z) :=
  match t with
  | SLeaf es => es
  | SNode l r => sentries l ++ sentries r
  end.

(* getAggBucket for sum / min / max / avg *)
Definition fvalue (f : func) (s : fsumm) : sf :=
  if f_total s =? 0 then S754_nan
  else match f with
       | FSum => f_sum s
       | FMin => f_min s
       | FMax => f_max s
       | FAvg => fdiv (f_sum s) (of_int (f_total s))
       | _ => S754_nan
       end.

(* ---------------------------------------------------------------- documents, fractions, merge trees *)

(* a document as one aggregation sees it; the field is (token id, bit pattern strconv.ParseFloat gives
   for the token — a NaN pattern when the token does not parse) *)
Record fdoc := FDoc { fd_mid : N; fd_match : bool; fd_grp : option N; fd_fld : option (N * Z) }.

(* one fraction: its documents in the order the search visits them, and (TwoSourceAggregator only) the
   order in which Aggregate() ranged over countBySource: keys (time bucket, group token, field token) *)
Definition key3 := (N * N * N)%type.
Record fleaf := FLeafR { fl_docs : list fdoc; fl_order : list key3 }.
Inductive ftree := FLeaf (l : fleaf) | FNode (l r : ftree).

Definition fselected (q : query) (d : fdoc) : bool :=
  fd_match d && (q_from q <=? fd_mid d)%N && (fd_mid d <=? q_to q)%N.

Definition key3_eqb (a b : key3) : bool :=
  (fst (fst a) =? fst (fst b))%N && (snd (fst a) =? snd (fst b))%N && (snd a =? snd b)%N.

(* countBySource: (key, (bits, count)), first-appearance order *)
Definition ctab := list (key3 * (Z * Z)).

Fixpoint cbump (k : key3) (bits : Z) (m : ctab) : ctab :=
  match m with
  | [] => [(k, (bits, 1))]
  | (k', (b, c)) :: r => if key3_eqb k k' then (k', (b, c + 1)) :: r else (k', (b, c)) :: cbump k bits r
  end.

Fixpoint clookup (k : key3) (m : ctab) : option (Z * Z) :=
  match m with
  | [] => None
  | (k', v) :: r => if key3_eqb k k' then Some v else clookup k r
  end.

(* TwoSourceAggregator.Next over the selected documents *)
Definition count_table (q : query) (ds : list fdoc) : ctab :=
  fold_left (fun m d =>
               if fselected q d then
                 match fd_grp d, fd_fld d with
                 | Some g, Some (tok, bits) => cbump (bucket_of (q_interval q) (fd_mid d), g, tok) bits m
                 | _, _ => m
                 end
               else m) ds [].

Fixpoint nodup3 (l : list key3) : bool :=
  match l with
  | [] => true
  | k :: r => negb (existsb (key3_eqb k) r) && nodup3 r
  end.

(* the witness is a permutation of the table's keys *)
Definition order_ok (q : query) (l : fleaf) : bool :=
  if q_group q then
    let tab := count_table q (fl_docs l) in
    (length (fl_order l) =? length tab)%nat && nodup3 (fl_order l) &&
    forallb (fun k => match clookup k tab with Some _ => true | None => false end) (fl_order l)
  else true.

Definition bits_finite (b : Z) : bool := sf_finite (sf_of_bits b).

(* parseNum fails: the fraction's search returns an error *)
Definition leaf_err (q : query) (l : fleaf) : bool :=
  if q_group q then existsb (fun e => negb (bits_finite (fst (snd e)))) (count_table q (fl_docs l))
  else existsb (fun d => fselected q d &&
                         match fd_fld d with Some (_, b) => negb (bits_finite b) | None => false end) (fl_docs l).

(* the InsertNTimes calls one fraction performs on bin k, in order *)
Definition leaf_entries (q : query) (k : key) (l : fleaf) : list (sf * Z) :=
  if q_group q then
    let tab := count_table q (fl_docs l) in
    flat_map (fun k3 => if (fst (fst k3) =? fst k)%N && (snd (fst k3) =? snd k)%N
                        then match clookup k3 tab with
                             | Some (b, c) => [(sf_of_bits b, c)]
                             | None => []
                             end
                        else []) (fl_order l)
  else
    flat_map (fun d => if fselected q d && (bucket_of (q_interval q) (fd_mid d) =? fst k)%N && (snd k =? 0)%N
                       then match fd_fld d with Some (_, b) => [(sf_of_bits b, 1)] | None => [] end
                       else []) (fl_docs l).

Fixpoint project (q : query) (k : key) (t : ftree) : stree :=
  match t with
  | FLeaf l => SLeaf (leaf_entries q k l)
  | FNode l r => SNode (project q k l) (project q k r)
  end.

(* float fields of bin k after merging the fractions' results in the shape of t *)
Definition bin_float (q : query) (k : key) (t : ftree) : fsumm := eval_stree (project q k t).

Fixpoint ftree_leaves (t : ftree) : list fleaf :=
  match t with
  | FLeaf l => [l]
  | FNode l r => ftree_leaves l ++ ftree_leaves r
  end.

Definition tree_err (q : query) (t : ftree) : bool := existsb (leaf_err q) (ftree_leaves t).
Definition orders_ok (q : query) (t : ftree) : bool := forallb (order_ok q) (ftree_leaves t).
Definition ftree_docs (t : ftree) : list fdoc := flat_map fl_docs (ftree_leaves t).
