"""C06 — aggregations and histograms equal values computed from the matching documents (DESIGN.md section 7, C06)."""
import vcheck

PROP = "C06"

TRUSTED = [
    "Coq 8.16.1 kernel (coqc), vm_compute for case evaluation; no native_compute",
    "hand-written model props/C06/coq/Model.v of the aggregators, the sourced OR tree walk, SamplesContainer/"
    "AggregatableSamples.Merge, MergeQPRs (histogram and aggregation part), Aggregate/Quantile/sortBuckets"
    " (tied to /repo by the correspondence run, not verified code)",
    "Go harness harness/cmd/hC06 (corpus generator, exact float64 -> m*2^e printer, token-id table) and"
    " harness/internal/fracbuild; strconv.ParseFloat for the value of a decimal token (data supplied per case)",
    "spec checker props/C06/coq/CaseDefs.v (case_spec_ok: filters/counts over the whole corpus; float path: exact integer"
    " arithmetic in units 2^-1074, Sum within N*2^-52*sum|x| + N units of the exact sum, Min/Max exact, Avg = RNE(Sum/Total))",
    "hand-written float model props/C06/coq/ModelFloat.v (NewSamplesContainers, InsertNTimes, Merge, getAggBucket, parseNum, Go min/max;"
    " IEEE binary64 = Coq.Floats.SpecFloat operations with prec 53 / emax 1024, proved equal to Flocq 4 Bplus/Bmult/Bdiv/Bcompare/"
    "binary_normalize mode_NE in ProofsFloat.v); the harness's IEEE bit patterns, document visiting order ((mid, rid) descending, ascending"
    " for reverse), Searcher merge order (stable sort by To desc / From asc) and its search for the map-iteration-order witness"
    " (validated as a permutation inside Coq)",
    "hand-written limits/cache model props/C06/coq/ModelLimits.v (AggLimits: iteratorFromLiteral TID-count check, ConsumeTokenSource counting,"
    " bin-count check after Aggregate, ValueBySource with its token cache, key discipline as a parameter) and the spec functions frac_fails_spec /"
    " cons_spec / parse_spec of CaseDefs.v; the add-only export file /repo/frac/processor/export_verif_c06.go (a token index that only knows"
    " TID -> value, wrappers around NewSourcedNodeIterator / ConsumeTokenSource / ValueBySource / parseNum); strconv.ParseFloat called by the"
    " harness as the ORACLE for the accepted language and the value of a field token (the repository's parseNum is never asked)",
    "standard-library axioms used by the float theorems C06_float_* only (Coq Reals / Flocq): ClassicalDedekindReals.sig_not_dec,"
    " ClassicalDedekindReals.sig_forall_dec, FunctionalExtensionality.functional_extensionality_dep, Classical_Prop.classic;"
    " the executable models and the case evaluation do not depend on them",
]
ASSUME = [
    "single-valued group/field tokens; numeric field tokens parse as finite floats; timestamps >= the interval"
    " (a bucket at MID 0 is the code's 'no timestamp' marker and is dropped by SkipWithoutTimestamp)",
    "no real group token is literally '_not_exists' (the count aggregator's legacy bin of that name overwrites it)",
    "exact-integer model: sums are proved over integers (units 2^-scale); its cases (CAgg) compare float64 Sum/Avg bit-exactly on"
    " exactly representable streams and coarsely (1e-9) on general decimals - the authoritative float comparison is the float"
    " model's (CAggF): bit-exact on ALL streams",
    "float model: amd64 without fused multiply-add (GOAMD64=v1: num*float64(cnt) and the addition are rounded separately);"
    " Total <= 2^53 and no int64 wrap; all NaNs identified; the order in which TwoSourceAggregator.Aggregate ranges over its Go map"
    " is an input (witness) - the grouped Sum over general decimals is NOT a function of the documents in the real code;"
    " the error bound theorems cover one fraction's chain (C06_float_sum_error_bound_partial) and merge trees with all counts 1 (C06_float_sum_error_bound_tree), not the rounded product num*float64(cnt) of the grouped aggregator",
    "extreme-value worlds run without wire/JSON conversion: proto3 drops the sign of a -0.0 Min/Max, encoding/json refuses a"
    " Sum that overflowed to Inf/NaN (findings reported, not counted)",
    "quantiles are dyadic (a/2^b) so that float64(len-1)*q+0.5 is computed without rounding",
    "limits: the model's failure condition (search_fails) and the direct count over the documents (frac_fails_spec: more distinct group/field"
    " tokens among the selected documents, more tokens in the fraction, or more touched bins than the limit) are both compared with the real"
    " verdict on every case but NOT proved equal; one error kind (texts and which check reports first are not observables); limit worlds hold"
    " parseable field tokens only (a parse error and a limit error in one search are not modelled); in a limits case the field token's id"
    " stands in the place of its value",
    "more than 8096 samples in one bin: the random reservoir replacement is not modelled; only Min/Max/Sum/Total"
    " stay exact and each reported quantile must be one of the bin's values",
]
RULE = ("random corpora (3..60 documents, optional group/field tokens, decimal/exponent/sign renderings of k/16 or "
        "general decimals) split over 1..4 real fractions (sealed, last one possibly active); a few corpora with "
        "8096-50..8096+600 samples in one bin; per search 1..3 aggregations (all 7 functions x group x interval, "
        "quantile lists incl. [0],[1],[0,1]) and a histogram; per-fraction results merged by the real MergeQPRs in "
        "random merge trees (optionally through the store->proxy wire conversion or the JSON codec) and by the real "
        "Searcher. Every sum/min/max/avg/quantile aggregation is additionally emitted as a float case: documents in visiting "
        "order with IEEE bit patterns, recorded merge tree, Min/Max/Sum bits of every bin and bucket values compared bit-exactly; "
        "one world in ten uses extreme values (1e308, 5e-324, -0.0, 1e16/-1e16/1, 2^53+1, hex floats) or tokens parseNum rejects "
        "(NaN, Inf, 1e999, abc, ...: which fractions and whether the Searcher fail). EVERY search runs with AggLimits off and (quick tier: both on every search; thorough: alternating, both on the first search of a world) with the production defaults (1000000/2000/100000: countBySource filled, "
        "ValueBySource through its cache; Searcher result compared with the unlimited model and spec) and - ordinary worlds - with tiny limits (1, 2, n, n-1, n+1 "
        "around the distinct group tokens / field tokens / bins / tokens per fraction): which fractions and whether the Searcher fail with "
        "ErrTooManyUniqValues (CLimErr). Token order of the documents is shuffled in every second world (active fractions number TIDs in arrival order). "
        "Field values include zero-padded integers (010, 0017, 08), +5, .5, 5., 1e2, hex floats, long digit strings; malformed worlds add 0x1F, 0b101, "
        "0o17, 1_000, space-padded tokens. Unit classes on the real code through the export file: 150 (thorough 2500) SourcedNodeIterator runs with random "
        "TID lists (a TID equal to another token's source index), LID lists, limits and ValueBySource lookup sequences (CIter); parseNum on ~300 tokens (CParse). "
        "non-trivial = at least 3 selected documents in at least 2 fractions and a bin with several "
        "documents or several bins; distinct by input")


def harness_args(tier, seed, outdir):
    return ["-seed", str(seed), "-tier", tier, "-out", outdir]


def main(argv):
    return vcheck.standard_check(PROP, argv, harness_args, TRUSTED, ASSUME, RULE, coqchk=True)
