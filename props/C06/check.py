"""C06 — aggregations and histograms equal values computed from the matching documents (DESIGN.md section 7, C06)."""
import vcheck

PROP = "C06"

TRUSTED = [
    "Coq 8.16.1 kernel (coqc), vm_compute for case evaluation; no native_compute",
    "hand-written model props/C06/coq/Model.v of the aggregators, the sourced OR tree walk, SamplesContainer/"
    "AggregatableSamples.Merge, MergeQPRs (histogram and aggregation part), Aggregate/Quantile/sortBuckets"
    " (tied to /repo by the correspondence run, not verified code)",
    "Go harness harness/cmd/hC06 (corpus generator, exact float64 -> m*2^e printer, token-id table) and"
    " harness/internal/fracbuild; strconv.ParseFloat for the value of a decimal token (data supplied per case)",
    "spec checker props/C06/coq/CaseDefs.v (case_spec_ok: filters/counts over the whole corpus)",
]
ASSUME = [
    "single-valued group/field tokens; numeric field tokens parse as finite floats; timestamps >= the interval"
    " (a bucket at MID 0 is the code's 'no timestamp' marker and is dropped by SkipWithoutTimestamp)",
    "no real group token is literally '_not_exists' (the count aggregator's legacy bin of that name overwrites it)",
    "exact arithmetic: sums are proved over integers (units 2^-scale); float64 rounding of Sum/Avg is checked"
    " bit-exactly on exactly representable streams and with relative tolerance 1e-9 on general decimals (PARTIAL)",
    "quantiles are dyadic (a/2^b) so that float64(len-1)*q+0.5 is computed without rounding",
    "more than 8096 samples in one bin: the random reservoir replacement is not modelled; only Min/Max/Sum/Total"
    " stay exact and each reported quantile must be one of the bin's values",
]
RULE = ("random corpora (3..60 documents, optional group/field tokens, decimal/exponent/sign renderings of k/16 or "
        "general decimals) split over 1..4 real fractions (sealed, last one possibly active); a few corpora with "
        "8096-50..8096+600 samples in one bin; per search 1..3 aggregations (all 7 functions x group x interval, "
        "quantile lists incl. [0],[1],[0,1]) and a histogram; per-fraction results merged by the real MergeQPRs in "
        "random merge trees (optionally through the store->proxy wire conversion or the JSON codec) and by the real "
        "Searcher. non-trivial = at least 3 selected documents in at least 2 fractions and a bin with several "
        "documents or several bins; distinct by input")


def harness_args(tier, seed, outdir):
    return ["-seed", str(seed), "-tier", tier, "-out", outdir]


def main(argv):
    return vcheck.standard_check(PROP, argv, harness_args, TRUSTED, ASSUME, RULE, coqchk=True)
