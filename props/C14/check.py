"""C14 — time-range pruning never hides a document that lies in the requested range (DESIGN.md section 7, C14)."""
import vcheck

PROP = "C14"

TRUSTED = [
    "go2coq translator (harness/cmd/go2coq, semantics coq/lib/GoSem.v): props/C14/coq/Gen.v is regenerated from the Go source of util.Bitmask.GetSize/Get/HasBitsIn, seq.MID.Time, seq.MIDsDistribution.size/midToIndex/isUndefined/IsIntersecting on every run; supported subset: integer/boolean expressions over int, int64, uint64, uint32, uint8 and named integer types with explicit wrap-around, truncated signed division, checked division/indexing/slicing/shift counts (Panic), if/else with early return, local assignments, tuples, calls between translated functions, min/max/len, numeric struct fields, fuelled for-loops, range loops as folds; anything else is rejected (red gate). externs (props/C14/coq/GenPrelude.v, hand-written): time.UnixMilli -> time_UnixMilli, time.Time.Before -> time_Before, time.Time.After -> time_After, time.Time.Sub -> time_Sub (saturating), a time.Time made by UnixMilli = its int64 millisecond count. Validated on every run by the gen-* correspondence classes (real function vs generated definition on boundary and random arguments). Round 2: + seq.LessOrEqual, util.BinSearchInRange, processor.getLIDsBorders (subset extended by struct literals, assignment to a field of a local struct, function-typed parameters, function literals as `fun x => <monadic body>`, monadic externs); further externs in GenPrelude.v: sort.Search -> sort_Search (the binary search loop of the Go standard library, midpoint (i+j)/2, 65 rounds of fuel, a panicking predicate propagates; theorem C14_gen_sort_Search_adequate: equal to the model's sort_search), the interface value idsIndex -> record ids_index with its methods Len -> ix_len and LessOrEqual -> ix_le (pure)",
    "Coq 8.16.1 kernel (coqc), vm_compute for case evaluation; no native_compute",
    "hand-written model props/C14/coq/Model.v of util.Bitmask, seq.MIDsDistribution (+ JSON fields), frac.Info "
    "(BuildDistribution/IsIntersecting), List.FilterInRange, getLIDsBorders + sort.Search, active/sealed LessOrEqual, MinBlockIDs "
    "(tied to /repo by the correspondence run, not verified code)",
    "Go harness harness/cmd/hC14 (generators, wire encoding of numbers as 63-bit literals, ground-truth sort of its own input)",
    "encoding/json (base64 of the bitmask, integer fields), time.Time arithmetic on millisecond instants: modelled as exact "
    "integer arithmetic with saturating Sub; exercised through the real code on every run",
    "export hooks (build tag verif): frac/export_verif_c14.go, frac/processor/export_verif_c14.go, seq/export_verif_c14.go, "
    "fracmanager/export_verif_c14.go",
]
ASSUME = [
    "stored document MIDs are < 2^63 milliseconds (ingestion guarantees it); query ends and requested IDs range over all "
    "uint64 since repair 6d376ea (midToIndex maps a MID beyond int64 to the overflow bucket)",
    "the ID (MID 0, RID 0) is not stored when a query starts at 0 (getLIDsBorders excludes it; unreachable through ingest)",
    "IDs of a fraction are listed in descending order by its index (checked on every real fraction: tbl_ok)",
    "the chunked search's early stop by time borders (List.Sort + calcEnsuredIDsCount, FractionsPerIteration < number of "
    "fractions) is NOT modelled here (C05 owns the model): class chunked-nested is a store-level test with the spec "
    "'same top-L as all documents in range'; merge details are C16/C19",
]
RULE = ("exhaustive: util.Bitmask all subsets x all intervals (small sizes), MIDsDistribution window/bucket grid x all "
        "single/pair additions x all query intervals, getLIDsBorders all sub-lists of a small ID universe x all (from,to); "
        "random: frac.Info with documents spread <10min .. >24h before creation (+-1 ms around the 10 min / 24 h thresholds, far "
        "past / future), real fractions active / sealed / restored from index header and .frac-cache, multi-block sealed "
        "fractions; query ends on/next to document times, bucket borders, fraction borders, and >= 2^63 (2^63, MaxUint64); fetch requests that also name absent IDs with MID >= 2^63; permanent regression class info-regression-to>=2^63; chunked-nested: 3-5 real fractions with nested/overlapping ranges (wide fraction with old and new documents over narrow ones), FractionsPerIteration 1/2, limits 1..6, both orders. non-trivial = the occupancy map "
        "(not the borders) prunes a query, or the LID borders narrow a non-empty scan on both sides; distinct by input")


def harness_args(tier, seed, outdir):
    return ["-seed", str(seed), "-tier", tier, "-out", outdir]


def main(argv):
    return vcheck.standard_check(PROP, argv, harness_args, TRUSTED, ASSUME, RULE, coqchk=True, gen=True)
