(* C14 - property theorems. Only statements, each closed by `exact <lemma>` from the Proofs files,
   Print Assumptions beneath, and the non-vacuity examples. *)
From Coq Require Import ZArith List Bool.
From C14 Require Import Model ProofsBits ProofsDist ProofsBorders.
Import ListNotations.
Open Scope Z_scope.

(* thm:C14_hasbits_spec. util.Bitmask.HasBitsIn(l, r) answers exactly "some bit in [l, r] is set",
   for every byte array, every 0 <= l <= r (shift masks, first/last byte, middle loop). *)
Theorem C14_hasbits_spec : forall b l r,
  bytes_ok (bm_bin b) -> 0 <= l -> l <= r ->
  (bm_has_bits_in b l r = true <-> exists i, l <= i <= r /\ bm_get b i = true).
Proof. exact has_bits_in_spec. Qed.
Print Assumptions C14_hasbits_spec.

(* thm:C14_index_monotone. midToIndex (as repaired by 6d376ea) lands inside the bitmask and is
   monotone over ALL MIDs: a MID beyond int64 milliseconds goes to the overflow bucket. *)
Theorem C14_index_monotone : forall d, dist_wf d ->
  (forall m, 0 <= mid_to_index d m < bm_size (d_mask d)) /\
  (forall m1 m2, 0 <= m1 -> m1 <= m2 -> mid_to_index d m1 <= mid_to_index d m2).
Proof. intros d H. split; [intro m; exact (index_in_range d m H)|intros; apply index_monotone; assumption]. Qed.
Print Assumptions C14_index_monotone.

(* The occupancy map of ANY well-formed distribution (any window, any positive bucket) never hides
   an added MID: a query interval that contains one intersects (no bound on MIDs or query ends). *)
Theorem C14_occupancy_sound : forall d0 ms m qf qt,
  dist_wf d0 -> In m ms -> 0 <= qf -> qf <= m -> m <= qt ->
  dist_is_intersecting (fold_left dist_add ms d0) qf qt = true.
Proof. exact dist_intersect_sound. Qed.
Print Assumptions C14_occupancy_sound.

(* JSON fields (milliseconds ends, bucket in whole SECONDS): a distribution whose bucket is a
   positive number of seconds and whose ends are int64 milliseconds is restored identically. *)
Theorem C14_json_roundtrip : forall d k,
  dist_wf d -> 0 < k -> d_bucket d = k * ns_per_s ->
  - two63 <= d_from d < two63 -> - two63 <= d_to d < two63 ->
  exists j, dist_marshal d = Some j /\ dist_unmarshal j = Some d.
Proof. exact dist_json_roundtrip. Qed.
Print Assumptions C14_json_roundtrip.

(* thm:C14_intersect_sound. For every set of documents (MIDs below 2^63, any spread: minutes,
   days, far past, future), every creation time and every query [qf, qt] containing a document
   (query ends over all uint64, e.g. qt = MaxUint64 = "no upper bound"):
   the fraction is kept - while active (borders only), after sealing (distribution built when the
   oldest document is >= 10 min older than the creation time, window clipped to 24 h, stub ID
   included), and after the Info went through Save / Load (index header, .frac-cache), which
   restores it unchanged. *)
Theorem C14_intersect_sound : forall creation docs m qf qt,
  is_u64 creation -> docs_ok docs -> In m docs ->
  0 <= qf -> qf <= m -> m <= qt ->
  info_is_intersecting (active_info creation docs) qf qt = true /\
  info_is_intersecting (sealed_info creation docs) qf qt = true /\
  info_roundtrip (sealed_info creation docs) = Some (sealed_info creation docs).
Proof. exact intersect_sound. Qed.
Print Assumptions C14_intersect_sound.

(* Adequacy of the fuel and meaning of util.BinSearchInRange (sort.Search): for a monotone
   predicate the result is the least position of [from, to] where it holds, or to + 1; the model's
   fuel is never exhausted. *)
Theorem C14_bin_search_spec : forall from to f,
  from <= to + 1 -> mono_on f from (to + 1) ->
  exists k, bin_search_in_range from to f = Some k /\ from <= k <= to + 1 /\
            (forall x, from <= x < k -> f x = false) /\ (forall x, k <= x <= to -> f x = true).
Proof. exact bin_search_spec. Qed.
Print Assumptions C14_bin_search_spec.

(* thm:C04_lessorequal_shortcuts over this model: sealedIDsIndex.LessOrEqual with its three
   shortcuts (minimum of the LID's block, minimum of the previous block, RID = MaxUint64) equals
   the plain comparison at every valid LID of a descending table (blocks of 4096 IDs, block minima
   as the sealer writes them). *)
Theorem C14_sealed_le_plain : forall ids lid x, ids_ok ids -> desc_sorted ids ->
  0 <= lid < Z.of_nat (length (stub_id :: ids)) ->
  sealed_le (stub_id :: ids) (min_block_ids (stub_id :: ids)) lid x = plain_le (stub_id :: ids) lid x.
Proof. exact sealed_le_plain. Qed.
Print Assumptions C14_sealed_le_plain.

(* LID borders (getLIDsBorders over the fraction's own IDs index: sealed_le with block minima when
   f_sealed, plain comparison when active): the scan narrowed to [minLID, maxLID] examines exactly
   the documents whose MID lies in [qf, qt] - also for MIDs equal to the range ends, RIDs 0 and
   MaxUint64, duplicates, empty fractions, any number of ID blocks. Hypothesis (DESIGN section 9
   #14): the ID (0,0) is not stored when the query starts at 0. *)
Theorem C14_lid_borders_exact : forall f qf qt,
  ids_ok (f_ids f) -> desc_sorted (f_ids f) -> 0 <= qf -> (qf = 0 -> ~ In (0, 0) (f_ids f)) ->
  frac_scan f qf qt = Some (filter (in_range qf qt) (f_ids f)).
Proof. exact frac_scan_spec. Qed.
Print Assumptions C14_lid_borders_exact.

(* the statement really is about the sealed comparison *)
Example C14_lid_borders_sealed_unfolds : forall ids,
  frac_le {| f_sealed := true; f_info := active_info 0 []; f_ids := ids |} =
  sealed_le (stub_id :: ids) (min_block_ids (stub_id :: ids)).
Proof. reflexivity. Qed.

(* thm:C14_pruning_is_optimisation. Skipping fractions by FilterInRange (borders + occupancy map)
   and narrowing every remaining fraction to its LID borders examines exactly the documents that
   examining every document of every fraction would: same documents, same order, for every list
   of fractions (active or sealed, any creation time, any spread of document times). *)
Theorem C14_pruning_is_optimisation : forall fs qf qt,
  Forall frac_ok fs -> 0 <= qf ->
  (qf = 0 -> forall f, In f fs -> ~ In (0, 0) (f_ids f)) ->
  pruned_scan fs qf qt = Some (full_scan fs qf qt).
Proof. exact pruning_is_optimisation. Qed.
Print Assumptions C14_pruning_is_optimisation.

(* Fetch side (groupIDsByFraction): the fraction that stores a requested document survives
   FilterInRange(min, max) of the requested IDs (also when the request names IDs with MID >= 2^63,
   hi = MaxUint64) and answers Contains(mid) = true. *)
Theorem C14_fetch_candidates_sound : forall f x lo hi,
  frac_ok f -> In x (f_ids f) -> 0 <= lo -> lo <= fst x -> fst x <= hi ->
  info_is_intersecting (f_info f) lo hi = true /\
  info_is_intersecting (f_info f) (fst x) (fst x) = true.
Proof. exact fetch_candidates_sound. Qed.
Print Assumptions C14_fetch_candidates_sound.

(* ---------------------------------------------------------------- non-vacuity *)
(* dist_wf is inhabited by what NewMIDsDistribution builds *)
Example C14_wf_witness : dist_wf (dist_new 1750000000000 1750003600000 bucket_ns).
Proof. apply dist_new_wf; reflexivity || (intro H; discriminate H). Qed.

(* a sealed fraction whose documents lie 1 h and 1 min before creation really has a distribution,
   the distribution really prunes (a query between the two documents is rejected), and the
   hypotheses of C14_intersect_sound hold for it *)
Example C14_pruning_happens :
  let c := 1750000000000 in
  let docs := [c - 3600000; c - 60000] in
  is_u64 c /\ docs_ok docs /\
  (exists d, i_dist (sealed_info c docs) = Some d) /\
  info_is_intersecting (sealed_info c docs) (c - 1800000) (c - 1700000) = false /\
  info_is_intersecting (sealed_info c docs) (c - 3600000) (c - 3600000) = true.
Proof.
  cbv zeta. split; [unfold is_u64, two64; split; [discriminate|reflexivity]|].
  split. { intros x [<-|[<-|[]]]; unfold two63; split; try discriminate; reflexivity. }
  split. { eexists. vm_compute. reflexivity. }
  split; vm_compute; reflexivity.
Qed.

(* frac_ok is inhabited: a sealed fraction with a real distribution and two documents *)
Example C14_frac_ok_witness :
  let c := 1750000000000 in
  let ids := [(c - 60000, 7); (c - 3600000, 0)] in
  frac_ok {| f_sealed := true; f_info := sealed_info c (mids_of ids); f_ids := ids |}.
Proof.
  cbv zeta. constructor; simpl.
  - intros x [<-|[<-|[]]]; unfold id_ok, two64; simpl; repeat split; try discriminate; reflexivity.
  - intros a b Hab Hb. simpl in Hb.
    destruct a as [|[|a]]; destruct b as [|[|b]]; try reflexivity;
      try (exfalso; apply (Nat.nle_succ_0 _ Hab));
      try (exfalso; apply Nat.succ_le_mono in Hab; apply (Nat.nle_succ_0 _ Hab));
      exfalso; do 2 apply Nat.succ_lt_mono in Hb; apply (Nat.nlt_0_r _ Hb).
  - intros x [<-|[<-|[]]]; unfold two63; split; try discriminate; reflexivity.
  - exists 1750000000000. split; [unfold is_u64, two64; split; [discriminate|reflexivity]|].
    reflexivity.
Qed.

(* DESIGN section 9 #14, kept as documentation: without the hypothesis on the ID (0,0) the border
   computation loses that document for a query starting at 0 (unreachable through ingest). *)
Example C14_borders_zero_id_refuted :
  exists f qf qt, ids_ok (f_ids f) /\ desc_sorted (f_ids f) /\ 0 <= qf /\
    frac_scan f qf qt <> Some (filter (in_range qf qt) (f_ids f)).
Proof.
  exists {| f_sealed := true; f_info := sealed_info 5 [0]; f_ids := [(0, 0)] |}, 0, 10.
  split. { intros x [<-|[]]. unfold id_ok, two64. simpl. repeat split; try discriminate; reflexivity. }
  split. { intros a b Hab Hb. simpl in Hb. destruct b; [|exfalso; apply Nat.succ_lt_mono in Hb; apply (Nat.nlt_0_r _ Hb)].
           destruct a; [reflexivity|exfalso; apply (Nat.nle_succ_0 _ Hab)]. }
  split. { discriminate. }
  vm_compute. discriminate.
Qed.

(* Finding repaired by 6d376ea, kept as documentation: with midToIndex as it WAS (int64(mid)
   without the guard) a query end at MaxUint64 ("no upper bound", as tests/setup/env.go searches)
   with the start inside the window got index 0, the occupancy test ran with left > right and
   rejected a fraction whose document lies in the range. *)
Example C14_query_end_above_int63_v0_refuted :
  let c := 1750000000000 in
  let m := c - 3600000 in
  let d := fold_left dist_add_v0 [stub_mid; m] (dist_new m c bucket_ns) in
  dist_wf (dist_new m c bucket_ns) /\ m <= m <= u64max /\
  dist_is_intersecting_v0 d m u64max = false.
Proof.
  cbv zeta. split.
  { apply dist_new_wf; [intro H; discriminate H|reflexivity]. }
  split. { unfold u64max, two64. split; [apply Z.le_refl|discriminate]. }
  vm_compute. reflexivity.
Qed.

(* the same query on the repaired model (regression witness of the driver, class
   info-regression-to>=2^63) *)
Example C14_query_end_above_int63_repaired :
  let c := 1750000000000 in
  info_is_intersecting (sealed_info c [c - 3600000]) (c - 3600000) u64max = true.
Proof. vm_compute. reflexivity. Qed.

(* ------------------------------------------------------------------ generated definitions (Gen.v)
   Gen.v is regenerated from the Go sources on every run by harness/cmd/go2coq (spec: props/C14/gen.json,
   trusted externs: GenPrelude.v). The theorems below tie the GENERATED definitions to the hand-written model
   functions the theorems above are about: a change of one of these Go functions changes Gen.v and the
   corresponding theorem stops compiling. *)
From VLib Require Import GoSem.
From C14 Require Import GenPrelude Gen ProofsGen.

Theorem C14_gen_GetSize_refines : forall b, go_util_Bitmask_GetSize (zbm b) = bm_size b.
Proof. exact gen_GetSize_refines. Qed.
Print Assumptions C14_gen_GetSize_refines.

(* util.Bitmask.Get as generated = bm_get (C14_hasbits_spec is stated with it) on every position inside the
   byte array; no index or shift panic there *)
Theorem C14_gen_Get_refines : forall b pos, 0 <= pos < 9223372036854775808 ->
  pos / 8 < Z.of_nat (length (bm_bin b)) ->
  go_util_Bitmask_Get (zbm b) pos = Val (bm_get b pos).
Proof. exact gen_Get_refines. Qed.
Print Assumptions C14_gen_Get_refines.

(* MID.Time as generated (over the extern time.UnixMilli) = the int64 reinterpretation to_i64 *)
Theorem C14_gen_MID_Time_refines : forall m, 0 <= m < two64 -> go_seq_MID_Time m = to_i64 m.
Proof. exact gen_MID_Time_refines. Qed.
Print Assumptions C14_gen_MID_Time_refines.

Theorem C14_gen_isUndefined_refines : forall d, go_seq_MIDsDistribution_isUndefined (zdist d) = (d_bucket d =? 0).
Proof. exact gen_isUndefined_refines. Qed.
Print Assumptions C14_gen_isUndefined_refines.

(* MIDsDistribution.size as generated = dist_size (C14_json_roundtrip, dist_wf) when the bucket count fits
   int64; a zero bucket is an integer division by zero *)
Theorem C14_gen_size_refines : forall d, d_bucket d <> 0 ->
  - 9223372036854775808 <= Z.quot (sub_ns (d_to d) (d_from d)) (d_bucket d) ->
  Z.quot (sub_ns (d_to d) (d_from d)) (d_bucket d) + 3 < 9223372036854775808 ->
  go_seq_MIDsDistribution_size (zdist d) = Val (dist_size (d_from d) (d_to d) (d_bucket d)).
Proof. exact gen_size_refines. Qed.
Print Assumptions C14_gen_size_refines.

Theorem C14_gen_size_zero_bucket : forall d, d_bucket d = 0 -> go_seq_MIDsDistribution_size (zdist d) = Panic.
Proof. exact gen_size_zero_bucket. Qed.
Print Assumptions C14_gen_size_zero_bucket.

(* midToIndex as generated = mid_to_index (C14_index_monotone, C14_occupancy_sound, C14_intersect_sound are
   about it) for EVERY uint64 MID, any window, any bucket above 1 ns, any bitmask size that fits int64 *)
Theorem C14_gen_midToIndex_refines : forall d mid, 0 <= mid < two64 -> 1 < d_bucket d ->
  - 9223372036854775808 < bm_size (d_mask d) <= 9223372036854775807 ->
  go_seq_MIDsDistribution_midToIndex (zdist d) mid = Val (mid_to_index d mid).
Proof. exact gen_midToIndex_refines. Qed.
Print Assumptions C14_gen_midToIndex_refines.

(* C14_index_monotone (range half) directly over the GENERATED midToIndex: no panic, index inside the bitmask *)
Theorem C14_index_in_range_gen : forall d mid, dist_wf d -> 1 < d_bucket d -> 0 <= mid < two64 ->
  bm_size (d_mask d) <= 9223372036854775807 ->
  exists i, go_seq_MIDsDistribution_midToIndex (zdist d) mid = Val i /\ 0 <= i < bm_size (d_mask d).
Proof. exact index_in_range_gen. Qed.
Print Assumptions C14_index_in_range_gen.

(* non-vacuity: a one-minute bucket window; the generated functions compute *)
Example C14_gen_witness :
  let d := mk_go_MIDsDistribution 1000000 1700000 60000000000 (mk_go_Bitmask 14 [6; 0]) in
  go_seq_MIDsDistribution_size d = Val 14 /\
  go_seq_MIDsDistribution_midToIndex d 1000000 = Val 1 /\
  go_seq_MIDsDistribution_midToIndex d 999999 = Val 0 /\
  go_seq_MIDsDistribution_midToIndex d 9223372036854775808 = Val 13 /\
  go_util_Bitmask_Get (mk_go_Bitmask 14 [6; 0]) 2 = Val true /\
  go_util_Bitmask_Get (mk_go_Bitmask 14 [6; 0]) 16 = Panic /\
  go_seq_MIDsDistribution_IsIntersecting 4 d 1000000 1060000 = Val true.
Proof. vm_compute. repeat split; reflexivity. Qed.

(* ---- round 2: the loop function HasBitsIn and IsIntersecting *)
(* util.Bitmask.HasBitsIn as generated (lifted loop Fixpoint, fuel adequate above the number of bytes between
   the ends) = bm_has_bits_in, the function C14_hasbits_spec is about *)
Theorem C14_gen_HasBitsIn_refines : forall b l r fuel, 0 <= l -> l <= r -> r < 9223372036854775807 ->
  r / 8 < Z.of_nat (length (bm_bin b)) -> (Z.to_nat (r / 8 - l / 8) < fuel)%nat ->
  go_util_Bitmask_HasBitsIn fuel (zbm b) l r = Val (bm_has_bits_in b l r).
Proof. exact gen_HasBitsIn_refines. Qed.
Print Assumptions C14_gen_HasBitsIn_refines.

(* thm:C14_hasbits_spec directly over the GENERATED HasBitsIn and Get *)
Theorem C14_hasbits_spec_gen : forall b l r fuel,
  bytes_ok (bm_bin b) -> 0 <= l -> l <= r -> r < 9223372036854775807 ->
  r / 8 < Z.of_nat (length (bm_bin b)) -> (Z.to_nat (r / 8 - l / 8) < fuel)%nat ->
  (go_util_Bitmask_HasBitsIn fuel (zbm b) l r = Val true <->
   exists i, l <= i <= r /\ go_util_Bitmask_Get (zbm b) i = Val true).
Proof. exact hasbits_spec_gen. Qed.
Print Assumptions C14_hasbits_spec_gen.

(* MIDsDistribution.IsIntersecting as generated = dist_is_intersecting on every well-formed distribution with a
   bucket above 1 ns, for every query 0 <= from <= to over all uint64 *)
Theorem C14_gen_IsIntersecting_refines : forall d from to fuel, dist_wf d -> 1 < d_bucket d ->
  0 <= from -> from <= to -> to < two64 -> (length (bm_bin (d_mask d)) < fuel)%nat ->
  go_seq_MIDsDistribution_IsIntersecting fuel (zdist d) from to = Val (dist_is_intersecting d from to).
Proof. exact gen_IsIntersecting_refines. Qed.
Print Assumptions C14_gen_IsIntersecting_refines.

(* the occupancy-map core of thm:C14_intersect_sound (C14_occupancy_sound) directly over the GENERATED
   IsIntersecting: no panic, no fuel exhaustion, and a query containing an added MID intersects *)
Theorem C14_intersect_sound_gen : forall d0 ms m qf qt fuel,
  dist_wf d0 -> 1 < d_bucket d0 -> In m ms -> 0 <= qf -> qf <= m -> m <= qt -> qt < two64 ->
  (length (bm_bin (d_mask (fold_left dist_add ms d0))) < fuel)%nat ->
  go_seq_MIDsDistribution_IsIntersecting fuel (zdist (fold_left dist_add ms d0)) qf qt = Val true.
Proof. exact intersect_sound_gen. Qed.
Print Assumptions C14_intersect_sound_gen.

(* ---- round 2: sort.Search (extern), util.BinSearchInRange, processor.getLIDsBorders, seq.LessOrEqual *)
Theorem C14_gen_LessOrEqual_refines : forall a b, go_seq_LessOrEqual (zid a) (zid b) = id_le a b.
Proof. exact gen_LessOrEqual_refines. Qed.
Print Assumptions C14_gen_LessOrEqual_refines.

(* the trusted extern sort_Search (65 rounds, GenPrelude.v) returns what the model's fuelled sort_search returns
   for every predicate that does not panic below n, every n < 2^64: it never runs out of fuel there *)
Theorem C14_gen_sort_Search_adequate : forall (f : Z -> bool) (F : Z -> outcome bool) n v,
  (forall h, 0 <= h < n -> F h = Val (f h)) -> n < 18446744073709551616 ->
  Model.sort_search n f = Some v -> sort_Search n F = Val v.
Proof. exact sort_Search_model. Qed.
Print Assumptions C14_gen_sort_Search_adequate.

(* util.BinSearchInRange as generated = bin_search_in_range, the function C14_bin_search_spec is about *)
Theorem C14_gen_BinSearchInRange_refines : forall from to (f : Z -> bool) (F : Z -> outcome bool) v,
  - 4611686018427387904 < from < 4611686018427387904 -> - 4611686018427387904 < to < 4611686018427387904 ->
  (forall x, from <= x <= to -> F x = Val (f x)) ->
  bin_search_in_range from to f = Some v ->
  go_util_BinSearchInRange from to F = Val v.
Proof. exact gen_BinSearchInRange_refines. Qed.
Print Assumptions C14_gen_BinSearchInRange_refines.

(* getLIDsBorders as generated (struct literals, the decrement of minID.MID, two closures over the index) =
   lids_borders, the function C14_lid_borders_exact and C14_pruning_is_optimisation are about, for every index of
   fewer than 2^32 LIDs and every uint64 range; the pair is converted to uint32 as the code does *)
Theorem C14_gen_getLIDsBorders_refines : forall le len minMID maxMID a b,
  0 <= len < 4294967296 -> 0 <= minMID < two64 -> 0 <= maxMID < two64 ->
  lids_borders le len minMID maxMID = Some (a, b) ->
  go_processor_getLIDsBorders minMID maxMID (zix le len) = Val (u32 a, u32 b).
Proof. exact gen_getLIDsBorders_refines. Qed.
Print Assumptions C14_gen_getLIDsBorders_refines.

(* thm:C14_lid_borders_exact directly over the GENERATED getLIDsBorders, called with the fraction's own index *)
Theorem C14_lid_borders_exact_gen : forall f qf qt,
  ids_ok (f_ids f) -> desc_sorted (f_ids f) -> 0 <= qf < two64 -> 0 <= qt < two64 ->
  (qf = 0 -> ~ In (0, 0) (f_ids f)) -> Z.of_nat (length (stub_id :: f_ids f)) < 4294967296 ->
  exists lo hi,
    go_processor_getLIDsBorders qf qt (zix (frac_le f) (Z.of_nat (length (stub_id :: f_ids f)))) = Val (u32 lo, u32 hi) /\
    Model.slice (f_ids f) lo hi = filter (in_range qf qt) (f_ids f).
Proof. exact lid_borders_exact_gen. Qed.
Print Assumptions C14_lid_borders_exact_gen.

Example C14_gen_borders_witness :
  let ix := mk_ix go_ID 5 (fun lid x => go_seq_LessOrEqual (mk_go_ID (nth (Z.to_nat lid) [0; 40; 30; 30; 10] 0) 7) x) in
  go_processor_getLIDsBorders 20 35 ix = Val (2, 3) /\ go_processor_getLIDsBorders 0 9 ix = Val (5, 4).
Proof. vm_compute. split; reflexivity. Qed.
