From Coq Require Import ZArith.
From C14 Require Import Model ProofsBits.
Open Scope Z_scope.
Theorem C14_tmp : forall u, 0 <= u < two63 -> to_i64 u = u.
Proof. exact to_i64_small. Qed.
Print Assumptions C14_tmp.
