(* C14 - property theorems. Only statements, each closed by `exact <lemma>` from the Proofs files,
   Print Assumptions beneath, and the non-vacuity examples. *)
From Coq Require Import ZArith List Bool.
From C14 Require Import Model ProofsBits ProofsDist.
Import ListNotations.
Open Scope Z_scope.

(* thm:C14_hasbits_spec. util.Bitmask.HasBitsIn(l, r) answers exactly "some bit in [l, r] is set",
   for every byte array, every 0 <= l <= r (shift masks, first/last byte, middle loop). *)
Theorem C14_hasbits_spec : forall b l r,
  bytes_ok (bm_bin b) -> 0 <= l -> l <= r ->
  (bm_has_bits_in b l r = true <-> exists i, l <= i <= r /\ bm_get b i = true).
Proof. exact has_bits_in_spec. Qed.
Print Assumptions C14_hasbits_spec.

(* thm:C14_index_monotone. midToIndex lands inside the bitmask for EVERY uint64 (under/overflow
   buckets included) and is monotone on the MIDs below 2^63 (int64(mid) conversion). *)
Theorem C14_index_monotone : forall d, dist_wf d ->
  (forall m, 0 <= mid_to_index d m < bm_size (d_mask d)) /\
  (forall m1 m2, 0 <= m1 -> m1 <= m2 -> m2 < two63 -> mid_to_index d m1 <= mid_to_index d m2).
Proof. intros d H. split; [intro m; exact (index_in_range d m H)|intros; apply index_monotone; assumption]. Qed.
Print Assumptions C14_index_monotone.

(* The occupancy map of ANY well-formed distribution (any window, any positive bucket) never hides
   an added MID: a query interval that contains one intersects. *)
Theorem C14_occupancy_sound : forall d0 ms m qf qt,
  dist_wf d0 -> In m ms -> 0 <= qf -> qf <= m -> m <= qt -> qt < two63 ->
  dist_is_intersecting (fold_left dist_add ms d0) qf qt = true.
Proof. exact dist_intersect_sound. Qed.
Print Assumptions C14_occupancy_sound.

(* JSON fields (milliseconds ends, bucket in whole SECONDS): a distribution whose bucket is a
   positive number of seconds and whose ends are int64 milliseconds is restored identically. *)
Theorem C14_json_roundtrip : forall d k,
  dist_wf d -> 0 < k -> d_bucket d = k * ns_per_s ->
  - two63 <= d_from d < two63 -> - two63 <= d_to d < two63 ->
  exists j, dist_marshal d = Some j /\ dist_unmarshal j = Some d.
Proof. exact dist_json_roundtrip. Qed.
Print Assumptions C14_json_roundtrip.

(* thm:C14_intersect_sound. For every set of documents (MIDs below 2^63, any spread: minutes,
   days, far past, future), every creation time and every query [qf, qt] containing a document:
   the fraction is kept - while active (borders only), after sealing (distribution built when the
   oldest document is >= 10 min older than the creation time, window clipped to 24 h, stub ID
   included), and after the Info went through Save / Load (index header, .frac-cache), which
   restores it unchanged. *)
Theorem C14_intersect_sound : forall creation docs m qf qt,
  is_u64 creation -> docs_ok docs -> In m docs ->
  0 <= qf -> qf <= m -> m <= qt -> qt < two63 ->
  info_is_intersecting (active_info creation docs) qf qt = true /\
  info_is_intersecting (sealed_info creation docs) qf qt = true /\
  info_roundtrip (sealed_info creation docs) = Some (sealed_info creation docs).
Proof. exact intersect_sound. Qed.
Print Assumptions C14_intersect_sound.

(* ---------------------------------------------------------------- non-vacuity *)
(* dist_wf is inhabited by what NewMIDsDistribution builds *)
Example C14_wf_witness : dist_wf (dist_new 1750000000000 1750003600000 bucket_ns).
Proof. apply dist_new_wf; reflexivity || (intro H; discriminate H). Qed.

(* a sealed fraction whose documents lie 1 h and 1 min before creation really has a distribution,
   the distribution really prunes (a query between the two documents is rejected), and the
   hypotheses of C14_intersect_sound hold for it *)
Example C14_pruning_happens :
  let c := 1750000000000 in
  let docs := [c - 3600000; c - 60000] in
  is_u64 c /\ docs_ok docs /\
  (exists d, i_dist (sealed_info c docs) = Some d) /\
  info_is_intersecting (sealed_info c docs) (c - 1800000) (c - 1700000) = false /\
  info_is_intersecting (sealed_info c docs) (c - 3600000) (c - 3600000) = true.
Proof.
  cbv zeta. split; [unfold is_u64, two64; split; [discriminate|reflexivity]|].
  split. { intros x [<-|[<-|[]]]; unfold two63; split; try discriminate; reflexivity. }
  split. { eexists. vm_compute. reflexivity. }
  split; vm_compute; reflexivity.
Qed.
