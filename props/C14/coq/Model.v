(* C14 — executable model of the time-range pruning of seq-db. NO proofs in this file.

   Mirrors (Go, /repo):
     util/bitmask.go            NewBitmask / Get / Set(.., true) / HasBitsIn / LoadBitmask
     seq/mids_distribution.go   size / midToIndex / Add / IsIntersecting / MarshalJSON / UnmarshalJSON
     frac/info.go               InitEmptyDistribution / BuildDistribution / IsIntersecting
     frac/active.go             UpdateStats (From/To/DocsTotal), frac/active_sealer.go (Seal: the
                                distribution is built from sortedIDs INCLUDING the stub ID at LID 0)
     fracmanager/list.go        FilterInRange
     util/util.go               BinSearchInRange (sort.Search)
     frac/processor/search.go   getLIDsBorders
     frac/active_index.go       activeIDsIndex.LessOrEqual (plain comparison)
     frac/sealed_index.go       sealedIDsIndex.LessOrEqual (block-min shortcuts)

   Conventions: all numbers are Z. A MID is a uint64 (0 <= m < 2^64) of unix milliseconds; a
   time.Time that was made by time.UnixMilli is represented by its int64 millisecond count; a
   time.Duration by its int64 nanosecond count. Positions in the bitmask are never negative
   (C14_index_in_range), therefore Go's truncating / and % coincide with Z's / and mod there;
   durations are divided with Z.quot (Go's truncation) since the code also divides negative
   ones (to before from). *)
From Coq Require Import ZArith List Bool.
Import ListNotations.
Open Scope Z_scope.

(* ------------------------------------------------------------------ machine integers *)
Definition two63 : Z := 9223372036854775808.
Definition two64 : Z := 18446744073709551616.
Definition u64max : Z := two64 - 1.
(* int64(x) for a uint64 x *)
Definition to_i64 (u : Z) : Z := if u <? two63 then u else u - two64.
(* uint64(x) for an int64 x *)
Definition to_u64 (i : Z) : Z := i mod two64.

Definition ns_per_ms : Z := 1000000.
Definition ns_per_s : Z := 1000000000.
Definition max_dur : Z := two63 - 1.
Definition min_dur : Z := - two63.
(* t.Sub(u) for two millisecond-granular instants: saturates at the int64 ends *)
Definition sub_ns (t u : Z) : Z :=
  let d := (t - u) * ns_per_ms in
  if d >? max_dur then max_dur else if d <? min_dur then min_dur else d.

(* ------------------------------------------------------------------ util.Bitmask *)
Record bitmask := { bm_size : Z; bm_bin : list Z }.

Definition byte_at (bin : list Z) (i : Z) : Z := nth (Z.to_nat i) bin 0.

Fixpoint upd_nth (n : nat) (f : Z -> Z) (l : list Z) : list Z :=
  match l, n with
  | [], _ => []
  | x :: r, O => f x :: r
  | x :: r, S k => x :: upd_nth k f r
  end.

Definition bm_nbytes (size : Z) : nat := Z.to_nat ((size + 7) / 8).

Definition bm_new (size : Z) : bitmask :=
  {| bm_size := size; bm_bin := repeat 0 (bm_nbytes size) |}.

Definition get_bit (x k : Z) : bool := 0 <? Z.land x (Z.shiftl 1 k).
Definition set_bit (x k : Z) : Z := Z.lor x (Z.shiftl 1 k).

Definition bm_get (b : bitmask) (pos : Z) : bool :=
  get_bit (byte_at (bm_bin b) (pos / 8)) (pos mod 8).

(* Set(pos, true) — the only use in the anchored code *)
Definition bm_set (b : bitmask) (pos : Z) : bitmask :=
  {| bm_size := bm_size b;
     bm_bin := upd_nth (Z.to_nat (pos / 8)) (fun x => set_bit x (pos mod 8)) (bm_bin b) |}.

(* byte(0xFF) << k, truncated to a byte;  byte(0xFF) >> k *)
Definition left_mask (lb : Z) : Z := (Z.shiftl 255 lb) mod 256.
Definition right_mask (rb : Z) : Z := Z.shiftr 255 (8 - rb).

Definition bm_has_bits_in (b : bitmask) (left right : Z) : bool :=
  let bin := bm_bin b in
  let li := left / 8 in
  let ri := right / 8 in
  let lmask := left_mask (left mod 8) in
  let rmask := right_mask (right mod 8 + 1) in
  if li =? ri then 0 <? Z.land (Z.land (byte_at bin li) lmask) rmask
  else if 0 <? Z.land (byte_at bin li) lmask then true
  else if 0 <? Z.land (byte_at bin ri) rmask then true
  else existsb (fun x => 0 <? x) (firstn (Z.to_nat (ri - li - 1)) (skipn (Z.to_nat (li + 1)) bin)).

(* LoadBitmask(size, data): data[:nbytes] — panics (None) when data is too short *)
Definition bm_load (size : Z) (data : list Z) : option bitmask :=
  if (length data <? bm_nbytes size)%nat then None
  else Some {| bm_size := size; bm_bin := firstn (bm_nbytes size) data |}.

(* ------------------------------------------------------------------ seq.MIDsDistribution *)
Record dist := { d_from : Z; d_to : Z; d_bucket : Z; d_mask : bitmask }.

Definition dist_size (from to bucket : Z) : Z := Z.quot (sub_ns to from) bucket + 1 + 2.

Definition dist_new (from to bucket : Z) : dist :=
  {| d_from := from; d_to := to; d_bucket := bucket; d_mask := bm_new (dist_size from to bucket) |}.

(* midToIndex as repaired by 6d376ea: a MID beyond int64 milliseconds (mid.Time() would wrap to a
   time before 1970) is later than any window *)
Definition max_i64 : Z := two63 - 1.
Definition mid_to_index (d : dist) (mid : Z) : Z :=
  if mid >? max_i64 then bm_size (d_mask d) - 1
  else
    let t := to_i64 mid in
    if t <? d_from d then 0
    else if t >? d_to d then bm_size (d_mask d) - 1
    else Z.quot (sub_ns t (d_from d)) (d_bucket d) + 1.

Definition dist_add (d : dist) (mid : Z) : dist :=
  {| d_from := d_from d; d_to := d_to d; d_bucket := d_bucket d;
     d_mask := bm_set (d_mask d) (mid_to_index d mid) |}.

Definition dist_is_intersecting (d : dist) (from to : Z) : bool :=
  if d_bucket d =? 0 then true
  else bm_has_bits_in (d_mask d) (mid_to_index d from) (mid_to_index d to).

(* ---- behaviour before 6d376ea, kept for documentation (C14_query_end_above_int63_v0_refuted):
   int64(mid) without the guard, so a MID >= 2^63 lands in the UNDERFLOW bucket *)
Definition mid_to_index_v0 (d : dist) (mid : Z) : Z :=
  let t := to_i64 mid in
  if t <? d_from d then 0
  else if t >? d_to d then bm_size (d_mask d) - 1
  else Z.quot (sub_ns t (d_from d)) (d_bucket d) + 1.
Definition dist_add_v0 (d : dist) (mid : Z) : dist :=
  {| d_from := d_from d; d_to := d_to d; d_bucket := d_bucket d;
     d_mask := bm_set (d_mask d) (mid_to_index_v0 d mid) |}.
Definition dist_is_intersecting_v0 (d : dist) (from to : Z) : bool :=
  if d_bucket d =? 0 then true
  else bm_has_bits_in (d_mask d) (mid_to_index_v0 d from) (mid_to_index_v0 d to).

(* the JSON fields: from/to uint64 milliseconds, bucket uint64 SECONDS, bitmask bytes *)
Record djson := { j_from : Z; j_to : Z; j_bucket : Z; j_bin : list Z }.

(* MarshalJSON: None = "null" (undefined distribution). Duration.Seconds() truncated to uint64;
   faithful for buckets whose float64 seconds value truncates to the whole seconds (all buckets
   below 2^33 s; the only production bucket is one minute). *)
Definition dist_marshal (d : dist) : option djson :=
  if d_bucket d =? 0 then None
  else Some {| j_from := to_u64 (d_from d); j_to := to_u64 (d_to d);
               j_bucket := Z.quot (d_bucket d) ns_per_s; j_bin := bm_bin (d_mask d) |}.

(* UnmarshalJSON into a fresh value: None = panic in LoadBitmask (slice bounds) *)
Definition dist_unmarshal (j : djson) : option dist :=
  let from := to_i64 (j_from j) in
  let to := to_i64 (j_to j) in
  let bucket := ns_per_s * j_bucket j in
  if bucket =? 0 then
    Some {| d_from := from; d_to := to; d_bucket := 0; d_mask := {| bm_size := 0; bm_bin := [] |} |}
  else match bm_load (dist_size from to bucket) (j_bin j) with
       | None => None
       | Some m => Some {| d_from := from; d_to := to; d_bucket := bucket; d_mask := m |}
       end.

(* ------------------------------------------------------------------ frac.Info *)
Record info := { i_docs_total : Z; i_from : Z; i_to : Z; i_creation : Z; i_dist : option dist }.

Definition set_dist (i : info) (d : option dist) : info :=
  {| i_docs_total := i_docs_total i; i_from := i_from i; i_to := i_to i;
     i_creation := i_creation i; i_dist := d |}.

Definition spread_threshold_ns : Z := 600 * ns_per_s.        (* 10 min *)
Definition max_interval_ns : Z := 86400 * ns_per_s.          (* 24 h *)
Definition max_interval_ms : Z := 86400000.
Definition bucket_ns : Z := 60 * ns_per_s.                   (* 1 min *)

Definition init_empty_distribution (i : info) : option dist :=
  let from := to_i64 (i_from i) in
  let ct := to_i64 (i_creation i) in
  if sub_ns ct from <? spread_threshold_ns then None
  else
    let dfrom := if sub_ns ct from >? max_interval_ns then ct - max_interval_ms else from in
    Some (dist_new dfrom ct bucket_ns).

Definition build_distribution (i : info) (mids : list Z) : info :=
  match init_empty_distribution i with
  | None => i
  | Some d => set_dist i (Some (fold_left dist_add mids d))
  end.

Definition info_is_intersecting (i : info) (from to : Z) : bool :=
  if i_docs_total i =? 0 then false
  else if (to <? i_from i) || (i_to i <? from) then false
  else match i_dist i with
       | None => true
       | Some d => dist_is_intersecting d from to
       end.

(* Info.Save / Info.Load as far as the pruning state is concerned. None = panic.
   A distribution that marshals to null comes back as a nil pointer. *)
Definition info_roundtrip (i : info) : option info :=
  match i_dist i with
  | None => Some i
  | Some d =>
      match dist_marshal d with
      | None => Some (set_dist i None)
      | Some j => match dist_unmarshal j with
                  | None => None
                  | Some d' => Some (set_dist i (Some d'))
                  end
      end
  end.

(* Active fraction: NewInfo (From = MaxUint64, To = 0) + UpdateStats per document *)
Definition active_info (creation : Z) (mids : list Z) : info :=
  {| i_docs_total := Z.of_nat (length mids);
     i_from := fold_left Z.min mids u64max;
     i_to := fold_left Z.max mids 0;
     i_creation := creation;
     i_dist := None |}.

(* Seal: info.BuildDistribution(sortedIDs) where sortedIDs[0] is the stub ID (MaxUint64, MaxUint64)
   that every active fraction stores at LID 0 (since 6d376ea it sets the overflow bucket, before
   it set the underflow bucket) *)
Definition stub_mid : Z := u64max.
Definition sealed_info (creation : Z) (mids : list Z) : info :=
  build_distribution (active_info creation mids) (stub_mid :: mids).

(* ------------------------------------------------------------------ IDs, LID borders *)
Definition id := (Z * Z)%type.   (* MID, RID *)

(* seq.LessOrEqual *)
Definition id_le (a b : id) : bool :=
  if fst a =? fst b then snd a <=? snd b else fst a <? fst b.

Definition stub_id : id := (u64max, u64max).
Definition id_at (ids : list id) (lid : Z) : id := nth (Z.to_nat lid) ids stub_id.

(* activeIDsIndex.LessOrEqual: ids is the whole table, position 0 = stub *)
Definition plain_le (ids : list id) (lid : Z) (x : id) : bool := id_le (id_at ids lid) x.

(* sort.Search(n, f): fuelled; None = out of fuel (excluded by C14 adequacy lemma) *)
Fixpoint search_loop (fuel : nat) (f : Z -> bool) (i j : Z) : option Z :=
  match fuel with
  | O => None
  | S k =>
      if i <? j then
        let h := (i + j) / 2 in
        if f h then search_loop k f i h else search_loop k f (h + 1) j
      else Some i
  end.

Definition sort_search (n : Z) (f : Z -> bool) : option Z := search_loop (S (Z.to_nat n)) f 0 n.

Definition bin_search_in_range (from to : Z) (f : Z -> bool) : option Z :=
  match sort_search (to - from + 1) (fun i => f (from + i)) with
  | None => None
  | Some i => Some (from + i)
  end.

(* getLIDsBorders(minMID, maxMID, index) with index = (le, len) *)
Definition lids_borders (le : Z -> id -> bool) (len : Z) (minMID maxMID : Z) : option (Z * Z) :=
  if len =? 0 then Some (0, 0)
  else
    let minID := if 0 <? minMID then (minMID - 1, u64max) else (minMID, 0) in
    let maxID := (maxMID, u64max) in
    match bin_search_in_range 1 (len - 1) (fun lid => le lid maxID) with
    | None => None
    | Some minLID =>
        match bin_search_in_range minLID (len - 1) (fun lid => le lid minID) with
        | None => None
        | Some x => Some (minLID, x - 1)
        end
    end.

(* sealedIDsIndex.LessOrEqual with the per-block minima (consts.IDsPerBlock = 4096) *)
Definition ids_per_block : Z := 4096.

Fixpoint chunk_mins (fuel : nat) (ids : list id) : list id :=
  match fuel with
  | O => []
  | S k =>
      match ids with
      | [] => []
      | _ => last (firstn (Z.to_nat ids_per_block) ids) stub_id
             :: chunk_mins k (skipn (Z.to_nat ids_per_block) ids)
      end
  end.
(* MinBlockIDs written by the sealer: the last (= smallest) ID of every block of 4096 *)
Definition min_block_ids (ids : list id) : list id := chunk_mins (S (length ids)) ids.

Definition sealed_le (ids mins : list id) (lid : Z) (x : id) : bool :=
  if Z.of_nat (length ids) <=? lid then true
  else
    let bi := lid / ids_per_block in
    if negb (id_le (id_at mins bi) x) then false
    else if (0 <? bi) && id_le (id_at mins (bi - 1)) x then true
    else
      let c := id_at ids lid in
      if fst c =? fst x then (if snd x =? u64max then true else snd c <=? snd x)
      else fst c <? fst x.

(* ------------------------------------------------------------------ fractions, search *)
(* ids of a fraction: the table WITHOUT the stub, descending *)
Record fraction := { f_sealed : bool; f_info : info; f_ids : list id }.

Definition in_range (from to : Z) (x : id) : bool := (from <=? fst x) && (fst x <=? to).

(* elements at LIDs lo..hi of the table stub :: ids *)
Definition slice (ids : list id) (lo hi : Z) : list id :=
  firstn (Z.to_nat (hi + 1 - lo)) (skipn (Z.to_nat (lo - 1)) ids).

(* the IDs index IndexSearch receives: sealed fractions compare through the block minima written
   by the sealer, active ones compare directly *)
Definition frac_le (f : fraction) : Z -> id -> bool :=
  let tbl := stub_id :: f_ids f in
  if f_sealed f then sealed_le tbl (min_block_ids tbl) else plain_le tbl.

Definition frac_scan (f : fraction) (from to : Z) : option (list id) :=
  let tbl := stub_id :: f_ids f in
  match lids_borders (frac_le f) (Z.of_nat (length tbl)) from to with
  | None => None
  | Some (lo, hi) => Some (slice (f_ids f) lo hi)
  end.

(* List.FilterInRange *)
Definition filter_in_range (fs : list fraction) (from to : Z) : list fraction :=
  filter (fun f => info_is_intersecting (f_info f) from to) fs.

Fixpoint concat_opt (l : list (option (list id))) : option (list id) :=
  match l with
  | [] => Some []
  | None :: _ => None
  | Some x :: r => match concat_opt r with None => None | Some y => Some (x ++ y) end
  end.

(* what the searcher examines: pruned fractions, each narrowed to its LID borders *)
Definition pruned_scan (fs : list fraction) (from to : Z) : option (list id) :=
  concat_opt (map (fun f => frac_scan f from to) (filter_in_range fs from to)).

(* reference: every document of every fraction *)
Definition full_scan (fs : list fraction) (from to : Z) : list id :=
  flat_map (fun f => filter (in_range from to) (f_ids f)) fs.
