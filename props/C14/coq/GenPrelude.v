(* C14 — HAND-WRITTEN, TRUSTED prelude of the generated definitions (Gen.v): the externs of
   props/C14/gen.json. Each definition stands for a standard-library operation that go2coq does not
   translate; it is part of the trusted base and listed in evidence. NO proofs.

   instant: a time.Time made by time.UnixMilli (the only constructor on the anchored paths:
   NewMIDsDistribution gets such times, UnmarshalJSON uses time.UnixMilli, MID.Time uses it) is
   represented by its int64 count of milliseconds since the Unix epoch. *)
From Coq Require Import ZArith.
Open Scope Z_scope.

Definition instant : Type := Z.
(* time.UnixMilli(ms) *)
Definition time_UnixMilli (ms : Z) : instant := ms.
(* t.Before(u), t.After(u) *)
Definition time_Before (t u : instant) : bool := t <? u.
Definition time_After (t u : instant) : bool := u <? t.
(* t.Sub(u): the difference as a time.Duration (int64 nanoseconds), saturating at the int64 ends *)
Definition time_Sub (t u : instant) : Z :=
  let d := (t - u) * 1000000 in
  if 9223372036854775807 <? d then 9223372036854775807
  else if d <? -9223372036854775808 then -9223372036854775808 else d.
