(* C14 — shape of the generated cases and the two executable verdicts. No proofs. *)
From Coq Require Import ZArith List Bool Uint63.
From VLib Require Import CaseLib.
From C14 Require Import Model.
(* gen-* cases (validation of the translator go2coq) *)
From VLib Require GoSem.
From C14 Require GenCase.
Notation GVal := GoSem.GVal.
Notation GPanic := GoSem.GPanic.
Notation GFuel := GoSem.GFuel.
Import ListNotations.
Open Scope Z_scope.

Definition zlist_eqb := list_eqb Z.eqb.
Definition id_eqb (a b : id) : bool := (fst a =? fst b) && (snd a =? snd b).
Definition ids_eqb := list_eqb id_eqb.

(* observable state of a distribution: from ms, to ms, bucket ns, bitmask size, bitmask bytes *)
Definition dstate := (Z * Z * Z * Z * list Z)%type.
Definition dist_state (d : dist) : dstate :=
  (d_from d, d_to d, d_bucket d, bm_size (d_mask d), bm_bin (d_mask d)).
Definition dstate_eqb (a b : dstate) : bool :=
  let '(f1, t1, b1, s1, l1) := a in
  let '(f2, t2, b2, s2, l2) := b in
  (f1 =? f2) && (t1 =? t2) && (b1 =? b2) && (s1 =? s2) && zlist_eqb l1 l2.

(* what the driver saw: no distribution (nil pointer), a panic, or a distribution *)
Inductive ostate := SNone | SPanic | SDist (s : dstate).
Definition ostate_eqb (a b : ostate) : bool :=
  match a, b with
  | SNone, SNone | SPanic, SPanic => true
  | SDist x, SDist y => dstate_eqb x y
  | _, _ => false
  end.

Definition ostate_of_dist (d : option dist) : ostate :=
  match d with None => SNone | Some d => SDist (dist_state d) end.
Definition ostate_of_info (i : option info) : ostate :=
  match i with None => SPanic | Some i => ostate_of_dist (i_dist i) end.

(* JSON round trip of a bare distribution pointer *)
Definition dist_roundtrip (d : dist) : option (option dist) :=
  match dist_marshal d with
  | None => Some None
  | Some j => match dist_unmarshal j with None => None | Some d' => Some (Some d') end
  end.
Definition ostate_of_rt (r : option (option dist)) : ostate :=
  match r with None => SPanic | Some d => ostate_of_dist d end.
Definition isect_opt (d : option dist) (qf qt : Z) : bool :=
  match d with None => true | Some d => dist_is_intersecting d qf qt end.

Definition all_small (l : list Z) : bool := forallb (fun m => m <? two63) l.
Definition some_in (l : list Z) (qf qt : Z) : bool := existsb (fun m => (qf <=? m) && (m <=? qt)) l.

Fixpoint nondecreasing (l : list Z) : bool :=
  match l with
  | a :: ((b :: _) as r) => (a <=? b) && nondecreasing r
  | _ => true
  end.

Inductive dcase :=
(* util.Bitmask: NewBitmask(size); Set(p, true) for p in sets; bin = GetBitmaskBinary();
   qs = (l, r, HasBitsIn(l, r)) *)
| CBits (size : Z) (sets : list Z) (bin : list Z) (qs : list (Z * Z * bool))
(* seq.MIDsDistribution: NewMIDsDistribution(from, to, bucket) (ms, ms, ns); Add(m) for m in adds;
   st = state; rt = state after MarshalJSON/UnmarshalJSON into a nil pointer;
   idx = (mid, midToIndex(mid)), mids ascending; qs = (qf, qt, IsIntersecting, same on restored) *)
| CDist (from to bucket : Z) (adds : list Z) (st : dstate) (rt : ostate)
        (idx : list (Z * Z)) (qs : list (Z * Z * bool * bool))
(* frac.Info{DocsTotal = |docs|, From = ifrom, To = ito, CreationTime}.BuildDistribution(ids) with
   ids = docs (preceded by the stub ID when with_stub); st = Distribution; rt = Distribution after
   Info.Save / Info.Load; qs = (qf, qt, Info.IsIntersecting, same on the restored Info) *)
| CInfo (creation : Z) (docs : list Z) (with_stub : bool) (ifrom ito : Z) (st rt : ostate)
        (qs : list (Z * Z * bool * bool))
(* processor.getLIDsBorders over a plain in-memory index holding stub :: ids (ids descending);
   qs = (minMID, maxMID, minLID, maxLID) *)
| CBorders (ids : list id) (qs : list (Z * Z * Z * Z))
(* one REAL fraction. ids = the documents the driver appended, descending; creation = creation time
   set through the export hook; sealed; restored (Info read back from the index file or from
   .frac-cache after a restart); info fields as observed; mins = MinBlockIDs of a sealed fraction;
   tbl_ok = the fraction's IDs index lists exactly stub :: ids;
   qs = (qf, qt, Fraction.IsIntersecting, minLID, maxLID from getLIDsBorders on the real index,
         IDs returned by Searcher.SearchDocs on this fraction alone) *)
| CFrac (creation : Z) (ids : list id) (sealed restored : bool) (itotal ifrom ito : Z) (st : ostate)
        (mins : list id) (tbl_ok : bool) (qs : list (Z * Z * bool * Z * Z * list id))
(* several real fractions of one store. all = every document, descending, no duplicates;
   qs = (qf, qt, IDs returned by SearchDocs over all fractions);
   fetched = (id, found) through Fetcher.FetchDocs for every stored ID *)
| CStore (all : list id) (qs : list (Z * Z * list id)) (fetched : list (id * bool))
(* chunked search with early stop by time borders (Searcher.SearchDocs: List.Sort by To / From,
   FractionsPerIteration = fpi < number of fractions, calcEnsuredIDsCount) over real fractions with
   NESTED / overlapping time ranges. all = every document, descending, no duplicates;
   qs = (qf, qt, limit, reverse (ascending order), fpi, IDs returned) *)
| CChunk (all : list id) (qs : list (Z * Z * Z * bool * Z * list id)).

Definition mids_of (ids : list id) : list Z := map fst ids.

Definition model_frac_info (creation : Z) (ids : list id) (sealed restored : bool) : option info :=
  let mids := mids_of ids in
  if sealed then
    (if restored then info_roundtrip (sealed_info creation mids) else Some (sealed_info creation mids))
  else Some (active_info creation mids).

(* ------------------------------------------------------------ model output = implementation output *)
Definition dcase_agrees (c : dcase) : bool :=
  match c with
  | CBits size sets bin qs =>
      let b := fold_left bm_set sets (bm_new size) in
      zlist_eqb (bm_bin b) bin &&
      forallb (fun q => let '(l, r, res) := q in Bool.eqb (bm_has_bits_in b l r) res) qs
  | CDist from to bucket adds st rt idx qs =>
      let d := fold_left dist_add adds (dist_new from to bucket) in
      let r := dist_roundtrip d in
      dstate_eqb (dist_state d) st && ostate_eqb (ostate_of_rt r) rt &&
      forallb (fun p => mid_to_index d (fst p) =? snd p) idx &&
      forallb (fun q => let '(qf, qt, r1, r2) := q in
                 Bool.eqb (dist_is_intersecting d qf qt) r1 &&
                 match r with None => true | Some d' => Bool.eqb (isect_opt d' qf qt) r2 end) qs
  | CInfo creation docs with_stub ifrom ito st rt qs =>
      let i0 := active_info creation docs in
      let i := build_distribution i0 (if with_stub then stub_mid :: docs else docs) in
      let r := info_roundtrip i in
      (i_from i0 =? ifrom) && (i_to i0 =? ito) &&
      ostate_eqb (ostate_of_dist (i_dist i)) st && ostate_eqb (ostate_of_info r) rt &&
      forallb (fun q => let '(qf, qt, r1, r2) := q in
                 Bool.eqb (info_is_intersecting i qf qt) r1 &&
                 match r with None => true | Some i' => Bool.eqb (info_is_intersecting i' qf qt) r2 end) qs
  | CBorders ids qs =>
      let tbl := stub_id :: ids in
      forallb (fun q => let '(qf, qt, lo, hi) := q in
                 match lids_borders (plain_le tbl) (Z.of_nat (length tbl)) qf qt with
                 | Some (a, b) => (a =? lo) && (b =? hi)
                 | None => false
                 end) qs
  | CFrac creation ids sealed restored itotal ifrom ito st mins tbl_ok qs =>
      match model_frac_info creation ids sealed restored with
      | None => false
      | Some i =>
          let tbl := stub_id :: ids in
          (i_docs_total i =? itotal) && (i_from i =? ifrom) && (i_to i =? ito) &&
          ostate_eqb (ostate_of_dist (i_dist i)) st && tbl_ok &&
          (if sealed then ids_eqb (min_block_ids tbl) mins else true) &&
          forallb (fun q => let '(qf, qt, r, lo, hi, _) := q in
                     Bool.eqb (info_is_intersecting i qf qt) r &&
                     match lids_borders (plain_le tbl) (Z.of_nat (length tbl)) qf qt with
                     | Some (a, b) => (a =? lo) && (b =? hi)
                     | None => false
                     end &&
                     (if sealed then
                        match lids_borders (sealed_le tbl mins) (Z.of_nat (length tbl)) qf qt with
                        | Some (a, b) => (a =? lo) && (b =? hi)
                        | None => false
                        end
                      else true)) qs
      end
  | CStore _ _ _ => true
  | CChunk _ _ => true
  end.

(* ------------------------------------------------------------ implementation output satisfies C14
   (independent of the model's algorithms): pruning never hides a document in range.
   Hypotheses of the theorems are guards here: stored MIDs below 2^63 (query ends and requested
   IDs range over all uint64 since 6d376ea); the ID (0,0)
   is not stored when the query starts at 0. *)
Definition has_zero_id (ids : list id) : bool := existsb (fun x => id_eqb x (0, 0)) ids.

Definition dcase_spec_ok (c : dcase) : bool :=
  match c with
  | CBits size sets bin qs =>
      forallb (fun q => let '(l, r, res) := q in
                 if l <=? r then Bool.eqb res (some_in sets l r) else true) qs
  | CDist from to bucket adds st rt idx qs =>
      negb (ostate_eqb rt SPanic) &&
      (* index monotone (all uint64) and inside the bitmask *)
      nondecreasing (map fst idx) && nondecreasing (map snd idx) &&
      forallb (fun p => (0 <=? snd p) && (snd p <? (let '(_, _, _, s, _) := st in s))) idx &&
      forallb (fun q => let '(qf, qt, r1, r2) := q in
                 if some_in adds qf qt then r1 && r2 else true) qs
  | CInfo creation docs with_stub ifrom ito st rt qs =>
      if all_small docs then
        negb (ostate_eqb rt SPanic) &&
        forallb (fun q => let '(qf, qt, r1, r2) := q in
                   if some_in docs qf qt then r1 && r2 else true) qs
      else true
  | CBorders ids qs =>
      forallb (fun q => let '(qf, qt, lo, hi) := q in
                 if (qf =? 0) && has_zero_id ids then true
                 else ids_eqb (slice ids lo hi) (filter (in_range qf qt) ids)) qs
  | CFrac creation ids sealed restored itotal ifrom ito st mins tbl_ok qs =>
      if all_small (mids_of ids) then
        forallb (fun q => let '(qf, qt, r, lo, hi, res) := q in
                   if negb ((qf =? 0) && has_zero_id ids) then
                     (if some_in (mids_of ids) qf qt then r else true) &&
                     ids_eqb res (filter (in_range qf qt) ids)
                   else true) qs
      else true
  | CStore all qs fetched =>
      if all_small (mids_of all) then
        forallb (fun q => let '(qf, qt, res) := q in
                   if negb ((qf =? 0) && has_zero_id all) then
                     ids_eqb res (filter (in_range qf qt) all)
                   else true) qs &&
        forallb (fun p => snd p) fetched
      else true
  | CChunk all qs =>
      (* the chunked search returns the same top-L as examining every fraction *)
      if all_small (mids_of all) then
        forallb (fun q => let '(qf, qt, lim, rv, _, res) := q in
                   if negb ((qf =? 0) && has_zero_id all) then
                     let inr := filter (in_range qf qt) all in
                     ids_eqb res (firstn (Z.to_nat lim) (if (rv : bool) then rev inr else inr))
                   else true) qs
      else true
  end.

(* ------------------------------------------------------------ wire format of the generated files.
   Coq elaborates literals slowly (about 30 us per AST node; a 13-digit Z numeral is ~45 nodes, and
   every polymorphic cons/pair adds implicit arguments). The driver therefore writes the cases with
   monomorphic containers whose numbers are primitive 63-bit integer literals (one node each);
   [decode] maps them to [dcase]. A uint64 is packed into 63 bits by zones (see [wz]); the driver
   only generates values inside the zones. *)
Definition p60 : Z := 1152921504606846976.
Definition p61 : Z := 2 * p60.
Definition p62 : Z := 4 * p60.
(* [0, 2^61) as is; [2^61, 2^62) -> [2^63 - 2^60, 2^63 + 2^60); [2^62, 2^63) -> [2^64 - 2^62, 2^64) *)
Definition wz (x : int) : Z :=
  let z := Uint63.to_Z x in
  if z <? p61 then z
  else if z <? p62 then z - p61 + (two63 - p60)
  else z - p62 + (two64 - p62).

Inductive zl := zn | zc (h : int) (t : zl).
(* idj = concatenation: long lists are written as a chain of chunks, so that the nesting depth of
   the literal stays small (the parser is recursive) *)
Inductive idl := idn | idc (m r : int) (t : idl) | idj (a b : idl).
Inductive q3l := q3n | q3c (a b : int) (r : bool) (t : q3l).
Inductive q4l := q4n | q4c (a b : int) (r1 r2 : bool) (t : q4l).
Inductive b4l := b4n | b4c (a b c d : int) (t : b4l).
Inductive fql := fqn | fqc (qf qt : int) (r : bool) (lo hi : int) (res : idl) (t : fql).
Inductive sql := sqn | sqc (qf qt : int) (res : idl) (t : sql).
Inductive ful := fun_ | fuc (m r : int) (found : bool) (t : ful).
Inductive cql := cqn | cqc (qf qt lim : int) (rv : bool) (fpi : int) (res : idl) (t : cql).
Inductive wstate := WNone | WPanic | WDist (f t b s : int) (bin : zl).

Fixpoint of_zl (l : zl) : list Z := match l with zn => [] | zc h t => wz h :: of_zl t end.
Fixpoint of_idl (l : idl) : list id :=
  match l with idn => [] | idc m r t => (wz m, wz r) :: of_idl t | idj a b => of_idl a ++ of_idl b end.
Fixpoint of_q3l (l : q3l) : list (Z * Z * bool) :=
  match l with q3n => [] | q3c a b r t => (wz a, wz b, r) :: of_q3l t end.
Fixpoint of_q4l (l : q4l) : list (Z * Z * bool * bool) :=
  match l with q4n => [] | q4c a b r1 r2 t => (wz a, wz b, r1, r2) :: of_q4l t end.
Fixpoint of_b4l (l : b4l) : list (Z * Z * Z * Z) :=
  match l with b4n => [] | b4c a b c d t => (wz a, wz b, wz c, wz d) :: of_b4l t end.
Fixpoint of_fql (l : fql) : list (Z * Z * bool * Z * Z * list id) :=
  match l with
  | fqn => []
  | fqc qf qt r lo hi res t => (wz qf, wz qt, r, wz lo, wz hi, of_idl res) :: of_fql t
  end.
Fixpoint of_sql (l : sql) : list (Z * Z * list id) :=
  match l with sqn => [] | sqc qf qt res t => (wz qf, wz qt, of_idl res) :: of_sql t end.
Fixpoint of_ful (l : ful) : list (id * bool) :=
  match l with fun_ => [] | fuc m r b t => ((wz m, wz r), b) :: of_ful t end.
Fixpoint of_cql (l : cql) : list (Z * Z * Z * bool * Z * list id) :=
  match l with
  | cqn => []
  | cqc qf qt lim rv fpi res t => (wz qf, wz qt, wz lim, rv, wz fpi, of_idl res) :: of_cql t
  end.
Definition of_wstate (w : wstate) : ostate :=
  match w with
  | WNone => SNone
  | WPanic => SPanic
  | WDist f t b s bin => SDist (wz f, wz t, wz b, wz s, of_zl bin)
  end.
Definition dstate_of_w (w : wstate) : dstate :=
  match w with WDist f t b s bin => (wz f, wz t, wz b, wz s, of_zl bin) | _ => (0, 0, 0, -1, []) end.

Inductive case :=
| WBits (size : int) (sets bin : zl) (qs : q3l)
| WDistC (from to bucket : int) (adds : zl) (st rt : wstate) (idx : idl) (qs : q4l)
| WInfo (creation : int) (docs : zl) (with_stub : bool) (ifrom ito : int) (st rt : wstate) (qs : q4l)
| WBorders (ids : idl) (qs : b4l)
| WFrac (creation : int) (ids : idl) (sealed restored : bool) (itotal ifrom ito : int) (st : wstate)
        (mins : idl) (tbl_ok : bool) (qs : fql)
| WStore (all : idl) (qs : sql) (fetched : ful)
| WChunk (all : idl) (qs : cql)
(* gen-<func>: the REAL Go function number fn (GenCase.gen_eval) was called on args and returned impl (or
   panicked); the model side is the definition GENERATED from the Go source by go2coq (Gen.v) *)
| CGen (fn : N) (args : list (list Z)) (impl : GoSem.gres).

Definition decode (c : case) : dcase :=
  match c with
  | WBits size sets bin qs => CBits (wz size) (of_zl sets) (of_zl bin) (of_q3l qs)
  | WDistC from to bucket adds st rt idx qs =>
      CDist (wz from) (wz to) (wz bucket) (of_zl adds) (dstate_of_w st) (of_wstate rt) (of_idl idx) (of_q4l qs)
  | WInfo creation docs with_stub ifrom ito st rt qs =>
      CInfo (wz creation) (of_zl docs) with_stub (wz ifrom) (wz ito) (of_wstate st) (of_wstate rt) (of_q4l qs)
  | WBorders ids qs => CBorders (of_idl ids) (of_b4l qs)
  | WFrac creation ids sealed restored itotal ifrom ito st mins tbl_ok qs =>
      CFrac (wz creation) (of_idl ids) sealed restored (wz itotal) (wz ifrom) (wz ito) (of_wstate st)
            (of_idl mins) tbl_ok (of_fql qs)
  | WStore all qs fetched => CStore (of_idl all) (of_sql qs) (of_ful fetched)
  | WChunk all qs => CChunk (of_idl all) (of_cql qs)
  | CGen _ _ _ => CBits 0 [] [] []
  end.

Definition case_agrees (c : case) : bool :=
  match c with
  | CGen fn args impl => GoSem.gres_eqb (GenCase.gen_eval fn args) impl
  | _ => dcase_agrees (decode c)
  end.
Definition case_spec_ok (c : case) : bool :=
  match c with
  | CGen _ _ _ => true   (* translator validation: correspondence only *)
  | _ => dcase_spec_ok (decode c)
  end.

Definition diff_indices (l : list case) : list nat := bad_indices (fun c => negb (case_agrees c)) l.
Definition specfail_indices (l : list case) : list nat := bad_indices (fun c => negb (case_spec_ok c)) l.
