(* C14 - proofs about the LID borders (sort.Search, getLIDsBorders) and the pruned scan. *)
From Coq Require Import ZArith List Bool Lia.
From C14 Require Import Model ProofsBits ProofsDist.
Import ListNotations.
Open Scope Z_scope.

(* ------------------------------------------------------------------ sort.Search *)
Definition mono_on (f : Z -> bool) (lo hi : Z) : Prop :=
  forall a b, lo <= a -> a <= b -> b < hi -> f a = true -> f b = true.

Lemma search_loop_spec : forall fuel f i j,
  i <= j -> (Z.to_nat (j - i) < fuel)%nat -> mono_on f i j ->
  exists k, search_loop fuel f i j = Some k /\ i <= k <= j /\
            (forall x, i <= x < k -> f x = false) /\ (forall x, k <= x < j -> f x = true).
Proof.
  induction fuel as [|n IH]; intros f i j Hij Hfuel Hm; [lia|].
  simpl. destruct (Z.ltb_spec i j) as [Hlt|Hge].
  - set (h := (i + j) / 2).
    assert (Hh : i <= h < j).
    { unfold h. split; [apply Z.div_le_lower_bound; lia|apply Z.div_lt_upper_bound; lia]. }
    destruct (f h) eqn:Efh.
    + destruct (IH f i h ltac:(lia) ltac:(lia)) as [k [E [R [F T]]]].
      { intros a b Ha Hab Hb. apply Hm; lia. }
      exists k. split; [exact E|]. split; [lia|]. split; [exact F|].
      intros x Hx. destruct (Z_lt_le_dec x h); [apply T; lia|].
      apply (Hm h x); auto; lia.
    + destruct (IH f (h + 1) j ltac:(lia) ltac:(lia)) as [k [E [R [F T]]]].
      { intros a b Ha Hab Hb. apply Hm; lia. }
      exists k. split; [exact E|]. split; [lia|]. split; [|exact T].
      intros x Hx. destruct (Z_lt_le_dec h x); [apply F; lia|].
      destruct (f x) eqn:Efx; auto. assert (f h = true) by (apply (Hm x h); auto; lia). congruence.
  - exists i. split; [reflexivity|]. split; [lia|]. split; intros; lia.
Qed.

(* adequacy of the fuel + meaning of BinSearchInRange: the least position of [from, to] where f
   holds, or to + 1 *)
Lemma bin_search_spec : forall from to f,
  from <= to + 1 -> mono_on f from (to + 1) ->
  exists k, bin_search_in_range from to f = Some k /\ from <= k <= to + 1 /\
            (forall x, from <= x < k -> f x = false) /\ (forall x, k <= x <= to -> f x = true).
Proof.
  intros from to f H Hm. unfold bin_search_in_range, sort_search.
  destruct (search_loop_spec (S (Z.to_nat (to - from + 1))) (fun i => f (from + i)) 0 (to - from + 1))
    as [k [E [R [F T]]]]; try lia.
  { intros a b Ha Hab Hb. apply Hm; lia. }
  rewrite E. exists (from + k). split; [reflexivity|]. split; [lia|]. split.
  - intros x Hx. replace x with (from + (x - from)) by lia. apply F. lia.
  - intros x Hx. replace x with (from + (x - from)) by lia. apply T. lia.
Qed.

(* ------------------------------------------------------------------ IDs *)
Definition id_ok (x : id) : Prop := 0 <= fst x < two64 /\ 0 <= snd x < two64.
Definition ids_ok (ids : list id) : Prop := forall x, In x ids -> id_ok x.

(* descending by seq.LessOrEqual (duplicates allowed) *)
Definition desc_sorted (ids : list id) : Prop :=
  forall a b, (a <= b)%nat -> (b < length ids)%nat -> id_le (nth b ids stub_id) (nth a ids stub_id) = true.

Lemma id_le_trans : forall a b c, id_le a b = true -> id_le b c = true -> id_le a c = true.
Proof.
  intros [a1 a2] [b1 b2] [c1 c2]. unfold id_le. simpl. intros H1 H2.
  destruct (Z.eqb_spec a1 b1), (Z.eqb_spec b1 c1), (Z.eqb_spec a1 c1);
  rewrite ?Z.leb_le, ?Z.ltb_lt in *. all: try lia.
Qed.

Lemma le_max_id : forall x qt, id_ok x -> id_le x (qt, u64max) = (fst x <=? qt).
Proof.
  intros [m r] qt [Hm Hr]. unfold id_le, u64max, two64 in *. simpl in *.
  destruct (Z.eqb_spec m qt).
  - subst. rewrite Z.leb_refl. apply Z.leb_le. lia.
  - destruct (Z.ltb_spec m qt); destruct (Z.leb_spec m qt); auto; lia.
Qed.

Lemma le_min_id : forall x qf, id_ok x -> 0 <= qf -> (qf = 0 -> x <> (0, 0)) ->
  id_le x (if 0 <? qf then (qf - 1, u64max) else (qf, 0)) = (fst x <? qf).
Proof.
  intros [m r] qf [Hm Hr] H0 Hz. simpl in *. destruct (Z.ltb_spec 0 qf).
  - rewrite le_max_id by (split; auto). simpl.
    destruct (Z.leb_spec m (qf - 1)); destruct (Z.ltb_spec m qf); auto; lia.
  - assert (qf = 0) by lia. subst qf. unfold id_le. simpl.
    destruct (Z.eqb_spec m 0).
    + subst m. destruct (Z.leb_spec r 0); auto.
      exfalso. apply Hz; auto. f_equal. lia.
    + destruct (Z.ltb_spec m 0); auto.
Qed.

(* ------------------------------------------------------------------ filter over a sorted list = slice *)
Lemma filter_none : forall {A} (P : A -> bool) l, (forall x, In x l -> P x = false) -> filter P l = [].
Proof.
  induction l; intros H; simpl; auto. rewrite (H a (or_introl eq_refl)). apply IHl.
  intros x Hx. apply H. right. exact Hx.
Qed.

Lemma filter_interval : forall {A} (P : A -> bool) d l lo hi,
  (forall p, (p < length l)%nat -> P (nth p l d) = ((lo <=? p)%nat && (p <? hi)%nat)) ->
  filter P l = firstn (hi - lo) (skipn lo l).
Proof.
  intros A P d. induction l as [|a l IH]; intros lo hi H.
  - rewrite skipn_nil, firstn_nil. reflexivity.
  - pose proof (H 0%nat ltac:(simpl; lia)) as H0. simpl in H0.
    assert (Hs : forall lo' hi', (forall p, (p < length l)%nat ->
                ((lo <=? S p)%nat && (S p <? hi)%nat) = ((lo' <=? p)%nat && (p <? hi')%nat)) ->
                filter P l = firstn (hi' - lo') (skipn lo' l)).
    { intros lo' hi' Hc. apply IH. intros p Hp. rewrite <- Hc by exact Hp.
      apply (H (S p)). simpl. lia. }
    simpl filter. destruct lo as [|lo].
    + destruct hi as [|hi].
      * rewrite H0. simpl. rewrite (Hs 0%nat 0%nat); [reflexivity|].
        intros p Hp. reflexivity.
      * rewrite H0. simpl. f_equal. rewrite (Hs 0%nat hi); [rewrite Nat.sub_0_r; reflexivity|].
        intros p Hp. simpl. reflexivity.
    + rewrite H0. simpl. rewrite (Hs lo (hi - 1)%nat).
      * f_equal. lia.
      * intros p Hp. destruct hi as [|hi].
        { simpl. rewrite andb_false_r. destruct (p <? 0)%nat eqn:E; [apply Nat.ltb_lt in E; lia|].
          rewrite andb_false_r. reflexivity. }
        { replace (S hi - 1)%nat with hi by lia. reflexivity. }
Qed.

(* ------------------------------------------------------------------ getLIDsBorders *)
Lemma id_at_tbl : forall ids lid, 1 <= lid -> id_at (stub_id :: ids) lid = nth (Z.to_nat (lid - 1)) ids stub_id.
Proof.
  intros ids lid H. unfold id_at. replace (Z.to_nat lid) with (S (Z.to_nat (lid - 1))) by lia. reflexivity.
Qed.

Lemma plain_le_mono : forall ids x, desc_sorted ids ->
  mono_on (fun lid => plain_le (stub_id :: ids) lid x) 1 (Z.of_nat (length ids) + 1).
Proof.
  intros ids x Hs a b Ha Hab Hb H. unfold plain_le in *.
  rewrite id_at_tbl in * by lia.
  apply id_le_trans with (nth (Z.to_nat (a - 1)) ids stub_id); auto.
  apply Hs; lia.
Qed.

(* ------------------------------------------------------------------ sealed LessOrEqual = plain *)
(* the binary search only looks at positions inside its range *)
Lemma search_loop_ext : forall fuel f g i j,
  (forall x, i <= x < j -> f x = g x) -> search_loop fuel f i j = search_loop fuel g i j.
Proof.
  induction fuel as [|n IH]; intros f g i j H; [reflexivity|].
  simpl. destruct (Z.ltb_spec i j) as [Hlt|]; [|reflexivity].
  assert (Hh : i <= (i + j) / 2 < j).
  { split; [apply Z.div_le_lower_bound; lia|apply Z.div_lt_upper_bound; lia]. }
  rewrite <- (H _ Hh). destruct (f ((i + j) / 2)); apply IH; intros x Hx; apply H; lia.
Qed.

Lemma bin_search_ext : forall from to f g,
  (forall x, from <= x <= to -> f x = g x) -> bin_search_in_range from to f = bin_search_in_range from to g.
Proof.
  intros from to f g H. unfold bin_search_in_range, sort_search.
  rewrite (search_loop_ext _ (fun i => f (from + i)) (fun i => g (from + i))); [reflexivity|].
  intros x Hx. apply H. lia.
Qed.

Lemma id_le_stub : forall x, id_ok x -> id_le x stub_id = true.
Proof.
  intros [m r] [Hm Hr]. unfold id_le, stub_id, u64max, two64 in *. simpl in *.
  match goal with |- context [?a =? ?b] => destruct (Z.eqb_spec a b) end; [apply Z.leb_le|apply Z.ltb_lt]; lia.
Qed.

Lemma id_le_refl : forall x, id_le x x = true.
Proof. intros [m r]. unfold id_le. simpl. rewrite Z.eqb_refl. apply Z.leb_refl. Qed.

(* the whole table stub :: ids is descending *)
Lemma tbl_sorted : forall ids a b, ids_ok ids -> desc_sorted ids ->
  (a <= b)%nat -> (b < S (length ids))%nat ->
  id_le (nth b (stub_id :: ids) stub_id) (nth a (stub_id :: ids) stub_id) = true.
Proof.
  intros ids a b Hok Hs Hab Hb. destruct a as [|a].
  - destruct b as [|b]; [apply id_le_refl|]. simpl. apply id_le_stub. apply Hok. apply nth_In. lia.
  - destruct b as [|b]; [lia|]. simpl. apply Hs; lia.
Qed.

Lemma last_nth' : forall (l : list id) d, last l d = nth (length l - 1) l d.
Proof.
  induction l as [|a l IH]; intros d; [reflexivity|].
  destruct l as [|b l]; [reflexivity|]. change (last (a :: b :: l) d) with (last (b :: l) d).
  rewrite IH. simpl length.
  replace (S (S (length l)) - 1)%nat with (S (S (length l) - 1)) by lia. reflexivity.
Qed.

Definition ipb : nat := Z.to_nat ids_per_block.
Lemma ipb_pos : (0 < ipb)%nat. Proof. unfold ipb, ids_per_block. lia. Qed.

Lemma chunk_mins_S : forall k ids,
  chunk_mins (S k) ids =
  match ids with [] => [] | _ => last (firstn ipb ids) stub_id :: chunk_mins k (skipn ipb ids) end.
Proof. reflexivity. Qed.

(* MinBlockIDs[b] = the last ID of block b *)
Lemma chunk_mins_nth : forall b fuel (ids : list id), (b < fuel)%nat -> (b * ipb < length ids)%nat ->
  nth b (chunk_mins fuel ids) stub_id = nth (Nat.min ((b + 1) * ipb) (length ids) - 1) ids stub_id.
Proof.
  pose proof ipb_pos as HK.
  induction b as [|b IH]; intros fuel ids Hf Hb.
  - destruct fuel as [|k]; [lia|]. rewrite chunk_mins_S.
    destruct ids as [|x ids']; [simpl in Hb; lia|]. set (ids := x :: ids') in *.
    cbn [nth]. rewrite last_nth'. rewrite firstn_length.
    rewrite nth_firstn' by lia. f_equal; lia.
  - destruct fuel as [|k]; [lia|]. rewrite chunk_mins_S.
    destruct ids as [|x ids']; [simpl in Hb; lia|]. set (ids := x :: ids') in *.
    cbn [nth]. rewrite IH; [|lia|rewrite skipn_length; lia].
    rewrite nth_skipn'. rewrite skipn_length. f_equal; lia.
Qed.

Lemma rid_shortcut : forall c x : id, id_ok c ->
  (if fst c =? fst x then (if snd x =? u64max then true else snd c <=? snd x) else fst c <? fst x) = id_le c x.
Proof.
  intros [cm cr] [xm xr] [_ Hr]. unfold id_le. simpl in *. destruct (cm =? xm); [|reflexivity].
  destruct (Z.eqb_spec xr u64max) as [->|]; [|reflexivity].
  symmetry. apply Z.leb_le. unfold u64max. lia.
Qed.

Lemma tbl_id_ok : forall ids p, ids_ok ids -> id_ok (nth p (stub_id :: ids) stub_id).
Proof.
  intros ids p Hok. assert (Hs : id_ok stub_id) by (unfold id_ok, stub_id, u64max, two64; simpl; lia).
  destruct (Nat.lt_ge_cases p (length (stub_id :: ids))) as [L|L].
  - destruct p; [exact Hs|]. simpl. apply Hok. apply nth_In. simpl in L. lia.
  - rewrite nth_overflow by exact L. exact Hs.
Qed.

(* thm:C04_lessorequal_shortcuts, re-proved over this model: for a descending table the sealed
   comparison with its three shortcuts (block minimum, previous block minimum, RID = MaxUint64)
   is the plain comparison, at every valid LID *)
Theorem sealed_le_plain : forall ids lid x, ids_ok ids -> desc_sorted ids ->
  0 <= lid < Z.of_nat (length (stub_id :: ids)) ->
  sealed_le (stub_id :: ids) (min_block_ids (stub_id :: ids)) lid x = plain_le (stub_id :: ids) lid x.
Proof.
  intros ids lid x Hok Hs Hl. set (tbl := stub_id :: ids) in *.
  assert (Hlen : length tbl = S (length ids)) by reflexivity.
  pose proof ipb_pos as HK.
  unfold sealed_le, plain_le. destruct (Z.leb_spec (Z.of_nat (length tbl)) lid); [lia|].
  set (bi := lid / ids_per_block).
  assert (Hbi : ids_per_block * bi <= lid < ids_per_block * (bi + 1) /\ 0 <= bi).
  { unfold bi, ids_per_block. pose proof (Z.div_mod lid 4096 ltac:(lia)).
    pose proof (Z.mod_pos_bound lid 4096 ltac:(lia)). pose proof (Z.div_pos lid 4096 ltac:(lia) ltac:(lia)). lia. }
  assert (HKz : Z.of_nat ipb = ids_per_block) by (unfold ipb, ids_per_block; lia).
  set (b := Z.to_nat bi).
  assert (Hsort : forall p q, (p <= q)%nat -> (q < length tbl)%nat ->
                  id_le (nth q tbl stub_id) (nth p tbl stub_id) = true).
  { intros p q Hpq Hq. apply tbl_sorted; auto; try (rewrite <- Hlen; exact Hq). }
  (* minimum of the LID's own block *)
  assert (M1 : id_at (min_block_ids tbl) bi = nth (Nat.min ((b + 1) * ipb) (length tbl) - 1) tbl stub_id).
  { unfold id_at, min_block_ids. fold b. apply chunk_mins_nth; unfold b; nia. }
  rewrite M1. set (p1 := (Nat.min ((b + 1) * ipb) (length tbl) - 1)%nat).
  set (c := id_at tbl lid). unfold id_at in c.
  assert (L1 : id_le (nth p1 tbl stub_id) c = true).
  { apply Hsort; unfold p1, b; nia. }
  assert (Hc : id_ok c) by (apply tbl_id_ok; exact Hok).
  destruct (id_le (nth p1 tbl stub_id) x) eqn:E1; cbn [negb].
  - destruct (Z.ltb_spec 0 bi) as [B0|B0]; cbn [andb].
    + assert (M0 : id_at (min_block_ids tbl) (bi - 1) = nth (Nat.min (b * ipb) (length tbl) - 1) tbl stub_id).
      { unfold id_at, min_block_ids. replace (Z.to_nat (bi - 1)) with (b - 1)%nat by (unfold b; lia).
        rewrite chunk_mins_nth; [|unfold b; nia|unfold b; nia].
        replace (b - 1 + 1)%nat with b by (unfold b; lia). reflexivity. }
      rewrite M0. set (p0 := (Nat.min (b * ipb) (length tbl) - 1)%nat).
      destruct (id_le (nth p0 tbl stub_id) x) eqn:E0.
      * symmetry. apply id_le_trans with (nth p0 tbl stub_id); [|exact E0].
        apply Hsort; unfold p0, b; nia.
      * apply rid_shortcut. exact Hc.
    + apply rid_shortcut. exact Hc.
  - symmetry. destruct (id_le c x) eqn:E; [|reflexivity].
    rewrite (id_le_trans _ _ _ L1 E) in E1. discriminate.
Qed.

Lemma frac_le_plain : forall f lid x, ids_ok (f_ids f) -> desc_sorted (f_ids f) ->
  0 <= lid < Z.of_nat (length (stub_id :: f_ids f)) ->
  frac_le f lid x = plain_le (stub_id :: f_ids f) lid x.
Proof.
  intros f lid x Hok Hs Hl. unfold frac_le. destruct (f_sealed f); [|reflexivity].
  apply sealed_le_plain; assumption.
Qed.

(* thm:C02_borders as far as C14 needs it: the LIDs between the borders are exactly the documents
   whose MID lies in [qf, qt] *)
Theorem frac_scan_spec : forall f qf qt,
  ids_ok (f_ids f) -> desc_sorted (f_ids f) -> 0 <= qf -> (qf = 0 -> ~ In (0, 0) (f_ids f)) ->
  frac_scan f qf qt = Some (filter (in_range qf qt) (f_ids f)).
Proof.
  intros f qf qt Hok Hs H0 Hz. unfold frac_scan, lids_borders. cbv zeta.
  set (ids := f_ids f) in *. set (n := Z.of_nat (length ids)).
  replace (Z.of_nat (length (stub_id :: ids))) with (n + 1) by (unfold n; simpl length; lia).
  destruct (Z.eqb_spec (n + 1) 0); [lia|].
  replace (n + 1 - 1) with n by lia.
  assert (Hag : forall lid x, 1 <= lid <= n -> frac_le f lid x = plain_le (stub_id :: ids) lid x).
  { intros lid x Hl. apply frac_le_plain; auto. fold ids. simpl length. unfold n in Hl. lia. }
  rewrite (bin_search_ext 1 n _ (fun lid => plain_le (stub_id :: ids) lid (qt, u64max)))
    by (intros x Hx; apply Hag; exact Hx).
  destruct (bin_search_spec 1 n (fun lid => plain_le (stub_id :: ids) lid (qt, u64max)))
    as [k1 [E1 [R1 [F1 T1]]]]; [lia|apply plain_le_mono; exact Hs|].
  rewrite E1.
  match goal with |- context [bin_search_in_range k1 n (fun lid => frac_le f lid ?m)] =>
    rewrite (bin_search_ext k1 n _ (fun lid => plain_le (stub_id :: ids) lid m))
      by (intros x Hx; apply Hag; lia) end.
  match goal with |- context [bin_search_in_range k1 n ?g] =>
    destruct (bin_search_spec k1 n g) as [k2 [E2 [R2 [F2 T2]]]]; [lia| |] end.
  { intros a b Ha Hab Hb. apply (plain_le_mono ids _ Hs); lia. }
  rewrite E2. f_equal. unfold slice.
  replace (Z.to_nat (k2 - 1 + 1 - k1)) with (Z.to_nat (k2 - 1) - Z.to_nat (k1 - 1))%nat by lia.
  symmetry. apply filter_interval with (d := stub_id).
  intros p Hp.
  assert (Hin : In (nth p ids stub_id) ids) by (apply nth_In; exact Hp).
  pose proof (Hok _ Hin) as Hidok.
  assert (Hnz : qf = 0 -> nth p ids stub_id <> (0, 0)).
  { intros Hq Heq. apply (Hz Hq). rewrite <- Heq. exact Hin. }
  set (lid := Z.of_nat p + 1).
  assert (Hat : id_at (stub_id :: ids) lid = nth p ids stub_id).
  { rewrite id_at_tbl by (unfold lid; lia). f_equal. unfold lid. lia. }
  unfold in_range.
  (* upper border *)
  assert (U : (fst (nth p ids stub_id) <=? qt) = (k1 <=? lid)).
  { rewrite <- le_max_id by exact Hidok. rewrite <- Hat.
    destruct (Z.leb_spec k1 lid).
    - apply (T1 lid). unfold lid, n in *. lia.
    - apply (F1 lid). unfold lid in *. lia. }
  (* lower border, for the LIDs from k1 on *)
  assert (L : k1 <= lid -> (fst (nth p ids stub_id) <? qf) = (k2 <=? lid)).
  { intros Hk. rewrite <- (le_min_id _ qf Hidok H0 Hnz). rewrite <- Hat.
    destruct (Z.leb_spec k2 lid).
    - apply (T2 lid). unfold lid, n in *. lia.
    - apply (F2 lid). lia. }
  rewrite U.
  destruct (Z.leb_spec k1 lid) as [Hk|Hk].
  - rewrite andb_true_r.
    replace (qf <=? fst (nth p ids stub_id)) with (negb (fst (nth p ids stub_id) <? qf))
      by (destruct (Z.ltb_spec (fst (nth p ids stub_id)) qf); destruct (Z.leb_spec qf (fst (nth p ids stub_id))); auto; lia).
    rewrite (L Hk).
    replace (Z.to_nat (k1 - 1) <=? p)%nat with true by (symmetry; apply Nat.leb_le; unfold lid in *; lia).
    simpl. destruct (Z.leb_spec k2 lid); destruct (Nat.ltb_spec p (Z.to_nat (k2 - 1))); auto; unfold lid in *; lia.
  - rewrite andb_false_r.
    replace (Z.to_nat (k1 - 1) <=? p)%nat with false by (symmetry; apply Nat.leb_gt; unfold lid in *; lia).
    reflexivity.
Qed.

(* ------------------------------------------------------------------ FilterInRange + borders *)
Definition mids_of (ids : list id) : list Z := map fst ids.

(* a fraction as the store holds it: IDs descending, MIDs below 2^63; a sealed fraction compares IDs
   through the block minima and carries the Info written by Seal, an active one compares directly
   and carries the border-only Info (also after Save / Load, which restores it
   unchanged: C14_intersect_sound) *)
Record frac_ok (f : fraction) : Prop := {
  fo_ids : ids_ok (f_ids f);
  fo_sorted : desc_sorted (f_ids f);
  fo_mids : docs_ok (mids_of (f_ids f));
  fo_info : exists creation, is_u64 creation /\
            f_info f = if f_sealed f then sealed_info creation (mids_of (f_ids f))
                       else active_info creation (mids_of (f_ids f))
}.

Lemma pruned_fraction_empty : forall f qf qt,
  frac_ok f -> 0 <= qf ->
  info_is_intersecting (f_info f) qf qt = false -> filter (in_range qf qt) (f_ids f) = [].
Proof.
  intros f qf qt [Hids Hs Hm [c [Hc Hi]]] H0 Hf.
  apply filter_none. intros x Hx.
  destruct (in_range qf qt x) eqn:E; auto. exfalso.
  unfold in_range in E. apply andb_true_iff in E. destruct E as [E1 E2].
  apply Z.leb_le in E1. apply Z.leb_le in E2.
  assert (Hin : In (fst x) (mids_of (f_ids f))) by (apply in_map; exact Hx).
  destruct (intersect_sound c (mids_of (f_ids f)) (fst x) qf qt Hc Hm Hin H0 E1 E2) as [A [B _]].
  rewrite Hi in Hf. destruct (f_sealed f); congruence.
Qed.

(* thm:C14_pruning_is_optimisation *)
Theorem pruning_is_optimisation : forall fs qf qt,
  Forall frac_ok fs -> 0 <= qf ->
  (qf = 0 -> forall f, In f fs -> ~ In (0, 0) (f_ids f)) ->
  pruned_scan fs qf qt = Some (full_scan fs qf qt).
Proof.
  intros fs qf qt Hall H0 Hz. unfold pruned_scan, full_scan, filter_in_range.
  induction fs as [|f fs IH]; [reflexivity|].
  inversion Hall as [|? ? Hf Hrest]; subst.
  assert (IH' := IH Hrest (fun Hq g Hg => Hz Hq g (or_intror Hg))). clear IH.
  simpl. destruct (info_is_intersecting (f_info f) qf qt) eqn:E.
  - simpl. rewrite (frac_scan_spec f qf qt (fo_ids f Hf) (fo_sorted f Hf) H0
                      (fun Hq => Hz Hq f (or_introl eq_refl))).
    rewrite IH'. reflexivity.
  - rewrite (pruned_fraction_empty f qf qt Hf H0 E). simpl. exact IH'.
Qed.

(* fetch side (fracmanager/fetcher.go groupIDsByFraction): a stored document's fraction survives
   FilterInRange(min, max) over the requested IDs and Contains(mid) *)
Theorem fetch_candidates_sound : forall f x lo hi,
  frac_ok f -> In x (f_ids f) -> 0 <= lo -> lo <= fst x -> fst x <= hi ->
  info_is_intersecting (f_info f) lo hi = true /\
  info_is_intersecting (f_info f) (fst x) (fst x) = true.
Proof.
  intros f x lo hi [Hids Hs Hm [c [Hc Hi]]] Hx H0 H1 H2.
  assert (Hin : In (fst x) (mids_of (f_ids f))) by (apply in_map; exact Hx).
  pose proof (Hm _ Hin) as Rx.
  destruct (intersect_sound c _ (fst x) lo hi Hc Hm Hin H0 H1 H2) as [A [B _]].
  destruct (intersect_sound c _ (fst x) (fst x) (fst x) Hc Hm Hin ltac:(lia) ltac:(lia) ltac:(lia))
    as [A' [B' _]].
  rewrite Hi. destruct (f_sealed f); auto.
Qed.
