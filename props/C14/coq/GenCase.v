(* C14 — dispatch of the gen-* correspondence cases (validation of the translator go2coq): evaluates the
   GENERATED definitions of Gen.v on the arguments the harness passed to the real Go functions. NO proofs.
   Argument encoding: a bitmask is (size, bytes); a distribution is (fromMs, toMs, bucketNs, size, bytes);
   the fuel of the HasBitsIn loop is the number of bytes + 2. *)
From Coq Require Import ZArith List Bool.
From VLib Require Import GoSem.
From C14 Require Import GenPrelude Gen.
Import ListNotations.
Open Scope Z_scope.

Definition gen_bm (a : list (list Z)) (i : nat) : go_Bitmask := mk_go_Bitmask (arg a i) (argl a (S i)).
Definition gen_dist (a : list (list Z)) : go_MIDsDistribution :=
  mk_go_MIDsDistribution (arg a 0) (arg a 1) (arg a 2) (gen_bm a 3).

(* round 2. The predicate handed to BinSearchInRange by the harness is `func(i int) bool { return bits[i-from] != 0 }`
   (it panics outside the table); the index handed to getLIDsBorders is a table of (MID, RID) pairs compared with
   the generated seq.LessOrEqual, Len() = its length (a LID outside the table reads (0, 0)). *)
Definition gen_pred (from : Z) (bits : list Z) : Z -> outcome bool :=
  fun x => if (x - from <? 0) || (len bits <=? x - from) then Panic else Val (negb (idx bits (x - from) =? 0)).
Definition gen_index (mids rids : list Z) : ids_index go_ID :=
  mk_ix go_ID (len mids) (fun lid x => go_seq_LessOrEqual (mk_go_ID (idx mids lid) (idx rids lid)) x).

Definition gen_eval (fn : N) (a : list (list Z)) : gres :=
  match fn with
  | 1%N => gres_of enc_z (go_util_Bitmask_GetSize_run (gen_bm a 0))
  | 2%N => gres_of enc_b (go_util_Bitmask_Get_run (gen_bm a 0) (arg a 2))
  | 3%N => gres_of enc_b (go_util_Bitmask_HasBitsIn_run (S (S (length (argl a 1)))) (gen_bm a 0) (arg a 2) (arg a 3))
  | 4%N => gres_of enc_z (go_seq_MID_Time_run (arg a 0))
  | 5%N => gres_of enc_z (go_seq_MIDsDistribution_size_run (gen_dist a))
  | 6%N => gres_of enc_z (go_seq_MIDsDistribution_midToIndex_run (gen_dist a) (arg a 5))
  | 7%N => gres_of enc_b (go_seq_MIDsDistribution_isUndefined_run (gen_dist a))
  | 8%N => gres_of enc_b (go_seq_MIDsDistribution_IsIntersecting_run (S (S (length (argl a 4)))) (gen_dist a) (arg a 5) (arg a 6))
  | 9%N => gres_of enc_b (go_seq_LessOrEqual_run (mk_go_ID (arg a 0) (arg a 1)) (mk_go_ID (arg a 2) (arg a 3)))
  | 10%N => gres_of enc_z (go_util_BinSearchInRange_run (arg a 0) (arg a 1) (gen_pred (arg a 0) (argl a 2)))
  | 11%N => gres_of enc_zz (go_processor_getLIDsBorders_run (arg a 0) (arg a 1) (gen_index (argl a 2) (argl a 3)))
  | _ => GFuel
  end.
