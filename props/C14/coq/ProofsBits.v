(* C14 — proofs about util.Bitmask (Model.v: bm_*). *)
From Coq Require Import ZArith List Bool Lia.
From C14 Require Import Model.
Import ListNotations.
Open Scope Z_scope.

Lemma to_i64_small : forall u, 0 <= u < two63 -> to_i64 u = u.
Proof. intros u H. unfold to_i64. destruct (Z.ltb_spec u two63); lia. Qed.
