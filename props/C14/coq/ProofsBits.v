(* C14 - proofs about util.Bitmask (the bm_ functions of Model.v) and the machine-integer helpers. *)
From Coq Require Import ZArith List Bool Lia.
From C14 Require Import Model.
Import ListNotations.
Open Scope Z_scope.

(* ------------------------------------------------------------------ finite enumeration *)
Definition zrange (n : nat) : list Z := map Z.of_nat (seq 0 n).

Lemma in_zrange : forall n x, 0 <= x < Z.of_nat n -> In x (zrange n).
Proof.
  intros n x H. unfold zrange. apply in_map_iff. exists (Z.to_nat x). split; [lia|].
  apply in_seq. lia.
Qed.

Lemma in_zrange_inv : forall n x, In x (zrange n) -> 0 <= x < Z.of_nat n.
Proof.
  intros n x H. unfold zrange in H. apply in_map_iff in H. destruct H as [k [<- H]].
  apply in_seq in H. lia.
Qed.

(* bit k of byte x is set, for some k between lb and rb *)
Definition bits_between (x lb rb : Z) : bool :=
  existsb (fun k => (lb <=? k) && (k <=? rb) && get_bit x k) (zrange 8).

Lemma bits_between_true : forall x lb rb,
  bits_between x lb rb = true <-> exists k, 0 <= k < 8 /\ lb <= k <= rb /\ get_bit x k = true.
Proof.
  intros. unfold bits_between. rewrite existsb_exists. split.
  - intros [k [Hin H]]. apply in_zrange_inv in Hin. exists k.
    apply andb_true_iff in H. destruct H as [H H3]. apply andb_true_iff in H. destruct H as [H1 H2].
    repeat split; try lia; auto.
  - intros [k [H0 [H1 H2]]]. exists k. split; [apply in_zrange; simpl; lia|].
    rewrite H2. replace (lb <=? k) with true by (symmetry; apply Z.leb_le; lia).
    replace (k <=? rb) with true by (symmetry; apply Z.leb_le; lia). reflexivity.
Qed.

(* ------------------------------------------------------------------ byte facts, by exhaustive check *)
Definition byte_check : bool :=
  forallb (fun x =>
    Bool.eqb (0 <? x) (bits_between x 0 7) &&
    forallb (fun a =>
      Bool.eqb (0 <? Z.land x (left_mask a)) (bits_between x a 7) &&
      Bool.eqb (0 <? Z.land x (right_mask (a + 1))) (bits_between x 0 a) &&
      (0 <=? set_bit x a) && (set_bit x a <? 256) &&
      forallb (fun b =>
        Bool.eqb (0 <? Z.land (Z.land x (left_mask a)) (right_mask (b + 1))) (bits_between x a b) &&
        Bool.eqb (get_bit (set_bit x a) b) ((b =? a) || get_bit x b)) (zrange 8)) (zrange 8)) (zrange 256).

Lemma byte_check_ok : byte_check = true.
Proof. vm_compute. reflexivity. Qed.

Section ByteFacts.
  Variable x : Z.
  Hypothesis Hx : 0 <= x < 256.

  Let HX : In x (zrange 256). Proof. apply in_zrange. simpl. lia. Qed.

  Lemma byte_pos : (0 <? x) = bits_between x 0 7.
  Proof.
    pose proof byte_check_ok as H. unfold byte_check in H. rewrite forallb_forall in H.
    specialize (H x HX). apply andb_true_iff in H. destruct H as [H _]. apply eqb_prop in H. exact H.
  Qed.

  Section A.
    Variable a : Z.
    Hypothesis Ha : 0 <= a < 8.
    Let HA : In a (zrange 8). Proof. apply in_zrange. simpl. lia. Qed.

    Lemma byte_a_facts :
      (0 <? Z.land x (left_mask a)) = bits_between x a 7 /\
      (0 <? Z.land x (right_mask (a + 1))) = bits_between x 0 a /\
      0 <= set_bit x a < 256 /\
      forall b, 0 <= b < 8 ->
        (0 <? Z.land (Z.land x (left_mask a)) (right_mask (b + 1))) = bits_between x a b /\
        get_bit (set_bit x a) b = ((b =? a) || get_bit x b).
    Proof.
      pose proof byte_check_ok as H. unfold byte_check in H. rewrite forallb_forall in H.
      specialize (H x HX). apply andb_true_iff in H. destruct H as [_ H].
      rewrite forallb_forall in H. specialize (H a HA).
      repeat (apply andb_true_iff in H; let H' := fresh "H" in destruct H as [H H']).
      apply eqb_prop in H. apply eqb_prop in H3. apply Z.leb_le in H2. apply Z.ltb_lt in H1.
      repeat split; auto.
      - rewrite forallb_forall in H0. specialize (H0 b (in_zrange 8 b ltac:(simpl; lia))).
        apply andb_true_iff in H0. destruct H0 as [H0 _]. apply eqb_prop in H0. exact H0.
      - rewrite forallb_forall in H0. specialize (H0 b (in_zrange 8 b ltac:(simpl; lia))).
        apply andb_true_iff in H0. destruct H0 as [_ H0]. apply eqb_prop in H0. exact H0.
    Qed.
  End A.
End ByteFacts.

Lemma get_bit_zero : forall k, get_bit 0 k = false.
Proof. intros. unfold get_bit. rewrite Z.land_0_l. reflexivity. Qed.

(* ------------------------------------------------------------------ lists of bytes *)
Definition bytes_ok (bin : list Z) : Prop := Forall (fun x => 0 <= x < 256) bin.

Lemma byte_at_range : forall bin i, bytes_ok bin -> 0 <= byte_at bin i < 256.
Proof.
  intros bin i H. unfold byte_at.
  destruct (Nat.lt_ge_cases (Z.to_nat i) (length bin)) as [Hl|Hl].
  - unfold bytes_ok in H. rewrite Forall_forall in H. apply H. apply nth_In. exact Hl.
  - rewrite nth_overflow by exact Hl. lia.
Qed.

Lemma upd_nth_length : forall l n f, length (upd_nth n f l) = length l.
Proof. induction l; intros [|n] f; simpl; auto. Qed.

Lemma upd_nth_nth : forall l n f m,
  nth m (upd_nth n f l) 0 = if (Nat.eqb m n && (n <? length l)%nat)%bool then f (nth n l 0) else nth m l 0.
Proof.
  induction l; intros n f m.
  - simpl. destruct n, m; simpl; try rewrite andb_false_r; reflexivity.
  - destruct n, m; simpl; auto.
    rewrite IHl. reflexivity.
Qed.

Lemma upd_nth_ok : forall l n f, bytes_ok l -> (forall x, 0 <= x < 256 -> 0 <= f x < 256) ->
  bytes_ok (upd_nth n f l).
Proof.
  induction l; intros n f H Hf; simpl.
  - destruct n; constructor.
  - inversion H; subst. destruct n; constructor; auto. apply IHl; auto.
Qed.

Lemma nth_skipn' : forall {A} (l : list A) m k d, nth k (skipn m l) d = nth (m + k) l d.
Proof.
  intros A l. induction l; intros m k d.
  - rewrite skipn_nil. destruct k, (m + 0)%nat, m; reflexivity.
  - destruct m; simpl; auto.
Qed.

Lemma nth_firstn' : forall {A} (l : list A) n k d, (k < n)%nat -> nth k (firstn n l) d = nth k l d.
Proof.
  intros A l. induction l; intros n k d H.
  - rewrite firstn_nil. reflexivity.
  - destruct n; [lia|]. destruct k; simpl; auto. apply IHl. lia.
Qed.

Lemma in_slice_nth : forall (l : list Z) m n x,
  In x (firstn n (skipn m l)) -> exists j, (m <= j < m + n)%nat /\ (j < length l)%nat /\ nth j l 0 = x.
Proof.
  intros l m n x H. apply In_nth with (d := 0) in H. destruct H as [k [Hk Hx]].
  rewrite firstn_length, skipn_length in Hk.
  rewrite nth_firstn' in Hx by lia.
  rewrite nth_skipn' in Hx. exists (m + k)%nat. repeat split; try lia; try exact Hx.
Qed.

Lemma nth_in_slice : forall (l : list Z) m n j,
  (m <= j < m + n)%nat -> (j < length l)%nat -> In (nth j l 0) (firstn n (skipn m l)).
Proof.
  intros l m n j H Hl. replace j with (m + (j - m))%nat by lia.
  rewrite <- nth_skipn'. set (k := (j - m)%nat).
  assert (Hk : (k < n)%nat) by (unfold k; lia).
  assert (Hk2 : (k < length (skipn m l))%nat) by (rewrite skipn_length; unfold k; lia).
  replace (nth k (skipn m l) 0) with (nth k (firstn n (skipn m l)) 0).
  - apply nth_In. rewrite firstn_length. lia.
  - apply nth_firstn'. exact Hk.
Qed.

(* ------------------------------------------------------------------ HasBitsIn *)
Lemma div_mod_8 : forall i, 0 <= i -> i = 8 * (i / 8) + i mod 8 /\ 0 <= i mod 8 < 8 /\ 0 <= i / 8.
Proof.
  intros i H. pose proof (Z.div_mod i 8 ltac:(lia)). pose proof (Z.mod_pos_bound i 8 ltac:(lia)).
  pose proof (Z.div_pos i 8 H ltac:(lia)). lia.
Qed.

Lemma bm_get_at : forall b j k, 0 <= j -> 0 <= k < 8 ->
  bm_get b (8 * j + k) = get_bit (byte_at (bm_bin b) j) k.
Proof.
  intros b j k Hj Hk. unfold bm_get.
  replace ((8 * j + k) / 8) with j by (apply Z.div_unique with k; lia).
  replace ((8 * j + k) mod 8) with k by (apply Z.mod_unique with j; lia).
  reflexivity.
Qed.

Theorem has_bits_in_spec : forall b l r,
  bytes_ok (bm_bin b) -> 0 <= l -> l <= r ->
  (bm_has_bits_in b l r = true <-> exists i, l <= i <= r /\ bm_get b i = true).
Proof.
  intros b l r Hok Hl Hlr.
  destruct (div_mod_8 l Hl) as [El [Bl Dl]].
  destruct (div_mod_8 r ltac:(lia)) as [Er [Br Dr]].
  set (li := l / 8) in *. set (ri := r / 8) in *. set (lb := l mod 8) in *. set (rb := r mod 8) in *.
  assert (Hle : li <= ri) by (unfold li, ri; apply Z.div_le_mono; lia).
  pose proof (byte_at_range (bm_bin b) li Hok) as Rli.
  pose proof (byte_at_range (bm_bin b) ri Hok) as Rri.
  destruct (byte_a_facts _ Rli lb Bl) as [FL [_ [_ FLR]]].
  destruct (byte_a_facts _ Rri rb Br) as [_ [FR [_ _]]].
  unfold bm_has_bits_in. fold li ri lb rb.
  destruct (Z.eqb_spec li ri) as [Heq|Hne].
  - (* same byte *)
    destruct (FLR rb Br) as [F _]. rewrite F. rewrite bits_between_true. split.
    + intros [k [Hk [Hk2 Hg]]]. exists (8 * li + k). split; [lia|]. rewrite bm_get_at by lia. exact Hg.
    + intros [i [Hi Hg]]. destruct (div_mod_8 i ltac:(lia)) as [Ei [Bi Di]].
      assert (i / 8 = li).
      { assert (li <= i / 8) by (unfold li; apply Z.div_le_mono; lia).
        assert (i / 8 <= ri) by (unfold ri; apply Z.div_le_mono; lia). lia. }
      exists (i mod 8). split; [lia|]. split; [lia|].
      unfold bm_get in Hg. rewrite H in Hg. exact Hg.
  - assert (Hlt : li < ri) by lia. clear Hne.
    rewrite FL, FR.
    split.
    + intros H.
      destruct (bits_between (byte_at (bm_bin b) li) lb 7) eqn:E1.
      { apply bits_between_true in E1. destruct E1 as [k [Hk [Hk2 Hg]]].
        exists (8 * li + k). split; [lia|]. rewrite bm_get_at by lia. exact Hg. }
      destruct (bits_between (byte_at (bm_bin b) ri) 0 rb) eqn:E2.
      { apply bits_between_true in E2. destruct E2 as [k [Hk [Hk2 Hg]]].
        exists (8 * ri + k). split; [lia|]. rewrite bm_get_at by lia. exact Hg. }
      apply existsb_exists in H. destruct H as [x [Hin Hx]].
      apply in_slice_nth in Hin. destruct Hin as [j [Hj [Hjl Hnth]]].
      assert (Rx : 0 <= x < 256).
      { subst x. unfold bytes_ok in Hok. rewrite Forall_forall in Hok. apply Hok. apply nth_In. exact Hjl. }
      rewrite (byte_pos x Rx) in Hx. apply bits_between_true in Hx. destruct Hx as [k [Hk [_ Hg]]].
      exists (8 * Z.of_nat j + k). split; [lia|]. rewrite bm_get_at by lia.
      unfold byte_at. rewrite Nat2Z.id. rewrite Hnth. exact Hg.
    + intros [i [Hi Hg]]. destruct (div_mod_8 i ltac:(lia)) as [Ei [Bi Di]].
      assert (H1 : li <= i / 8) by (unfold li; apply Z.div_le_mono; lia).
      assert (H2 : i / 8 <= ri) by (unfold ri; apply Z.div_le_mono; lia).
      unfold bm_get in Hg.
      destruct (bits_between (byte_at (bm_bin b) li) lb 7) eqn:E1; [reflexivity|].
      destruct (bits_between (byte_at (bm_bin b) ri) 0 rb) eqn:E2; [reflexivity|].
      assert (Hmid : li < i / 8 < ri).
      { split.
        - destruct (Z.eq_dec (i / 8) li) as [E|E]; [|lia]. exfalso.
          rewrite E in Hg. assert (bits_between (byte_at (bm_bin b) li) lb 7 = true).
          { apply bits_between_true. exists (i mod 8). repeat split; try lia. exact Hg. }
          congruence.
        - destruct (Z.eq_dec (i / 8) ri) as [E|E]; [|lia]. exfalso.
          rewrite E in Hg. assert (bits_between (byte_at (bm_bin b) ri) 0 rb = true).
          { apply bits_between_true. exists (i mod 8). repeat split; try lia. exact Hg. }
          congruence. }
      apply existsb_exists. exists (byte_at (bm_bin b) (i / 8)).
      assert (Hlen : (Z.to_nat (i / 8) < length (bm_bin b))%nat).
      { destruct (Nat.lt_ge_cases (Z.to_nat (i / 8)) (length (bm_bin b))) as [L|L]; auto.
        exfalso. unfold byte_at in Hg. rewrite nth_overflow in Hg by exact L.
        rewrite get_bit_zero in Hg. discriminate. }
      split.
      * unfold byte_at. apply nth_in_slice; lia.
      * pose proof (byte_at_range (bm_bin b) (i / 8) Hok) as R. rewrite (byte_pos _ R).
        apply bits_between_true. exists (i mod 8). repeat split; try lia. exact Hg.
Qed.

(* ------------------------------------------------------------------ Set / Get *)
Lemma bm_set_ok : forall b p, bytes_ok (bm_bin b) -> 0 <= p -> bytes_ok (bm_bin (bm_set b p)).
Proof.
  intros b p H Hp. simpl. apply upd_nth_ok; auto.
  intros x Hx. destruct (div_mod_8 p Hp) as [_ [B _]].
  destruct (byte_a_facts x Hx (p mod 8) B) as [_ [_ [R _]]]. exact R.
Qed.

Lemma bm_set_length : forall b p, length (bm_bin (bm_set b p)) = length (bm_bin b).
Proof. intros. simpl. apply upd_nth_length. Qed.

Lemma bm_set_size : forall b p, bm_size (bm_set b p) = bm_size b.
Proof. reflexivity. Qed.

(* after Set(p): bit p is set (when p lies inside the byte array), all other bits are unchanged *)
Lemma bm_get_set : forall b p q, bytes_ok (bm_bin b) -> 0 <= p -> 0 <= q ->
  (Z.to_nat (p / 8) < length (bm_bin b))%nat ->
  bm_get (bm_set b p) q = ((q =? p) || bm_get b q).
Proof.
  intros b p q Hok Hp Hq Hlen.
  destruct (div_mod_8 p Hp) as [Ep [Bp Dp]]. destruct (div_mod_8 q Hq) as [Eq [Bq Dq]].
  unfold bm_get, bm_set, byte_at. simpl. rewrite upd_nth_nth.
  replace (Z.to_nat (p / 8) <? length (bm_bin b))%nat with true by (symmetry; apply Nat.ltb_lt; exact Hlen).
  rewrite andb_true_r.
  destruct (Nat.eqb_spec (Z.to_nat (q / 8)) (Z.to_nat (p / 8))) as [E|E].
  - assert (E' : q / 8 = p / 8) by lia.
    pose proof (byte_at_range (bm_bin b) (p / 8) Hok) as R. unfold byte_at in R.
    destruct (byte_a_facts _ R (p mod 8) Bp) as [_ [_ [_ F]]].
    destruct (F (q mod 8) Bq) as [_ G]. rewrite G. rewrite E.
    destruct (Z.eqb_spec (q mod 8) (p mod 8)); destruct (Z.eqb_spec q p); try reflexivity; lia.
  - destruct (Z.eqb_spec q p) as [->|]; [contradiction|]. reflexivity.
Qed.

Lemma bm_new_ok : forall size, bytes_ok (bm_bin (bm_new size)).
Proof. intros. simpl. unfold bytes_ok. apply Forall_forall. intros x H. apply repeat_spec in H. lia. Qed.

Lemma bm_new_length : forall size, length (bm_bin (bm_new size)) = bm_nbytes size.
Proof. intros. simpl. apply repeat_length. Qed.

(* a position below size lies inside the byte array of a bitmask with the right length *)
Lemma pos_in_bytes : forall size p, 0 <= p < size -> (Z.to_nat (p / 8) < bm_nbytes size)%nat.
Proof.
  intros size p H. unfold bm_nbytes.
  assert (p / 8 < (size + 7) / 8).
  { apply Z.div_lt_upper_bound; [lia|].
    pose proof (Z.div_mod (size + 7) 8 ltac:(lia)). pose proof (Z.mod_pos_bound (size + 7) 8 ltac:(lia)). lia. }
  pose proof (Z.div_pos p 8 ltac:(lia) ltac:(lia)). lia.
Qed.

(* ------------------------------------------------------------------ machine integers *)
Lemma to_i64_small : forall u, 0 <= u < two63 -> to_i64 u = u.
Proof. intros u H. unfold to_i64. destruct (Z.ltb_spec u two63); lia. Qed.

Lemma to_i64_u64 : forall i, - two63 <= i < two63 -> to_i64 (to_u64 i) = i.
Proof.
  intros i H. unfold to_i64, to_u64, two63, two64 in *.
  destruct (Z_lt_le_dec i 0).
  - replace (i mod 18446744073709551616) with (i + 18446744073709551616)
      by (apply Z.mod_unique with (-1); lia).
    destruct (Z.ltb_spec (i + 18446744073709551616) 9223372036854775808); lia.
  - rewrite Z.mod_small by lia. destruct (Z.ltb_spec i 9223372036854775808); lia.
Qed.

Lemma sub_ns_mono : forall t1 t2 u, t1 <= t2 -> sub_ns t1 u <= sub_ns t2 u.
Proof.
  intros. unfold sub_ns, ns_per_ms, max_dur, min_dur, two63.
  repeat match goal with |- context [?a >? ?b] => destruct (Z.gtb_spec a b) end;
  repeat match goal with |- context [?a <? ?b] => destruct (Z.ltb_spec a b) end; lia.
Qed.

Lemma sub_ns_nonneg : forall t u, u <= t -> 0 <= sub_ns t u.
Proof.
  intros. unfold sub_ns, ns_per_ms, max_dur, min_dur, two63.
  repeat match goal with |- context [?a >? ?b] => destruct (Z.gtb_spec a b) end;
  repeat match goal with |- context [?a <? ?b] => destruct (Z.ltb_spec a b) end; lia.
Qed.

Lemma sub_ns_exact : forall t u, min_dur <= (t - u) * ns_per_ms <= max_dur -> sub_ns t u = (t - u) * ns_per_ms.
Proof.
  intros. unfold sub_ns.
  destruct (Z.gtb_spec ((t - u) * ns_per_ms) max_dur); [lia|].
  destruct (Z.ltb_spec ((t - u) * ns_per_ms) min_dur); lia.
Qed.
