(* C14 - proofs about seq.MIDsDistribution and frac.Info (Model.v: dist_, info_ functions). *)
From Coq Require Import ZArith List Bool Lia.
From C14 Require Import Model ProofsBits.
Import ListNotations.
Open Scope Z_scope.

(* ------------------------------------------------------------------ well-formed distributions *)
Record dist_wf (d : dist) : Prop := {
  wf_order : d_from d <= d_to d;
  wf_bucket : 0 < d_bucket d;
  wf_size : bm_size (d_mask d) = dist_size (d_from d) (d_to d) (d_bucket d);
  wf_len : length (bm_bin (d_mask d)) = bm_nbytes (bm_size (d_mask d));
  wf_bytes : bytes_ok (bm_bin (d_mask d))
}.

Definition is_u64 (m : Z) : Prop := 0 <= m < two64.

Lemma to_i64_range : forall m, is_u64 m -> - two63 <= to_i64 m < two63.
Proof. intros m H. unfold is_u64, to_i64, two63, two64 in *. destruct (Z.ltb_spec m 9223372036854775808); lia. Qed.

Lemma quot_nonneg : forall a b, 0 <= a -> 0 < b -> Z.quot a b = a / b.
Proof. intros. apply Z.quot_div_nonneg; lia. Qed.

Lemma dist_size_ge3 : forall from to bucket, from <= to -> 0 < bucket -> 3 <= dist_size from to bucket.
Proof.
  intros. unfold dist_size. rewrite quot_nonneg by (try apply sub_ns_nonneg; lia).
  pose proof (Z.div_pos (sub_ns to from) bucket (sub_ns_nonneg _ _ H) H0). lia.
Qed.

(* thm:C14_index_monotone, first half: every index lies inside the bitmask (any uint64, also >= 2^63) *)
Lemma index_in_range : forall d m, dist_wf d -> 0 <= mid_to_index d m < bm_size (d_mask d).
Proof.
  intros d m [Ho Hb Hs _ _]. unfold mid_to_index.
  pose proof (dist_size_ge3 _ _ _ Ho Hb) as H3. rewrite <- Hs in H3.
  destruct (Z.gtb_spec m max_i64); [lia|].
  destruct (Z.ltb_spec (to_i64 m) (d_from d)); [lia|].
  destruct (Z.gtb_spec (to_i64 m) (d_to d)); [lia|].
  rewrite quot_nonneg by (try apply sub_ns_nonneg; lia).
  rewrite Hs. unfold dist_size. rewrite quot_nonneg by (try apply sub_ns_nonneg; lia).
  pose proof (Z.div_pos (sub_ns (to_i64 m) (d_from d)) (d_bucket d) (sub_ns_nonneg _ _ H0) Hb).
  assert (sub_ns (to_i64 m) (d_from d) / d_bucket d <= sub_ns (d_to d) (d_from d) / d_bucket d).
  { apply Z.div_le_mono; [lia|]. apply sub_ns_mono. lia. }
  lia.
Qed.

Lemma index_big : forall d m, m > max_i64 -> mid_to_index d m = bm_size (d_mask d) - 1.
Proof. intros d m H. unfold mid_to_index. destruct (Z.gtb_spec m max_i64); [reflexivity|lia]. Qed.

Lemma index_small : forall d m, m <= max_i64 -> mid_to_index d m = mid_to_index_v0 d m.
Proof. intros d m H. unfold mid_to_index. destruct (Z.gtb_spec m max_i64); [lia|reflexivity]. Qed.

(* second half: monotone on ALL MIDs (since 6d376ea a MID beyond int64 maps to the overflow bucket) *)
Lemma index_monotone : forall d m1 m2, dist_wf d -> 0 <= m1 -> m1 <= m2 ->
  mid_to_index d m1 <= mid_to_index d m2.
Proof.
  intros d m1 m2 Hwf H0 H12.
  pose proof (index_in_range d m1 Hwf) as R1. pose proof (index_in_range d m2 Hwf) as R2.
  destruct (Z_le_gt_dec m2 max_i64) as [G2|G2].
  2:{ rewrite (index_big d m2 G2). lia. }
  assert (G1 : m1 <= max_i64) by lia.
  rewrite (index_small d m1 G1) in *. rewrite (index_small d m2 G2) in *.
  assert (S1 : 0 <= m1 < two63) by (unfold max_i64 in *; lia).
  assert (S2 : 0 <= m2 < two63) by (unfold max_i64 in *; lia).
  clear G1 G2.
  destruct Hwf as [Ho Hb Hs _ _].
  unfold mid_to_index_v0 in *. rewrite !to_i64_small in * by assumption.
  destruct (Z.ltb_spec m1 (d_from d)); [lia|].
  destruct (Z.ltb_spec m2 (d_from d)); [lia|].
  destruct (Z.gtb_spec m1 (d_to d)).
  - destruct (Z.gtb_spec m2 (d_to d)); lia.
  - destruct (Z.gtb_spec m2 (d_to d)).
    + (* m1 inside the window, m2 after it *)
      rewrite Hs in *. unfold dist_size in *.
      rewrite !quot_nonneg in * by (try apply sub_ns_nonneg; lia).
      assert (sub_ns m1 (d_from d) / d_bucket d <= sub_ns (d_to d) (d_from d) / d_bucket d).
      { apply Z.div_le_mono; [lia|]. apply sub_ns_mono. lia. }
      lia.
    + rewrite !quot_nonneg by (try apply sub_ns_nonneg; lia).
      assert (sub_ns m1 (d_from d) / d_bucket d <= sub_ns m2 (d_from d) / d_bucket d).
      { apply Z.div_le_mono; [lia|]. apply sub_ns_mono. lia. }
      lia.
Qed.

Lemma dist_new_wf : forall from to bucket, from <= to -> 0 < bucket -> dist_wf (dist_new from to bucket).
Proof.
  intros. constructor; simpl; auto.
  - apply repeat_length.
  - apply (bm_new_ok (dist_size from to bucket)).
Qed.

(* ------------------------------------------------------------------ Add *)
Definition same_shape (d d' : dist) : Prop :=
  d_from d' = d_from d /\ d_to d' = d_to d /\ d_bucket d' = d_bucket d /\
  bm_size (d_mask d') = bm_size (d_mask d).

Lemma index_shape : forall d d' m, same_shape d d' -> mid_to_index d' m = mid_to_index d m.
Proof. intros d d' m [H1 [H2 [H3 H4]]]. unfold mid_to_index. rewrite H1, H2, H3, H4. reflexivity. Qed.

Lemma dist_add_wf : forall d m, dist_wf d -> dist_wf (dist_add d m) /\ same_shape d (dist_add d m).
Proof.
  intros d m Hwf. pose proof (index_in_range d m Hwf) as R. destruct Hwf as [Ho Hb Hs Hl Hy].
  split.
  - constructor; simpl.
    + exact Ho.
    + exact Hb.
    + exact Hs.
    + rewrite upd_nth_length. exact Hl.
    + apply (bm_set_ok (d_mask d)); [exact Hy|lia].
  - unfold same_shape. simpl. repeat split; reflexivity.
Qed.

Lemma dist_add_bits : forall d m p, dist_wf d -> 0 <= p ->
  bm_get (d_mask (dist_add d m)) p = ((p =? mid_to_index d m) || bm_get (d_mask d) p).
Proof.
  intros d m p Hwf Hp. pose proof (index_in_range d m Hwf) as R. destruct Hwf as [Ho Hb Hs Hl Hy].
  simpl. apply bm_get_set; auto; try lia.
  rewrite Hl. apply pos_in_bytes. exact R.
Qed.

Lemma fold_add_wf : forall ms d, dist_wf d ->
  let d' := fold_left dist_add ms d in
  dist_wf d' /\ same_shape d d' /\
  (forall p, 0 <= p -> bm_get (d_mask d) p = true -> bm_get (d_mask d') p = true) /\
  (forall m, In m ms -> bm_get (d_mask d') (mid_to_index d m) = true).
Proof.
  induction ms as [|a ms IH]; intros d Hwf; simpl.
  - split; [exact Hwf|]. split; [unfold same_shape; auto|]. split; [auto|]. intros m [].
  - destruct (dist_add_wf d a Hwf) as [Hwf1 Hsh1].
    destruct (IH (dist_add d a) Hwf1) as [W [S [P I]]].
    split; [exact W|]. split.
    { destruct Hsh1 as [A1 [A2 [A3 A4]]]. destruct S as [B1 [B2 [B3 B4]]].
      repeat split; congruence. }
    split.
    + intros p Hp Hg. apply P; auto. rewrite dist_add_bits by auto. rewrite Hg. apply orb_true_r.
    + intros m [->|Hin].
      * apply P. { apply (index_in_range d m Hwf). }
        rewrite dist_add_bits by (auto; apply (index_in_range d m Hwf)).
        rewrite Z.eqb_refl. reflexivity.
      * rewrite <- (index_shape d (dist_add d a) m Hsh1). apply I. exact Hin.
Qed.

(* the occupancy map never hides an added MID: every query interval [qf, qt] that contains an
   added m intersects (all uint64, no bound on the query ends) *)
Lemma dist_intersect_sound : forall d0 ms m qf qt,
  dist_wf d0 -> In m ms -> 0 <= qf -> qf <= m -> m <= qt ->
  dist_is_intersecting (fold_left dist_add ms d0) qf qt = true.
Proof.
  intros d0 ms m qf qt Hwf Hin H0 H1 H2.
  destruct (fold_add_wf ms d0 Hwf) as [W [S [_ I]]].
  set (d := fold_left dist_add ms d0) in *.
  unfold dist_is_intersecting. destruct (Z.eqb_spec (d_bucket d) 0) as [|_]; [reflexivity|].
  pose proof (index_in_range d qf W) as Rq.
  apply has_bits_in_spec.
  - apply (wf_bytes d W).
  - lia.
  - apply index_monotone; auto; lia.
  - exists (mid_to_index d m). split.
    + split; apply index_monotone; auto; lia.
    + rewrite (index_shape d0 d m S). apply I. exact Hin.
Qed.

(* ------------------------------------------------------------------ JSON fields *)
Lemma dist_json_roundtrip : forall d k,
  dist_wf d -> 0 < k -> d_bucket d = k * ns_per_s ->
  - two63 <= d_from d < two63 -> - two63 <= d_to d < two63 ->
  exists j, dist_marshal d = Some j /\ dist_unmarshal j = Some d.
Proof.
  intros d k Hwf Hk Hb Hf Ht. destruct Hwf as [Ho Hbp Hs Hl Hy].
  unfold dist_marshal. destruct (Z.eqb_spec (d_bucket d) 0) as [E|_]; [lia|].
  eexists. split; [reflexivity|].
  unfold dist_unmarshal. cbn [j_from j_to j_bucket j_bin].
  rewrite !to_i64_u64 by assumption.
  assert (Eb : ns_per_s * Z.quot (d_bucket d) ns_per_s = d_bucket d).
  { rewrite Hb. unfold ns_per_s. rewrite Z.quot_mul by lia. lia. }
  rewrite Eb. destruct (Z.eqb_spec (d_bucket d) 0) as [E|_]; [lia|].
  unfold bm_load. rewrite <- Hs. rewrite <- Hl.
  rewrite Nat.ltb_irrefl. rewrite firstn_all.
  destruct d as [f t b [sz bin]]. simpl in *. reflexivity.
Qed.

(* ------------------------------------------------------------------ frac.Info *)
Lemma fold_min_le : forall l a m, (m = a \/ In m l) -> fold_left Z.min l a <= m.
Proof.
  induction l; intros b m H; simpl.
  - destruct H as [->|[]]. lia.
  - destruct H as [->|[->|H]].
    + transitivity (Z.min b a); [|lia]. apply IHl. left. reflexivity.
    + transitivity (Z.min b m); [|lia]. apply IHl. left. reflexivity.
    + apply IHl. right. exact H.
Qed.

Lemma fold_max_ge : forall l a m, (m = a \/ In m l) -> m <= fold_left Z.max l a.
Proof.
  induction l; intros b m H; simpl.
  - destruct H as [->|[]]. lia.
  - destruct H as [->|[->|H]].
    + transitivity (Z.max b a); [lia|]. apply IHl. left. reflexivity.
    + transitivity (Z.max b m); [lia|]. apply IHl. left. reflexivity.
    + apply IHl. right. exact H.
Qed.

Lemma fold_min_in : forall l a, fold_left Z.min l a = a \/ In (fold_left Z.min l a) l.
Proof.
  induction l; intros b; simpl; [left; reflexivity|].
  destruct (IHl (Z.min b a)) as [H|H]; [|right; right; exact H].
  rewrite H. destruct (Z.min_spec b a) as [[_ E]|[_ E]]; rewrite E; [left|right; left]; reflexivity.
Qed.

Lemma sub_ns_nonpos : forall t u, t <= u -> sub_ns t u <= 0.
Proof.
  intros t u H. unfold sub_ns, ns_per_ms, max_dur, min_dur, two63.
  repeat match goal with |- context [?a >? ?b] => destruct (Z.gtb_spec a b) end;
  repeat match goal with |- context [?a <? ?b] => destruct (Z.ltb_spec a b) end; lia.
Qed.

Lemma sub_ns_le_day : forall t u, t - max_interval_ms < u -> sub_ns t u <= max_interval_ns.
Proof.
  intros t u H. unfold sub_ns, ns_per_ms, max_dur, min_dur, two63, max_interval_ns, ns_per_s.
  unfold max_interval_ms in H.
  repeat match goal with |- context [?a >? ?b] => destruct (Z.gtb_spec a b) end;
  repeat match goal with |- context [?a <? ?b] => destruct (Z.ltb_spec a b) end; lia.
Qed.

Lemma sub_ns_pos_lt : forall t u, 0 < sub_ns t u -> u < t.
Proof.
  intros t u H. destruct (Z_lt_le_dec u t); auto. pose proof (sub_ns_nonpos t u l). lia.
Qed.

Lemma sub_ns_gt_day : forall t u, sub_ns t u > max_interval_ns -> u <= t - max_interval_ms.
Proof.
  intros t u H. destruct (Z_le_gt_dec u (t - max_interval_ms)); auto.
  pose proof (sub_ns_le_day t u ltac:(lia)). lia.
Qed.

(* InitEmptyDistribution produces a well-formed one-minute distribution whose ends are int64 ms *)
Lemma init_wf : forall i d, is_u64 (i_from i) -> is_u64 (i_creation i) ->
  init_empty_distribution i = Some d ->
  dist_wf d /\ d_bucket d = 60 * ns_per_s /\ - two63 <= d_from d < two63 /\ - two63 <= d_to d < two63.
Proof.
  intros i d Hf Hc H. unfold init_empty_distribution in H.
  pose proof (to_i64_range _ Hf) as Rf. pose proof (to_i64_range _ Hc) as Rc.
  destruct (Z.ltb_spec (sub_ns (to_i64 (i_creation i)) (to_i64 (i_from i))) spread_threshold_ns) as [|Hge];
    [discriminate|].
  assert (Hlt : to_i64 (i_from i) < to_i64 (i_creation i)).
  { apply sub_ns_pos_lt. unfold spread_threshold_ns, ns_per_s in Hge. lia. }
  destruct (Z.gtb_spec (sub_ns (to_i64 (i_creation i)) (to_i64 (i_from i))) max_interval_ns) as [G|G].
  - apply Z.lt_gt in G. apply sub_ns_gt_day in G. injection H as <-.
    split; [apply dist_new_wf; [unfold max_interval_ms; lia|unfold bucket_ns, ns_per_s; lia]|].
    split; [reflexivity|]. cbn [d_from d_to dist_new]. unfold max_interval_ms in *. lia.
  - injection H as <-.
    split; [apply dist_new_wf; [lia|unfold bucket_ns, ns_per_s; lia]|].
    split; [reflexivity|]. cbn [d_from d_to dist_new]. lia.
Qed.

Definition docs_ok (docs : list Z) : Prop := forall x, In x docs -> 0 <= x < two63.

Lemma active_info_borders : forall creation docs m, In m docs ->
  i_from (active_info creation docs) <= m <= i_to (active_info creation docs).
Proof.
  intros. simpl. split; [apply fold_min_le|apply fold_max_ge]; right; exact H.
Qed.

Lemma active_info_from_u64 : forall creation docs, docs_ok docs -> is_u64 (i_from (active_info creation docs)).
Proof.
  intros creation docs H. simpl. destruct (fold_min_in docs u64max) as [E|E].
  - rewrite E. unfold is_u64, u64max, two64. lia.
  - apply H in E. unfold is_u64, two63, two64 in *. lia.
Qed.

Lemma active_info_total : forall creation docs m, In m docs -> i_docs_total (active_info creation docs) <> 0.
Proof. intros. simpl. destruct docs; [destruct H|]. simpl length. lia. Qed.

Lemma info_isect_borders : forall i m qf qt,
  i_docs_total i <> 0 -> i_from i <= m <= i_to i -> qf <= m <= qt ->
  info_is_intersecting i qf qt =
  match i_dist i with None => true | Some d => dist_is_intersecting d qf qt end.
Proof.
  intros i m qf qt Ht Hb Hq. unfold info_is_intersecting.
  destruct (Z.eqb_spec (i_docs_total i) 0); [contradiction|].
  destruct (Z.ltb_spec qt (i_from i)); [lia|]. destruct (Z.ltb_spec (i_to i) qf); [lia|]. reflexivity.
Qed.

(* BuildDistribution over any ID list that contains the documents: intersecting for every query
   interval that contains a document, and the Info survives Save / Load unchanged *)
Lemma build_sound : forall creation docs ids m qf qt,
  is_u64 creation -> docs_ok docs -> In m docs -> In m ids ->
  0 <= qf -> qf <= m -> m <= qt ->
  let i := build_distribution (active_info creation docs) ids in
  info_is_intersecting i qf qt = true /\ info_roundtrip i = Some i.
Proof.
  intros creation docs ids m qf qt Hc Hdocs Hm Hmi H0 H1 H2 i.
  pose proof (active_info_borders creation docs m Hm) as [B1 B2].
  pose proof (active_info_total creation docs m Hm) as Ht.
  pose proof (active_info_from_u64 creation docs Hdocs) as Hfu.
  set (a := active_info creation docs) in *.
  unfold i, build_distribution.
  destruct (init_empty_distribution a) as [d|] eqn:E.
  - destruct (init_wf a d Hfu Hc E) as [W [Hb [Rf Rt]]].
    destruct (fold_add_wf ids d W) as [W' [[S1 [S2 [S3 S4]]] _]].
    set (d' := fold_left dist_add ids d) in *.
    split.
    + rewrite (info_isect_borders _ m) by (simpl; auto; lia). simpl.
      apply (dist_intersect_sound d ids m qf qt W Hmi H0 H1 H2).
    + unfold info_roundtrip. simpl.
      destruct (dist_json_roundtrip d' 60 W' ltac:(lia) ltac:(rewrite S3; exact Hb)
                  ltac:(rewrite S1; exact Rf) ltac:(rewrite S2; exact Rt)) as [j [J1 J2]].
      fold d'. rewrite J1, J2. reflexivity.
  - split.
    + rewrite (info_isect_borders _ m) by (auto; lia). reflexivity.
    + reflexivity.
Qed.

(* thm:C14_intersect_sound *)
Theorem intersect_sound : forall creation docs m qf qt,
  is_u64 creation -> docs_ok docs -> In m docs ->
  0 <= qf -> qf <= m -> m <= qt ->
  info_is_intersecting (active_info creation docs) qf qt = true /\
  info_is_intersecting (sealed_info creation docs) qf qt = true /\
  info_roundtrip (sealed_info creation docs) = Some (sealed_info creation docs).
Proof.
  intros creation docs m qf qt Hc Hdocs Hm H0 H1 H2. split.
  - pose proof (active_info_borders creation docs m Hm) as [B1 B2].
    pose proof (active_info_total creation docs m Hm) as Ht.
    rewrite (info_isect_borders _ m) by (auto; lia). reflexivity.
  - unfold sealed_info.
    apply (build_sound creation docs (stub_mid :: docs) m qf qt); auto. right. exact Hm.
Qed.
