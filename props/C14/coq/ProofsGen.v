(* C14 — the definitions GENERATED from the Go sources by harness/cmd/go2coq (Gen.v, regenerated on every
   run) refine the hand-written model functions of Model.v that the property theorems are about. *)
From Coq Require Import ZArith List Bool Lia ZifyBool.
From VLib Require Import GoSem GoSemFacts.
From C14 Require Import Model ProofsBits ProofsDist GenPrelude Gen.
Import ListNotations.
Open Scope Z_scope.

Definition zbm (b : bitmask) : go_Bitmask := mk_go_Bitmask (bm_size b) (bm_bin b).
Definition zdist (d : dist) : go_MIDsDistribution :=
  mk_go_MIDsDistribution (d_from d) (d_to d) (d_bucket d) (zbm (d_mask d)).

(* the trusted extern time_Sub of GenPrelude.v is the model's sub_ns *)
Lemma time_Sub_sub_ns : forall t u, time_Sub t u = sub_ns t u.
Proof.
  intros. unfold time_Sub, sub_ns, max_dur, min_dur, ns_per_ms, two63. cbv zeta. rewrite Z.gtb_ltb.
  destruct (Z.ltb_spec 9223372036854775807 ((t - u) * 1000000));
    destruct (Z.ltb_spec (9223372036854775808 - 1) ((t - u) * 1000000)); try lia; try reflexivity.
Qed.

Lemma sub_ns_range : forall t u, - 9223372036854775808 <= sub_ns t u <= 9223372036854775807.
Proof.
  intros. rewrite <- time_Sub_sub_ns. unfold time_Sub. cbv zeta.
  destruct (Z.ltb_spec 9223372036854775807 ((t - u) * 1000000)); [lia|].
  destruct (Z.ltb_spec ((t - u) * 1000000) (-9223372036854775808)); lia.
Qed.

Lemma quot_half : forall a b, - 9223372036854775808 <= a <= 9223372036854775807 -> 1 < b ->
  - 4611686018427387904 <= Z.quot a b <= 4611686018427387904.
Proof.
  intros a b Ha Hb.
  assert (Hq : Z.abs (Z.quot a b) <= 4611686018427387904).
  { rewrite <- Z.quot_abs by lia. rewrite Z.quot_div_nonneg by lia.
    replace (Z.abs b) with b by lia.
    apply Z.le_trans with (Z.abs a / 2).
    - apply Z.div_le_compat_l; lia.
    - apply Z.div_le_upper_bound; lia. }
  lia.
Qed.

(* ------------------------------------------------------------------ util.Bitmask *)
Lemma gen_GetSize_refines : forall b, go_util_Bitmask_GetSize (zbm b) = bm_size b.
Proof. reflexivity. Qed.

Lemma gen_Get_refines : forall b pos, 0 <= pos < 9223372036854775808 ->
  pos / 8 < Z.of_nat (length (bm_bin b)) ->
  go_util_Bitmask_Get (zbm b) pos = Val (bm_get b pos).
Proof.
  intros b pos Hp Hi. unfold go_util_Bitmask_Get, bm_get, get_bit, zbm. cbv zeta. cbn [go_Bitmask_bin].
  rewrite Z.quot_div_nonneg, Z.rem_mod_nonneg by lia.
  pose proof (Z.mod_pos_bound pos 8 ltac:(lia)) as Hk.
  pose proof (Z.div_pos pos 8 ltac:(lia) ltac:(lia)) as Hd.
  assert (Hle : pos / 8 <= pos) by (apply Z.div_le_upper_bound; lia).
  rewrite i64_small by lia.
  replace ((pos / 8 <? 0) || (len (bm_bin b) <=? pos / 8)) with false by (unfold len; lia).
  replace (pos mod 8 <? 0) with false by lia.
  unfold idx, byte_at. do 2 f_equal. f_equal.
  unfold shl. replace (64 <=? pos mod 8) with false by lia.
  assert (Hc : pos mod 8 = 0 \/ pos mod 8 = 1 \/ pos mod 8 = 2 \/ pos mod 8 = 3 \/ pos mod 8 = 4 \/
               pos mod 8 = 5 \/ pos mod 8 = 6 \/ pos mod 8 = 7) by lia.
  destruct Hc as [E|[E|[E|[E|[E|[E|[E|E]]]]]]]; rewrite E; reflexivity.
Qed.

(* ------------------------------------------------------------------ seq.MID.Time, MIDsDistribution *)
Lemma gen_MID_Time_refines : forall m, 0 <= m < two64 -> go_seq_MID_Time m = to_i64 m.
Proof.
  intros m Hm. unfold go_seq_MID_Time, time_UnixMilli, to_i64, i64, two63, two64 in *.
  destruct (Z.ltb_spec m 9223372036854775808).
  - rewrite Z.mod_small by lia. lia.
  - replace (m + 9223372036854775808) with ((m - 9223372036854775808) + 1 * 18446744073709551616) by lia.
    rewrite Z.mod_add by lia. rewrite Z.mod_small by lia. lia.
Qed.

Lemma gen_isUndefined_refines : forall d, go_seq_MIDsDistribution_isUndefined (zdist d) = (d_bucket d =? 0).
Proof. reflexivity. Qed.

(* size(): equal to dist_size whenever the bucket is not zero and the bucket count fits int64; a zero
   bucket is a division by zero (Panic) *)
Lemma gen_size_refines : forall d, d_bucket d <> 0 ->
  - 9223372036854775808 <= Z.quot (sub_ns (d_to d) (d_from d)) (d_bucket d) ->
  Z.quot (sub_ns (d_to d) (d_from d)) (d_bucket d) + 3 < 9223372036854775808 ->
  go_seq_MIDsDistribution_size (zdist d) = Val (dist_size (d_from d) (d_to d) (d_bucket d)).
Proof.
  intros d Hb H1 H2. unfold go_seq_MIDsDistribution_size, dist_size, zdist. cbv zeta.
  cbn [go_MIDsDistribution_bucket go_MIDsDistribution_to go_MIDsDistribution_from].
  destruct (Z.eqb_spec (d_bucket d) 0) as [E|E]; [contradiction|].
  rewrite time_Sub_sub_ns.
  set (q := Z.quot (sub_ns (d_to d) (d_from d)) (d_bucket d)) in *.
  rewrite (i64_small q) by lia. rewrite (i64_small (q + 1)) by lia. rewrite (i64_small (q + 1 + 2)) by lia.
  reflexivity.
Qed.

Lemma gen_size_zero_bucket : forall d, d_bucket d = 0 -> go_seq_MIDsDistribution_size (zdist d) = Panic.
Proof.
  intros d Hb. unfold go_seq_MIDsDistribution_size, zdist. cbn [go_MIDsDistribution_bucket].
  rewrite Hb. reflexivity.
Qed.

(* midToIndex: equal to mid_to_index for every uint64 MID, any window, any bucket of more than 1 ns and a
   bitmask size that fits int64 *)
Lemma gen_midToIndex_refines : forall d mid, 0 <= mid < two64 -> 1 < d_bucket d ->
  - 9223372036854775808 < bm_size (d_mask d) <= 9223372036854775807 ->
  go_seq_MIDsDistribution_midToIndex (zdist d) mid = Val (mid_to_index d mid).
Proof.
  intros d mid Hm Hb Hs. unfold go_seq_MIDsDistribution_midToIndex, mid_to_index, max_i64, two63, zdist.
  cbv zeta. cbn [go_MIDsDistribution_bucket go_MIDsDistribution_to go_MIDsDistribution_from go_MIDsDistribution_bitmask].
  rewrite gen_GetSize_refines. rewrite Z.gtb_ltb.
  change (9223372036854775808 - 1) with 9223372036854775807.
  destruct (Z.ltb_spec 9223372036854775807 mid); [rewrite i64_small by lia; reflexivity|].
  rewrite gen_MID_Time_refines by exact Hm.
  unfold time_Before, time_After. rewrite Z.gtb_ltb.
  destruct (Z.ltb_spec (to_i64 mid) (d_from d)); [reflexivity|].
  destruct (Z.ltb_spec (d_to d) (to_i64 mid)); [rewrite i64_small by lia; reflexivity|].
  destruct (Z.eqb_spec (d_bucket d) 0); [lia|].
  rewrite time_Sub_sub_ns.
  pose proof (quot_half (sub_ns (to_i64 mid) (d_from d)) (d_bucket d) (sub_ns_range _ _) Hb).
  set (q := Z.quot (sub_ns (to_i64 mid) (d_from d)) (d_bucket d)) in *.
  rewrite (i64_small q) by lia. rewrite (i64_small (q + 1)) by lia. reflexivity.
Qed.

(* C14_index_monotone (first half) over the GENERATED midToIndex: for every well-formed distribution with a
   bucket above 1 ns the generated function never panics and lands inside the bitmask *)
Lemma index_in_range_gen : forall d mid, dist_wf d -> 1 < d_bucket d -> 0 <= mid < two64 ->
  bm_size (d_mask d) <= 9223372036854775807 ->
  exists i, go_seq_MIDsDistribution_midToIndex (zdist d) mid = Val i /\ 0 <= i < bm_size (d_mask d).
Proof.
  intros d mid Hwf Hb Hm Hs. pose proof (index_in_range d mid Hwf) as Hr.
  exists (mid_to_index d mid). split; [|exact Hr].
  apply gen_midToIndex_refines; try assumption. lia.
Qed.

(* ------------------------------------------------------------------ util.Bitmask.HasBitsIn (loop Fixpoint)
   The middle loop `for i := leftIndex + 1; i < rightIndex; i++ { if b.bin[i] > 0 { return true } }` is the
   lifted Fixpoint go_util_Bitmask_HasBitsIn_loop1; its continuation in the generated function maps a normal
   exit to false and an early return to its value. Induction over the number of remaining bytes; the fuel is
   adequate as soon as it exceeds that number. *)
Definition hb_cont (lr : Z + bool) : outcome bool :=
  match lr with inl _ => Val false | inr r => Val r end.

Lemma skipn_cons_idx : forall (bin : list Z) i, 0 <= i < len bin ->
  skipn (Z.to_nat i) bin = idx bin i :: skipn (Z.to_nat (i + 1)) bin.
Proof.
  intros bin i Hi. unfold len, idx in *.
  replace (Z.to_nat (i + 1)) with (S (Z.to_nat i)) by lia.
  assert (Hl : (Z.to_nat i < length bin)%nat) by lia.
  revert Hl. generalize (Z.to_nat i) as n. clear Hi i.
  induction bin as [|x r IH]; intros n Hl; simpl in Hl; [lia|].
  destruct n as [|n]; [reflexivity|]. simpl. apply IH. lia.
Qed.

Lemma gen_HasBitsIn_loop : forall (n : nat) fuel b l r li ri lbi rbi lm rm i,
  0 <= i -> ri <= len (go_Bitmask_bin b) -> ri < 9223372036854775807 ->
  (Z.to_nat (ri - i) <= n)%nat -> (n < fuel)%nat ->
  bind (go_util_Bitmask_HasBitsIn_loop1 fuel b l r li ri lbi rbi lm rm i) hb_cont =
  Val (existsb (fun x => 0 <? x) (firstn (Z.to_nat (ri - i)) (skipn (Z.to_nat i) (go_Bitmask_bin b)))).
Proof.
  induction n as [|n IH]; intros fuel b l r li ri lbi rbi lm rm i Hi Hr Hr63 Hn Hf;
    (destruct fuel as [|fuel]; [lia|]); cbn [go_util_Bitmask_HasBitsIn_loop1].
  - destruct (Z.ltb_spec i ri) as [Hlt|Hge]; [lia|].
    replace (Z.to_nat (ri - i)) with O by lia. reflexivity.
  - destruct (Z.ltb_spec i ri) as [Hlt|Hge].
    + replace ((i <? 0) || (len (go_Bitmask_bin b) <=? i)) with false by lia.
      rewrite (skipn_cons_idx (go_Bitmask_bin b) i) by lia.
      replace (Z.to_nat (ri - i)) with (S (Z.to_nat (ri - (i + 1)))) by lia.
      cbn [firstn existsb].
      destruct (0 <? idx (go_Bitmask_bin b) i) eqn:E; [reflexivity|].
      cbv zeta. rewrite i64_small by lia. cbn [orb].
      apply IH; lia.
    + replace (Z.to_nat (ri - i)) with O by lia. reflexivity.
Qed.

(* HasBitsIn as generated = bm_has_bits_in (the function C14_hasbits_spec is about) for every 0 <= l <= r whose
   last byte lies inside the array; no index / shift panic there, and every fuel above the number of bytes
   between the two ends is adequate *)
Lemma gen_HasBitsIn_refines : forall b l r fuel, 0 <= l -> l <= r -> r < 9223372036854775807 ->
  r / 8 < Z.of_nat (length (bm_bin b)) -> (Z.to_nat (r / 8 - l / 8) < fuel)%nat ->
  go_util_Bitmask_HasBitsIn fuel (zbm b) l r = Val (bm_has_bits_in b l r).
Proof.
  intros b l r fuel Hl Hlr Hr Hlen Hf.
  unfold go_util_Bitmask_HasBitsIn, bm_has_bits_in. cbv zeta.
  rewrite !Z.quot_div_nonneg, !Z.rem_mod_nonneg by lia.
  pose proof (Z.mod_pos_bound l 8 ltac:(lia)) as Hlm. pose proof (Z.mod_pos_bound r 8 ltac:(lia)) as Hrm.
  assert (Hdl : 0 <= l / 8) by (apply Z.div_pos; lia).
  assert (Hdlr : l / 8 <= r / 8) by (apply Z.div_le_mono; lia).
  assert (Hrr : r / 8 <= r) by (apply Z.div_le_upper_bound; lia).
  rewrite (i64_small (l / 8)), (i64_small (r / 8)), (i64_small (r mod 8 + 1)) by lia.
  rewrite (i64_small (8 - (r mod 8 + 1))) by lia.
  replace (l mod 8 <? 0) with false by lia.
  replace (8 - (r mod 8 + 1) <? 0) with false by lia.
  assert (Hlmask : u8 (shl 255 (l mod 8)) = left_mask (l mod 8)).
  { unfold u8, shl, left_mask. replace (64 <=? l mod 8) with false by lia. reflexivity. }
  assert (Hrmask : shr 255 (8 - (r mod 8 + 1)) = right_mask (r mod 8 + 1)).
  { unfold shr, right_mask. replace (64 <=? 8 - (r mod 8 + 1)) with false by lia. reflexivity. }
  rewrite Hlmask, Hrmask. unfold zbm at 1 2 3 4 5 6. cbn [go_Bitmask_bin].
  change (idx (bm_bin b)) with (byte_at (bm_bin b)).
  assert (Hg : forall k, 0 <= k <= r / 8 -> (k <? 0) || (len (bm_bin b) <=? k) = false) by (intros; unfold len; lia).
  destruct (Z.eqb_spec (l / 8) (r / 8)) as [E|E].
  - rewrite Hg by lia. reflexivity.
  - rewrite Hg by lia.
    destruct (0 <? Z.land (byte_at (bm_bin b) (l / 8)) (left_mask (l mod 8))); [reflexivity|].
    rewrite Hg by lia.
    destruct (0 <? Z.land (byte_at (bm_bin b) (r / 8)) (right_mask (r mod 8 + 1))); [reflexivity|].
    rewrite (i64_small (l / 8 + 1)) by lia.
    change (fun lr : Z + bool => match lr with inl _ => Val false | inr r0 => Val r0 end) with hb_cont.
    rewrite (gen_HasBitsIn_loop (Z.to_nat (r / 8 - (l / 8 + 1)))); cbn [zbm go_Bitmask_bin]; unfold len; try lia.
    do 3 f_equal; lia.
Qed.

(* thm:C14_hasbits_spec restated over the GENERATED HasBitsIn and Get *)
Lemma hasbits_spec_gen : forall b l r fuel,
  bytes_ok (bm_bin b) -> 0 <= l -> l <= r -> r < 9223372036854775807 ->
  r / 8 < Z.of_nat (length (bm_bin b)) -> (Z.to_nat (r / 8 - l / 8) < fuel)%nat ->
  (go_util_Bitmask_HasBitsIn fuel (zbm b) l r = Val true <->
   exists i, l <= i <= r /\ go_util_Bitmask_Get (zbm b) i = Val true).
Proof.
  intros b l r fuel Hb Hl Hlr Hr Hlen Hf.
  rewrite gen_HasBitsIn_refines by assumption.
  pose proof (has_bits_in_spec b l r Hb Hl Hlr) as S.
  assert (Hget : forall i, l <= i <= r -> go_util_Bitmask_Get (zbm b) i = Val (bm_get b i)).
  { intros i Hi. apply gen_Get_refines; [lia|].
    apply Z.le_lt_trans with (r / 8); [apply Z.div_le_mono; lia|exact Hlen]. }
  split.
  - intros H. injection H as H. apply S in H. destruct H as [i [Hi Hg]]. exists i. split; [exact Hi|].
    rewrite Hget by exact Hi. rewrite Hg. reflexivity.
  - intros [i [Hi Hg]]. rewrite Hget in Hg by exact Hi. injection Hg as Hg. f_equal. apply S. exists i. split; assumption.
Qed.

(* ------------------------------------------------------------------ seq.MIDsDistribution.IsIntersecting *)
Lemma wf_size_bound : forall d, dist_wf d -> 1 < d_bucket d ->
  - 9223372036854775808 < bm_size (d_mask d) <= 4611686018427387904 + 3.
Proof.
  intros d [Ho Hb Hs _ _] H1. rewrite Hs. unfold dist_size.
  pose proof (quot_half (sub_ns (d_to d) (d_from d)) (d_bucket d) (sub_ns_range _ _) H1). lia.
Qed.

(* IsIntersecting as generated = dist_is_intersecting (C14_occupancy_sound / C14_intersect_sound are about it)
   on every well-formed distribution with a bucket above 1 ns, every query 0 <= from <= to over all uint64 *)
Lemma gen_IsIntersecting_refines : forall d from to fuel, dist_wf d -> 1 < d_bucket d ->
  0 <= from -> from <= to -> to < two64 -> (length (bm_bin (d_mask d)) < fuel)%nat ->
  go_seq_MIDsDistribution_IsIntersecting fuel (zdist d) from to = Val (dist_is_intersecting d from to).
Proof.
  intros d from to fuel Hwf Hb Hf Hft Ht Hfuel.
  unfold go_seq_MIDsDistribution_IsIntersecting, dist_is_intersecting.
  rewrite gen_isUndefined_refines.
  destruct (Z.eqb_spec (d_bucket d) 0) as [E|E]; [lia|].
  pose proof (wf_size_bound d Hwf Hb) as Hs.
  rewrite !gen_midToIndex_refines by lia. cbn [bind].
  pose proof (index_in_range d from Hwf) as R1. pose proof (index_in_range d to Hwf) as R2.
  pose proof (index_monotone d from to Hwf Hf Hft) as Hm.
  pose proof (pos_in_bytes (bm_size (d_mask d)) (mid_to_index d to) R2) as Hp.
  rewrite <- (wf_len d Hwf) in Hp.
  assert (Hd1 : 0 <= mid_to_index d from / 8) by (apply Z.div_pos; lia).
  assert (Hd2 : mid_to_index d from / 8 <= mid_to_index d to / 8) by (apply Z.div_le_mono; lia).
  unfold zdist. cbn [go_MIDsDistribution_bitmask].
  rewrite gen_HasBitsIn_refines; try lia. reflexivity.
Qed.

(* the occupancy-map half of thm:C14_intersect_sound (C14_occupancy_sound) restated over the GENERATED
   IsIntersecting: a distribution built by the model's Add never hides an added MID *)
Lemma intersect_sound_gen : forall d0 ms m qf qt fuel,
  dist_wf d0 -> 1 < d_bucket d0 -> In m ms -> 0 <= qf -> qf <= m -> m <= qt -> qt < two64 ->
  (length (bm_bin (d_mask (fold_left dist_add ms d0))) < fuel)%nat ->
  go_seq_MIDsDistribution_IsIntersecting fuel (zdist (fold_left dist_add ms d0)) qf qt = Val true.
Proof.
  intros d0 ms m qf qt fuel Hwf Hb Hin H0 H1 H2 H3 Hfuel.
  destruct (fold_add_wf ms d0 Hwf) as [W [S _]].
  rewrite gen_IsIntersecting_refines; try assumption; try lia.
  - f_equal. eapply dist_intersect_sound; eassumption.
  - destruct S as [S1 S2]. lia.
Qed.

(* ------------------------------------------------------------------ round 2: sort.Search, BinSearchInRange,
   getLIDsBorders, seq.LessOrEqual *)
Definition zid (x : id) : go_ID := mk_go_ID (fst x) (snd x).

Lemma gen_LessOrEqual_refines : forall a b, go_seq_LessOrEqual (zid a) (zid b) = id_le a b.
Proof. reflexivity. Qed.

(* the trusted extern sort_Search_loop (GenPrelude.v) follows the model's search_loop whenever the predicate
   does not panic on the searched interval and the fuel covers the binary logarithm of its width *)
Lemma sort_Search_loop_model : forall (k : nat) (f : Z -> bool) (F : Z -> outcome bool) lo hi i j v (fuel0 : nat),
  (forall h, lo <= h < hi -> F h = Val (f h)) -> lo <= i -> j <= hi ->
  search_loop k f i j = Some v -> j - i < 2 ^ Z.of_nat fuel0 ->
  sort_Search_loop (S fuel0) F i j = Val v.
Proof.
  induction k as [|k IH]; intros f F lo hi i j v fuel0 HF Hlo Hhi Hs Hp; cbn [search_loop] in Hs; [discriminate|].
  cbn [sort_Search_loop]. revert Hs.
  destruct (Z.ltb_spec i j) as [Hlt|Hge]; [|intros Hs; congruence].
  cbv zeta.
  pose proof (Z.div_mod (i + j) 2 ltac:(lia)) as Hdm. pose proof (Z.mod_pos_bound (i + j) 2 ltac:(lia)) as Hmb.
  assert (Hh : i <= (i + j) / 2 < j) by lia.
  rewrite HF by lia. cbn [bind].
  destruct fuel0 as [|fuel0]; [change (2 ^ Z.of_nat 0) with 1 in Hp; lia|].
  rewrite Nat2Z.inj_succ, Z.pow_succ_r in Hp by lia.
  destruct (f ((i + j) / 2)); intros Hs.
  - apply (IH f F lo hi); try assumption; lia.
  - apply (IH f F lo hi); try assumption; lia.
Qed.

Lemma search_loop_bounds : forall k f i j v, search_loop k f i j = Some v -> i <= j -> i <= v <= j.
Proof.
  induction k as [|k IH]; intros f i j v Hs Hij; cbn [search_loop] in Hs; [discriminate|].
  revert Hs. destruct (Z.ltb_spec i j) as [Hlt|Hge]; [|intros Hs; injection Hs as <-; lia].
  cbv zeta.
  pose proof (Z.div_mod (i + j) 2 ltac:(lia)) as Hdm. pose proof (Z.mod_pos_bound (i + j) 2 ltac:(lia)) as Hmb.
  assert (Hh : i <= (i + j) / 2 < j) by lia.
  destruct (f ((i + j) / 2)); intros Hs; apply IH in Hs; lia.
Qed.

Lemma sort_Search_model : forall (f : Z -> bool) (F : Z -> outcome bool) n v,
  (forall h, 0 <= h < n -> F h = Val (f h)) -> n < 18446744073709551616 ->
  Model.sort_search n f = Some v -> sort_Search n F = Val v.
Proof.
  intros f F n v HF Hn Hs. unfold sort_Search, Model.sort_search in *. change 65%nat with (S 64).
  apply (sort_Search_loop_model (S (Z.to_nat n)) f F 0 n 0 n v 64%nat HF); try lia; try exact Hs.
Qed.

(* util.BinSearchInRange as generated (function parameter, function literal, extern sort.Search) = the model's
   bin_search_in_range (C14_bin_search_spec is about it) for borders that keep the int arithmetic exact *)
Lemma gen_BinSearchInRange_refines : forall from to (f : Z -> bool) (F : Z -> outcome bool) v,
  - 4611686018427387904 < from < 4611686018427387904 -> - 4611686018427387904 < to < 4611686018427387904 ->
  (forall x, from <= x <= to -> F x = Val (f x)) ->
  bin_search_in_range from to f = Some v ->
  go_util_BinSearchInRange from to F = Val v.
Proof.
  intros from to f F v Hf Ht HF Hs. unfold go_util_BinSearchInRange, bin_search_in_range in *. cbv zeta.
  destruct (Model.sort_search (to - from + 1) (fun i => f (from + i))) as [k|] eqn:E; [|discriminate].
  injection Hs as <-.
  rewrite (i64_small (to - from)), (i64_small (to - from + 1)) by lia.
  rewrite (sort_Search_model (fun i => f (from + i)) _ (to - from + 1) k); try lia; try exact E.
  - cbn [bind].
    assert (Hk : 0 <= k <= Z.max 0 (to - from + 1)).
    { unfold Model.sort_search in E. destruct (Z_le_gt_dec 0 (to - from + 1)) as [Hn|Hn].
      - apply search_loop_bounds in E; lia.
      - destruct (Z.to_nat (to - from + 1)) eqn:En; [|lia]. cbn [search_loop] in E.
        replace (0 <? to - from + 1) with false in E by lia. injection E as <-. lia. }
    rewrite i64_small by lia. reflexivity.
  - intros h Hh. rewrite i64_small by lia. rewrite HF by lia. reflexivity.
Qed.

(* getLIDsBorders as generated = lids_borders (C14_lid_borders_exact / C14_pruning_is_optimisation are about it):
   the index is the model's comparison `le` over `len` LIDs; the result is the model's pair converted to uint32 *)
Definition zix (le : Z -> id -> bool) (len : Z) : ids_index go_ID :=
  mk_ix go_ID len (fun lid x => le lid (go_ID_MID x, go_ID_RID x)).

Lemma gen_getLIDsBorders_refines : forall le len minMID maxMID a b,
  0 <= len < 4294967296 -> 0 <= minMID < two64 -> 0 <= maxMID < two64 ->
  lids_borders le len minMID maxMID = Some (a, b) ->
  go_processor_getLIDsBorders minMID maxMID (zix le len) = Val (u32 a, u32 b).
Proof.
  intros le len minMID maxMID a b Hlen Hmin Hmax Hs. unfold two64 in *.
  revert Hs. unfold go_processor_getLIDsBorders, lids_borders. cbv zeta.
  replace (ix_len (zix le len)) with len by reflexivity.
  destruct (Z.eqb_spec len 0) as [E|E]; [intros Hs; injection Hs as <- <-; reflexivity|].
  destruct (bin_search_in_range 1 (len - 1) _) as [lo|] eqn:E1; [|discriminate].
  destruct (bin_search_in_range lo (len - 1) _) as [x|] eqn:E2; [|discriminate].
  intros Hs; injection Hs as <- <-.
  assert (Hlo : 1 <= lo <= len).
  { unfold bin_search_in_range in E1.
    destruct (Model.sort_search (len - 1 - 1 + 1) _) as [k|] eqn:Ek; [|discriminate].
    assert (Hk : lo = 1 + k) by congruence. unfold Model.sort_search in Ek. apply search_loop_bounds in Ek; lia. }
  assert (Hx : lo <= x <= len).
  { unfold bin_search_in_range in E2.
    destruct (Model.sort_search (len - 1 - lo + 1) _) as [k|] eqn:Ek; [|discriminate].
    assert (Hk : x = lo + k) by congruence. unfold Model.sort_search in Ek.
    destruct (Z_le_gt_dec 0 (len - 1 - lo + 1)) as [Hn|Hn].
    - apply search_loop_bounds in Ek; lia.
    - destruct (Z.to_nat (len - 1 - lo + 1)) eqn:En; [|lia]. cbn [search_loop] in Ek.
      replace (0 <? len - 1 - lo + 1) with false in Ek by lia. injection Ek as <-. lia. }
  rewrite (i64_small (len - 1)) by lia.
  erewrite gen_BinSearchInRange_refines; [ |lia|lia| |exact E1].
  2:{ intros y Hy. unfold ix_le, zix. cbn [ix_le_f go_ID_MID go_ID_RID]. rewrite u32_small by lia. reflexivity. }
  cbn [bind].
  erewrite gen_BinSearchInRange_refines; [ |lia|lia| |exact E2].
  2:{ intros y Hy. unfold ix_le, zix. cbn [ix_le_f]. rewrite u32_small by lia. unfold u64max, two64.
      destruct (Z.ltb_spec 0 minMID); cbn [go_ID_MID go_ID_RID]; [rewrite u64_small by lia|]; reflexivity. }
  cbn [bind]. rewrite (i64_small (x - 1)) by lia. reflexivity.
Qed.

From C14 Require Import ProofsBorders.

(* thm:C14_lid_borders_exact restated over the GENERATED getLIDsBorders: called with the fraction's own index
   (sealed_le with block minima when sealed, plain comparison when active) it returns, without panic or fuel
   exhaustion, borders between which lie exactly the documents with MID in [qf, qt] *)
Lemma lid_borders_exact_gen : forall f qf qt,
  ids_ok (f_ids f) -> desc_sorted (f_ids f) -> 0 <= qf < two64 -> 0 <= qt < two64 ->
  (qf = 0 -> ~ In (0, 0) (f_ids f)) -> Z.of_nat (length (stub_id :: f_ids f)) < 4294967296 ->
  exists lo hi,
    go_processor_getLIDsBorders qf qt (zix (frac_le f) (Z.of_nat (length (stub_id :: f_ids f)))) = Val (u32 lo, u32 hi) /\
    Model.slice (f_ids f) lo hi = filter (in_range qf qt) (f_ids f).
Proof.
  intros f qf qt Hok Hs Hqf Hqt H0 Hlen.
  pose proof (frac_scan_spec f qf qt Hok Hs ltac:(lia) H0) as Hsc. unfold frac_scan in Hsc.
  destruct (lids_borders (frac_le f) (Z.of_nat (length (stub_id :: f_ids f))) qf qt) as [[lo hi]|] eqn:E; [|discriminate].
  exists lo, hi. split; [|congruence].
  apply gen_getLIDsBorders_refines; try assumption. lia.
Qed.
