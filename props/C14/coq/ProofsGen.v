(* C14 — the definitions GENERATED from the Go sources by harness/cmd/go2coq (Gen.v, regenerated on every
   run) refine the hand-written model functions of Model.v that the property theorems are about. *)
From Coq Require Import ZArith List Bool Lia ZifyBool.
From VLib Require Import GoSem GoSemFacts.
From C14 Require Import Model ProofsBits ProofsDist GenPrelude Gen.
Import ListNotations.
Open Scope Z_scope.

Definition zbm (b : bitmask) : go_Bitmask := mk_go_Bitmask (bm_size b) (bm_bin b).
Definition zdist (d : dist) : go_MIDsDistribution :=
  mk_go_MIDsDistribution (d_from d) (d_to d) (d_bucket d) (zbm (d_mask d)).

(* the trusted extern time_Sub of GenPrelude.v is the model's sub_ns *)
Lemma time_Sub_sub_ns : forall t u, time_Sub t u = sub_ns t u.
Proof.
  intros. unfold time_Sub, sub_ns, max_dur, min_dur, ns_per_ms, two63. cbv zeta. rewrite Z.gtb_ltb.
  destruct (Z.ltb_spec 9223372036854775807 ((t - u) * 1000000));
    destruct (Z.ltb_spec (9223372036854775808 - 1) ((t - u) * 1000000)); try lia; try reflexivity.
Qed.

Lemma sub_ns_range : forall t u, - 9223372036854775808 <= sub_ns t u <= 9223372036854775807.
Proof.
  intros. rewrite <- time_Sub_sub_ns. unfold time_Sub. cbv zeta.
  destruct (Z.ltb_spec 9223372036854775807 ((t - u) * 1000000)); [lia|].
  destruct (Z.ltb_spec ((t - u) * 1000000) (-9223372036854775808)); lia.
Qed.

Lemma quot_half : forall a b, - 9223372036854775808 <= a <= 9223372036854775807 -> 1 < b ->
  - 4611686018427387904 <= Z.quot a b <= 4611686018427387904.
Proof.
  intros a b Ha Hb.
  assert (Hq : Z.abs (Z.quot a b) <= 4611686018427387904).
  { rewrite <- Z.quot_abs by lia. rewrite Z.quot_div_nonneg by lia.
    replace (Z.abs b) with b by lia.
    apply Z.le_trans with (Z.abs a / 2).
    - apply Z.div_le_compat_l; lia.
    - apply Z.div_le_upper_bound; lia. }
  lia.
Qed.

(* ------------------------------------------------------------------ util.Bitmask *)
Lemma gen_GetSize_refines : forall b, go_util_Bitmask_GetSize (zbm b) = bm_size b.
Proof. reflexivity. Qed.

Lemma gen_Get_refines : forall b pos, 0 <= pos < 9223372036854775808 ->
  pos / 8 < Z.of_nat (length (bm_bin b)) ->
  go_util_Bitmask_Get (zbm b) pos = Val (bm_get b pos).
Proof.
  intros b pos Hp Hi. unfold go_util_Bitmask_Get, bm_get, get_bit, zbm. cbv zeta. cbn [go_Bitmask_bin].
  rewrite Z.quot_div_nonneg, Z.rem_mod_nonneg by lia.
  pose proof (Z.mod_pos_bound pos 8 ltac:(lia)) as Hk.
  pose proof (Z.div_pos pos 8 ltac:(lia) ltac:(lia)) as Hd.
  assert (Hle : pos / 8 <= pos) by (apply Z.div_le_upper_bound; lia).
  rewrite i64_small by lia.
  replace ((pos / 8 <? 0) || (len (bm_bin b) <=? pos / 8)) with false by (unfold len; lia).
  replace (pos mod 8 <? 0) with false by lia.
  unfold idx, byte_at. do 2 f_equal. f_equal.
  unfold shl. replace (64 <=? pos mod 8) with false by lia.
  assert (Hc : pos mod 8 = 0 \/ pos mod 8 = 1 \/ pos mod 8 = 2 \/ pos mod 8 = 3 \/ pos mod 8 = 4 \/
               pos mod 8 = 5 \/ pos mod 8 = 6 \/ pos mod 8 = 7) by lia.
  destruct Hc as [E|[E|[E|[E|[E|[E|[E|E]]]]]]]; rewrite E; reflexivity.
Qed.

(* ------------------------------------------------------------------ seq.MID.Time, MIDsDistribution *)
Lemma gen_MID_Time_refines : forall m, 0 <= m < two64 -> go_seq_MID_Time m = to_i64 m.
Proof.
  intros m Hm. unfold go_seq_MID_Time, time_UnixMilli, to_i64, i64, two63, two64 in *.
  destruct (Z.ltb_spec m 9223372036854775808).
  - rewrite Z.mod_small by lia. lia.
  - replace (m + 9223372036854775808) with ((m - 9223372036854775808) + 1 * 18446744073709551616) by lia.
    rewrite Z.mod_add by lia. rewrite Z.mod_small by lia. lia.
Qed.

Lemma gen_isUndefined_refines : forall d, go_seq_MIDsDistribution_isUndefined (zdist d) = (d_bucket d =? 0).
Proof. reflexivity. Qed.

(* size(): equal to dist_size whenever the bucket is not zero and the bucket count fits int64; a zero
   bucket is a division by zero (Panic) *)
Lemma gen_size_refines : forall d, d_bucket d <> 0 ->
  - 9223372036854775808 <= Z.quot (sub_ns (d_to d) (d_from d)) (d_bucket d) ->
  Z.quot (sub_ns (d_to d) (d_from d)) (d_bucket d) + 3 < 9223372036854775808 ->
  go_seq_MIDsDistribution_size (zdist d) = Val (dist_size (d_from d) (d_to d) (d_bucket d)).
Proof.
  intros d Hb H1 H2. unfold go_seq_MIDsDistribution_size, dist_size, zdist. cbv zeta.
  cbn [go_MIDsDistribution_bucket go_MIDsDistribution_to go_MIDsDistribution_from].
  destruct (Z.eqb_spec (d_bucket d) 0) as [E|E]; [contradiction|].
  rewrite time_Sub_sub_ns.
  set (q := Z.quot (sub_ns (d_to d) (d_from d)) (d_bucket d)) in *.
  rewrite (i64_small q) by lia. rewrite (i64_small (q + 1)) by lia. rewrite (i64_small (q + 1 + 2)) by lia.
  reflexivity.
Qed.

Lemma gen_size_zero_bucket : forall d, d_bucket d = 0 -> go_seq_MIDsDistribution_size (zdist d) = Panic.
Proof.
  intros d Hb. unfold go_seq_MIDsDistribution_size, zdist. cbn [go_MIDsDistribution_bucket].
  rewrite Hb. reflexivity.
Qed.

(* midToIndex: equal to mid_to_index for every uint64 MID, any window, any bucket of more than 1 ns and a
   bitmask size that fits int64 *)
Lemma gen_midToIndex_refines : forall d mid, 0 <= mid < two64 -> 1 < d_bucket d ->
  - 9223372036854775808 < bm_size (d_mask d) <= 9223372036854775807 ->
  go_seq_MIDsDistribution_midToIndex (zdist d) mid = Val (mid_to_index d mid).
Proof.
  intros d mid Hm Hb Hs. unfold go_seq_MIDsDistribution_midToIndex, mid_to_index, max_i64, two63, zdist.
  cbv zeta. cbn [go_MIDsDistribution_bucket go_MIDsDistribution_to go_MIDsDistribution_from go_MIDsDistribution_bitmask].
  rewrite gen_GetSize_refines. rewrite Z.gtb_ltb.
  change (9223372036854775808 - 1) with 9223372036854775807.
  destruct (Z.ltb_spec 9223372036854775807 mid); [rewrite i64_small by lia; reflexivity|].
  rewrite gen_MID_Time_refines by exact Hm.
  unfold time_Before, time_After. rewrite Z.gtb_ltb.
  destruct (Z.ltb_spec (to_i64 mid) (d_from d)); [reflexivity|].
  destruct (Z.ltb_spec (d_to d) (to_i64 mid)); [rewrite i64_small by lia; reflexivity|].
  destruct (Z.eqb_spec (d_bucket d) 0); [lia|].
  rewrite time_Sub_sub_ns.
  pose proof (quot_half (sub_ns (to_i64 mid) (d_from d)) (d_bucket d) (sub_ns_range _ _) Hb).
  set (q := Z.quot (sub_ns (to_i64 mid) (d_from d)) (d_bucket d)) in *.
  rewrite (i64_small q) by lia. rewrite (i64_small (q + 1)) by lia. reflexivity.
Qed.

(* C14_index_monotone (first half) over the GENERATED midToIndex: for every well-formed distribution with a
   bucket above 1 ns the generated function never panics and lands inside the bitmask *)
Lemma index_in_range_gen : forall d mid, dist_wf d -> 1 < d_bucket d -> 0 <= mid < two64 ->
  bm_size (d_mask d) <= 9223372036854775807 ->
  exists i, go_seq_MIDsDistribution_midToIndex (zdist d) mid = Val i /\ 0 <= i < bm_size (d_mask d).
Proof.
  intros d mid Hwf Hb Hm Hs. pose proof (index_in_range d mid Hwf) as Hr.
  exists (mid_to_index d mid). split; [|exact Hr].
  apply gen_midToIndex_refines; try assumption. lia.
Qed.
