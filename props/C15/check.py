"""C15 — start-up, retention and deletion are crash-safe and only drop the oldest data (DESIGN.md section 7, C15)."""
import vcheck

PROP = "C15"

TRUSTED = [
    "Coq 8.16.1 kernel (coqc), vm_compute for case evaluation and for the closedness check of the computed reachable sets; no native_compute",
    "hand-written model props/C15/coq/Model.v: file set of one fraction, operation programs of NewActive / Seal+Release / "
    "Active.Suicide / Sealed.Suicide / removeFractionFiles, loader classification, shrinkSizes, NewSealed fast path "
    "(tied to /repo by the correspondence run, not verified code)",
    "crash model: process crash after any single create/rename/unlink (harness/internal/crashfs rebuilds the directory from the strace log); "
    "file contents are atomic at the rename (fsync before rename is visible in the log but not modelled)",
    "Go harness harness/cmd/hC15 + storectl (real FracManager in child processes) + strace",
    "JSON parsing of .frac-cache: the harness parses each variant with encoding/json (the library the store uses) and hands the entries to the model",
]
ASSUME = [
    "one fraction's files are only touched by that fraction's own life-cycle steps (fractions are independent on disk)",
    "Release runs to completion before a retention pass deletes the freshly sealed fraction (the Release/Sealed.Suicide overlap inside one process is not modelled)",
    "sizes reported by Info do not change during one retention pass",
    "KeepMetaFile = false (as cmd/seq-db sets it); power loss inside docs/meta writes is property C01's subject",
    "seals finish in creation order (otherwise the restart lists a younger sealed fraction before an older unsealed one: C15_load_order_unordered_refuted)",
]
RULE = ("generated histories of bulk / rotate+seal / rotate / retention pass / cache save on a real FracManager under strace, with and "
        "without sorted docs; a restart in a fresh process on EVERY crash point before a create/rename/unlink; selected crash states "
        "(all inside the first seal, random ones inside seals, rotations and retention passes) continued by a second traced history "
        "(restart, rotate, retention, seal) whose crash points are restarted too; all 2^7 file sets of one fraction from real files; "
        ".frac-cache absent/stale/truncated/garbage/tampered. non-trivial = some fraction is in an intermediate file set / the window "
        "has more than one operation / the pass removed some but not all fractions; distinct by input")


def harness_args(tier, seed, outdir):
    return ["-seed", str(seed), "-tier", tier, "-out", outdir]


def main(argv):
    return vcheck.standard_check(PROP, argv, harness_args, TRUSTED, ASSUME, RULE, coqchk=True)
