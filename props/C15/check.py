"""C15 — start-up, retention and deletion are crash-safe and only drop the oldest data (DESIGN.md section 7, C15)."""
import vcheck

PROP = "C15"

TRUSTED = [
    "Coq 8.16.1 kernel (coqc), vm_compute for case evaluation and for the closedness check of the computed reachable sets; no native_compute",
    "hand-written model props/C15/coq/Model.v: file set of one fraction, operation programs of NewActive / Seal+Release / "
    "Active.Suicide / Sealed.Suicide / removeFractionFiles, loader classification, shrinkSizes, NewSealed fast path "
    "(tied to /repo by the correspondence run, not verified code)",
    "hand-written models of the extension: ModelPar.v (the whole directory: per retention pass ONE goroutine deleting its outsiders one after "
    "another, oldest first, and only after the goroutine of the previous pass has finished - the code after fixes 14be38b and bd65f76 -, any "
    "number of passes in flight, background seal/Release goroutines, scheduler choices, crash after any operation of any goroutine, "
    "interruptible loader; each fraction is a Model.st; drun_v1 = pass goroutines independent of each other (before bd65f76), drun_v0 = one "
    "goroutine per outsider (before 14be38b)), ModelUse.v "
    "(use lock of a fraction: RLock / flag check / provider release of readers against Lock, set flag, Unlock, renames and removals of "
    "Suicide), ModelPL.v (.frac-cache save as create-temp / write / rename WITHOUT any fsync, power loss = lost not-yet-synced renames "
    "+ every file cut to any length; .del renames and removals without directory sync) - tied to /repo by the classes par:*, use:*, "
    "cache:save-ops, cache:powerloss",
    "hand-written model ModelProxy.v: the proxyFrac state machine as the code has it (fields active / sealed / readonly; the four states of "
    "the header comment of proxy_frac.go plus the fifth one trySetSuicided really produces: both pointers nil, readonly still false), the "
    "two critical sections of proxyFrac.Seal, trySetSuicided / sealWg.Wait / second trySetSuicided of proxyFrac.Suicide, FracManager.seal's "
    "treatment of the result (nil -> go on, ErrSealingFractionSuicided -> skip, anything else -> logger.Fatal = process death), rotate, "
    "shiftFirstFrac, Stop()'s seal-on-exit - any interleaving of these steps; Suicides of pushed-out fractions in ANY order (a superset of the "
    "real FIFO order); the file operations stay in Model.v / ModelPar.v (C15_proxy_dispatch_agrees_with_directory_model relates the two "
    "dispatches; ModelPar merges shiftFirstFrac and the first trySetSuicided into one step) - tied to /repo by the classes proxy:*",
    "crash model: process crash after any single create/rename/unlink (harness/internal/crashfs rebuilds the directory from the strace log); "
    "crash points inside a pass are the prefixes of the traced (sequential) log; power loss: directory operations reach the disk in issue order (journalled metadata), file "
    "data only up to the last fsync (crashfs PowerLoss); without the ordering assumption the .del protocol is NOT safe "
    "(C15_del_powerloss_unordered_refuted: a lone .sdocs, loader Fatal)",
    "Go harness harness/cmd/hC15 + storectl (real FracManager in child processes) + strace",
    "JSON parsing of .frac-cache: the harness parses each variant and each power-loss cut with encoding/json (the library the store uses) "
    "and hands the entries / the verdict 'accepted' to the model; the model's rule 'a proper prefix of the saved text is rejected as a whole' "
    "is compared with that verdict in every cache:powerloss case",
]
ASSUME = [
    "one fraction's files are only touched by that fraction's own life-cycle steps (fractions are independent on disk; made explicit by ModelPar.v: "
    "a directory event changes exactly one component)",
    "for 'oldest first in every crash state' (C15_parallel_retention_prefix_at_restart, C15_retention_prefix_any_number_of_passes): the directory "
    "consists of clean fractions with documents (idle sealed / idle active) when the first pass starts; a Suicide blocked by a reader or a seal is "
    "modelled as a pass goroutine that is not scheduled",
    "the manager's list is in creation order when a retention pass runs (seals finish in creation order; otherwise the restart lists a younger "
    "sealed fraction before an older unsealed one: C15_load_order_unordered_refuted)",
    "sizes reported by Info do not change during one retention pass",
    "KeepMetaFile = false (as cmd/seq-db sets it); power loss inside docs/meta writes is property C01's subject",
    "a reader uses a fraction only through Fraction.DataProvider and calls the release function it got (searcher/fetcher do)",
    "FracManager.seal is called at most once per fraction (rotate returns each fraction once; Stop() seals fm.active, which rotate never "
    "returned; Load seals before the manager runs) and frac.Seal itself does not fail (an I/O error while writing the index is Fatal by design)",
    "file system persists create/rename/unlink in issue order across a power loss (no directory fsync follows the .del renames, the removals "
    "or the .frac-cache rename; the data directory is fsynced only by NewActive and Seal)",
]
RULE = ("generated histories of bulk / rotate+seal / rotate / retention pass / cache save on a real FracManager under strace, with and "
        "without sorted docs; a restart in a fresh process on EVERY crash point before a create/rename/unlink; selected crash states "
        "(all inside the first seal, random ones inside seals, rotations and retention passes) continued by a second traced history "
        "(restart, rotate, retention, seal) whose crash points are restarted too; all 2^7 file sets of one fraction from real files; "
        ".frac-cache absent/stale/truncated/garbage/tampered; retention passes over 2-4 outsiders (sealed, and an unsealed rotated one): the "
        "interleaved log of the real goroutines against the model's programs, a restart on every crash point of the observed interleaving and "
        "of re-orderings (oldest-first, newest-first, round-robin, seeded random merges) rebuilt with crashfs; readers holding data providers "
        "of the oldest fraction (sealed in process, sealed and loaded, unsealed) while the real pass deletes it; every operation boundary of "
        "every .frac-cache save with the cache file cut to 0 / 1 / half / all-but-one / all bytes; scripted interleavings on the real FracManager "
        "in a child (a Fatal = observed death of the child): rotate, the seal goroutine of a rotated fraction run to the schedule points "
        "seal.readonly / seal.swapped / its end, real retention passes pushing out the fraction a pending / running / finished seal works on "
        "(suicide before seal-start, while sealing, after the swap, after the replacement; suicide before rotate; two outsiders with the second "
        "one being sealed; a second pass queued behind a blocked one), Stop() with seal-on-exit after retention pushed the current fraction "
        "out, seeded random scripts - after every step the list and the three fields of every proxy, at the end a restart with every document "
        "fetched and searched. non-trivial = some fraction is in an "
        "intermediate file set / the window has more than one operation / the pass removed some but not all fractions / the crash lies strictly "
        "inside a pass / a provider is out when the deletion is requested / the cache file is really cut / a retention pass and a seal "
        "goroutine (or Stop's seal-on-exit) met on the same fraction; distinct by input")


def harness_args(tier, seed, outdir):
    return ["-seed", str(seed), "-tier", tier, "-out", outdir]


def main(argv):
    return vcheck.standard_check(PROP, argv, harness_args, TRUSTED, ASSUME, RULE, coqchk=True)
