(* C15 — power loss (not only process death) for the two things the deletion / cache protocol writes
   WITHOUT any fsync: the .frac-cache file (fracmanager/sealed_frac_cache.go SaveCacheToDisk:
   os.CreateTemp, Chmod, Write, os.Rename — no File.Sync, no directory sync, the temp file is not even
   closed) and the renames/removals of Sealed.Suicide / Active.Suicide / removeFractionFiles
   (frac/sealed.go, frac/active.go, fracmanager/loader.go: os.Rename / os.Remove — no directory sync).
   The only directory syncs of the data directory are issued by other paths: frac/active.go
   mustOpenFile (after creating .meta and after creating .docs) and frac/active_sealer.go Seal (after
   publishing .index). No proofs here. *)
From Coq Require Import List Bool Arith NArith.
Import ListNotations.
From C15 Require Import Model.

(* ------------------------------------------------------------------ .frac-cache *)

(* a file holding the first pf_len bytes of the pf_full bytes of the JSON text of pf_ver; none of it is
   durable (never fsynced) *)
Record pfile := mkpf { pf_ver : cmap; pf_len : nat; pf_full : nat }.

(* encoding/json.Unmarshal validates the WHOLE input before it stores anything: a proper prefix of an
   object document is rejected and the map stays empty (checked on the real library for every cut the
   correspondence run makes) *)
Definition pf_parse (f : pfile) : option cmap :=
  if Nat.eqb (pf_len f) (pf_full f) then Some (pf_ver f) else None.

Record pst := mkpst {
  p_mem : cmap;                       (* fracCache map of the running process *)
  p_cur : option pfile;               (* what the name .frac-cache points to *)
  p_old : list (option pfile);        (* what it pointed to before the renames issued since the last directory sync *)
  p_tmp : option pfile }.             (* .frac-cache.<random> of a save in progress (or left behind) *)

Definition p_init := mkpst [] None [] None.

Inductive plop :=
| PLAdd (n : nat)                     (* seal finished / sealed fraction loaded *)
| PLRemove (n : nat)                  (* retention *)
| PLCreate (full : nat)               (* os.CreateTemp + Chmod; full = length of json.Marshal(map) *)
| PLWrite (k : nat)                   (* tmp.Write: k more bytes reach the file (page cache) *)
| PLRename                            (* os.Rename(tmp, .frac-cache) *)
| PLDirSync                           (* another path fsyncs the data directory *)
| PLCrash                             (* process death: files keep their content *)
| PLPower (lose cut cuttmp : nat)     (* power loss: the last `lose` not-yet-synced renames are lost, the file the
                                         name then points to keeps at most `cut` bytes, the temp file `cuttmp` *)
| PLRestart.

Definition cut_file (n : nat) (f : option pfile) : option pfile :=
  match f with Some f => Some (mkpf (pf_ver f) (Nat.min n (pf_len f)) (pf_full f)) | None => None end.

Definition p_lookup (s : pst) (n : nat) : option info :=
  match p_cur s with
  | Some f => match pf_parse f with Some m => cget m n | None => None end
  | None => None
  end.

Definition p_step (hdr : nat -> info) (s : pst) (o : plop) : pst :=
  match o with
  | PLAdd n => mkpst ((n, new_sealed (p_lookup s n) (hdr n)) :: cdel (p_mem s) n) (p_cur s) (p_old s) (p_tmp s)
  | PLRemove n => mkpst (cdel (p_mem s) n) (p_cur s) (p_old s) (p_tmp s)
  | PLCreate full => mkpst (p_mem s) (p_cur s) (p_old s) (Some (mkpf (p_mem s) 0 full))
  | PLWrite k => mkpst (p_mem s) (p_cur s) (p_old s)
                   (match p_tmp s with Some f => Some (mkpf (pf_ver f) (Nat.min (pf_len f + k) (pf_full f)) (pf_full f)) | None => None end)
  | PLRename => match p_tmp s with
                | Some f => mkpst (p_mem s) (Some f) (p_cur s :: p_old s) None
                | None => s
                end
  | PLDirSync => mkpst (p_mem s) (p_cur s) [] (p_tmp s)
  | PLCrash => mkpst [] (p_cur s) (p_old s) (p_tmp s)
  | PLPower lose cut cuttmp =>
      let name := match lose with 0 => p_cur s | S l => nth l (p_old s) (p_cur s) end in
      mkpst [] (cut_file cut name) [] (cut_file cuttmp (p_tmp s))
  | PLRestart => mkpst [] (p_cur s) (p_old s) (p_tmp s)
  end.

Definition p_run (hdr : nat -> info) (ops : list plop) : pst := fold_left (p_step hdr) ops p_init.

(* the operations of one save as the code issues them (no fsync anywhere) *)
Inductive sop := SCreateTmp | SWriteTmp | SRenameTmp | SFsyncFile | SFsyncDir.
Definition cache_save_ops : list sop := [SCreateTmp; SWriteTmp; SRenameTmp].

(* ------------------------------------------------------------------ .del renames and removals *)

Fixpoint persist (xs : list xop) (mask : list bool) (s : fs) : fs :=
  match xs, mask with
  | x :: xr, true :: mr => persist xr mr (apply_x x s)
  | _ :: xr, false :: mr => persist xr mr s
  | _, _ => s
  end.

(* directory operations reach the disk in issue order (journalled metadata: what crashfs assumes):
   the first i of them *)
Definition persist_ordered (xs : list xop) (i : nat) (s : fs) : fs := fold_left (fun s x => apply_x x s) (firstn i xs) s.

Definition sealed_suicide_xops (sorted : bool) : list xop :=
  fst (exec sealed_suicide_prog (if sorted then fs_of [KSdocs; KIndex] else fs_of [KDocs; KIndex])).
