(* C15 — proofs about the whole directory: interleaved per-fraction goroutines, crash, restart. *)
From Coq Require Import List Bool Arith NArith Lia.
Import ListNotations.
From C15 Require Import Model Reach Proofs ModelPar.

(* ------------------------------------------------------------------ every move of a fraction in the
   directory is a move of the single-fraction life cycle (or none) *)

Definition move (sorted : bool) (s t : st) : Prop := t = s \/ In t (next cur_progs sorted s).

Lemma move_reachable sorted s t : reachable cur_progs sorted s -> move sorted s t -> reachable cur_progs sorted t.
Proof. intros H [E|E]; [subst; exact H | eapply r_step; eauto]. Qed.

Ltac inlist := cbn; repeat rewrite in_app_iff; cbn; tauto.

Lemma step1_move sorted right s : move sorted s (step1 sorted right s).
Proof.
  unfold move, step1, next, upd, setp. destruct s as [f h d p]; cbn [pr files hasdata doomed].
  destruct p as [| |m|p m|p ev|p q m]; try (left; reflexivity).
  - destruct p as [|o r]; right; inlist.
  - destruct p as [|o r].
    + destruct ev; right; cbn; tauto.
    + destruct ev; right; inlist.
  - destruct right.
    + destruct q as [|o r]; [left; reflexivity|]. right.
      destruct p as [|o' r']; destruct m; inlist.
    + destruct p as [|o r].
      * destruct q as [|o' r']; [|left; reflexivity]. right. destruct m; inlist.
      * right. destruct q as [|o' r']; destruct m; inlist.
Qed.

Lemma crash1_move sorted s : move sorted s (crash1 s).
Proof.
  unfold move, crash1, next, setp. destruct s as [f h d p]; cbn [pr files hasdata doomed].
  destruct p as [| |m|p m|p ev|p q m]; try (left; reflexivity).
  - destruct m; try (left; reflexivity); right; [|inlist..]. destruct h; inlist.
  - destruct p; right; inlist.
  - right. inlist.
  - right. inlist.
Qed.

Lemma evict1_move sorted s : move sorted s (evict1 s).
Proof.
  unfold move, evict1, next, setp. destruct s as [f h d p]; cbn [pr files hasdata doomed].
  destruct p as [| |m|p m|p ev|p q m]; try (left; reflexivity).
  - destruct m; try (left; reflexivity); right; [|inlist]. destruct h; inlist.
  - destruct ev; [left; reflexivity|]. right. destruct p; inlist.
  - destruct q; [|left; reflexivity]. destruct m; try (left; reflexivity). right.
    destruct p; inlist.
Qed.

Lemma bulk1_move sorted s : move sorted s (bulk1 s).
Proof.
  unfold move, bulk1, next. destruct s as [f h d p]; cbn [pr files hasdata doomed].
  destruct p as [| |m|p m|p ev|p q m]; try (left; reflexivity).
  destruct m; try (left; reflexivity). right. inlist.
Qed.

Lemma seal1_move sorted s : move sorted s (seal1 sorted s).
Proof.
  unfold move, seal1, next, setp. destruct s as [f h d p]; cbn [pr files hasdata doomed].
  destruct p as [| |m|p m|p ev|p q m]; try (left; reflexivity).
  destruct m; try (left; reflexivity). destruct h; [|left; reflexivity]. right. inlist.
Qed.

Lemma restart_move sorted s b : pr s = PDown -> move sorted s (restart cur_progs sorted s b).
Proof.
  intro E. right. unfold next. rewrite E. destruct b; cbn; tauto.
Qed.

Lemma new_frac_reachable sorted : reachable cur_progs sorted (setp init_st (PRun new_active_prog MActive)).
Proof. eapply r_step; [apply r_init|]. cbn. left. reflexivity. Qed.

(* ------------------------------------------------------------------ lists *)

Section Pointwise.
  Variable P : st -> Prop.
  Variable R : st -> st -> Prop.
  Hypothesis PR : forall s t, P s -> R s t -> P t.

  Lemma Forall_at_pos f : (forall s, R s (f s)) -> forall i d, Forall P d -> Forall P (at_pos i f d).
  Proof.
    intros Hf i d. revert i. induction d as [|x r IH]; intros i H; [destruct i; constructor|].
    inversion H; subst. destruct i; cbn; constructor; eauto.
  Qed.

  Lemma Forall_map_move f : (forall s, R s (f s)) -> forall d, Forall P d -> Forall P (map f d).
  Proof. intros Hf d H. induction H; cbn; constructor; eauto. Qed.
End Pointwise.

Lemma Forall_evict_first sorted : forall d k,
  Forall (reachable cur_progs sorted) d -> Forall (reachable cur_progs sorted) (evict_first k d).
Proof.
  induction d as [|s r IH]; intros k H; [constructor|]. inversion H; subst. cbn.
  destruct (listed s), k; constructor; auto.
  eapply move_reachable; [eassumption|apply evict1_move].
Qed.

Lemma Forall_restart_pending sorted : forall d,
  Forall (reachable cur_progs sorted) d -> Forall (reachable cur_progs sorted) (restart_pending sorted d).
Proof.
  induction d as [|s r IH]; intro H; [constructor|]. inversion H; subst. cbn. constructor; auto.
  destruct (pr s) eqn:E; auto. eapply move_reachable; [eassumption|apply restart_move; exact E].
Qed.

Lemma job_step1_move sorted s : move sorted s (job_step1 sorted s).
Proof. unfold job_step1. destruct (pr s); try (left; reflexivity); apply step1_move. Qed.

Lemma dstep_reachable seq chain sorted d e :
  Forall (reachable cur_progs sorted) (d_fr d) -> Forall (reachable cur_progs sorted) (d_fr (dstep seq chain sorted d e)).
Proof.
  intro H. unfold dstep. destruct (d_up d).
  - destruct e; cbn [d_fr]; try exact H.
    + apply Forall_evict_first; exact H.
    + destruct (chain && negb (prev_done j (d_jobs d))); [exact H|].
      destruct (nth j (d_jobs d) []) as [|h r]; [exact H|].
      destruct (nth_error (d_fr d) h) as [s|]; [|exact H].
      destruct (suicide_returned s); cbn [d_fr]; [exact H|].
      eapply (Forall_at_pos _ (move sorted)); [apply move_reachable|intro; apply job_step1_move|exact H].
    + destruct (nth_error (d_fr d) i) as [s|]; [|exact H].
      destruct (seq && in_jobs i (d_jobs d) && is_deleting s); cbn [d_fr]; [exact H|].
      eapply (Forall_at_pos _ (move sorted)); [apply move_reachable|intro; apply step1_move|exact H].
    + destruct (seq && in_jobs i (d_jobs d)); cbn [d_fr]; [exact H|].
      eapply (Forall_at_pos _ (move sorted)); [apply move_reachable|intro; apply step1_move|exact H].
    + eapply (Forall_at_pos _ (move sorted)); [apply move_reachable|intro; apply bulk1_move|exact H].
    + eapply (Forall_at_pos _ (move sorted)); [apply move_reachable|intro; apply seal1_move|exact H].
    + apply Forall_app. split; [exact H|]. constructor; [apply new_frac_reachable|constructor].
    + eapply (Forall_map_move _ (move sorted)); [apply move_reachable|intro; apply crash1_move|exact H].
  - destruct e; cbn [d_fr]; try exact H. apply Forall_restart_pending; exact H.
Qed.

Lemma frun_reachable seq chain sorted evs : forall d,
  Forall (reachable cur_progs sorted) (d_fr d) -> Forall (reachable cur_progs sorted) (d_fr (fold_left (dstep seq chain sorted) evs d)).
Proof.
  induction evs as [|e r IH]; cbn; intros d H; [exact H|].
  apply IH. apply dstep_reachable. exact H.
Qed.

Lemma drun_reachable sorted evs d :
  Forall (reachable cur_progs sorted) (d_fr d) -> Forall (reachable cur_progs sorted) (d_fr (drun sorted evs d)).
Proof. apply frun_reachable. Qed.

(* ------------------------------------------------------------------ all or nothing, no reappearance *)

Lemma par_good seq chain sorted evs d0 :
  Forall (reachable cur_progs sorted) (d_fr d0) ->
  Forall (fun s => st_good true sorted s = true) (d_fr (fold_left (dstep seq chain sorted) evs d0)).
Proof.
  intro H. apply (frun_reachable seq chain sorted evs) in H. rewrite Forall_forall in *.
  intros s Hs. apply good_all. apply H. exact Hs.
Qed.

Definition dmono (s t : st) : Prop := doomed s = true -> doomed t = true.
Lemma dmono_refl s : dmono s s. Proof. intro H; exact H. Qed.
Lemma dmono_trans s t u : dmono s t -> dmono t u -> dmono s u. Proof. unfold dmono; auto. Qed.

Ltac dm s :=
  unfold dmono; destruct s as [f h d p]; cbn; intro H; subst d;
  repeat match goal with |- context [match ?x with _ => _ end] => destruct x end; reflexivity.

Lemma step1_dmono sorted right s : dmono s (step1 sorted right s).
Proof. unfold step1, upd, setp. dm s. Qed.
Lemma crash1_dmono s : dmono s (crash1 s).
Proof. unfold crash1, setp. dm s. Qed.
Lemma evict1_dmono s : dmono s (evict1 s).
Proof. unfold evict1, setp. dm s. Qed.
Lemma bulk1_dmono s : dmono s (bulk1 s).
Proof. unfold bulk1. dm s. Qed.
Lemma seal1_dmono sorted s : dmono s (seal1 sorted s).
Proof. unfold seal1, setp. dm s. Qed.
Lemma job_step1_dmono sorted s : dmono s (job_step1 sorted s).
Proof. unfold job_step1. destruct (pr s); try apply dmono_refl; apply step1_dmono. Qed.
Lemma restart_dmono sorted s b : dmono s (restart cur_progs sorted s b).
Proof. unfold restart. dm s. Qed.

Definition pw (R : st -> st -> Prop) (d d' : list st) : Prop :=
  forall i s, nth_error d i = Some s -> exists s', nth_error d' i = Some s' /\ R s s'.

Lemma pw_refl (R : st -> st -> Prop) d : (forall s, R s s) -> pw R d d.
Proof. intros Hr i s H. exists s. split; [exact H|apply Hr]. Qed.

Lemma pw_trans (R : st -> st -> Prop) a b c :
  (forall s t u, R s t -> R t u -> R s u) -> pw R a b -> pw R b c -> pw R a c.
Proof.
  intros Ht H1 H2 i s H. destruct (H1 i s H) as [t [Hb Rt]]. destruct (H2 i t Hb) as [u [Hc Ru]].
  exists u. split; [exact Hc|eapply Ht; eauto].
Qed.

Lemma pw_at_pos (R : st -> st -> Prop) f : (forall s, R s s) -> (forall s, R s (f s)) -> forall i d, pw R d (at_pos i f d).
Proof.
  intros Hr Hf i d. revert i. induction d as [|x r IH]; intros i j s H.
  - destruct j; discriminate.
  - destruct i, j; cbn in *.
    + inversion H; subst. eexists; split; [reflexivity|apply Hf].
    + exists s. split; [exact H|apply Hr].
    + inversion H; subst. exists s; split; [reflexivity|apply Hr].
    + apply IH. exact H.
Qed.

Lemma pw_map (R : st -> st -> Prop) f : (forall s, R s (f s)) -> forall d, pw R d (map f d).
Proof.
  intros Hf d. induction d as [|x r IH]; intros j s H.
  - destruct j; discriminate.
  - destruct j; cbn in *.
    + inversion H; subst. eexists; split; [reflexivity|apply Hf].
    + apply IH. exact H.
Qed.

Lemma pw_evict_first : forall d k, pw dmono d (evict_first k d).
Proof.
  induction d as [|x r IH]; intros k j s H.
  - destruct j; discriminate.
  - cbn. destruct (listed x), k; destruct j; cbn in *;
      try (inversion H; subst; eexists; split; [reflexivity|first [apply evict1_dmono|apply dmono_refl]]);
      try (apply IH; exact H).
Qed.

Lemma pw_restart_pending sorted : forall d, pw dmono d (restart_pending sorted d).
Proof.
  induction d as [|x r IH]; intros j s H.
  - destruct j; discriminate.
  - destruct j; cbn in *.
    + inversion H; subst. eexists; split; [reflexivity|].
      destruct (pr s); first [apply dmono_refl|apply restart_dmono].
    + apply IH. exact H.
Qed.

Lemma pw_app (R : st -> st -> Prop) d x : (forall s, R s s) -> pw R d (d ++ x).
Proof.
  intros Hr. induction d as [|y r IH]; intros j s H.
  - destruct j; discriminate.
  - destruct j; cbn in *.
    + inversion H; subst. eexists; split; [reflexivity|apply Hr].
    + apply IH. exact H.
Qed.

Lemma dstep_pw seq chain sorted d e : pw dmono (d_fr d) (d_fr (dstep seq chain sorted d e)).
Proof.
  unfold dstep. destruct (d_up d).
  - destruct e; cbn [d_fr]; try (apply pw_refl; apply dmono_refl).
    + apply pw_evict_first.
    + destruct (chain && negb (prev_done j (d_jobs d))); [apply pw_refl; apply dmono_refl|].
      destruct (nth j (d_jobs d) []) as [|h r]; [apply pw_refl; apply dmono_refl|].
      destruct (nth_error (d_fr d) h) as [s|]; [|apply pw_refl; apply dmono_refl].
      destruct (suicide_returned s); cbn [d_fr]; [apply pw_refl; apply dmono_refl|].
      apply pw_at_pos; [apply dmono_refl|apply job_step1_dmono].
    + destruct (nth_error (d_fr d) i) as [s|]; [|apply pw_refl; apply dmono_refl].
      destruct (seq && in_jobs i (d_jobs d) && is_deleting s); cbn [d_fr]; [apply pw_refl; apply dmono_refl|].
      apply pw_at_pos; [apply dmono_refl|apply step1_dmono].
    + destruct (seq && in_jobs i (d_jobs d)); cbn [d_fr]; [apply pw_refl; apply dmono_refl|].
      apply pw_at_pos; [apply dmono_refl|apply step1_dmono].
    + apply pw_at_pos; [apply dmono_refl|apply bulk1_dmono].
    + apply pw_at_pos; [apply dmono_refl|apply seal1_dmono].
    + apply pw_app. apply dmono_refl.
    + apply pw_map. apply crash1_dmono.
  - destruct e; cbn [d_fr]; try (apply pw_refl; apply dmono_refl). apply pw_restart_pending.
Qed.

Lemma frun_pw seq chain sorted evs : forall d, pw dmono (d_fr d) (d_fr (fold_left (dstep seq chain sorted) evs d)).
Proof.
  induction evs as [|e r IH]; cbn; intro d; [apply pw_refl; apply dmono_refl|].
  eapply pw_trans; [apply dmono_trans|apply dstep_pw|apply IH].
Qed.

Definition not_doomed_visible (s : st) : bool := negb (doomed s && visible s).

Lemma doomed_invisible sorted s : reachable cur_progs sorted s -> doomed s = true -> visible s = false.
Proof.
  intros Hr Hd.
  assert (G : not_doomed_visible s = true).
  { destruct sorted.
    - apply (all_reachable cur_progs true reach_sorted); [exact closed_sorted|exact init_sorted|vm_compute; reflexivity|exact Hr].
    - apply (all_reachable cur_progs false reach_unsorted); [exact closed_unsorted|exact init_unsorted|vm_compute; reflexivity|exact Hr]. }
  unfold not_doomed_visible in G. rewrite Hd in G. cbn in G. apply negb_true_iff in G. exact G.
Qed.

Lemma par_no_reappear seq chain sorted d0 evs evs' i s :
  Forall (reachable cur_progs sorted) (d_fr d0) ->
  nth_error (d_fr (fold_left (dstep seq chain sorted) evs d0)) i = Some s -> doomed s = true ->
  exists s', nth_error (d_fr (fold_left (dstep seq chain sorted) evs' (fold_left (dstep seq chain sorted) evs d0))) i = Some s' /\ doomed s' = true /\ visible s' = false.
Proof.
  intros H0 Hn Hd. destruct (frun_pw seq chain sorted evs' (fold_left (dstep seq chain sorted) evs d0) i s Hn) as [s' [Hn' Hm]].
  exists s'. split; [exact Hn'|]. split; [apply Hm; exact Hd|].
  apply (doomed_invisible sorted); [|apply Hm; exact Hd].
  assert (F : Forall (reachable cur_progs sorted) (d_fr (fold_left (dstep seq chain sorted) evs' (fold_left (dstep seq chain sorted) evs d0)))).
  { apply frun_reachable. apply frun_reachable. exact H0. }
  rewrite Forall_forall in F. apply F. eapply nth_error_In. exact Hn'.
Qed.

Lemma par_all_or_nothing_gen seq chain sorted d0 evs :
  Forall (reachable cur_progs sorted) (d_fr d0) ->
  Forall (fun s => st_good true sorted s = true) (d_fr (fold_left (dstep seq chain sorted) evs d0))
  /\ (forall evs' i s, nth_error (d_fr (fold_left (dstep seq chain sorted) evs d0)) i = Some s -> doomed s = true ->
        exists s', nth_error (d_fr (fold_left (dstep seq chain sorted) evs' (fold_left (dstep seq chain sorted) evs d0))) i = Some s' /\ doomed s' = true /\ visible s' = false).
Proof.
  intro H. split; [apply par_good; exact H|]. intros evs' i s Hn Hd. eapply par_no_reappear; eauto.
Qed.

Lemma par_all_or_nothing sorted d0 evs :
  Forall (reachable cur_progs sorted) (d_fr d0) ->
  Forall (fun s => st_good true sorted s = true) (d_fr (drun sorted evs d0))
  /\ (forall evs' i s, nth_error (d_fr (drun sorted evs d0)) i = Some s -> doomed s = true ->
        exists s', nth_error (d_fr (drun sorted evs' (drun sorted evs d0))) i = Some s' /\ doomed s' = true /\ visible s' = false).
Proof. apply par_all_or_nothing_gen. Qed.

Lemma par_all_or_nothing_v1 sorted d0 evs :
  Forall (reachable cur_progs sorted) (d_fr d0) ->
  Forall (fun s => st_good true sorted s = true) (d_fr (drun_v1 sorted evs d0)).
Proof. intro H. apply par_all_or_nothing_gen. exact H. Qed.

Lemma par_all_or_nothing_v0 sorted d0 evs :
  Forall (reachable cur_progs sorted) (d_fr d0) ->
  Forall (fun s => st_good true sorted s = true) (d_fr (drun_v0 sorted evs d0))
  /\ (forall evs' i s, nth_error (d_fr (drun_v0 sorted evs d0)) i = Some s -> doomed s = true ->
        exists s', nth_error (d_fr (drun_v0 sorted evs' (drun_v0 sorted evs d0))) i = Some s' /\ doomed s' = true /\ visible s' = false).
Proof. apply par_all_or_nothing_gen. Qed.

(* ------------------------------------------------------------------ what the process does with a
   fraction depends only on the pending program, not on the files *)

Definition step_pr (sorted right : bool) (p : proc) : proc :=
  match p with
  | PRun (o :: r) m => PRun r m
  | PRun [] m => PIdle m
  | PSeal (o :: r) ev => PSeal r ev
  | PSeal [] ev => if ev then PPar (release_prog sorted) sealed_suicide_prog MGone else PPar (release_prog sorted) [] MSealed
  | PPar p q m =>
      if right then match q with o :: r => PPar p r m | [] => PPar p q m end
      else match p with
           | o :: r => PPar r q m
           | [] => match q with [] => PIdle m | _ => PPar p q m end
           end
  | x => x
  end.

Lemma pr_step1 sorted right s : pr (step1 sorted right s) = step_pr sorted right (pr s).
Proof.
  unfold step1, step_pr, upd, setp. destruct s as [f h d p]; cbn [pr files hasdata doomed].
  destruct p as [| |m|p m|p ev|p q m]; try reflexivity.
  - destruct p; reflexivity.
  - destruct p; [destruct ev|]; reflexivity.
  - destruct right; [destruct q|destruct p; [destruct q|]]; reflexivity.
Qed.

Fixpoint stepn_pr (sorted : bool) (n : nat) (p : proc) : proc :=
  match n with 0 => p | S n' => stepn_pr sorted n' (step_pr sorted true (step_pr sorted false p)) end.

Lemma pr_stepn sorted n : forall s, pr (stepn sorted n s) = stepn_pr sorted n (pr s).
Proof. induction n as [|n IH]; intro s; cbn; [reflexivity|]. rewrite IH, !pr_step1. reflexivity. Qed.

Lemma pr_finish sorted s : pr (finish sorted s) = stepn_pr sorted 24 (pr s).
Proof. apply pr_stepn. Qed.

Definition settled (s : st) : bool := match pr s with PIdle _ | PFatal => true | _ => false end.

Lemma step1_settled sorted right s : settled s = true -> step1 sorted right s = s.
Proof. unfold settled, step1. destruct (pr s); try discriminate; reflexivity. Qed.

Lemma stepn_settled sorted n : forall s, settled s = true -> stepn sorted n s = s.
Proof. induction n as [|n IH]; intros s H; cbn; [reflexivity|]. rewrite (step1_settled sorted false s H), (step1_settled sorted true s H). apply IH. exact H. Qed.

Lemma finish_settled sorted s : settled s = true -> finish sorted s = s.
Proof. apply stepn_settled. Qed.

Lemma settled_listed s : settled s = true -> listed s = alive s.
Proof. unfold settled, listed, alive. destruct (pr s) as [| |m| | |]; try discriminate; try reflexivity; destruct m; reflexivity. Qed.

Lemma alive_pr s t : pr s = pr t -> alive s = alive t.
Proof. unfold alive. intro E. rewrite E. reflexivity. Qed.
Lemma settled_pr s t : pr s = pr t -> settled s = settled t.
Proof. unfold settled. intro E. rewrite E. reflexivity. Qed.

(* a complete start leaves every fraction settled *)
Lemma restart_finish_settled sorted s b : pr s = PDown -> settled (finish sorted (restart cur_progs sorted s b)) = true.
Proof.
  intros _. unfold settled. rewrite pr_finish. unfold restart, load_prog_gen.
  destruct (classify (files s)), (hasdata s), b, sorted; reflexivity.
Qed.

Lemma crash1_pr s : pr (crash1 s) = PDown \/ settled (crash1 s) = true.
Proof.
  unfold crash1, settled, setp. destruct s as [f h d p]; cbn [pr].
  destruct p as [| |m| | |]; cbn; auto. destruct m; cbn; auto.
Qed.

(* pushing out a listed, settled fraction and letting its goroutine finish: no longer served *)
Lemma evict_finish_dead sorted s : settled s = true -> listed s = true -> alive (finish sorted (evict1 s)) = false.
Proof.
  unfold settled, listed, alive. rewrite pr_finish. unfold evict1, setp.
  destruct s as [f h d p]; cbn [pr]. destruct p as [| |m| | |]; try discriminate.
  destruct m; try discriminate; intros _ _; destruct sorted; reflexivity.
Qed.

(* a clean fraction that the pass did not touch is served again after a crash and a complete start *)
Lemma clean_restart_alive sorted s b : clean sorted s = true ->
  pr (crash1 s) = PDown /\ alive (finish sorted (restart cur_progs sorted (crash1 s) b)) = true
  /\ settled (finish sorted (restart cur_progs sorted (crash1 s) b)) = true.
Proof.
  unfold clean. destruct s as [f h d p]; cbn [pr files hasdata doomed]. intro H.
  apply andb_true_iff in H as [H H3]. apply andb_true_iff in H as [H1 H2]. subst h.
  destruct p as [| |m| | |]; try discriminate. destruct m; try discriminate;
    apply fs_eqb_true in H3; subst f; (split; [reflexivity|]); unfold alive, settled; rewrite !pr_finish;
    destruct sorted, b; split; reflexivity.
Qed.

Lemma clean_listed sorted s : clean sorted s = true -> listed s = true.
Proof.
  unfold clean, listed. destruct (pr s) as [| |m| | |]; rewrite ?andb_false_r; try discriminate.
  destruct m; rewrite ?andb_false_r; try discriminate; reflexivity.
Qed.

Lemma clean_settled sorted s : clean sorted s = true -> settled s = true.
Proof.
  unfold clean, settled. destruct (pr s) as [| |m| | |]; rewrite ?andb_false_r; try discriminate; reflexivity.
Qed.

(* ------------------------------------------------------------------ list lemmas *)

Lemma evict_first0 d : evict_first 0 d = d.
Proof. induction d as [|s r IH]; cbn; [reflexivity|]. rewrite IH. destruct (listed s); reflexivity. Qed.

Lemma evict_first_all_listed : forall d k, Forall (fun s => listed s = true) d ->
  evict_first k d = map evict1 (firstn k d) ++ skipn k d.
Proof.
  induction d as [|s r IH]; intros k H; [destruct k; reflexivity|].
  inversion H; subst. cbn [evict_first]. rewrite H2. destruct k; [rewrite evict_first0; reflexivity|].
  cbn [firstn skipn map app]. rewrite IH by assumption. reflexivity.
Qed.

Lemma at_pos_length {A} (f : A -> A) : forall l i, length (at_pos i f l) = length l.
Proof. induction l as [|x r IH]; intro i; destruct i; cbn; auto. Qed.

Lemma at_pos_fix {A} (f : A -> A) : forall l i, Forall (fun x => f x = x) l -> at_pos i f l = l.
Proof.
  induction l as [|x r IH]; intros i H; [destruct i; reflexivity|]. inversion H; subst.
  destruct i; cbn; [rewrite H2; reflexivity|rewrite IH by assumption; reflexivity].
Qed.

Lemma at_pos_app {A} (f : A -> A) : forall X Y i, Forall (fun x => f x = x) Y ->
  exists X', at_pos i f (X ++ Y) = X' ++ Y /\ length X' = length X.
Proof.
  induction X as [|x r IH]; intros Y i H.
  - exists []. cbn. rewrite at_pos_fix by exact H. auto.
  - destruct i; cbn.
    + exists (f x :: r). auto.
    + destruct (IH Y i H) as [X' [E L]]. exists (x :: X'). rewrite E. cbn. auto.
Qed.

Lemma at_pos_out {A} (f : A -> A) : forall l i, nth_error l i = None -> at_pos i f l = l.
Proof.
  induction l as [|x r IH]; intros i H; [destruct i; reflexivity|].
  destruct i; cbn in *; [discriminate|]. rewrite IH by exact H. reflexivity.
Qed.

Lemma dstep_v0_step sorted fr jobs i :
  dstep false false sorted (mkd true fr jobs) (DStep i) = mkd true (at_pos i (step1 sorted false) fr) jobs.
Proof.
  unfold dstep. cbn [d_up d_fr d_jobs andb]. destruct (nth_error fr i) eqn:E; [reflexivity|].
  rewrite at_pos_out by exact E. reflexivity.
Qed.

Lemma run_steps_split sorted sched : forall X Y jobs, Forall (fun s => settled s = true) Y ->
  exists X', d_fr (drun_v0 sorted (map DStep sched) (mkd true (X ++ Y) jobs)) = X' ++ Y /\ length X' = length X.
Proof.
  induction sched as [|i r IH]; intros X Y jobs H.
  - exists X. auto.
  - cbn [map]. unfold drun_v0. cbn [fold_left]. rewrite dstep_v0_step.
    destruct (at_pos_app (step1 sorted false) X Y i) as [X1 [E L]].
    { rewrite Forall_forall in *. intros s Hs. apply step1_settled. apply H. exact Hs. }
    rewrite E. destruct (IH X1 Y jobs H) as [X' [E' L']]. exists X'. split; [exact E'|congruence].
Qed.

Lemma restart_all_app sorted : forall A B, exists A', restart_all sorted (A ++ B) = A' ++ restart_all sorted B
  /\ length A' = length A
  /\ (Forall (fun s => pr s = PDown \/ settled s = true) A -> Forall (fun s => settled s = true) A').
Proof.
  induction A as [|a r IH]; intro B.
  - exists []. cbn. auto.
  - destruct (IH B) as [A' [E [L S]]]. cbn [app restart_all]. rewrite E.
    eexists (_ :: A'). split; [reflexivity|]. split; [cbn; congruence|].
    intro F. inversion F; subst. constructor; [|apply S; assumption].
    unfold start1. destruct H1 as [Hd|Hs].
    + rewrite Hd. apply restart_finish_settled. exact Hd.
    + rewrite finish_settled.
      * destruct (pr a) eqn:Ea; try exact Hs. unfold settled in Hs. rewrite Ea in Hs. discriminate.
      * destruct (pr a) eqn:Ea; try exact Hs. unfold settled in Hs. rewrite Ea in Hs. discriminate.
Qed.

Lemma restart_all_clean sorted : forall Y, Forall (fun s => clean sorted s = true) Y ->
  forallb alive (restart_all sorted (map crash1 Y)) = true
  /\ Forall (fun s => settled s = true) (restart_all sorted (map crash1 Y))
  /\ length (restart_all sorted (map crash1 Y)) = length Y.
Proof.
  induction Y as [|y r IH]; intro H; [cbn; auto|]. inversion H; subst.
  destruct (IH H3) as [I1 [I2 I3]]. cbn [map restart_all].
  destruct (clean_restart_alive sorted y (existsb live_active_s (map crash1 r)) H2) as [Hd [Ha Hs]].
  unfold start1. rewrite Hd. cbn [forallb length]. rewrite Ha, I1, I3. auto.
Qed.

(* shape of the directory after an interrupted pass and a complete start *)
Lemma crashed_pass_shape_v0 sorted k sched d0 : Forall (fun s => clean sorted s = true) d0 ->
  exists A B, after_crashed_pass_v0 sorted k sched d0 = A ++ B
    /\ length A = length (firstn k d0) /\ length B = length (skipn k d0)
    /\ forallb alive B = true
    /\ Forall (fun s => settled s = true) (A ++ B).
Proof.
  intro H. unfold after_crashed_pass_v0, drun_v0. cbn [fold_left]. unfold dstep at 2. cbn [d_up d_fr d_jobs].
  rewrite evict_first_all_listed.
  2:{ rewrite Forall_forall in *. intros s Hs. eapply clean_listed. apply H. exact Hs. }
  assert (HY : Forall (fun s => clean sorted s = true) (skipn k d0)).
  { rewrite Forall_forall in *. intros s Hs. apply H. rewrite <- (firstn_skipn k d0). apply in_or_app. right. exact Hs. }
  destruct (run_steps_split sorted sched (map evict1 (firstn k d0)) (skipn k d0) ([] ++ [evict_pos k 0 d0])) as [X' [E L]].
  { rewrite Forall_forall in *. intros s Hs. eapply clean_settled. apply HY. exact Hs. }
  unfold drun_v0 in E. rewrite E. rewrite map_app.
  destruct (restart_all_app sorted (map crash1 X') (map crash1 (skipn k d0))) as [A [EA [LA SA]]].
  destruct (restart_all_clean sorted (skipn k d0) HY) as [B1 [B2 B3]].
  exists A, (restart_all sorted (map crash1 (skipn k d0))). split; [exact EA|].
  split; [rewrite LA, map_length, L, map_length; reflexivity|]. split; [exact B3|]. split; [exact B1|].
  apply Forall_app. split; [|exact B2]. apply SA.
  rewrite Forall_forall. intros s Hs. apply in_map_iff in Hs as [x [Ex _]]. subst s. apply crash1_pr.
Qed.

(* ------------------------------------------------------------------ the next pass *)

Lemma next_pass_pat sorted : forall d k, Forall (fun s => settled s = true) d ->
  map alive (after_next_pass sorted k d) = pat k (map alive d).
Proof.
  unfold after_next_pass. induction d as [|s r IH]; intros k H; [reflexivity|]. inversion H; subst.
  cbn [evict_first map pat]. rewrite (settled_listed s H2).
  destruct (alive s) eqn:Ea.
  - destruct k.
    + cbn [map]. rewrite finish_settled by exact H2. rewrite Ea, IH by assumption. reflexivity.
    + cbn [map]. rewrite evict_finish_dead; [|exact H2|rewrite (settled_listed s H2); exact Ea].
      rewrite IH by assumption. reflexivity.
  - cbn [map]. rewrite finish_settled by exact H2. rewrite Ea, IH by assumption. destruct k; reflexivity.
Qed.

Lemma pat0 l : pat 0 l = l.
Proof. induction l as [|b r IH]; cbn; [reflexivity|]. rewrite IH. destruct b; reflexivity. Qed.

Lemma pat_all_true : forall B k, forallb (fun b => b) B = true -> prefix_shape (pat k B) = true.
Proof.
  induction B as [|b r IH]; intros k H; [reflexivity|]. cbn in H. apply andb_true_iff in H as [H1 H2]. subst b.
  destruct k; cbn [pat prefix_shape].
  - rewrite pat0. exact H2.
  - apply IH. exact H2.
Qed.

Lemma pat_prefix : forall A B k, count_true A <= k -> forallb (fun b => b) B = true ->
  prefix_shape (pat k (A ++ B)) = true.
Proof.
  induction A as [|a r IH]; intros B k Hc HB; [apply pat_all_true; exact HB|].
  destruct a; cbn [app pat count_true] in *.
  - destruct k; [lia|]. cbn [prefix_shape]. apply IH; [lia|exact HB].
  - assert (E : pat k (false :: r ++ B) = false :: pat k (r ++ B)) by (destruct k; reflexivity).
    cbn [pat]. destruct k; cbn [prefix_shape]; apply IH; assumption.
Qed.

Lemma forallb_map_alive B : forallb alive B = true -> forallb (fun b => b) (map alive B) = true.
Proof. induction B as [|b r IH]; cbn; [auto|]. intro H. apply andb_true_iff in H as [H1 H2]. rewrite H1. auto. Qed.

Lemma firstn_app_exact {A} (X Y : list A) k d0 :
  length X = length (firstn k d0) -> length Y = length (@skipn A k d0) -> firstn k (X ++ Y) = X.
Proof.
  intros LX LY. destruct (Nat.le_gt_cases k (length d0)) as [Hle|Hgt].
  - rewrite firstn_length_le in LX by exact Hle. subst k. rewrite firstn_app, Nat.sub_diag, firstn_all. cbn. apply app_nil_r.
  - rewrite skipn_all2 in LY by lia. destruct Y; [|discriminate]. rewrite app_nil_r.
    rewrite firstn_all2 in LX by lia. apply firstn_all2. lia.
Qed.

Lemma par_restart_bound_v0 sorted k sched d0 : Forall (fun s => clean sorted s = true) d0 ->
  length (after_crashed_pass_v0 sorted k sched d0) = length d0
  /\ forallb alive (skipn k (after_crashed_pass_v0 sorted k sched d0)) = true.
Proof.
  intro H. destruct (crashed_pass_shape_v0 sorted k sched d0 H) as [A [B [E [LA [LB [HB _]]]]]].
  rewrite E. split.
  - rewrite app_length, LA, LB, <- app_length, firstn_skipn. reflexivity.
  - assert (F : firstn k (A ++ B) = A) by (eapply firstn_app_exact; eauto).
    assert (G : skipn k (A ++ B) = B).
    { apply (app_inv_head A). rewrite <- F at 1. apply firstn_skipn. }
    rewrite G. exact HB.
Qed.

Lemma par_prefix_eventually_v0 sorted k sched k' d0 : Forall (fun s => clean sorted s = true) d0 ->
  let d1 := after_crashed_pass_v0 sorted k sched d0 in
  count_true (map alive (firstn k d1)) <= k' ->
  prefix_shape (map alive (after_next_pass sorted k' d1)) = true.
Proof.
  intros H d1. subst d1. destruct (crashed_pass_shape_v0 sorted k sched d0 H) as [A [B [E [LA [LB [HB HS]]]]]].
  rewrite E. rewrite (firstn_app_exact A B k d0 LA LB). intro Hc.
  rewrite next_pass_pat by exact HS. rewrite map_app. apply pat_prefix; [exact Hc|apply forallb_map_alive; exact HB].
Qed.

(* ------------------------------------------------------------------ refutations *)

(* two outsiders; the goroutine of the NEWER one does its first rename; crash; complete start:
   the older fraction is served, the newer one is gone *)
Lemma par_prefix_at_restart_v0_refuted :
  exists sorted k sched d0, Forall (fun s => clean sorted s = true) d0 /\
    prefix_shape (map alive (after_crashed_pass_v0 sorted k sched d0)) = false.
Proof.
  exists true, 2, [1; 1], [clean_sealed true; clean_sealed true; clean_active].
  split; [repeat (apply Forall_cons; [reflexivity|]); apply Forall_nil|vm_compute; reflexivity].
Qed.

(* sizes 1309, 1509, 196 and limit 1505 (the sizes of the real replay): the pass pushes out two fractions; crash as above; after the start the
   manager lists sizes 1 and 4, the limit holds, the following pass removes nothing: the gap stays *)
Lemma par_prefix_eventually_v0_refuted :
  exists sorted limit sizes sched d0, Forall (fun s => clean sorted s = true) d0 /\ length sizes = length d0 /\
    let k := shrink limit sizes in
    let d1 := after_crashed_pass_v0 sorted k sched d0 in
    let k' := shrink limit (live_sizes d1 sizes) in
    k = 2 /\ k' = 0 /\ prefix_shape (map alive (after_next_pass sorted k' d1)) = false.
Proof.
  exists true, 1505%N, [1309; 1509; 196]%N, [1; 1], [clean_sealed true; clean_sealed true; clean_active].
  split; [repeat (apply Forall_cons; [reflexivity|]); apply Forall_nil|]. split; [reflexivity|]. vm_compute. auto.
Qed.

(* ================================================================== the repaired code (14be38b): one
   goroutine per pass deletes the outsiders one after another *)

Lemma clean_cases sorted c : clean sorted c = true -> c = clean_sealed sorted \/ c = clean_active.
Proof.
  unfold clean. destruct c as [f h d p]; cbn [pr files hasdata doomed]. intro H.
  apply andb_true_iff in H as [H H3]. apply andb_true_iff in H as [H1 H2]. subst h.
  apply negb_true_iff in H2. subst d.
  destruct p as [| |m| | |]; try discriminate. destruct m; try discriminate; apply fs_eqb_true in H3; subst f; auto.
Qed.

Definition deadS (s : st) : Prop := pr s = PIdle MGone /\ files s = empty_fs.
Definition progS (sorted : bool) (s : st) : Prop := In s (prog_states sorted).
Definition untouchedS (sorted : bool) (s : st) : Prop := exists c, clean sorted c = true /\ s = evict1 c.

Definition is_idle_gone (s : st) : bool := match pr s with PIdle MGone => true | _ => false end.

Lemma prog_closed sorted : forallb (fun m => mem (step1 sorted false m) (prog_states sorted)) (prog_states sorted) = true.
Proof. destruct sorted; vm_compute; reflexivity. Qed.
Lemma prog_returned sorted :
  forallb (fun m => implb (suicide_returned m) (is_idle_gone m && fs_eqb (files m) empty_fs)) (prog_states sorted) = true.
Proof. destruct sorted; vm_compute; reflexivity. Qed.
Lemma prog_kinds sorted : forallb (fun m => is_deleting m || settled m) (prog_states sorted) = true.
Proof. destruct sorted; vm_compute; reflexivity. Qed.

Lemma untouched_prog sorted s : untouchedS sorted s -> progS sorted s.
Proof.
  intros [c [Hc E]]. subst s. unfold progS. apply mem_In.
  destruct (clean_cases sorted c Hc) as [E|E]; subst c; destruct sorted; vm_compute; reflexivity.
Qed.

Lemma untouched_deleting sorted s : untouchedS sorted s -> is_deleting s = true /\ settled s = false.
Proof.
  intros [c [Hc E]]. subst s. destruct (clean_cases sorted c Hc) as [E|E]; subst c; destruct sorted; split; reflexivity.
Qed.

Lemma prog_step sorted m : progS sorted m -> progS sorted (step1 sorted false m).
Proof.
  unfold progS. intro H. pose proof (prog_closed sorted) as C. rewrite forallb_forall in C.
  apply mem_In. apply C. exact H.
Qed.

Lemma prog_job_step sorted m : progS sorted m -> job_step1 sorted m = step1 sorted false m.
Proof.
  intro H. pose proof (prog_kinds sorted) as K. rewrite forallb_forall in K. specialize (K m H).
  unfold job_step1, is_deleting, settled in *. destruct (pr m) eqn:E; try reflexivity; try discriminate.
  - unfold step1. rewrite E. reflexivity.
  - unfold step1. rewrite E. destruct m0; reflexivity.
Qed.

Lemma prog_dead sorted m : progS sorted m -> suicide_returned m = true -> deadS m.
Proof.
  intros H R. pose proof (prog_returned sorted) as K. rewrite forallb_forall in K. specialize (K m H).
  rewrite R in K. cbn in K. apply andb_true_iff in K as [K1 K2]. split; [|apply fs_eqb_true; exact K2].
  unfold is_idle_gone in K1. destruct (pr m) as [| |mm| | |]; try discriminate. destruct mm; try discriminate. reflexivity.
Qed.

Lemma prog_kind sorted m : progS sorted m -> is_deleting m = true \/ settled m = true.
Proof.
  intro H. pose proof (prog_kinds sorted) as K. rewrite forallb_forall in K. specialize (K m H).
  apply orb_true_iff in K. exact K.
Qed.

Lemma dead_settled s : deadS s -> settled s = true.
Proof. intros [H _]. unfold settled. rewrite H. reflexivity. Qed.

Lemma evict_pos0 : forall d i, evict_pos 0 i d = [].
Proof. induction d as [|s r IH]; intro i; cbn; [reflexivity|]. destruct (listed s); apply IH. Qed.

Lemma evict_pos_all_listed : forall d k i, Forall (fun s => listed s = true) d ->
  evict_pos k i d = seq i (length (firstn k d)).
Proof.
  induction d as [|s r IH]; intros k i H; [destruct k; reflexivity|].
  inversion H; subst. cbn [evict_pos]. rewrite H2. destruct k.
  - apply evict_pos0.
  - cbn [firstn length seq]. rewrite IH by assumption. reflexivity.
Qed.

Definition Pstruct (sorted : bool) (P : list st) : Prop :=
  match P with [] => True | m :: U => progS sorted m /\ Forall (untouchedS sorted) U end.

(* the queues of all pass goroutines, one after the other, are exactly the stretch of pushed-out fractions
   that are not yet deleted *)
Definition seq_inv (sorted : bool) (fr : list st) (jobs : list (list nat)) : Prop :=
  exists D P C, fr = D ++ P ++ C /\ concat jobs = seq (length D) (length P)
    /\ Forall deadS D /\ Pstruct sorted P /\ Forall (fun s => clean sorted s = true) C.

Lemma at_pos_nth_id {A} (f : A -> A) : forall l i s, nth_error l i = Some s -> f s = s -> at_pos i f l = l.
Proof.
  induction l as [|x r IH]; intros i s H E; [destruct i; discriminate|].
  destruct i; cbn in *.
  - inversion H; subst. rewrite E. reflexivity.
  - rewrite (IH i s H E). reflexivity.
Qed.

Lemma at_pos_mid {A} (f : A -> A) (D : list A) x R : at_pos (length D) f (D ++ x :: R) = D ++ f x :: R.
Proof. induction D as [|y r IH]; cbn; [reflexivity|]. rewrite IH. reflexivity. Qed.

(* an element that is not settled sits in the queued stretch *)
Lemma unsettled_pos sorted D P C i s :
  Forall deadS D -> Forall (fun s => clean sorted s = true) C ->
  nth_error (D ++ P ++ C) i = Some s -> settled s = false ->
  In i (seq (length D) (length P)) /\ In s P.
Proof.
  intros HD HC Hn Hs.
  destruct (Nat.lt_ge_cases i (length D)) as [L|L].
  - rewrite nth_error_app1 in Hn by exact L. apply nth_error_In in Hn.
    rewrite Forall_forall in HD. rewrite (dead_settled s (HD s Hn)) in Hs. discriminate.
  - rewrite nth_error_app2 in Hn by exact L.
    destruct (Nat.lt_ge_cases (i - length D) (length P)) as [L2|L2].
    + rewrite nth_error_app1 in Hn by exact L2. split; [apply in_seq; lia|eapply nth_error_In; exact Hn].
    + rewrite nth_error_app2 in Hn by exact L2. apply nth_error_In in Hn.
      rewrite Forall_forall in HC. rewrite (clean_settled sorted s (HC s Hn)) in Hs. discriminate.
Qed.

Lemma in_jobs_concat i jobs : In i (concat jobs) -> in_jobs i jobs = true.
Proof.
  intro H. apply in_concat in H as [q [Hq Hi]]. unfold in_jobs. apply existsb_exists. exists q. split; [exact Hq|].
  apply existsb_exists. exists i. split; [exact Hi|apply Nat.eqb_refl].
Qed.

Lemma P_deleting sorted P s : Pstruct sorted P -> In s P -> settled s = false -> is_deleting s = true.
Proof.
  destruct P as [|m U]; [intros _ []|]. intros [Hm HU] [E|Hin] Hs.
  - subst. destruct (prog_kind sorted s Hm) as [K|K]; [exact K|congruence].
  - rewrite Forall_forall in HU. apply (untouched_deleting sorted s (HU s Hin)).
Qed.

Lemma Pstruct_app sorted P X : Pstruct sorted P -> Forall (untouchedS sorted) X -> Pstruct sorted (P ++ X).
Proof.
  destruct P as [|m U]; cbn.
  - intros _ HX. destruct X as [|x X']; [exact I|]. inversion HX; subst. split; [apply untouched_prog; assumption|assumption].
  - intros [Hm HU] HX. split; [exact Hm|apply Forall_app; auto].
Qed.

Lemma prog_not_listed sorted m : progS sorted m -> listed m = false.
Proof.
  intro H. destruct (prog_kind sorted m H) as [K|K].
  - unfold is_deleting, listed in *. destruct (pr m) as [| |mm|p mm| |]; try discriminate. destruct mm; try discriminate; reflexivity.
  - assert (X : forallb (fun m => negb (listed m)) (prog_states sorted) = true) by (destruct sorted; vm_compute; reflexivity).
    rewrite forallb_forall in X. apply negb_true_iff. apply X. exact H.
Qed.

Lemma dead_not_listed s : deadS s -> listed s = false.
Proof. intros [H _]. unfold listed. rewrite H. reflexivity. Qed.

Lemma evict_first_skip : forall X Y k, Forall (fun s => listed s = false) X -> evict_first k (X ++ Y) = X ++ evict_first k Y.
Proof.
  induction X as [|x r IH]; intros Y k H; [reflexivity|]. inversion H; subst. cbn. rewrite H2, IH by assumption. reflexivity.
Qed.

Lemma evict_pos_skip : forall X Y k i, Forall (fun s => listed s = false) X -> evict_pos k i (X ++ Y) = evict_pos k (i + length X) Y.
Proof.
  induction X as [|x r IH]; intros Y k i H; [cbn; rewrite Nat.add_0_r; reflexivity|]. inversion H; subst. cbn.
  rewrite H2, IH by assumption. f_equal. lia.
Qed.

Lemma nth_split_jobs {A} : forall (jobs : list (list A)) j h r, nth j jobs [] = h :: r ->
  exists X Y, jobs = X ++ (h :: r) :: Y /\ firstn j jobs = X /\ forall x, set_nth j x jobs = X ++ x :: Y.
Proof.
  induction jobs as [|q t IH]; intros j h r H; [destruct j; discriminate|].
  destruct j; cbn in H.
  - subst q. exists [], t. auto.
  - destruct (IH j h r H) as [X [Y [E [F S]]]]. exists (q :: X), Y. cbn. rewrite F. split; [rewrite E at 1; reflexivity|].
    split; [reflexivity|]. intro x. rewrite S. reflexivity.
Qed.

Lemma all_empty_concat {A} (X : list (list A)) :
  forallb (fun q => match q with [] => true | _ => false end) X = true -> concat X = [].
Proof.
  induction X as [|q t IH]; cbn; [reflexivity|]. destruct q; [|discriminate]. exact IH.
Qed.

Lemma seq_step_inv sorted fr jobs e : live_only e = true -> seq_inv sorted fr jobs ->
  let d' := dstep true true sorted (mkd true fr jobs) e in
  d_up d' = true /\ seq_inv sorted (d_fr d') (d_jobs d').
Proof.
  intros He [D [P [C [Efr [Ejobs [HD [HP HC]]]]]]]. cbv zeta.
  assert (I0 : seq_inv sorted fr jobs) by (exists D, P, C; auto).
  destruct e; try discriminate; unfold dstep; cbn [d_up d_fr d_jobs].
  - (* DPass *)
    split; [reflexivity|].
    assert (NL : Forall (fun s => listed s = false) (D ++ P)).
    { apply Forall_app. split.
      - rewrite Forall_forall in *. intros s Hs. apply dead_not_listed. apply HD. exact Hs.
      - destruct P as [|m U]; [constructor|]. destruct HP as [Hm HU]. constructor; [eapply prog_not_listed; eauto|].
        rewrite Forall_forall in *. intros s Hs. eapply prog_not_listed. apply untouched_prog. apply HU. exact Hs. }
    assert (HL : Forall (fun s => listed s = true) C).
    { rewrite Forall_forall in *. intros s Hs. eapply clean_listed. apply HC. exact Hs. }
    rewrite Efr, app_assoc. rewrite evict_first_skip, evict_pos_skip by exact NL.
    rewrite evict_first_all_listed, evict_pos_all_listed by exact HL.
    exists D, (P ++ map evict1 (firstn k C)), (skipn k C). repeat split.
    + rewrite <- !app_assoc. reflexivity.
    + rewrite concat_app, Ejobs. cbn [concat]. rewrite app_nil_r, !app_length, map_length. cbn [Nat.add].
      rewrite seq_app. reflexivity.
    + exact HD.
    + apply Pstruct_app; [exact HP|]. rewrite Forall_forall. intros s Hs. apply in_map_iff in Hs as [c [E Hc]].
      exists c. split; [|auto]. rewrite Forall_forall in HC. apply HC. rewrite <- (firstn_skipn k C). apply in_or_app. left. exact Hc.
    + rewrite Forall_forall in *. intros s Hs. apply HC. rewrite <- (firstn_skipn k C). apply in_or_app. right. exact Hs.
  - (* DJob *)
    destruct (true && negb (prev_done j jobs)) eqn:G; [split; [reflexivity|exact I0]|].
    destruct (nth j jobs []) as [|h r] eqn:Ej; [split; [reflexivity|exact I0]|].
    cbn in G. apply negb_false_iff in G. unfold prev_done in G.
    destruct (nth_split_jobs jobs j h r Ej) as [X [Y [EJ [FX SX]]]].
    rewrite FX in G. pose proof (all_empty_concat X G) as CX.
    assert (Eq : (h :: r) ++ concat Y = seq (length D) (length P)).
    { rewrite <- Ejobs, EJ, concat_app, CX. reflexivity. }
    destruct P as [|m U]; [discriminate|].
    cbn [length seq app] in Eq. inversion Eq as [[Eh Er]]. destruct HP as [Hm HU].
    assert (Hn : nth_error fr (length D) = Some m).
    { rewrite Efr. rewrite nth_error_app2 by lia. rewrite Nat.sub_diag. reflexivity. }
    rewrite Hn. destruct (suicide_returned m) eqn:R; cbn [d_up d_fr d_jobs].
    + split; [reflexivity|]. exists (D ++ [m]), U, C. repeat split.
      * rewrite Efr. rewrite <- app_assoc. reflexivity.
      * rewrite SX, concat_app, CX. cbn [concat app]. rewrite Er, app_length. cbn. rewrite Nat.add_1_r. reflexivity.
      * apply Forall_app. split; [exact HD|]. constructor; [eapply prog_dead; eauto|constructor].
      * destruct U as [|u U']; [exact I|]. inversion HU; subst. split; [apply untouched_prog; assumption|assumption].
      * exact HC.
    + split; [reflexivity|]. exists D, (job_step1 sorted m :: U), C. repeat split.
      * rewrite Efr. cbn [app]. apply at_pos_mid.
      * exact Ejobs.
      * exact HD.
      * rewrite prog_job_step by exact Hm. apply prog_step. exact Hm.
      * exact HU.
      * exact HC.
  - (* DStep *)
    destruct (nth_error fr i) as [s|] eqn:Hn; [|split; [reflexivity|exact I0]].
    destruct (true && in_jobs i jobs && is_deleting s) eqn:G; cbn [d_up d_fr d_jobs]; [split; [reflexivity|exact I0]|].
    split; [reflexivity|].
    assert (Es : step1 sorted false s = s).
    { destruct (settled s) eqn:S; [apply step1_settled; exact S|]. exfalso.
      rewrite Efr in Hn. destruct (unsettled_pos sorted D P C i s HD HC Hn S) as [Hi Hs].
      rewrite <- Ejobs in Hi. rewrite (in_jobs_concat _ _ Hi), (P_deleting sorted P s HP Hs S) in G. discriminate. }
    rewrite (at_pos_nth_id _ fr i s Hn Es). exact I0.
  - (* DStepR *)
    destruct (true && in_jobs i jobs) eqn:G; cbn [d_up d_fr d_jobs]; [split; [reflexivity|exact I0]|].
    split; [reflexivity|].
    destruct (nth_error fr i) as [s|] eqn:Hn; [|rewrite at_pos_out by exact Hn; exact I0].
    assert (Es : step1 sorted true s = s).
    { destruct (settled s) eqn:S; [apply step1_settled; exact S|]. exfalso.
      rewrite Efr in Hn. destruct (unsettled_pos sorted D P C i s HD HC Hn S) as [Hi Hs].
      rewrite <- Ejobs in Hi. rewrite (in_jobs_concat _ _ Hi) in G. discriminate. }
    rewrite (at_pos_nth_id _ fr i s Hn Es). exact I0.
Qed.

Lemma seq_run_inv sorted evs : Forall (fun e => live_only e = true) evs -> forall fr jobs, seq_inv sorted fr jobs ->
  let d' := fold_left (dstep true true sorted) evs (mkd true fr jobs) in
  seq_inv sorted (d_fr d') (d_jobs d').
Proof.
  intro HF. induction HF as [|e r He _ IH]; intros fr jobs H; [exact H|].
  cbn [fold_left]. destruct (seq_step_inv sorted fr jobs e He H) as [U I].
  remember (dstep true true sorted (mkd true fr jobs) e) as d1. destruct d1 as [u f j]. cbn in U, I. subst u.
  apply IH. exact I.
Qed.

Lemma seq_init_inv sorted d0 : Forall (fun s => clean sorted s = true) d0 -> seq_inv sorted d0 [].
Proof. intro H. exists [], [], d0. repeat split; auto. Qed.

Lemma filter_Forall {A} (f : A -> bool) l : Forall (fun e => f e = true) (filter f l).
Proof. rewrite Forall_forall. intros x Hx. apply filter_In in Hx. apply Hx. Qed.

Lemma seq_pass_inv sorted k sched d0 : Forall (fun s => clean sorted s = true) d0 ->
  let d' := drun sorted (DPass k :: filter step_only sched) (mkd true d0 []) in
  seq_inv sorted (d_fr d') (d_jobs d').
Proof.
  intro H. apply seq_run_inv; [|apply seq_init_inv; exact H].
  constructor; [reflexivity|]. rewrite Forall_forall. intros e He. apply filter_In in He as [_ He].
  destruct e; try discriminate; reflexivity.
Qed.

(* ------------------------------------------------------------------ what a complete start makes of it *)

Lemma restart_all_alive sorted (Q : st -> Prop) v :
  (forall s b, Q s -> alive (start1 sorted (crash1 s) b) = v) ->
  forall A B, Forall Q A ->
    map alive (restart_all sorted (map crash1 (A ++ B))) = repeat v (length A) ++ map alive (restart_all sorted (map crash1 B)).
Proof.
  intros HQ A B HA. induction HA as [|a r Ha _ IH]; [reflexivity|].
  cbn [app map restart_all length repeat].
  rewrite HQ by exact Ha. rewrite IH. reflexivity.
Qed.

Lemma start1_settled sorted s b : settled (start1 sorted (crash1 s) b) = true.
Proof.
  unfold start1. destruct (crash1_pr s) as [Hd|Hs].
  - rewrite Hd. apply restart_finish_settled. exact Hd.
  - assert (E : (match pr (crash1 s) with PDown => restart cur_progs sorted (crash1 s) b | _ => crash1 s end) = crash1 s).
    { unfold settled in Hs. destruct (pr (crash1 s)); try reflexivity. discriminate. }
    rewrite E. rewrite finish_settled by exact Hs. exact Hs.
Qed.

Lemma restart_all_settled sorted : forall d, Forall (fun s => settled s = true) (restart_all sorted (map crash1 d)).
Proof.
  induction d as [|s r IH]; cbn [map restart_all]; constructor; [|exact IH].
  apply (start1_settled sorted s).
Qed.

Lemma dead_start sorted s b : deadS s -> alive (start1 sorted (crash1 s) b) = false.
Proof.
  intros [Hp Hf]. destruct s as [f h d p]. cbn in Hp, Hf. subst p f.
  unfold start1, alive. cbn [crash1 pr setp]. rewrite pr_finish. destruct h, d, b, sorted; reflexivity.
Qed.

Lemma clean_start sorted s b : clean sorted s = true -> alive (start1 sorted (crash1 s) b) = true.
Proof.
  intro H. destruct (clean_restart_alive sorted s b H) as [Hd [Ha _]]. unfold start1. rewrite Hd. exact Ha.
Qed.

Lemma untouched_start sorted s b : untouchedS sorted s -> alive (start1 sorted (crash1 s) b) = true.
Proof.
  intros [c [Hc E]]. subst s.
  assert (X : crash1 (evict1 c) = crash1 c) by (destruct (clean_cases sorted c Hc) as [E|E]; subst c; destruct sorted; reflexivity).
  rewrite X. apply clean_start. exact Hc.
Qed.

Lemma prefix_shape_false a l : prefix_shape (repeat false a ++ l) = prefix_shape l.
Proof. induction a; cbn; auto. Qed.
Lemma forallb_repeat_true a : forallb (fun b : bool => b) (repeat true a) = true.
Proof. induction a; cbn; auto. Qed.
Lemma prefix_shape_true a : prefix_shape (repeat true a) = true.
Proof. destruct a; cbn; [reflexivity|apply forallb_repeat_true]. Qed.

Lemma inv_prefix sorted fr jobs : seq_inv sorted fr jobs ->
  prefix_shape (map alive (restart_all sorted (map crash1 fr))) = true.
Proof.
  intros [D [P [C [Efr [_ [HD [HP HC]]]]]]].
  rewrite Efr.
  rewrite (restart_all_alive sorted deadS false) by (auto using dead_start).
  rewrite prefix_shape_false.
  assert (EC : map alive (restart_all sorted (map crash1 C)) = repeat true (length C)).
  { rewrite <- (app_nil_r C) at 1. rewrite (restart_all_alive sorted (fun s => clean sorted s = true) true) by (auto using clean_start).
    cbn. apply app_nil_r. }
  destruct P as [|m U].
  - cbn [app]. rewrite EC. apply prefix_shape_true.
  - cbn in HP. destruct HP as [_ HU]. cbn [app map restart_all].
    rewrite (restart_all_alive sorted (untouchedS sorted) true) by (auto using untouched_start).
    rewrite EC. rewrite <- repeat_app.
    destruct (alive _); cbn [prefix_shape]; [apply forallb_repeat_true|apply prefix_shape_true].
Qed.

Lemma par_prefix_at_restart sorted k sched d0 : Forall (fun s => clean sorted s = true) d0 ->
  prefix_shape (map alive (after_crashed_pass sorted k sched d0)) = true
  /\ Forall (fun s => settled s = true) (after_crashed_pass sorted k sched d0).
Proof.
  intro H. unfold after_crashed_pass. split; [|apply restart_all_settled].
  eapply inv_prefix. apply (seq_pass_inv sorted k sched d0 H).
Qed.

(* any number of passes in flight *)
Lemma par_prefix_any_passes sorted evs d0 : Forall (fun s => clean sorted s = true) d0 ->
  prefix_shape (map alive (after_crashed_passes sorted evs d0)) = true
  /\ Forall (fun s => settled s = true) (after_crashed_passes sorted evs d0).
Proof.
  intro H. unfold after_crashed_passes. split; [|apply restart_all_settled].
  eapply inv_prefix. unfold drun. apply seq_run_inv; [apply filter_Forall|apply seq_init_inv; exact H].
Qed.

Lemma pat_keeps_prefix : forall l k, prefix_shape l = true -> prefix_shape (pat k l) = true.
Proof.
  induction l as [|b r IH]; intros k H; [reflexivity|]. destruct b.
  - cbn in H. destruct k; cbn [pat prefix_shape].
    + rewrite pat0. exact H.
    + apply pat_all_true. exact H.
  - assert (E : pat k (false :: r) = false :: pat k r) by (destruct k; reflexivity).
    rewrite E. cbn [prefix_shape]. apply IH. exact H.
Qed.

(* after the restart ANY following pass (any k', in particular the one the size rule chooses) leaves a prefix *)
Lemma par_prefix_eventually sorted k sched k' d0 : Forall (fun s => clean sorted s = true) d0 ->
  prefix_shape (map alive (after_next_pass sorted k' (after_crashed_pass sorted k sched d0))) = true.
Proof.
  intro H. destruct (par_prefix_at_restart sorted k sched d0 H) as [H1 H2].
  rewrite next_pass_pat by exact H2. apply pat_keeps_prefix. exact H1.
Qed.

(* two passes in flight (a later maintenance step starts its pass goroutine while the first one has not
   started its deletion yet, e.g. because it waits for a reader or a seal): the second goroutine deletes a
   newer fraction first *)
Lemma par_overlapping_passes_v1_refuted :
  exists sorted evs d0, Forall (fun s => clean sorted s = true) d0 /\
    prefix_shape (map alive (restart_all sorted (map crash1 (d_fr (drun_v1 sorted evs (mkd true d0 [])))))) = false.
Proof.
  exists true, [DPass 1; DPass 1; DJob 1; DJob 1; DJob 1], [clean_sealed true; clean_sealed true; clean_active].
  split; [repeat (apply Forall_cons; [reflexivity|]); apply Forall_nil|vm_compute; reflexivity].
Qed.
