(* C15 — readers against deletion: the use lock of a fraction. frac/sealed.go: DataProvider takes
   useMu.RLock, looks at `suicided` (set => RUnlock, EmptyDataProvider), otherwise load() opens the
   files lazily and the provider is handed out; its release function does RUnlock. Suicide takes
   useMu.Lock (waits for every reader), sets suicided, unlocks, closes the files, then renames and
   removes. frac/active.go has the same protocol with the flags suicided/released (Release and Suicide
   both: Lock, set, Unlock, then file removals). fracmanager/proxy_frac.go: DataProvider holds the
   proxy's RLock while it takes the inner one; trySetSuicided swaps the instance out under the proxy's
   Lock. No proofs here. *)
From Coq Require Import List Bool Arith NArith.
Import ListNotations.
From C15 Require Import Model.

Inductive sphase :=
| SIdle                    (* Suicide not called, or waiting in useMu.Lock *)
| SLocked                  (* holds the write lock *)
| SFlagged                 (* flag set, still holding the lock *)
| SRun (p : list pop).     (* unlocked: file operations *)

Record ust := mku {
  u_pre : nat;             (* readers holding RLock that have not looked at the flag yet *)
  u_use : nat;             (* readers holding RLock with a provider (files opened) *)
  u_flag : bool;           (* suicided / released *)
  u_called : bool;         (* Suicide was called *)
  u_ph : sphase;
  u_files : fs;
  u_bad_open : bool;       (* a reader opened files of a fraction whose deletion had begun on disk *)
  u_bad_op : bool }.       (* a rename/removal ran while a reader held a provider *)

Inductive uev :=
| UAcq                     (* RLock of a reader succeeds *)
| UCheck                   (* that reader looks at the flag *)
| URel                     (* a provider is released: RUnlock *)
| UCall                    (* Suicide is called *)
| ULock | USet | UUnlock   (* Lock succeeds / flag := true / Unlock *)
| UOp.                     (* next rename or removal *)

Definition u_init (f : fs) : ust := mku 0 0 false false SIdle f false false.

Definition ustep (prog : list pop) (f0 : fs) (s : ust) (e : uev) : ust :=
  let '(mku pre use flag called ph files bo bp) := s in
  match e with
  | UAcq => match ph with
            | SIdle | SRun _ => mku (S pre) use flag called ph files bo bp
            | _ => s            (* a writer holds the lock *)
            end
  | UCheck => match pre with
              | 0 => s
              | S pre' => if flag then mku pre' use flag called ph files bo bp        (* RUnlock, empty provider *)
                          else mku pre' (S use) flag called ph files (bo || negb (fs_eqb files f0)) bp
              end
  | URel => match use with 0 => s | S u => mku pre u flag called ph files bo bp end
  | UCall => mku pre use flag true ph files bo bp
  | ULock => match ph, called, pre, use with
             | SIdle, true, 0, 0 => mku pre use flag called SLocked files bo bp
             | _, _, _, _ => s
             end
  | USet => match ph with SLocked => mku pre use true called SFlagged files bo bp | _ => s end
  | UUnlock => match ph with SFlagged => mku pre use flag called (SRun prog) files bo bp | _ => s end
  | UOp => match ph with
           | SRun (o :: r) => mku pre use flag called (SRun r) (snd (step_pop o files)) bo (bp || negb (Nat.eqb use 0))
           | _ => s
           end
  end.

Definition urun (prog : list pop) (f0 : fs) (evs : list uev) : ust := fold_left (ustep prog f0) evs (u_init f0).

(* mutant kept for documentation: Suicide that does not take the write lock *)
Definition ustep_nolock (prog : list pop) (f0 : fs) (s : ust) (e : uev) : ust :=
  match e, u_ph s, u_called s with
  | ULock, SIdle, true => mku (u_pre s) (u_use s) (u_flag s) true SLocked (u_files s) (u_bad_open s) (u_bad_op s)
  | _, _, _ => ustep prog f0 s e
  end.

(* ------------------------------------------------------------------ the driver's schedule *)

(* actions of the correspondence run; after each the deleting goroutine runs as far as it can *)
Inductive uact := AAcq | ARel | ASuicide.

Fixpoint usettle (fuel : nat) (prog : list pop) (f0 : fs) (s : ust) : ust :=
  match fuel with
  | 0 => s
  | S f => usettle f prog f0 (ustep prog f0 (ustep prog f0 (ustep prog f0 (ustep prog f0 s ULock) USet) UUnlock) UOp)
  end.

(* observation after an action: did the reader get a real provider (AAcq only), files of the fraction *)
Definition uact_step (prog : list pop) (f0 : fs) (s : ust) (a : uact) : ust * bool :=
  let s1 := match a with
            | AAcq => ustep prog f0 (ustep prog f0 s UAcq) UCheck
            | ARel => ustep prog f0 s URel
            | ASuicide => ustep prog f0 s UCall
            end in
  let got := match a with AAcq => Nat.ltb (u_use s) (u_use s1) | _ => false end in
  (usettle 12 prog f0 s1, got).

Fixpoint uobs (prog : list pop) (f0 : fs) (s : ust) (acts : list uact) : list (bool * fs) :=
  match acts with
  | [] => []
  | a :: r => let '(s', got) := uact_step prog f0 s a in (got, u_files s') :: uobs prog f0 s' r
  end.
