(* C15 — the reachable states of the one-fraction life cycle, computed (no proofs here; Proofs.v
   shows that the computed lists are closed under [next] and so contain every reachable state). *)
From Coq Require Import List Bool Arith NArith.
Import ListNotations.
From C15 Require Import Model.

Definition kind_eqb' (a b : kind) : bool :=
  match a, b with
  | KDocs, KDocs | KDocsDel, KDocsDel | KSdocs, KSdocs | KSdocsTmp, KSdocsTmp | KSdocsDel, KSdocsDel
  | KIndex, KIndex | KIndexTmp, KIndexTmp | KIndexDel, KIndexDel | KMeta, KMeta => true
  | _, _ => false
  end.

Definition pop_eqb (a b : pop) : bool :=
  match a, b with
  | POpen k, POpen k' | PCreate k, PCreate k' | PRemove k, PRemove k' => kind_eqb' k k'
  | PRename x y, PRename x' y' => kind_eqb' x x' && kind_eqb' y y'
  | _, _ => false
  end.

Fixpoint pops_eqb (a b : list pop) : bool :=
  match a, b with
  | [], [] => true
  | x :: a', y :: b' => pop_eqb x y && pops_eqb a' b'
  | _, _ => false
  end.

Definition mode_eqb (a b : mode) : bool :=
  match a, b with MNew, MNew | MActive, MActive | MSealed, MSealed | MGone, MGone => true | _, _ => false end.

Definition proc_eqb (a b : proc) : bool :=
  match a, b with
  | PDown, PDown | PFatal, PFatal => true
  | PIdle m, PIdle m' => mode_eqb m m'
  | PRun p m, PRun p' m' => pops_eqb p p' && mode_eqb m m'
  | PSeal p e, PSeal p' e' => pops_eqb p p' && Bool.eqb e e'
  | PPar p q m, PPar p' q' m' => pops_eqb p p' && pops_eqb q q' && mode_eqb m m'
  | _, _ => false
  end.

Definition st_eqb (a b : st) : bool :=
  fs_eqb (files a) (files b) && Bool.eqb (hasdata a) (hasdata b) && Bool.eqb (doomed a) (doomed b)
  && proc_eqb (pr a) (pr b).

Definition mem (s : st) (l : list st) : bool := existsb (st_eqb s) l.

(* work-list closure; None = out of fuel *)
Fixpoint closure (fuel : nat) (nx : st -> list st) (todo seen : list st) : option (list st) :=
  match fuel with
  | 0 => None
  | S f =>
      match todo with
      | [] => Some seen
      | s :: t => if mem s seen then closure f nx t seen else closure f nx (nx s ++ t) (s :: seen)
      end
  end.

Definition reach_fuel := 20 * 1000.
Definition reach_of (pg : progs) (sorted : bool) : list st :=
  match closure reach_fuel (next pg sorted) [init_st] [] with Some l => l | None => [] end.

Definition reach_sorted : list st := Eval vm_compute in reach_of cur_progs true.
Definition reach_unsorted : list st := Eval vm_compute in reach_of cur_progs false.
Definition reach_set (sorted : bool) : list st := if sorted then reach_sorted else reach_unsorted.

(* closedness check used by the proofs *)
Definition closed_under (nx : st -> list st) (l : list st) : bool :=
  forallb (fun s => forallb (fun t => mem t l) (nx s)) l.

(* file sets a crash can leave for a fraction (with the given replay outcome) *)
Definition reachable_files (sorted hasdata : bool) (s : fs) : bool :=
  existsb (fun t => fs_eqb (files t) s && Bool.eqb (Model.hasdata t) hasdata) (reach_set sorted).

Definition st_safe (strict sorted : bool) (s : st) : bool :=
  match pr s with PFatal => false | _ => safe strict sorted (hasdata s) (doomed s) (files s) end.

(* safe as a crash state, and consistent with what the process believes: a fraction the process
   serves has the files it is served from; one it dropped is not served by a later start and has
   left no document-bearing file *)
Definition st_good (strict sorted : bool) (s : st) : bool :=
  st_safe strict sorted s &&
  match pr s with
  | PIdle MGone => negb (served_class (files s) (hasdata s)) && residue_ok strict (files s)
  | PIdle MSealed =>
      match classify (files s) with CSealedSD | CSealedD => served_ok sorted (files s) | _ => false end
  | PIdle MActive => match classify (files s) with CActive => f_docs (files s) | _ => false end
  | _ => true
  end.

(* every state the life cycle of one fraction can be in, for any history and any crash points *)
Inductive reachable (pg : progs) (sorted : bool) : st -> Prop :=
| r_init : reachable pg sorted init_st
| r_step : forall s t, reachable pg sorted s -> In t (next pg sorted s) -> reachable pg sorted t.

(* a fraction of a directory left by a crash *)
Definition crash_state (pg : progs) (sorted : bool) (f : fracst) : Prop :=
  exists s, reachable pg sorted s /\ files s = fs_of (st_files f) /\ hasdata s = st_hasdata f.
