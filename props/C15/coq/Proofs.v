(* C15 — proofs. *)
From Coq Require Import List Bool Arith NArith Lia.
Import ListNotations.
From C15 Require Import Model Reach.

(* ------------------------------------------------------------------ equality tests are sound *)

Lemma kind_eqb'_true a b : kind_eqb' a b = true -> a = b.
Proof. destruct a, b; simpl; congruence. Qed.

Lemma pop_eqb_true a b : pop_eqb a b = true -> a = b.
Proof.
  destruct a, b; simpl; try congruence; intro H;
    try (apply kind_eqb'_true in H; congruence).
  apply andb_true_iff in H as [H1 H2]. apply kind_eqb'_true in H1, H2. congruence.
Qed.

Lemma pops_eqb_true a : forall b, pops_eqb a b = true -> a = b.
Proof.
  induction a as [|x a IH]; destruct b; simpl; try congruence.
  intro H. apply andb_true_iff in H as [H1 H2]. apply pop_eqb_true in H1. apply IH in H2. congruence.
Qed.

Lemma mode_eqb_true a b : mode_eqb a b = true -> a = b.
Proof. destruct a, b; simpl; congruence. Qed.

Lemma proc_eqb_true a b : proc_eqb a b = true -> a = b.
Proof.
  destruct a, b; simpl; try congruence; intro H.
  - apply mode_eqb_true in H. congruence.
  - apply andb_true_iff in H as [H1 H2]. apply pops_eqb_true in H1. apply mode_eqb_true in H2. congruence.
  - apply andb_true_iff in H as [H1 H2]. apply pops_eqb_true in H1. apply eqb_prop in H2. congruence.
  - apply andb_true_iff in H as [H H3]. apply andb_true_iff in H as [H1 H2].
    apply pops_eqb_true in H1, H2. apply mode_eqb_true in H3. congruence.
Qed.

Lemma fs_eqb_true a b : fs_eqb a b = true -> a = b.
Proof.
  destruct a, b; unfold fs_eqb; simpl; intro H.
  repeat (apply andb_true_iff in H as [H ?]).
  repeat match goal with E : Bool.eqb _ _ = true |- _ => apply eqb_prop in E end.
  congruence.
Qed.

Lemma st_eqb_true a b : st_eqb a b = true -> a = b.
Proof.
  destruct a as [fa ha da pa], b as [fb hb db pb]; unfold st_eqb; cbn [files hasdata doomed pr]; intro H.
  apply andb_true_iff in H as [H H4]. apply andb_true_iff in H as [H H3]. apply andb_true_iff in H as [H1 H2].
  apply fs_eqb_true in H1. apply eqb_prop in H2, H3. apply proc_eqb_true in H4. congruence.
Qed.

Lemma mem_In s l : mem s l = true -> In s l.
Proof.
  unfold mem. intro H. apply existsb_exists in H as [t [Hin He]].
  apply st_eqb_true in He. subst. exact Hin.
Qed.

(* ------------------------------------------------------------------ reachability by a closed set *)

Lemma closed_contains pg sorted l :
  closed_under (next pg sorted) l = true -> mem init_st l = true ->
  forall s, reachable pg sorted s -> In s l.
Proof.
  intros Hc Hi s Hr. induction Hr as [|s t Hr IH Hin].
  - apply mem_In. exact Hi.
  - unfold closed_under in Hc. rewrite forallb_forall in Hc.
    specialize (Hc s IH). rewrite forallb_forall in Hc. apply mem_In. apply Hc. exact Hin.
Qed.

Lemma all_reachable pg sorted l (P : st -> bool) :
  closed_under (next pg sorted) l = true -> mem init_st l = true -> forallb P l = true ->
  forall s, reachable pg sorted s -> P s = true.
Proof.
  intros Hc Hi Hp s Hr. rewrite forallb_forall in Hp. apply Hp.
  eapply closed_contains; eauto.
Qed.

(* the closure only collects reachable states *)
Lemma closure_sound pg sorted : forall fuel todo seen l,
  closure fuel (next pg sorted) todo seen = Some l ->
  (forall s, In s todo -> reachable pg sorted s) -> (forall s, In s seen -> reachable pg sorted s) ->
  forall s, In s l -> reachable pg sorted s.
Proof.
  induction fuel as [|f IH]; simpl; intros todo seen l H Ht Hs; [discriminate|].
  destruct todo as [|x t].
  - inversion H; subst. exact Hs.
  - destruct (mem x seen).
    + eapply IH; eauto. intros s Hin. apply Ht. right. exact Hin.
    + eapply IH; eauto.
      * intros s Hin. apply in_app_or in Hin as [Hin|Hin].
        -- eapply r_step; [apply Ht; left; reflexivity | exact Hin].
        -- apply Ht. right. exact Hin.
      * intros s [Hin|Hin]; [subst; apply Ht; left; reflexivity | apply Hs; exact Hin].
Qed.

Lemma reach_of_sound pg sorted s : In s (reach_of pg sorted) -> reachable pg sorted s.
Proof.
  unfold reach_of. destruct (closure reach_fuel (next pg sorted) [init_st] []) as [l|] eqn:E; [|intros []].
  eapply closure_sound; eauto.
  - intros x [Hx|[]]. subst. constructor.
  - intros x [].
Qed.

Lemma exists_reachable pg sorted (P : st -> bool) :
  existsb P (reach_of pg sorted) = true -> exists s, reachable pg sorted s /\ P s = true.
Proof.
  intro H. apply existsb_exists in H as [s [Hin Hp]]. exists s. split; [apply reach_of_sound|]; assumption.
Qed.

(* ------------------------------------------------------------------ the current code *)

Lemma closed_sorted : closed_under (next cur_progs true) reach_sorted = true.
Proof. vm_compute. reflexivity. Qed.
Lemma closed_unsorted : closed_under (next cur_progs false) reach_unsorted = true.
Proof. vm_compute. reflexivity. Qed.
Lemma init_sorted : mem init_st reach_sorted = true.
Proof. vm_compute. reflexivity. Qed.
Lemma init_unsorted : mem init_st reach_unsorted = true.
Proof. vm_compute. reflexivity. Qed.

Lemma good_sorted : forall s, reachable cur_progs true s -> st_good true true s = true.
Proof. apply (all_reachable cur_progs true reach_sorted); [exact closed_sorted|exact init_sorted|vm_compute; reflexivity]. Qed.

Lemma good_unsorted : forall s, reachable cur_progs false s -> st_good true false s = true.
Proof. apply (all_reachable cur_progs false reach_unsorted); [exact closed_unsorted|exact init_unsorted|vm_compute; reflexivity]. Qed.

Lemma good_all : forall sorted s, reachable cur_progs sorted s -> st_good true sorted s = true.
Proof. intros [] s H; [apply good_sorted|apply good_unsorted]; exact H. Qed.

Lemma never_fatal : forall sorted s, reachable cur_progs sorted s -> pr s <> PFatal.
Proof.
  intros sorted s H. apply good_all in H. unfold st_good, st_safe in H.
  intro E. rewrite E in H. discriminate.
Qed.

Lemma v2_lone_index : exists s, reachable v2_progs false s /\ negb (st_good true false s) = true.
Proof. apply exists_reachable. vm_compute. reflexivity. Qed.

(* the orders before the repairs, and deletion without the .del phase *)
Lemma v0_fatal : exists s, reachable v0_progs true s /\ (match pr s with PFatal => true | _ => false end) = true.
Proof. apply exists_reachable. vm_compute. reflexivity. Qed.
Lemma v1_fatal : exists s, reachable v1_progs true s /\ (match pr s with PFatal => true | _ => false end) = true.
Proof. apply exists_reachable. vm_compute. reflexivity. Qed.
(* proxyFrac.Suicide going on with the stale Active after the wait: the sealed files survive *)
Lemma stale_bad : exists s, reachable stale_progs true s /\ negb (st_good true true s) = true.
Proof. apply exists_reachable. vm_compute. reflexivity. Qed.
Lemma nodel_bad : exists s, reachable nodel_progs true s /\ negb (st_good true true s) = true.
Proof. apply exists_reachable. vm_compute. reflexivity. Qed.

(* ------------------------------------------------------------------ whole directory *)

Lemma crash_state_not_fatal sorted f : crash_state cur_progs sorted f -> is_fatal f = false.
Proof.
  intros [s [Hr [Hf Hh]]]. apply good_all in Hr. unfold st_good, st_safe in Hr.
  apply andb_true_iff in Hr as [Hr _]. unfold is_fatal. rewrite <- Hf.
  destruct (pr s); try discriminate; unfold safe in Hr; destruct (classify (files s)); try reflexivity; discriminate.
Qed.

Lemma load_dir_total sorted d : Forall (crash_state cur_progs sorted) d -> load_dir sorted d <> None.
Proof.
  intro H. unfold load_dir.
  assert (E : existsb is_fatal d = false).
  { induction H as [|f d Hf _ IH]; simpl; [reflexivity|]. rewrite (crash_state_not_fatal _ _ Hf). exact IH. }
  rewrite E. discriminate.
Qed.

(* ------------------------------------------------------------------ retention *)

Lemma sumN_cons s r : sumN (s :: r) = (s + sumN r)%N.
Proof. reflexivity. Qed.

Lemma shrink_from_spec limit : forall sizes,
  let k := shrink_from limit sizes (sumN sizes) in
  k <= length sizes
  /\ ((sumN (skipn k sizes) <= limit)%N \/ k = length sizes)
  /\ (k = 0 \/ (limit < sumN (skipn (k - 1) sizes))%N).
Proof.
  induction sizes as [|s r IH].
  - simpl. split; [lia|]. split; [left; lia | left; reflexivity].
  - cbn [shrink_from sumN length].
    destruct (N.ltb_spec limit (s + sumN r)) as [Hlt|Hge].
    + replace (s + sumN r - s)%N with (sumN r) by lia.
      cbv zeta in IH. destruct IH as [H1 [H2 H3]].
      remember (shrink_from limit r (sumN r)) as k.
      split; [lia|]. split.
      * cbn [skipn]. destruct H2 as [H2|H2]; [left; exact H2|right; lia].
      * right. destruct k as [|k']; cbn [Nat.sub skipn sumN].
        -- exact Hlt.
        -- destruct H3 as [H3|H3]; [discriminate|]. cbn [Nat.sub] in H3. rewrite Nat.sub_0_r in *. exact H3.
    + split; [lia|]. split; [left; cbn [skipn sumN]; lia | left; reflexivity].
Qed.

Lemma shrink_spec limit sizes :
  let k := shrink limit sizes in
  k <= length sizes
  /\ ((sumN (skipn k sizes) <= limit)%N \/ k = length sizes)
  /\ (k = 0 \/ (limit < sumN (skipn (k - 1) sizes))%N).
Proof. apply shrink_from_spec. Qed.

Lemma set_size_fst l i sz : map fst (set_size l i sz) = map fst l.
Proof.
  induction l as [|[j s] r IH]; simpl; [reflexivity|].
  destruct (Nat.eqb i j); simpl; [reflexivity|]. rewrite IH. reflexivity.
Qed.

Definition fm_inv (m : fm) : Prop := fm_removed m ++ map fst (fm_live m) = seq 0 (fm_next m).

Lemma fm_step_inv m o : fm_inv m -> fm_inv (fm_step m o).
Proof.
  unfold fm_inv. intro H. destruct o; cbn [fm_step fm_next fm_live fm_removed].
  - rewrite map_app. cbn [map fst]. rewrite app_assoc, H, seq_S. reflexivity.
  - rewrite <- app_assoc, <- map_app, firstn_skipn. exact H.
  - rewrite set_size_fst. exact H.
Qed.

Lemma fm_run_inv_gen ops : forall m, fm_inv m -> fm_inv (fold_left fm_step ops m).
Proof. induction ops as [|o r IH]; simpl; intros m H; [exact H|]. apply IH. apply fm_step_inv. exact H. Qed.

Lemma fm_run_inv ops : fm_inv (fm_run ops).
Proof. apply fm_run_inv_gen. reflexivity. Qed.

Definition ordered (l : list (nat * bool)) : Prop :=
  exists a b, l = a ++ b /\ forallb (fun f => snd f) a = true /\ forallb (fun f => negb (snd f)) b = true.

Lemma filter_all {A} (p : A -> bool) l : forallb p l = true -> filter p l = l.
Proof.
  induction l as [|x r IH]; simpl; [reflexivity|]. intro H. apply andb_true_iff in H as [H1 H2].
  rewrite H1, (IH H2). reflexivity.
Qed.
Lemma filter_none {A} (p : A -> bool) l : forallb (fun x => negb (p x)) l = true -> filter p l = [].
Proof.
  induction l as [|x r IH]; simpl; [reflexivity|]. intro H. apply andb_true_iff in H as [H1 H2].
  apply negb_true_iff in H1. rewrite H1. exact (IH H2).
Qed.

Lemma load_order_id l : ordered l -> load_order l = l.
Proof.
  intros [a [b [E [Ha Hb]]]]. subst. unfold load_order. rewrite !filter_app.
  rewrite (filter_all (fun f : nat * bool => snd f) a Ha), (filter_none (fun f : nat * bool => snd f) b Hb).
  rewrite (filter_all (fun f : nat * bool => negb (snd f)) b Hb).
  rewrite (filter_none (fun f => negb (snd f)) a).
  - rewrite app_nil_r. reflexivity.
  - rewrite forallb_forall in *. intros x Hx. rewrite negb_involutive. apply Ha. exact Hx.
Qed.

(* ------------------------------------------------------------------ .frac-cache *)

Definition honest (hdr : nat -> info) (c : cmap) : Prop := forall n i, cget c n = Some i -> i = hdr n.
Definition benign (hdr : nat -> info) (c : cmap) : Prop := forall n i, cget c n = Some i -> entry_benign hdr n i.
Definition benign_file (hdr : nat -> info) (f : option cmap) : Prop :=
  match f with Some c => benign hdr c | None => True end.

Lemma new_sealed_benign (hdr : nat -> info) n e :
  (forall i, e = Some i -> entry_benign hdr n i) -> new_sealed e (hdr n) = hdr n.
Proof.
  intro H. unfold new_sealed. destruct e as [i|]; [|reflexivity].
  destruct (H i eq_refl) as [E|E].
  - subst. destruct (0 <? i_idxod (hdr n))%N; reflexivity.
  - rewrite E. reflexivity.
Qed.

Lemma honest_benign hdr c : honest hdr c -> benign hdr c.
Proof. intros H n i Hi. left. apply (H n i Hi). Qed.

Lemma cget_cdel c n m : cget (cdel c n) m = if Nat.eqb n m then None else cget c m.
Proof.
  induction c as [|[k i] r IH]; simpl.
  - destruct (Nat.eqb n m); reflexivity.
  - destruct (Nat.eqb n k) eqn:E1; simpl.
    + rewrite IH. apply Nat.eqb_eq in E1. subst k.
      destruct (Nat.eqb n m) eqn:E2; [reflexivity|].
      rewrite Nat.eqb_sym in E2. rewrite E2. reflexivity.
    + rewrite IH. destruct (Nat.eqb m k) eqn:E3; [|reflexivity].
      apply Nat.eqb_eq in E3. subst k. rewrite E1. reflexivity.
Qed.

Lemma honest_cdel hdr c n : honest hdr c -> honest hdr (cdel c n).
Proof.
  intros H m i. rewrite cget_cdel. destruct (Nat.eqb n m); [discriminate|]. apply H.
Qed.

Lemma honest_nil hdr : honest hdr [].
Proof. intros n i H. discriminate. Qed.

(* memory entries are always the header values; the file holds header values or recognisably damaged entries *)
Definition c_inv hdr (s : cst) : Prop := honest hdr (c_mem s) /\ benign_file hdr (c_file s).

Lemma c_step_inv hdr s o : cop_benign hdr o -> c_inv hdr s -> c_inv hdr (c_step hdr s o).
Proof.
  intros Hb [Hm Hf]. destruct o; unfold c_inv; cbn [c_step c_mem c_file].
  - split; [|exact Hf]. intros m i. cbn [cget]. destruct (Nat.eqb m n) eqn:E.
    + apply Nat.eqb_eq in E. subst m. intro H. inversion H; subst. apply new_sealed_benign.
      destruct (c_file s) as [f|]; [|discriminate]. intros j Hj. apply (Hf n j Hj).
    + apply (honest_cdel hdr _ n Hm).
  - split; [apply honest_cdel; exact Hm|exact Hf].
  - split; [exact Hm|apply honest_benign; exact Hm].
  - split; [apply honest_nil|exact I].
  - split; [exact Hm|exact Hb].
  - split; [apply honest_nil|exact Hf].
Qed.

Lemma c_run_inv hdr ops : Forall (cop_benign hdr) ops -> c_inv hdr (c_run hdr ops).
Proof.
  unfold c_run. intro HF.
  assert (G : forall s, c_inv hdr s -> c_inv hdr (fold_left (c_step hdr) ops s)).
  { induction HF as [|o r Ho _ IH]; simpl; intros s H; [exact H|]. apply IH. apply c_step_inv; assumption. }
  apply G. split; [apply honest_nil|exact I].
Qed.

Lemma cache_transparent hdr ops n : Forall (cop_benign hdr) ops ->
  new_sealed (match c_file (c_run hdr ops) with Some f => cget f n | None => None end) (hdr n) = hdr n.
Proof.
  intro HF. apply new_sealed_benign. destruct (c_run_inv hdr ops HF) as [_ Hf].
  destruct (c_file (c_run hdr ops)) as [f|]; [|discriminate]. intros i Hi. apply (Hf n i Hi).
Qed.

(* the guard of the fast path is what makes a damaged entry harmless: without it the entry is used *)
Definition new_sealed_noguard (cached : option info) (hdr : info) : info :=
  match cached with Some i => i | None => hdr end.
Lemma noguard_refuted :
  exists e hdr, (forall i, e = Some i -> i_idxod i = 0%N) /\ new_sealed_noguard e hdr <> hdr /\ new_sealed e hdr = hdr.
Proof.
  exists (Some (mkinfo 0 0 0 0 0 0)), (mkinfo 3 10 30 80 1200 0). repeat split.
  - intros i H. inversion H. reflexivity.
  - discriminate.
Qed.
