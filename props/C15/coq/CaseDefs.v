(* C15 — shape of the generated cases and the two executable verdicts. No proofs. *)
From VLib Require Import CaseLib.
From C15 Require Import Model Reach ModelPar ModelPL ModelUse ModelProxy.

Definition kind_eqb (a b : kind) : bool :=
  match a, b with
  | KDocs, KDocs | KDocsDel, KDocsDel | KSdocs, KSdocs | KSdocsTmp, KSdocsTmp | KSdocsDel, KSdocsDel
  | KIndex, KIndex | KIndexTmp, KIndexTmp | KIndexDel, KIndexDel | KMeta, KMeta => true
  | _, _ => false
  end.

Definition xop_eqb (a b : xop) : bool :=
  match a, b with
  | XCreate k, XCreate k' => kind_eqb k k'
  | XRename x y, XRename x' y' => kind_eqb x x' && kind_eqb y y'
  | XRemove k, XRemove k' => kind_eqb k k'
  | _, _ => false
  end.

Definition lkind_eqb (a b : lkind) : bool :=
  match a, b with LNone, LNone | LSealed, LSealed | LActive, LActive => true | _, _ => false end.

(* one life-cycle step of one fraction, as the driver labels the window of the trace *)
Inductive event :=
| EvCreate                              (* rotate: NewActive on a fresh name *)
| EvSeal                                (* Seal + Release *)
| EvActiveSuicide                       (* retention on a fraction that is still active *)
| EvSealedSuicide                       (* retention on a sealed fraction *)
| EvLoad (nonlast : bool)               (* what a starting process does to the fraction *)
| EvSealEvict.                          (* retention pushes the fraction out while it is being sealed (or released):
                                           Seal, then Release and Sealed.Suicide in some interleaving *)

Definition prog_of (sorted hasdata : bool) (ev : event) (s : fs) : option (list pop) :=
  match ev with
  | EvCreate => Some new_active_prog
  | EvSeal => Some (seal_prog sorted ++ release_prog sorted)
  | EvActiveSuicide => Some active_suicide_prog
  | EvSealedSuicide => Some sealed_suicide_prog
  | EvLoad nonlast => option_map fst (load_prog sorted hasdata nonlast s)
  | EvSealEvict => None   (* not one program: see ops_agree *)
  end.

(* obs is the visible part of some interleaving of the programs p and q started in s *)
Fixpoint interleaves (fuel : nat) (p q : list pop) (s : fs) (obs : list xop) : bool :=
  match fuel with
  | 0 => false
  | S f =>
      let try_ (o : pop) (p' q' : list pop) :=
        let '(x, s') := step_pop o s in
        match x with
        | None => interleaves f p' q' s' obs
        | Some x => match obs with
                    | y :: obs' => xop_eqb x y && interleaves f p' q' s' obs'
                    | [] => false
                    end
        end in
      match p, q with
      | [], [] => match obs with [] => true | _ => false end
      | o :: p', [] => try_ o p' []
      | [], o :: q' => try_ o [] q'
      | o1 :: p', o2 :: q' => try_ o1 p' q || try_ o2 p q'
      end
  end.

Fixpoint strip_prefix (xs obs : list xop) : option (list xop) :=
  match xs, obs with
  | [], _ => Some obs
  | x :: xs', y :: obs' => if xop_eqb x y then strip_prefix xs' obs' else None
  | _ :: _, [] => None
  end.

Definition is_suicide (ev : event) : bool :=
  match ev with EvActiveSuicide | EvSealedSuicide | EvSealEvict => true | _ => false end.

(* every crash point of an observed operation sequence is a safe state *)
Fixpoint prefixes_safe (sorted hasdata doomed : bool) (s : fs) (ops : list xop) : bool :=
  safe true sorted hasdata doomed s &&
  match ops with
  | [] => true
  | o :: r => let s' := apply_x o s in prefixes_safe sorted hasdata (doomed || any_del s') s' r
  end.

Definition final_fs (s : fs) (ops : list xop) : fs := fold_left (fun s o => apply_x o s) ops s.

(* observation of one fraction after a restart *)
Record fracobs := mkobs { o_listed : lkind; o_expected : N; o_ok : N; o_wrong : N; o_after : list kind }.

Record cinfo := mkcinfo { ci_entry : option info; ci_hdr : info; ci_impl : info }.

(* a step of the driver = the model events the real goroutines perform until everything is parked or blocked again.
   All pass goroutines together delete in FIFO order (a pass goroutine handles its outsiders one after another and waits
   for the previous pass): ss_q = outsiders whose Suicide() has not gone on yet. *)
Inductive sstep :=
| SRotate                  (* fm.rotate() *)
| SSealEnter (i : nat)     (* `go fm.seal(ref_i)` up to the schedule point seal.readonly (or its return / the death of the process) *)
| SSealSwap (i : nat)      (* ... up to seal.swapped; a Suicide waiting for the seal goes on *)
| SSealInstall (i : nat)   (* ... until fm.seal returns *)
| SPass (k : nat)          (* a retention pass that pushes out k fractions *)
| SStop.                   (* FracManager.Stop() with seal-on-exit of the current fraction *)

Record pobs := mkpobs { po_alive : bool; po_fr : list (bool * px) }.
Record pfin := mkpfin { pn_pushed : bool; pn_expected : N; pn_ok : N; pn_wrong : N; pn_files : list kind; pn_listed : lkind }.

Inductive case :=
(* window of the trace: operations on one fraction during one life-cycle step *)
| COps (ev : event) (sorted hasdata doomed : bool) (before : list kind) (impl : list xop)
(* a crash state of a history, restarted: None = the process died *)
| CLoad (sorted : bool) (dir : list fracst) (impl : option (list fracobs))
(* one fraction with an arbitrary file set built from real files *)
| CSweep (sorted hasdata : bool) (files : list kind) (impl : option fracobs)
(* one retention pass: sizes in list order, removed = positions (in that list) of the fractions gone *)
| CShrink (limit : N) (sizes : list N) (removed : list nat)
(* restart with a variant of .frac-cache: per sealed fraction the parsed entry, the header-derived
   info (restart without cache) and the info reported (all zero when the fraction is no longer
   listed); documents served by fetch AND search without the file / with it / wrongly or half
   served with it. strict = every variant except entries with a POSITIVE index size and wrong
   other numbers (those the fast path takes at face value): absent, current, stale, truncated,
   garbage, entries stripped to the name / emptied / partially filled / with zero or missing index
   size *)
| CCache (strict : bool) (l : list cinfo) (expected ok wrong : N)
(* one retention pass over several outsiders: fractions in creation order (files before the pass), their
   listed kind (LNone = not in the manager's list), number of fractions pushed out, the interleaved log
   of visible operations (position of the fraction, operation) of the whole pass *)
| CParLog (sorted : bool) (dir : list fracst) (kinds : list lkind) (k : nat) (log : list (nat * xop))
(* a crash after the first `crash` operations of such a log (the observed interleaving or a re-ordering of
   operations of different fractions): file sets of the rebuilt directory, restart observed (None = died) *)
| CPar (sorted : bool) (dir : list fracst) (kinds : list lkind) (k : nat) (log : list (nat * xop)) (crash : nat)
       (state : list (list kind)) (impl : option (list fracobs))
(* regression class of fix 14be38b: as CPar, but the restarted process also runs the next retention pass with
   the given limit; sizes = what it reported per fraction before that pass (0 = not listed), served = which
   fractions it lists afterwards *)
| CGap (sorted : bool) (dir : list fracst) (kinds : list lkind) (k : nat) (log : list (nat * xop)) (crash : nat)
       (state : list (list kind)) (sizes : list N) (limit : N) (served : list bool)
(* regression class of fix bd65f76: [sealed; sealed; active], a reader holds the oldest fraction, a pass pushes it
   out (its goroutine waits for the reader), the next pass pushes out the second fraction, the process is
   killed, restart: which of the three fractions are listed *)
| COverlap (sorted : bool) (served : list bool)
(* power loss around a save of .frac-cache: the file holds `keep` of `full` bytes; parsed = encoding/json
   accepted the cut content; rest as CCache (strict) *)
| CCachePL (full keep : N) (parsed : bool) (l : list cinfo) (expected ok wrong : N)
(* the operations one SaveCacheToDisk issued on .frac-cache* and the directory *)
| CSaveOps (ops : list sop)
(* readers against the deletion of the oldest fraction: actions of the driver, per action whether the
   reader got a real provider and the files of the fraction afterwards *)
| CUse (active : bool) (files0 : list kind) (acts : list uact) (obs : list (bool * list kind))
(* rotation, seal goroutines, retention passes and Stop's seal-on-exit on the real FracManager, one scripted step after
   another (script_step below): nsealed = sealed fractions loaded at start (then one active fraction); obs = after
   every step whether the process is alive and per fraction (listed, fields of its proxy); fin = per fraction after the
   script and a restart (empty when the process died) *)
| CProxy (nsealed : nat) (script : list sstep) (obs : list pobs) (fin : list pfin).

Definition broken (sorted : bool) (f : fracst) : bool :=
  negb (served_ok sorted (fs_of (st_files f))) && st_hasdata f.

Fixpoint frs_agree (sorted : bool) (d : list fracst) (m : list (lkind * fs)) (o : list fracobs) : bool :=
  match d, m, o with
  | [], [], [] => true
  | f :: d', (l, s) :: m', ob :: o' =>
      (broken sorted f || (lkind_eqb l (o_listed ob) && fs_eqb s (fs_of (o_after ob))))
      && frs_agree sorted d' m' o'
  | _, _, _ => false
  end.

Definition obs_ok (strict : bool) (doomed : bool) (ob : fracobs) : bool :=
  match o_listed ob with
  | LNone => N.eqb (o_ok ob) 0 && N.eqb (o_wrong ob) 0 && residue_ok strict (fs_of (o_after ob))
  | _ => N.eqb (o_ok ob) (o_expected ob) && N.eqb (o_wrong ob) 0 && negb doomed
  end.

Fixpoint frs_ok (d : list fracst) (o : list fracobs) : bool :=
  match d, o with
  | [], [] => true
  | f :: d', ob :: o' => obs_ok true (st_doomed f) ob && frs_ok d' o'
  | _, _ => false
  end.


(* ---------------------------------------------------------------- parallel retention *)

Definition is_del_kind (k : kind) : bool :=
  match k with KDocsDel | KSdocsDel | KIndexDel => true | _ => false end.

Definition del_seen (i : nat) (l : plog) : bool :=
  existsb (fun e => Nat.eqb (fst e) i && match snd e with XRename _ b => is_del_kind b | _ => false end) l.

Definition lkind_none (l : lkind) : bool := match l with LNone => true | _ => false end.

(* per fraction: the model's program of the pass gives exactly the logged operations *)
Fixpoint parlog_agree (i : nat) (dir : list fracst) (kinds : list lkind) (outs : list bool) (log : plog) : bool :=
  match dir, kinds, outs with
  | [], [], [] => true
  | f :: dr, l :: kr, o :: orr =>
      list_eqb xop_eqb (fst (exec (if o then pass_prog l else []) (fs_of (st_files f)))) (proj_log i log)
      && parlog_agree (S i) dr kr orr log
  | _, _, _ => false
  end.

(* every fraction the pass touched is one of the k oldest listed ones and is gone completely at the end *)
Fixpoint parlog_ok (i : nat) (dir : list fracst) (outs : list bool) (log : plog) : bool :=
  match dir, outs with
  | [], [] => true
  | f :: dr, o :: orr =>
      let ops := proj_log i log in
      (match ops with [] => true | _ => o end)
      && (negb o || (negb (served_class (final_fs (fs_of (st_files f)) ops) (st_hasdata f))
                     && residue_ok true (final_fs (fs_of (st_files f)) ops)))
      && parlog_ok (S i) dr orr log
  | _, _ => false
  end.

(* the pass deletes its outsiders one after another, oldest first: no operation of an older fraction after
   one of a newer fraction *)
Fixpoint log_sequential (cur : nat) (l : plog) : bool :=
  match l with
  | [] => true
  | (j, _) :: r => (cur <=? j) && log_sequential j r
  end.

(* served flags of the fractions that had documents, were listed and not doomed before the pass *)
Fixpoint served_flags (dir : list fracst) (kinds : list lkind) (o : list fracobs) : list bool :=
  match dir, kinds, o with
  | f :: dr, l :: kr, ob :: orr =>
      if st_hasdata f && negb (lkind_none l) && negb (st_doomed f)
      then negb (lkind_none (o_listed ob)) :: served_flags dr kr orr
      else served_flags dr kr orr
  | _, _, _ => []
  end.

Fixpoint pick_sizes (flags : list bool) (sizes : list N) : list N :=
  match flags, sizes with
  | b :: br, z :: zr => if b then z :: pick_sizes br zr else pick_sizes br zr
  | _, _ => []
  end.

Fixpoint states_eqb (a : list fs) (b : list (list kind)) : bool :=
  match a, b with
  | [], [] => true
  | x :: a', y :: b' => fs_eqb x (fs_of y) && states_eqb a' b'
  | _, _ => false
  end.

Fixpoint restate (i : nat) (dir : list fracst) (state : list (list kind)) (pre : plog) : list fracst :=
  match dir, state with
  | f :: dr, s :: sr => mkst s (st_hasdata f) (st_doomed f || del_seen i pre) :: restate (S i) dr sr pre
  | _, _ => []
  end.

(* a fraction with documents that the manager listed and whose deletion has not reached the disk is served *)
Fixpoint untouched_served (i : nat) (dir : list fracst) (kinds : list lkind) (pre : plog) (o : list fracobs) : bool :=
  match dir, kinds, o with
  | [], [], [] => true
  | f :: dr, l :: kr, ob :: orr =>
      (negb (st_hasdata f) || lkind_none l || st_doomed f || match proj_log i pre with [] => false | _ => true end
       || negb (lkind_none (o_listed ob)))
      && untouched_served (S i) dr kr pre orr
  | _, _, _ => false
  end.

(* ---------------------------------------------------------------- cache save *)

Definition sop_eqb (a b : sop) : bool :=
  match a, b with
  | SCreateTmp, SCreateTmp | SWriteTmp, SWriteTmp | SRenameTmp, SRenameTmp | SFsyncFile, SFsyncFile | SFsyncDir, SFsyncDir => true
  | _, _ => false
  end.
Definition is_fsync (o : sop) : bool := match o with SFsyncFile | SFsyncDir => true | _ => false end.

Fixpoint write_before_rename (ops : list sop) (w : bool) : bool :=
  match ops with
  | [] => w
  | SWriteTmp :: r => write_before_rename r true
  | SRenameTmp :: r => w && write_before_rename r w
  | _ :: r => write_before_rename r w
  end.

(* ---------------------------------------------------------------- readers against deletion *)

Fixpoint uobs_eqb (a : list (bool * fs)) (b : list (bool * list kind)) : bool :=
  match a, b with
  | [], [] => true
  | (g, f) :: a', (g', f') :: b' => Bool.eqb g g' && fs_eqb f (fs_of f') && uobs_eqb a' b'
  | _, _ => false
  end.

(* c = providers handed out and not yet released; called = the deletion was requested *)
Fixpoint use_ok (f0 : fs) (prev : fs) (c : nat) (called : bool) (acts : list uact) (obs : list (bool * list kind)) : bool :=
  match acts, obs with
  | [], [] => true
  | a :: ar, (got, fl) :: orr =>
      let f := fs_of fl in
      let c' := match a with AAcq => if got then S c else c | ARel => pred c | ASuicide => c end in
      let called' := called || match a with ASuicide => true | _ => false end in
      (negb got || fs_eqb prev f0)                       (* a reader opens only files of an untouched fraction *)
      && (Nat.eqb c' 0 || fs_eqb f f0)                   (* nothing is renamed or removed while a provider is out *)
      && (negb (called' && Nat.eqb c' 0) || fs_eqb f empty_fs)   (* and then everything goes *)
      && (called' || fs_eqb f f0)
      && use_ok f0 f c' called' ar orr
  | _, _ => false
  end.


(* ---------------------------------------------------------------- proxyFrac: scripted interleavings *)

Record sst := mks { ss_p : pstate; ss_q : list nat }.

Fixpoint push_pos (k i : nat) (l : list pfrac) : list nat :=
  match l with
  | [] => []
  | f :: r =>
      match k_listed f, k with
      | true, S k' => i :: push_pos k' (S i) r
      | _, _ => push_pos k (S i) r
      end
  end.

Fixpoint drain (fuel : nat) (p : pstate) (q : list nat) : pstate * list nat :=
  match fuel, q with
  | S f, h :: r =>
      let p' := pstep false p (PSuicide h) in
      match nth_error (p_fr p') h with
      | Some pf => match xf_k pf with KWaiting => (p', q) | _ => drain f p' r end
      | None => drain f p' r
      end
  | _, _ => (p, q)
  end.

Definition script_step (s : sst) (e : sstep) : sst :=
  let p := ss_p s in
  match e with
  | SRotate => mks (pstep false p PRotate) (ss_q s)
  | SSealEnter i => mks (fold_left (pstep false) [PSealGo i; PSealEnter i] p) (ss_q s)
  | SSealSwap i => let '(p', q') := drain (S (length (ss_q s))) (pstep false p (PSealSwap i)) (ss_q s) in mks p' q'
  | SSealInstall i => mks (pstep false p (PSealInstall i)) (ss_q s)
  | SPass k =>
      let q := ss_q s ++ push_pos k 0 (p_fr p) in
      let '(p', q') := drain (S (length q)) (pstep false p (PPass k)) q in mks p' q'
  | SStop =>
      let c := pred (length (p_fr p)) in
      mks (fold_left (pstep false) [PSealGo c; PSealEnter c; PSealSwap c; PSealInstall c] p) (ss_q s)
  end.

Definition obs_of (s : sst) : pobs :=
  mkpobs (negb (p_fatal (ss_p s))) (map (fun f => (k_listed f, xf_x f)) (p_fr (ss_p s))).

Fixpoint script_obs (s : sst) (l : list sstep) : list pobs :=
  match l with
  | [] => []
  | e :: r => let s' := script_step s e in obs_of s' :: script_obs s' r
  end.

Definition script_init (nsealed : nat) : sst := mks (mkp (repeat pf_loaded_sealed nsealed ++ [pf_new]) false) [].
Definition script_final (nsealed : nat) (l : list sstep) : sst := fold_left script_step l (script_init nsealed).

(* readonly means nothing once both pointers are nil (trySetSuicided leaves it as it was; setting it there would be
   a harmless change) *)
Definition px_canon (x : px) : px := if x_active x || x_sealed x then x else mkpx false false false.

Definition pobs_eqb (a b : pobs) : bool :=
  Bool.eqb (po_alive a) (po_alive b) &&
  (negb (po_alive a) ||     (* a dead process has no fields to look at *)
   list_eqb (fun x y => Bool.eqb (fst x) (fst y) && px_eqb (px_canon (snd x)) (px_canon (snd y))) (po_fr a) (po_fr b)).

Fixpoint fin_agree (m : list pfrac) (fin : list pfin) : bool :=
  match m, fin with
  | [], [] => true
  | f :: mr, n :: nr => Bool.eqb (negb (k_listed f)) (pn_pushed n) && Bool.eqb (pf_deleted f) (pn_pushed n) && fin_agree mr nr
  | _, _ => false
  end.

(* completely served or completely gone *)
Definition pfin_ok (n : pfin) : bool :=
  if pn_pushed n
  then N.eqb (pn_ok n) 0 && N.eqb (pn_wrong n) 0 && match pn_files n with [] => true | _ => false end && lkind_none (pn_listed n)
  else N.eqb (pn_ok n) (pn_expected n) && N.eqb (pn_wrong n) 0 && (N.eqb (pn_expected n) 0 || negb (lkind_none (pn_listed n))).

Definition nat_list_eqb := list_eqb Nat.eqb.

Definition case_agrees (c : case) : bool :=
  match c with
  | COps EvSealEvict sorted _ _ before impl =>
      let '(xs, s1) := exec (seal_prog sorted) (fs_of before) in
      match strip_prefix xs impl with
      | Some rest => interleaves 20 (release_prog sorted) sealed_suicide_prog s1 rest
      | None => false
      end
  | COps ev sorted hasdata _ before impl =>
      match prog_of sorted hasdata ev (fs_of before) with
      | Some p => list_eqb xop_eqb (fst (exec p (fs_of before))) impl
      | None => false
      end
  | CLoad sorted d impl =>
      match load_dir sorted d, impl with
      | None, None => true
      | Some m, Some o => frs_agree sorted d m o
      | Some _, None => existsb (broken sorted) d
      | None, Some _ => false
      end
  | CSweep sorted hasdata files impl =>
      let f := mkst files hasdata false in
      match load_dir sorted [f], impl with
      | None, None => true
      | Some m, Some o => frs_agree sorted [f] m [o]
      | Some _, None => broken sorted f
      | None, Some _ => false
      end
  | CShrink limit sizes removed => nat_list_eqb removed (seq 0 (shrink limit sizes))
  | CCache _ l _ _ _ => forallb (fun c => info_eqb (new_sealed (ci_entry c) (ci_hdr c)) (ci_impl c)) l
  | CParLog sorted d kinds k log => parlog_agree 0 d kinds (outsiders k kinds) log
  | CPar sorted d kinds k log crash state impl =>
      let pre := firstn crash log in
      states_eqb (apply_log pre (map (fun f => fs_of (st_files f)) d)) state
      && let d' := restate 0 d state pre in
         match load_dir sorted d', impl with
         | None, None => true
         | Some m, Some o => frs_agree sorted d' m o
         | Some _, None => existsb (broken sorted) d'
         | None, Some _ => false
         end
  | CGap sorted d kinds k log crash state sizes limit served =>
      let pre := firstn crash log in
      states_eqb (apply_log pre (map (fun f => fs_of (st_files f)) d)) state
      && match load_dir sorted (restate 0 d state pre) with
         | Some m =>
             let served0 := map (fun x => negb (lkind_none (fst x))) m in
             list_eqb Bool.eqb (pat (shrink limit (pick_sizes served0 sizes)) served0) served
         | None => false
         end
  | COverlap sorted served =>
      list_eqb Bool.eqb
        (map alive (after_crashed_passes sorted [DPass 1; DPass 1; DJob 1; DJob 1; DJob 1; DJob 1; DJob 1; DJob 1; DJob 1; DJob 1]
                      [clean_sealed sorted; clean_sealed sorted; clean_active]))
        served
  | CCachePL full keep parsed l _ _ _ =>
      Bool.eqb parsed (match pf_parse (mkpf [] (N.to_nat keep) (N.to_nat full)) with Some _ => true | None => false end)
      && forallb (fun c => info_eqb (new_sealed (if parsed then ci_entry c else None) (ci_hdr c)) (ci_impl c)) l
  | CSaveOps ops => list_eqb sop_eqb (filter (fun o => negb (is_fsync o)) ops) cache_save_ops
  | CUse active files0 acts obs =>
      let prog := if active then active_suicide_prog else sealed_suicide_prog in
      uobs_eqb (uobs prog (fs_of files0) (u_init (fs_of files0)) acts) obs
  | CProxy nsealed script obs fin =>
      list_eqb pobs_eqb (script_obs (script_init nsealed) script) obs
      && match fin with
         | [] => p_fatal (ss_p (script_final nsealed script))
         | _ => fin_agree (p_fr (ss_p (script_final nsealed script))) fin
         end
  end.

Definition case_spec_ok (c : case) : bool :=
  match c with
  | COps ev sorted hasdata doomed before impl =>
      prefixes_safe sorted hasdata (doomed || any_del (fs_of before)) (fs_of before) impl
      && (negb (is_suicide ev) || negb (served_class (final_fs (fs_of before) impl) hasdata))
  | CLoad sorted d impl =>
      match impl with
      | None => false
      | Some o => frs_ok d o
      end
  | CSweep sorted hasdata files impl =>
      (* only file sets that a crash can produce are constrained *)
      if Reach.reachable_files sorted hasdata (fs_of files)
      then match impl with None => false | Some ob => obs_ok true false ob end
      else true
  | CShrink limit sizes removed =>
      let k := length removed in
      nat_list_eqb removed (seq 0 k)                                    (* a prefix: oldest first, whole fractions *)
      && ((sumN (skipn k sizes) <=? limit)%N || Nat.eqb k (length sizes))  (* enough was removed *)
      && (Nat.eqb k 0 || (limit <? sumN (skipn (k - 1) sizes))%N)        (* and not more than needed *)
  | CCache strict l expected ok wrong =>
      (* independent of the model: same Info as from the index header, every document still served *)
      negb strict || (forallb (fun c => info_eqb (ci_hdr c) (ci_impl c)) l && N.eqb ok expected && N.eqb wrong 0)
  | CParLog sorted d kinds k log =>
      forallb (fun e => nth (fst e) (outsiders k kinds) false) log && parlog_ok 0 d (outsiders k kinds) log
      && log_sequential 0 log
  | CPar sorted d kinds k log crash state impl =>
      let pre := firstn crash log in
      match impl with
      | None => false
      | Some o => frs_ok (restate 0 d state pre) o && untouched_served 0 d kinds pre o
                  && prefix_shape (served_flags d kinds o)       (* oldest first in every crash state *)
      end
  | CGap sorted d kinds k log crash state sizes limit served => prefix_shape served
  | COverlap sorted served => prefix_shape served
  | CCachePL full keep parsed l expected ok wrong =>
      forallb (fun c => info_eqb (ci_hdr c) (ci_impl c)) l && N.eqb ok expected && N.eqb wrong 0
  | CSaveOps ops => write_before_rename ops false
  | CUse active files0 acts obs => use_ok (fs_of files0) (fs_of files0) 0 false acts obs
  | CProxy nsealed script obs fin =>
      (* the store survives every step; afterwards every fraction is completely served or completely gone *)
      forallb po_alive obs && match fin with [] => false | _ => forallb pfin_ok fin end
  end.

Definition diff_indices (l : list case) : list nat := bad_indices (fun c => negb (case_agrees c)) l.
Definition specfail_indices (l : list case) : list nat := bad_indices (fun c => negb (case_spec_ok c)) l.
