(* C15 — shape of the generated cases and the two executable verdicts. No proofs. *)
From VLib Require Import CaseLib.
From C15 Require Import Model Reach.

Definition kind_eqb (a b : kind) : bool :=
  match a, b with
  | KDocs, KDocs | KDocsDel, KDocsDel | KSdocs, KSdocs | KSdocsTmp, KSdocsTmp | KSdocsDel, KSdocsDel
  | KIndex, KIndex | KIndexTmp, KIndexTmp | KIndexDel, KIndexDel | KMeta, KMeta => true
  | _, _ => false
  end.

Definition xop_eqb (a b : xop) : bool :=
  match a, b with
  | XCreate k, XCreate k' => kind_eqb k k'
  | XRename x y, XRename x' y' => kind_eqb x x' && kind_eqb y y'
  | XRemove k, XRemove k' => kind_eqb k k'
  | _, _ => false
  end.

Definition lkind_eqb (a b : lkind) : bool :=
  match a, b with LNone, LNone | LSealed, LSealed | LActive, LActive => true | _, _ => false end.

(* one life-cycle step of one fraction, as the driver labels the window of the trace *)
Inductive event :=
| EvCreate                              (* rotate: NewActive on a fresh name *)
| EvSeal                                (* Seal + Release *)
| EvActiveSuicide                       (* retention on a fraction that is still active *)
| EvSealedSuicide                       (* retention on a sealed fraction *)
| EvLoad (nonlast : bool)               (* what a starting process does to the fraction *)
| EvSealEvict.                          (* retention pushes the fraction out while it is being sealed (or released):
                                           Seal, then Release and Sealed.Suicide in some interleaving *)

Definition prog_of (sorted hasdata : bool) (ev : event) (s : fs) : option (list pop) :=
  match ev with
  | EvCreate => Some new_active_prog
  | EvSeal => Some (seal_prog sorted ++ release_prog sorted)
  | EvActiveSuicide => Some active_suicide_prog
  | EvSealedSuicide => Some sealed_suicide_prog
  | EvLoad nonlast => option_map fst (load_prog sorted hasdata nonlast s)
  | EvSealEvict => None   (* not one program: see ops_agree *)
  end.

(* obs is the visible part of some interleaving of the programs p and q started in s *)
Fixpoint interleaves (fuel : nat) (p q : list pop) (s : fs) (obs : list xop) : bool :=
  match fuel with
  | 0 => false
  | S f =>
      let try_ (o : pop) (p' q' : list pop) :=
        let '(x, s') := step_pop o s in
        match x with
        | None => interleaves f p' q' s' obs
        | Some x => match obs with
                    | y :: obs' => xop_eqb x y && interleaves f p' q' s' obs'
                    | [] => false
                    end
        end in
      match p, q with
      | [], [] => match obs with [] => true | _ => false end
      | o :: p', [] => try_ o p' []
      | [], o :: q' => try_ o [] q'
      | o1 :: p', o2 :: q' => try_ o1 p' q || try_ o2 p q'
      end
  end.

Fixpoint strip_prefix (xs obs : list xop) : option (list xop) :=
  match xs, obs with
  | [], _ => Some obs
  | x :: xs', y :: obs' => if xop_eqb x y then strip_prefix xs' obs' else None
  | _ :: _, [] => None
  end.

Definition is_suicide (ev : event) : bool :=
  match ev with EvActiveSuicide | EvSealedSuicide | EvSealEvict => true | _ => false end.

(* every crash point of an observed operation sequence is a safe state *)
Fixpoint prefixes_safe (sorted hasdata doomed : bool) (s : fs) (ops : list xop) : bool :=
  safe true sorted hasdata doomed s &&
  match ops with
  | [] => true
  | o :: r => let s' := apply_x o s in prefixes_safe sorted hasdata (doomed || any_del s') s' r
  end.

Definition final_fs (s : fs) (ops : list xop) : fs := fold_left (fun s o => apply_x o s) ops s.

(* observation of one fraction after a restart *)
Record fracobs := mkobs { o_listed : lkind; o_expected : N; o_ok : N; o_wrong : N; o_after : list kind }.

Record cinfo := mkcinfo { ci_entry : option info; ci_hdr : info; ci_impl : info }.

Inductive case :=
(* window of the trace: operations on one fraction during one life-cycle step *)
| COps (ev : event) (sorted hasdata doomed : bool) (before : list kind) (impl : list xop)
(* a crash state of a history, restarted: None = the process died *)
| CLoad (sorted : bool) (dir : list fracst) (impl : option (list fracobs))
(* one fraction with an arbitrary file set built from real files *)
| CSweep (sorted hasdata : bool) (files : list kind) (impl : option fracobs)
(* one retention pass: sizes in list order, removed = positions (in that list) of the fractions gone *)
| CShrink (limit : N) (sizes : list N) (removed : list nat)
(* restart with a variant of .frac-cache: per sealed fraction the parsed entry, the header-derived
   info (restart without cache) and the info reported (all zero when the fraction is no longer
   listed); documents served by fetch AND search without the file / with it / wrongly or half
   served with it. strict = every variant except entries with a POSITIVE index size and wrong
   other numbers (those the fast path takes at face value): absent, current, stale, truncated,
   garbage, entries stripped to the name / emptied / partially filled / with zero or missing index
   size *)
| CCache (strict : bool) (l : list cinfo) (expected ok wrong : N).

Definition broken (sorted : bool) (f : fracst) : bool :=
  negb (served_ok sorted (fs_of (st_files f))) && st_hasdata f.

Fixpoint frs_agree (sorted : bool) (d : list fracst) (m : list (lkind * fs)) (o : list fracobs) : bool :=
  match d, m, o with
  | [], [], [] => true
  | f :: d', (l, s) :: m', ob :: o' =>
      (broken sorted f || (lkind_eqb l (o_listed ob) && fs_eqb s (fs_of (o_after ob))))
      && frs_agree sorted d' m' o'
  | _, _, _ => false
  end.

Definition obs_ok (strict : bool) (doomed : bool) (ob : fracobs) : bool :=
  match o_listed ob with
  | LNone => N.eqb (o_ok ob) 0 && N.eqb (o_wrong ob) 0 && residue_ok strict (fs_of (o_after ob))
  | _ => N.eqb (o_ok ob) (o_expected ob) && N.eqb (o_wrong ob) 0 && negb doomed
  end.

Fixpoint frs_ok (d : list fracst) (o : list fracobs) : bool :=
  match d, o with
  | [], [] => true
  | f :: d', ob :: o' => obs_ok true (st_doomed f) ob && frs_ok d' o'
  | _, _ => false
  end.

Definition nat_list_eqb := list_eqb Nat.eqb.

Definition case_agrees (c : case) : bool :=
  match c with
  | COps EvSealEvict sorted _ _ before impl =>
      let '(xs, s1) := exec (seal_prog sorted) (fs_of before) in
      match strip_prefix xs impl with
      | Some rest => interleaves 20 (release_prog sorted) sealed_suicide_prog s1 rest
      | None => false
      end
  | COps ev sorted hasdata _ before impl =>
      match prog_of sorted hasdata ev (fs_of before) with
      | Some p => list_eqb xop_eqb (fst (exec p (fs_of before))) impl
      | None => false
      end
  | CLoad sorted d impl =>
      match load_dir sorted d, impl with
      | None, None => true
      | Some m, Some o => frs_agree sorted d m o
      | Some _, None => existsb (broken sorted) d
      | None, Some _ => false
      end
  | CSweep sorted hasdata files impl =>
      let f := mkst files hasdata false in
      match load_dir sorted [f], impl with
      | None, None => true
      | Some m, Some o => frs_agree sorted [f] m [o]
      | Some _, None => broken sorted f
      | None, Some _ => false
      end
  | CShrink limit sizes removed => nat_list_eqb removed (seq 0 (shrink limit sizes))
  | CCache _ l _ _ _ => forallb (fun c => info_eqb (new_sealed (ci_entry c) (ci_hdr c)) (ci_impl c)) l
  end.

Definition case_spec_ok (c : case) : bool :=
  match c with
  | COps ev sorted hasdata doomed before impl =>
      prefixes_safe sorted hasdata (doomed || any_del (fs_of before)) (fs_of before) impl
      && (negb (is_suicide ev) || negb (served_class (final_fs (fs_of before) impl) hasdata))
  | CLoad sorted d impl =>
      match impl with
      | None => false
      | Some o => frs_ok d o
      end
  | CSweep sorted hasdata files impl =>
      (* only file sets that a crash can produce are constrained *)
      if Reach.reachable_files sorted hasdata (fs_of files)
      then match impl with None => false | Some ob => obs_ok true false ob end
      else true
  | CShrink limit sizes removed =>
      let k := length removed in
      nat_list_eqb removed (seq 0 k)                                    (* a prefix: oldest first, whole fractions *)
      && ((sumN (skipn k sizes) <=? limit)%N || Nat.eqb k (length sizes))  (* enough was removed *)
      && (Nat.eqb k 0 || (limit <? sumN (skipn (k - 1) sizes))%N)        (* and not more than needed *)
  | CCache strict l expected ok wrong =>
      (* independent of the model: same Info as from the index header, every document still served *)
      negb strict || (forallb (fun c => info_eqb (ci_hdr c) (ci_impl c)) l && N.eqb ok expected && N.eqb wrong 0)
  end.

Definition diff_indices (l : list case) : list nat := bad_indices (fun c => negb (case_agrees c)) l.
Definition specfail_indices (l : list case) : list nat := bad_indices (fun c => negb (case_spec_ok c)) l.
