(* C15 — the whole data directory under one process: the fractions in creation order, each in its
   single-fraction state (Model.st), and the goroutines that work on them at the same time. One
   retention pass pushes out the k oldest listed fractions and starts ONE goroutine that deletes them
   ONE AFTER ANOTHER in list order (fracmanager.go shrinkSizes after fix 14be38b:
   `go func() { for _, outsider := range outsiders { outsider.Suicide() } }()`); passes of later
   maintenance steps start further such goroutines; background seals and Release run in their own
   goroutines; the scheduler picks which goroutine performs its next file operation; the process may die
   after ANY operation of ANY of them; a new process runs the loader (its removals can be interrupted
   too). Since fix bd65f76 the goroutine of a pass first waits for the goroutine of the previous pass
   (`if prevDone != nil { <-prevDone }`), so passes delete strictly in the order they were started.
   seq = false gives the code before 14be38b (`for ... { go outsider.Suicide() }`: one goroutine per
   outsider; _v0), chain = false the code between 14be38b and bd65f76 (pass goroutines independent of
   each other; _v1). No proofs here.

   Anchors: fracmanager/fracmanager.go (shrinkSizes, shiftFirstFrac, maintenance, rotate, seal, Load),
   fracmanager/proxy_frac.go (Suicide, Seal), frac/sealed.go (Suicide), frac/active.go (Suicide, Release),
   fracmanager/loader.go (load, filterInfos, removeFractionFiles). *)
From Coq Require Import List Bool Arith NArith.
Import ListNotations.
From C15 Require Import Model.

(* ------------------------------------------------------------------ moves of one fraction *)

Definition upd (s : st) (f : fs) (p : proc) : st := mkstate f (hasdata s) (doomed s || any_del f) p.
Definition setp (s : st) (p : proc) : st := mkstate (files s) (hasdata s) (doomed s) p.

(* the goroutine working on the fraction performs its next operation. right = the second thread of a
   fraction on which Active.Release and the deletion overlap (PPar) *)
Definition step1 (sorted right : bool) (s : st) : st :=
  match pr s with
  | PRun (o :: r) m => upd s (snd (step_pop o (files s))) (PRun r m)
  | PRun [] m => setp s (PIdle m)
  | PSeal (o :: r) ev => upd s (snd (step_pop o (files s))) (PSeal r ev)
  | PSeal [] ev =>
      if ev then setp s (PPar (release_prog sorted) sealed_suicide_prog MGone)
      else setp s (PPar (release_prog sorted) [] MSealed)
  | PPar p q m =>
      if right then match q with
                    | o :: r => upd s (snd (step_pop o (files s))) (PPar p r m)
                    | [] => s
                    end
      else match p with
           | o :: r => upd s (snd (step_pop o (files s))) (PPar r q m)
           | [] => match q with [] => setp s (PIdle m) | _ => s end
           end
  | _ => s
  end.

(* the process dies *)
Definition crash1 (s : st) : st :=
  match pr s with
  | PFatal | PDown | PIdle MNew => s
  | _ => setp s PDown
  end.

(* the fraction is in the manager's list (fm.fracs) and not yet pushed out *)
Definition listed (s : st) : bool :=
  match pr s with
  | PIdle MSealed | PIdle MActive | PSeal _ false | PPar _ [] MSealed => true
  | _ => false
  end.

(* shiftFirstFrac + `go outsider.Suicide()`: proxyFrac.Suicide / Sealed.Suicide / Active.Suicide *)
Definition evict1 (s : st) : st :=
  match pr s with
  | PIdle MSealed => setp s (PRun sealed_suicide_prog MGone)
  | PIdle MActive => setp s (PRun active_suicide_prog MGone)
  | PSeal p false => setp s (PSeal p true)
  | PPar p [] MSealed => setp s (PPar p sealed_suicide_prog MGone)
  | _ => s
  end.

(* the k oldest listed fractions are pushed out, each with its own goroutine *)
Fixpoint evict_first (k : nat) (d : list st) : list st :=
  match d with
  | [] => []
  | s :: r =>
      match listed s, k with
      | true, S k' => evict1 s :: evict_first k' r
      | _, _ => s :: evict_first k r
      end
  end.

Fixpoint at_pos {A} (i : nat) (f : A -> A) (l : list A) : list A :=
  match l, i with
  | [], _ => []
  | x :: r, 0 => f x :: r
  | x :: r, S i' => x :: at_pos i' f r
  end.

Definition live_active_s (s : st) : bool :=
  match classify (files s) with CActive => hasdata s | _ => false end.

(* the loader's verdict and pending operations per fraction (a fraction that does not exist yet, or a
   process that already refused to start, stays as it is) *)
Fixpoint restart_pending (sorted : bool) (d : list st) : list st :=
  match d with
  | [] => []
  | s :: r =>
      (match pr s with
       | PDown => restart cur_progs sorted s (existsb live_active_s r)
       | _ => s
       end) :: restart_pending sorted r
  end.

(* ------------------------------------------------------------------ events of the directory *)

Inductive dev :=
| DPass (k : nat)            (* retention pass pushing out the k oldest listed fractions; starts the pass goroutine *)
| DJob (j : nat)             (* pass goroutine j: next operation of the outsider it is deleting, or (when that
                                Suicide() has returned) it turns to its next outsider *)
| DStep (i : nat)            (* a goroutine of fraction i itself (seal, Release, loader; before 14be38b also its deletion) *)
| DStepR (i : nat)           (* second thread of fraction i (deletion overlapping Release; before 14be38b) *)
| DBulk (i : nat)            (* a bulk reaches the active fraction i *)
| DSeal (i : nat)            (* rotate has happened; the background seal of fraction i starts *)
| DRotate                    (* a new active fraction is appended: NewActive *)
| DCrash                     (* the process dies *)
| DRestart.                  (* a new process starts: loader *)

(* d_jobs: per pass goroutine the outsiders (positions) it still has to delete, the head is in work *)
Record dstate := mkd { d_up : bool; d_fr : list st; d_jobs : list (list nat) }.

Definition bulk1 (s : st) : st :=
  match pr s with PIdle MActive => mkstate (files s) true (doomed s) (PIdle MActive) | _ => s end.
Definition seal1 (sorted : bool) (s : st) : st :=
  match pr s with
  | PIdle MActive => if hasdata s then setp s (PSeal (seal_prog sorted) false) else s
  | _ => s
  end.

(* positions of the fractions evict_first pushes out *)
Fixpoint evict_pos (k i : nat) (d : list st) : list nat :=
  match d with
  | [] => []
  | s :: r =>
      match listed s, k with
      | true, S k' => i :: evict_pos k' (S i) r
      | _, _ => evict_pos k (S i) r
      end
  end.

Definition in_jobs (i : nat) (jobs : list (list nat)) : bool := existsb (existsb (Nat.eqb i)) jobs.

(* the operations of a fraction's deletion belong to the pass goroutine *)
Definition is_deleting (s : st) : bool := match pr s with PRun _ MGone => true | _ => false end.

(* Suicide() of the outsider has returned (Active.Release of a freshly sealed one may still be running) *)
Definition suicide_returned (s : st) : bool :=
  match pr s with PIdle MGone | PPar _ [] MGone => true | _ => false end.

(* the pass goroutine works on the outsider: file operations of a plain deletion, or the deletion side of a
   fraction that was pushed out while it was being sealed / released (waits while the seal is running) *)
Definition job_step1 (sorted : bool) (s : st) : st :=
  match pr s with
  | PRun _ _ => step1 sorted false s
  | PPar _ _ _ => step1 sorted true s
  | _ => s
  end.

Fixpoint set_nth {A} (j : nat) (x : A) (l : list A) : list A :=
  match l, j with
  | [], _ => []
  | _ :: r, 0 => x :: r
  | y :: r, S j' => y :: set_nth j' x r
  end.

(* every earlier pass goroutine has deleted all its outsiders (its `done` channel is closed) *)
Definition prev_done (j : nat) (jobs : list (list nat)) : bool :=
  forallb (fun q => match q with [] => true | _ => false end) (firstn j jobs).

Definition dstep (seq chain sorted : bool) (d : dstate) (e : dev) : dstate :=
  if d_up d then
    match e with
    | DPass k => mkd true (evict_first k (d_fr d)) (d_jobs d ++ [evict_pos k 0 (d_fr d)])
    | DJob j =>
        if chain && negb (prev_done j (d_jobs d)) then d else     (* <-prevDone *)
        match nth j (d_jobs d) [] with
        | [] => d
        | h :: r =>
            match nth_error (d_fr d) h with
            | Some s => if suicide_returned s then mkd true (d_fr d) (set_nth j r (d_jobs d))
                        else mkd true (at_pos h (job_step1 sorted) (d_fr d)) (d_jobs d)
            | None => mkd true (d_fr d) (set_nth j r (d_jobs d))
            end
        end
    | DStep i =>
        match nth_error (d_fr d) i with
        | Some s => if seq && in_jobs i (d_jobs d) && is_deleting s then d
                    else mkd true (at_pos i (step1 sorted false) (d_fr d)) (d_jobs d)
        | None => d
        end
    | DStepR i =>
        if seq && in_jobs i (d_jobs d) then d else mkd true (at_pos i (step1 sorted true) (d_fr d)) (d_jobs d)
    | DBulk i => mkd true (at_pos i bulk1 (d_fr d)) (d_jobs d)
    | DSeal i => mkd true (at_pos i (seal1 sorted) (d_fr d)) (d_jobs d)
    | DRotate => mkd true (d_fr d ++ [setp init_st (PRun new_active_prog MActive)]) (d_jobs d)
    | DCrash => mkd false (map crash1 (d_fr d)) []
    | DRestart => d
    end
  else
    match e with
    | DRestart => mkd true (restart_pending sorted (d_fr d)) []
    | _ => d
    end.

(* the code as it is (one deleting goroutine per pass) and as it was (one per outsider) *)
Definition drun (sorted : bool) (evs : list dev) (d : dstate) : dstate := fold_left (dstep true true sorted) evs d.
Definition drun_v1 (sorted : bool) (evs : list dev) (d : dstate) : dstate := fold_left (dstep true false sorted) evs d.
Definition drun_v0 (sorted : bool) (evs : list dev) (d : dstate) : dstate := fold_left (dstep false false sorted) evs d.

(* ------------------------------------------------------------------ complete restart *)

(* a goroutine runs to its end. The result's process component depends only on the program. *)
Fixpoint stepn (sorted : bool) (n : nat) (s : st) : st :=
  match n with 0 => s | S n' => stepn sorted n' (step1 sorted true (step1 sorted false s)) end.
Definition finish (sorted : bool) (s : st) : st := stepn sorted 24 s.

(* a start that runs to its end: every fraction is classified and its removals are done *)
Definition start1 (sorted : bool) (s : st) (b : bool) : st :=
  finish sorted (match pr s with PDown => restart cur_progs sorted s b | _ => s end).
Fixpoint restart_all (sorted : bool) (d : list st) : list st :=
  match d with
  | [] => []
  | s :: r => start1 sorted s (existsb live_active_s r) :: restart_all sorted r
  end.

(* the process holds the fraction in its list and serves it *)
Definition alive (s : st) : bool :=
  match pr s with PIdle MSealed | PIdle MActive => true | _ => false end.

(* a fraction the next start would serve (crashed) or the process serves (running) *)
Definition visible (s : st) : bool :=
  listed s || match pr s with PDown => served_class (files s) (hasdata s) | _ => false end.

(* removed set = a prefix of the creation order: no served fraction is older than a dropped one *)
Fixpoint prefix_shape (l : list bool) : bool :=
  match l with
  | [] => true
  | false :: r => prefix_shape r
  | true :: r => forallb (fun b => b) r
  end.

(* an idle fraction with documents, on disk exactly as its kind requires *)
Definition sealed_files (sorted : bool) : fs := if sorted then fs_of [KSdocs; KIndex] else fs_of [KDocs; KIndex].
Definition clean (sorted : bool) (s : st) : bool :=
  hasdata s && negb (doomed s) &&
  match pr s with
  | PIdle MSealed => fs_eqb (files s) (sealed_files sorted)
  | PIdle MActive => fs_eqb (files s) (fs_of [KDocs; KMeta])
  | _ => false
  end.

Definition clean_sealed (sorted : bool) : st := mkstate (sealed_files sorted) true false (PIdle MSealed).
Definition clean_active : st := mkstate (fs_of [KDocs; KMeta]) true false (PIdle MActive).

(* one interrupted pass: k outsiders, the scheduler's choices (any events that let goroutines perform
   operations), crash, complete restart *)
Definition step_only (e : dev) : bool := match e with DJob _ | DStep _ | DStepR _ => true | _ => false end.
Definition after_crashed_pass (sorted : bool) (k : nat) (sched : list dev) (d0 : list st) : list st :=
  restart_all sorted (map crash1 (d_fr (drun sorted (DPass k :: filter step_only sched) (mkd true d0 [])))).
(* any number of passes in flight: any events that start a pass or let a goroutine perform an operation
   (a Suicide blocked by a reader or a seal = its goroutine is simply not scheduled), crash, complete restart *)
Definition live_only (e : dev) : bool := match e with DPass _ | DJob _ | DStep _ | DStepR _ => true | _ => false end.
Definition after_crashed_passes (sorted : bool) (evs : list dev) (d0 : list st) : list st :=
  restart_all sorted (map crash1 (d_fr (drun sorted (filter live_only evs) (mkd true d0 [])))).
Definition after_crashed_pass_v0 (sorted : bool) (k : nat) (sched : list nat) (d0 : list st) : list st :=
  restart_all sorted (map crash1 (d_fr (drun_v0 sorted (DPass k :: map DStep sched) (mkd true d0 [])))).

(* the following pass, run to its end *)
Definition after_next_pass (sorted : bool) (k' : nat) (d1 : list st) : list st :=
  map (finish sorted) (evict_first k' d1).

(* a complete pass over k' fractions, on the list of "served" flags: the k' oldest served ones go *)
Fixpoint pat (k : nat) (l : list bool) : list bool :=
  match l with
  | [] => []
  | b :: r => match b, k with
              | true, S k' => false :: pat k' r
              | _, _ => b :: pat k r
              end
  end.

Fixpoint count_true (l : list bool) : nat :=
  match l with [] => 0 | true :: r => S (count_true r) | false :: r => count_true r end.

(* the states a deletion started on a clean fraction passes through *)
Fixpoint nsteps (sorted : bool) (n : nat) (s : st) : st :=
  match n with 0 => s | S n' => nsteps sorted n' (step1 sorted false s) end.
Definition prog_states (sorted : bool) : list st :=
  flat_map (fun c => map (fun n => nsteps sorted n (evict1 c)) (seq 0 10)) [clean_sealed sorted; clean_active].

(* sizes as the manager sees them: only fractions it lists count *)
Fixpoint live_sizes (d : list st) (sizes : list N) : list N :=
  match d, sizes with
  | s :: r, z :: zs => if alive s then z :: live_sizes r zs else live_sizes r zs
  | _, _ => []
  end.

(* ------------------------------------------------------------------ correspondence: an observed pass *)

(* the interleaved log of a pass: (position of the fraction in creation order, visible operation) *)
Definition plog := list (nat * xop).

Fixpoint proj_log (i : nat) (l : plog) : list xop :=
  match l with
  | [] => []
  | (j, x) :: r => if Nat.eqb i j then x :: proj_log i r else proj_log i r
  end.

Fixpoint apply_log (l : plog) (d : list fs) : list fs :=
  match l with
  | [] => d
  | (j, x) :: r => apply_log r (at_pos j (apply_x x) d)
  end.

(* the deletion program the pass runs on a fraction of the given listed kind *)
Definition pass_prog (l : lkind) : list pop :=
  match l with LSealed => sealed_suicide_prog | LActive => active_suicide_prog | LNone => [] end.

(* which fractions the pass pushes out: the k oldest with a listed kind *)
Fixpoint outsiders (k : nat) (kinds : list lkind) : list bool :=
  match kinds with
  | [] => []
  | l :: r =>
      match l, k with
      | LNone, _ => false :: outsiders k r
      | _, S k' => true :: outsiders k' r
      | _, 0 => false :: outsiders 0 r
      end
  end.
