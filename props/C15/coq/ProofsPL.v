(* C15 — proofs: .frac-cache and the .del protocol under power loss; readers against deletion. *)
From Coq Require Import List Bool Arith NArith Lia.
Import ListNotations.
From C15 Require Import Model Reach Proofs ModelPL ModelUse.

(* ------------------------------------------------------------------ .frac-cache under power loss *)

Definition pf_honest (hdr : nat -> info) (f : option pfile) : Prop :=
  match f with Some f => honest hdr (pf_ver f) | None => True end.

Definition p_inv (hdr : nat -> info) (s : pst) : Prop :=
  honest hdr (p_mem s) /\ pf_honest hdr (p_cur s) /\ Forall (pf_honest hdr) (p_old s) /\ pf_honest hdr (p_tmp s).

Lemma cut_honest hdr n f : pf_honest hdr f -> pf_honest hdr (cut_file n f).
Proof. destruct f; cbn; auto. Qed.

Lemma p_lookup_honest hdr s n i : pf_honest hdr (p_cur s) -> p_lookup s n = Some i -> i = hdr n.
Proof.
  unfold p_lookup. destruct (p_cur s) as [f|]; [|discriminate]. cbn. intro H.
  destruct (pf_parse f) as [m|] eqn:E; [|discriminate].
  unfold pf_parse in E. destruct (Nat.eqb (pf_len f) (pf_full f)); [|discriminate]. inversion E; subst.
  apply H.
Qed.

Lemma nth_honest hdr l d n : Forall (pf_honest hdr) l -> pf_honest hdr d -> pf_honest hdr (nth n l d).
Proof.
  intros Hl Hd. revert n. induction Hl as [|x r Hx _ IH]; intro n; destruct n; cbn; auto.
Qed.

Lemma p_step_inv hdr s o : p_inv hdr s -> p_inv hdr (p_step hdr s o).
Proof.
  intros [Hm [Hc [Ho Ht]]]. destruct o; unfold p_inv; cbn [p_step p_mem p_cur p_old p_tmp].
  - repeat split; auto. intros m i. cbn [cget]. destruct (Nat.eqb m n) eqn:E.
    + apply Nat.eqb_eq in E. subst m. intro H. inversion H; subst. apply new_sealed_benign.
      intros j Hj. left. eapply p_lookup_honest; eauto.
    + apply (honest_cdel hdr _ n Hm).
  - repeat split; auto. apply honest_cdel. exact Hm.
  - repeat split; auto.
  - repeat split; auto. destruct (p_tmp s); cbn in *; auto.
  - destruct (p_tmp s) as [f|] eqn:E; cbn [p_mem p_cur p_old p_tmp]; repeat split; auto. rewrite E. exact Ht.
  - repeat split; auto.
  - repeat split; auto. apply honest_nil.
  - repeat split; auto; try apply honest_nil; apply cut_honest; auto.
    destruct lose; auto. apply nth_honest; auto.
  - repeat split; auto. apply honest_nil.
Qed.

Lemma p_run_inv hdr ops : p_inv hdr (p_run hdr ops).
Proof.
  unfold p_run.
  assert (G : forall s, p_inv hdr s -> p_inv hdr (fold_left (p_step hdr) ops s)).
  { induction ops as [|o r IH]; cbn; intros s H; [exact H|]. apply IH. apply p_step_inv. exact H. }
  apply G. repeat split; cbn; auto. apply honest_nil.
Qed.

Lemma cache_transparent_powerloss hdr ops n :
  new_sealed (p_lookup (p_run hdr ops) n) (hdr n) = hdr n.
Proof.
  apply new_sealed_benign. intros i Hi. left. destruct (p_run_inv hdr ops) as [_ [Hc _]].
  eapply p_lookup_honest; eauto.
Qed.

(* a power loss never leaves a half-written file that parses: what the loader gets is nothing or a
   complete saved version *)
Lemma powerloss_parse_complete (f : pfile) (n : nat) (m : cmap) :
  pf_parse (mkpf (pf_ver f) (Nat.min n (pf_len f)) (pf_full f)) = Some m -> m = pf_ver f /\ Nat.min n (pf_len f) = pf_full f.
Proof.
  unfold pf_parse. cbn. destruct (Nat.eqb (Nat.min n (pf_len f)) (pf_full f)) eqn:E; [|discriminate].
  intro H. inversion H. apply Nat.eqb_eq in E. auto.
Qed.

(* ------------------------------------------------------------------ .del protocol under power loss *)

Lemma del_powerloss_ordered (sorted : bool) (i : nat) :
  let s0 := if sorted then fs_of [KSdocs; KIndex] else fs_of [KDocs; KIndex] in
  let s := persist_ordered (sealed_suicide_xops sorted) i s0 in
  safe true sorted true (any_del s || negb (fs_eqb s s0)) s = true.
Proof.
  destruct sorted; do 7 (destruct i as [|i]; [vm_compute; reflexivity|]); vm_compute; reflexivity.
Qed.

(* without ordering (plain POSIX: no directory fsync, any subset of the operations may have reached the
   disk) the protocol is not safe: the rename of .index and its removal persisted, the rename of .sdocs
   not: a lone .sdocs, the loader refuses to start *)
Lemma del_powerloss_unordered_refuted :
  exists mask, classify (persist (sealed_suicide_xops true) mask (fs_of [KSdocs; KIndex])) = CFatal.
Proof. exists [false; true; false; true]. vm_compute. reflexivity. Qed.

(* ------------------------------------------------------------------ readers against deletion *)

Definition u_inv (f0 : fs) (s : ust) : Prop :=
  u_bad_open s = false /\ u_bad_op s = false /\
  match u_ph s with
  | SIdle => u_files s = f0 /\ u_flag s = false
  | SLocked => u_files s = f0 /\ u_flag s = false /\ u_pre s = 0 /\ u_use s = 0
  | SFlagged => u_files s = f0 /\ u_flag s = true /\ u_pre s = 0 /\ u_use s = 0
  | SRun _ => u_flag s = true /\ u_use s = 0
  end.

Lemma fs_eqb_refl f : fs_eqb f f = true.
Proof. destruct f; unfold fs_eqb; cbn. repeat rewrite Bool.eqb_reflx. reflexivity. Qed.

Lemma ustep_inv prog f0 s e : u_inv f0 s -> u_inv f0 (ustep prog f0 s e).
Proof.
  destruct s as [pre use flag called ph files bo bp]. unfold u_inv. cbn [u_bad_open u_bad_op u_ph u_files u_flag u_pre u_use].
  intros [H1 [H2 H3]]. subst bo bp.
  destruct ph as [| | |p]; cbn in H3.
  all: repeat match goal with H : _ /\ _ |- _ => destruct H end; subst.
  all: destruct e; cbn [ustep]; rewrite ?fs_eqb_refl; cbn;
    repeat (match goal with
            | |- context [match ?x with _ => _ end] => destruct x
            | |- context [if ?x then _ else _] => destruct x
            end; cbn); intuition congruence.
Qed.

Lemma urun_inv prog f0 evs : u_inv f0 (urun prog f0 evs).
Proof.
  unfold urun.
  assert (G : forall s, u_inv f0 s -> u_inv f0 (fold_left (ustep prog f0) evs s)).
  { induction evs as [|e r IH]; cbn; intros s H; [exact H|]. apply IH. apply ustep_inv. exact H. }
  apply G. unfold u_inv. cbn. auto.
Qed.

(* no reader ever opens files of a fraction whose deletion has begun on disk; no rename or removal runs
   while a reader holds a provider; once the first operation has run every later reader gets the empty
   provider (flag set) *)
Lemma use_lock_safe prog f0 evs :
  let s := urun prog f0 evs in
  u_bad_open s = false /\ u_bad_op s = false
  /\ (u_files s <> f0 -> u_flag s = true /\ u_use s = 0).
Proof.
  cbv zeta. destruct (urun_inv prog f0 evs) as [H1 [H2 H3]]. repeat split; auto;
    destruct (u_ph (urun prog f0 evs)); intuition congruence.
Qed.

Lemma use_nolock_refuted :
  exists evs, u_bad_op (fold_left (ustep_nolock sealed_suicide_prog (fs_of [KSdocs; KIndex])) evs (u_init (fs_of [KSdocs; KIndex]))) = true.
Proof. exists [UAcq; UCheck; UCall; ULock; USet; UUnlock; UOp; UOp]. vm_compute. reflexivity. Qed.
