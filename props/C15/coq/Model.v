(* C15 — executable model of the on-disk life cycle of one fraction (creation, seal, release,
   deletion, loader), of size retention and of the .frac-cache fast path. No proofs here.

   Anchors: fracmanager/loader.go (makeInfos, filterInfos, load, removeFractionFiles),
   frac/active.go (NewActive, Release, Suicide), frac/active_sealer.go (Seal, writeSortedDocs),
   frac/sealed.go (NewSealed, Suicide), fracmanager/fracmanager.go (shrinkSizes, shiftFirstFrac,
   rotate, Load), fracmanager/sealed_frac_cache.go. *)
From Coq Require Import List Bool Arith NArith.
Import ListNotations.

(* ------------------------------------------------------------------ files of one fraction *)

Inductive kind :=
| KDocs | KDocsDel | KSdocs | KSdocsTmp | KSdocsDel | KIndex | KIndexTmp | KIndexDel | KMeta.

Record fs := mkfs {
  f_docs : bool; f_docsdel : bool; f_sdocs : bool; f_sdocstmp : bool; f_sdocsdel : bool;
  f_index : bool; f_indextmp : bool; f_indexdel : bool; f_meta : bool }.

Definition empty_fs := mkfs false false false false false false false false false.

Definition has (s : fs) (k : kind) : bool :=
  match k with
  | KDocs => f_docs s | KDocsDel => f_docsdel s | KSdocs => f_sdocs s | KSdocsTmp => f_sdocstmp s
  | KSdocsDel => f_sdocsdel s | KIndex => f_index s | KIndexTmp => f_indextmp s
  | KIndexDel => f_indexdel s | KMeta => f_meta s
  end.

Definition setk (s : fs) (k : kind) (b : bool) : fs :=
  let '(mkfs d dd sd st sdd i it idd m) := s in
  match k with
  | KDocs => mkfs b dd sd st sdd i it idd m
  | KDocsDel => mkfs d b sd st sdd i it idd m
  | KSdocs => mkfs d dd b st sdd i it idd m
  | KSdocsTmp => mkfs d dd sd b sdd i it idd m
  | KSdocsDel => mkfs d dd sd st b i it idd m
  | KIndex => mkfs d dd sd st sdd b it idd m
  | KIndexTmp => mkfs d dd sd st sdd i b idd m
  | KIndexDel => mkfs d dd sd st sdd i it b m
  | KMeta => mkfs d dd sd st sdd i it idd b
  end.

Definition fs_of (l : list kind) : fs := fold_left (fun s k => setk s k true) l empty_fs.

Definition fs_eqb (a b : fs) : bool :=
  Bool.eqb (f_docs a) (f_docs b) && Bool.eqb (f_docsdel a) (f_docsdel b) && Bool.eqb (f_sdocs a) (f_sdocs b)
  && Bool.eqb (f_sdocstmp a) (f_sdocstmp b) && Bool.eqb (f_sdocsdel a) (f_sdocsdel b)
  && Bool.eqb (f_index a) (f_index b) && Bool.eqb (f_indextmp a) (f_indextmp b)
  && Bool.eqb (f_indexdel a) (f_indexdel b) && Bool.eqb (f_meta a) (f_meta b).

Definition any_del (s : fs) : bool := f_docsdel s || f_indexdel s || f_sdocsdel s.

(* ------------------------------------------------------------------ file operations *)

(* what the code asks for *)
Inductive pop :=
| POpen (k : kind)            (* os.OpenFile(O_CREATE|O_RDWR): creates the file only when missing *)
| PCreate (k : kind)          (* os.Create: creates or truncates *)
| PRename (a b : kind)        (* os.Rename, error (ignored/logged) when the source is missing *)
| PRemove (k : kind).         (* os.Remove, error (ignored/logged) when missing *)

(* what is visible on disk (successful create / rename / unlink) *)
Inductive xop := XCreate (k : kind) | XRename (a b : kind) | XRemove (k : kind).

Definition step_pop (p : pop) (s : fs) : option xop * fs :=
  match p with
  | POpen k => if has s k then (None, s) else (Some (XCreate k), setk s k true)
  | PCreate k => (Some (XCreate k), setk s k true)
  | PRename a b => if has s a then (Some (XRename a b), setk (setk s a false) b true) else (None, s)
  | PRemove k => if has s k then (Some (XRemove k), setk s k false) else (None, s)
  end.

Fixpoint exec (p : list pop) (s : fs) : list xop * fs :=
  match p with
  | [] => ([], s)
  | o :: r => let '(x, s1) := step_pop o s in
              let '(xs, s2) := exec r s1 in
              (match x with Some x => x :: xs | None => xs end, s2)
  end.

Definition apply_x (x : xop) (s : fs) : fs :=
  match x with
  | XCreate k => setk s k true
  | XRename a b => if has s a then setk (setk s a false) b true else s
  | XRemove k => setk s k false
  end.

(* ------------------------------------------------------------------ programs (current code) *)

(* frac/active.go NewActive: meta first, then docs (fix 06bb8bb) *)
Definition new_active_prog : list pop := [POpen KMeta; POpen KDocs].
Definition new_active_prog_v0 : list pop := [POpen KDocs; POpen KMeta].

(* frac/active_sealer.go Seal: ._index created first, sorted docs written to ._sdocs and published,
   index written and published. sorted = not Config.SkipSortDocs *)
Definition seal_prog (sorted : bool) : list pop :=
  PCreate KIndexTmp :: (if sorted then [PCreate KSdocsTmp; PRename KSdocsTmp KSdocs] else [])
  ++ [PRename KIndexTmp KIndex].

(* frac/active.go Release (KeepMetaFile = false as in cmd/seq-db) *)
Definition release_prog (sorted : bool) : list pop :=
  PRemove KMeta :: (if sorted then [PRemove KDocs] else []).

(* frac/active.go Suicide, branch "was not released": index and sorted docs left by an interrupted
   seal, then docs, then meta (fixes 30ce157, 0dd016e and 06bb8bb) *)
Definition active_suicide_prog : list pop := [PRemove KIndex; PRemove KSdocs; PRemove KDocs; PRemove KMeta].
(* before 30ce157 *)
Definition active_suicide_prog_v2 : list pop := [PRemove KSdocs; PRemove KDocs; PRemove KMeta].
(* before 0dd016e *)
Definition active_suicide_prog_v1 : list pop := [PRemove KDocs; PRemove KMeta].
(* before 06bb8bb *)
Definition active_suicide_prog_v0 : list pop := [PRemove KMeta; PRemove KDocs].

(* frac/sealed.go Suicide: three renames to .del, then three removals *)
Definition sealed_suicide_prog : list pop :=
  [PRename KDocs KDocsDel; PRename KSdocs KSdocsDel; PRename KIndex KIndexDel;
   PRemove KDocsDel; PRemove KSdocsDel; PRemove KIndexDel].
(* mutant kept for documentation: removal without the .del phase *)
Definition sealed_suicide_prog_nodel : list pop := [PRemove KDocs; PRemove KSdocs; PRemove KIndex].

(* fracmanager/loader.go removeFractionFiles *)
Definition remove_fraction_files : list pop :=
  [PRemove KIndex; PRemove KDocs; PRemove KSdocs; PRemove KMeta;
   PRemove KIndexDel; PRemove KDocsDel; PRemove KSdocsDel].

(* ------------------------------------------------------------------ loader *)

Inductive class := CFatal | CFinishDel | CSkip | CSealedSD | CSealedD | CActive.

(* filterInfos + the branch structure of load; ._index/._sdocs are ignored by makeInfos *)
Definition classify (s : fs) : class :=
  if any_del s then CFinishDel
  else if negb (f_docs s) && negb (f_sdocs s) then CSkip
  else if f_meta s || f_index s then
    if f_sdocs s && f_index s then CSealedSD
    else if f_meta s then CActive else CSealedD
  else CFatal.

Inductive lkind := LNone | LSealed | LActive.

(* file operations of the loader on one fraction and what it then serves. hasdata: replay finds at
   least one document; nonlast: a later fraction is a non-empty active one (FracManager.Load then
   seals this one at once) *)
Definition load_prog_gen (newact : list pop) (sorted hasdata nonlast : bool) (s : fs) : option (list pop * lkind) :=
  match classify s with
  | CFatal => None
  | CFinishDel => Some (remove_fraction_files, LNone)
  | CSkip => Some ([], LNone)
  | CSealedSD => Some ([PRemove KMeta; PRemove KDocs], LSealed)
  | CSealedD => Some ([], LSealed)
  | CActive =>
      if hasdata then
        if nonlast then Some (newact ++ seal_prog sorted ++ release_prog sorted, LSealed)
        else Some (newact, LActive)
      else Some (newact ++ remove_fraction_files, LNone)
  end.
Definition load_prog := load_prog_gen new_active_prog.

(* the loader serves the fraction from files that really hold its documents:
   sorted = the index (if any) was built against the sorted docs file *)
Definition served_ok (sorted : bool) (s : fs) : bool :=
  match classify s with
  | CSealedSD => sorted
  | CSealedD => negb sorted
  | CActive => f_docs s
  | _ => true
  end.

(* document-bearing files that must not stay behind when a fraction is not served
   (a lone .meta and the ._index/._sdocs scratch files are tolerated) *)
Definition residue_ok (strict : bool) (s : fs) : bool :=
  negb (f_docs s || f_docsdel s || f_sdocs s || f_sdocsdel s || f_indexdel s || (strict && f_index s)).

(* a crash state is safe: the next start does not die, serves the fraction completely or not at
   all, leaves nothing of a fraction it does not serve, and never serves a doomed fraction *)
Definition safe (strict sorted hasdata doomed : bool) (s : fs) : bool :=
  match classify s with
  | CFatal => false
  | CFinishDel => true
  | CSkip => residue_ok strict s
  | CSealedSD | CSealedD => served_ok sorted s && negb doomed
  | CActive => if hasdata then f_docs s && negb doomed else true
  end.

Definition served_class (s : fs) (hasdata : bool) : bool :=
  match classify s with
  | CSealedSD | CSealedD => true
  | CActive => hasdata
  | _ => false
  end.

(* ------------------------------------------------------------------ life cycle of one fraction *)

Inductive mode := MNew | MActive | MSealed | MGone.
Inductive proc :=
| PDown                                (* crashed, not restarted yet *)
| PFatal                               (* the loader refused to start *)
| PIdle (m : mode)
| PRun (p : list pop) (m : mode)       (* executing file operations, then in mode m *)
| PSeal (p : list pop) (evict : bool)  (* proxyFrac state "Sealing": frac.Seal is writing; evict = a retention pass
                                          has pushed the fraction out meanwhile and waits in proxyFrac.Suicide (sealWg) *)
| PPar (p q : list pop) (m : mode).    (* after the swap to the sealed instance: Active.Release (p) runs, possibly
                                          overlapped with the deletion (q) the waiting/arriving Suicide performs *)

Record st := mkstate { files : fs; hasdata : bool; doomed : bool; pr : proc }.

Definition init_st := mkstate empty_fs false false (PIdle MNew).

Definition mode_of (l : lkind) : mode :=
  match l with LNone => MGone | LSealed => MSealed | LActive => MActive end.

(* the programs are parameters so that the pre-fix orders can be explored with the same machinery *)
(* pg_stale: proxyFrac.Suicide drops the result of its second trySetSuicided (after sealWg.Wait) and
   goes on with the Active instance it saw before the wait *)
Record progs := mkprogs { pg_new : list pop; pg_asuicide : list pop; pg_ssuicide : list pop; pg_stale : bool }.
Definition cur_progs := mkprogs new_active_prog active_suicide_prog sealed_suicide_prog false.
Definition v0_progs := mkprogs new_active_prog_v0 active_suicide_prog_v0 sealed_suicide_prog false.
Definition v1_progs := mkprogs new_active_prog active_suicide_prog_v1 sealed_suicide_prog false.
Definition v2_progs := mkprogs new_active_prog active_suicide_prog_v2 sealed_suicide_prog false.
Definition nodel_progs := mkprogs new_active_prog active_suicide_prog sealed_suicide_prog_nodel false.
Definition stale_progs := mkprogs new_active_prog active_suicide_prog sealed_suicide_prog true.

Definition restart (pg : progs) (sorted : bool) (s : st) (nonlast : bool) : st :=
  match load_prog_gen (pg_new pg) sorted (hasdata s) nonlast (files s) with
  | None => mkstate (files s) (hasdata s) (doomed s) PFatal
  | Some (p, l) =>
      mkstate (files s) (hasdata s) (doomed s || match l with LNone => true | _ => false end) (PRun p (mode_of l))
  end.

Definition next (pg : progs) (sorted : bool) (s : st) : list st :=
  let crash := mkstate (files s) (hasdata s) (doomed s) PDown in
  match pr s with
  | PFatal => []
  | PDown => [restart pg sorted s false; restart pg sorted s true]
  | PRun [] m => [mkstate (files s) (hasdata s) (doomed s) (PIdle m); crash]
  | PRun (o :: r) m =>
      let f' := snd (step_pop o (files s)) in
      [mkstate f' (hasdata s) (doomed s || any_del f') (PRun r m); crash]
  | PIdle MNew => [mkstate (files s) (hasdata s) (doomed s) (PRun (pg_new pg) MActive)]
  | PIdle MActive =>
      [mkstate (files s) true (doomed s) (PIdle MActive);                                   (* a bulk was appended *)
       mkstate (files s) (hasdata s) (doomed s) (PRun (pg_asuicide pg) MGone); crash]      (* retention *)
      ++ (if hasdata s
          then [mkstate (files s) true (doomed s) (PSeal (seal_prog sorted) false)]
          else [])
  | PSeal p ev =>
      let mk := mkstate (files s) (hasdata s) (doomed s) in
      crash ::
      (if ev then [] else [mk (PSeal p true)]) ++      (* retention evicts the fraction: Suicide waits for the seal *)
      match p with
      | o :: r =>
          let f' := snd (step_pop o (files s)) in
          [mkstate f' (hasdata s) (doomed s || any_del f') (PSeal r ev)]
      | [] =>
          (* f.sealed = sealed; f.active = nil; sealWg.Done(): Release starts, a waiting Suicide wakes up *)
          if ev then
            if pg_stale pg
            then [mk (PPar (release_prog sorted) [] MGone);                (* stale Active already released: deletes nothing *)
                  mk (PPar (release_prog sorted) (pg_asuicide pg) MGone)]  (* stale Active not yet released: Active.Suicide *)
            else [mk (PPar (release_prog sorted) (pg_ssuicide pg) MGone)]
          else [mk (PPar (release_prog sorted) [] MSealed)]
      end
  | PPar p q m =>
      let stepl := match p with
                   | o :: r => let f' := snd (step_pop o (files s)) in
                               [mkstate f' (hasdata s) (doomed s || any_del f') (PPar r q m)]
                   | [] => [] end in
      let stepr := match q with
                   | o :: r => let f' := snd (step_pop o (files s)) in
                               [mkstate f' (hasdata s) (doomed s || any_del f') (PPar p r m)]
                   | [] => [] end in
      let fin := match p, q with [], [] => [mkstate (files s) (hasdata s) (doomed s) (PIdle m)] | _, _ => [] end in
      (* retention arrives while Release is still running: Sealed.Suicide overlaps it *)
      let late := match q, m with
                  | [], MSealed => [mkstate (files s) (hasdata s) (doomed s) (PPar p (pg_ssuicide pg) MGone)]
                  | _, _ => [] end in
      crash :: stepl ++ stepr ++ fin ++ late
  | PIdle MSealed => [mkstate (files s) (hasdata s) (doomed s) (PRun (pg_ssuicide pg) MGone); crash]
  | PIdle MGone => [crash]
  end.

(* ------------------------------------------------------------------ whole directory *)

Record fracst := mkst { st_files : list kind; st_hasdata : bool; st_doomed : bool }.

Definition live_active (f : fracst) : bool :=
  match classify (fs_of (st_files f)) with CActive => st_hasdata f | _ => false end.

Fixpoint load_frs (sorted : bool) (d : list fracst) : list (lkind * fs) :=
  match d with
  | [] => []
  | f :: r =>
      let s := fs_of (st_files f) in
      match load_prog sorted (st_hasdata f) (existsb live_active r) s with
      | None => (LNone, s)
      | Some (p, l) => (l, snd (exec p s))
      end :: load_frs sorted r
  end.

Definition is_fatal (f : fracst) : bool :=
  match classify (fs_of (st_files f)) with CFatal => true | _ => false end.

(* fractions in ID (= creation) order; None = the process dies in the loader *)
Definition load_dir (sorted : bool) (d : list fracst) : option (list (lkind * fs)) :=
  if existsb is_fatal d then None else Some (load_frs sorted d).

(* ------------------------------------------------------------------ retention *)

Fixpoint sumN (l : list N) : N := match l with [] => 0%N | x :: r => (x + sumN r)%N end.

(* shrinkSizes: pop the first fraction while the total exceeds the limit (and a fraction is left) *)
Fixpoint shrink_from (limit : N) (sizes : list N) (total : N) : nat :=
  match sizes with
  | [] => 0
  | s :: r => if (limit <? total)%N then S (shrink_from limit r (total - s)%N) else 0
  end.
Definition shrink (limit : N) (sizes : list N) : nat := shrink_from limit sizes (sumN sizes).

(* the list of a running manager: rotate appends the new fraction, retention drops a prefix *)
Inductive fmop := FRotate | FShrink (limit : N) | FGrow (i : nat) (sz : N).
Record fm := mkfm { fm_next : nat; fm_live : list (nat * N); fm_removed : list nat }.
Definition fm_init := mkfm 0 [] [].
Fixpoint set_size (l : list (nat * N)) (i : nat) (sz : N) : list (nat * N) :=
  match l with
  | [] => []
  | (j, s) :: r => if Nat.eqb i j then (j, sz) :: r else (j, s) :: set_size r i sz
  end.
Definition fm_step (m : fm) (o : fmop) : fm :=
  match o with
  | FRotate => mkfm (S (fm_next m)) (fm_live m ++ [(fm_next m, 0%N)]) (fm_removed m)
  | FGrow i sz => mkfm (fm_next m) (set_size (fm_live m) i sz) (fm_removed m)
  | FShrink limit =>
      let k := shrink limit (map snd (fm_live m)) in
      mkfm (fm_next m) (skipn k (fm_live m)) (fm_removed m ++ map fst (firstn k (fm_live m)))
  end.
Definition fm_run (ops : list fmop) : fm := fold_left fm_step ops fm_init.

(* order of the list after a restart: sealed fractions in ID order, then the replayed active ones *)
Definition load_order (l : list (nat * bool)) : list (nat * bool) :=
  filter (fun f => snd f) l ++ filter (fun f => negb (snd f)) l.

(* ------------------------------------------------------------------ .frac-cache *)

(* fields of frac.Info that answers and retention depend on *)
Record info := mkinfo { i_docs : N; i_from : N; i_to : N; i_docsod : N; i_idxod : N; i_metaod : N }.

Definition info_eqb (a b : info) : bool :=
  N.eqb (i_docs a) (i_docs b) && N.eqb (i_from a) (i_from b) && N.eqb (i_to a) (i_to b)
  && N.eqb (i_docsod a) (i_docsod b) && N.eqb (i_idxod a) (i_idxod b) && N.eqb (i_metaod a) (i_metaod b).

(* frac.NewSealed: fast path iff a cache entry exists and its index size is positive; otherwise the
   header of the index file is read *)
Definition new_sealed (cached : option info) (hdr : info) : info :=
  match cached with
  | Some i => if (0 <? i_idxod i)%N then i else hdr
  | None => hdr
  end.

(* the cache of a running manager and its file. Names are never reused and a sealed fraction is
   immutable, so "hdr n" (what reading the index header of n gives) is a function of the name. *)
Definition cmap := list (nat * info).
Fixpoint cget (c : cmap) (n : nat) : option info :=
  match c with [] => None | (m, i) :: r => if Nat.eqb n m then Some i else cget r n end.
Definition cdel (c : cmap) (n : nat) : cmap := filter (fun e => negb (Nat.eqb n (fst e))) c.

Inductive cop :=
| CAdd (n : nat)        (* seal finished / sealed fraction loaded: AddFraction(name, its Info) *)
| CRemove (n : nat)     (* retention *)
| CSave                 (* SyncWithDisk: temp file + rename *)
| CCrashTorn            (* power loss: the unsynced file content is cut: it no longer parses *)
| CDamage (f : cmap)    (* the file is replaced by other parsable content (older version, partially
                           filled or emptied entries ...) *)
| CRestart.             (* new process: memory cache empty, file kept; loader reads it *)

Record cst := mkcst { c_mem : cmap; c_file : option cmap }.   (* None: missing or unparsable *)
Definition c_init := mkcst [] None.

Definition c_step (hdr : nat -> info) (s : cst) (o : cop) : cst :=
  match o with
  | CAdd n => mkcst ((n, new_sealed (match c_file s with Some f => cget f n | None => None end) (hdr n)) :: cdel (c_mem s) n) (c_file s)
  | CRemove n => mkcst (cdel (c_mem s) n) (c_file s)
  | CSave => mkcst (c_mem s) (Some (c_mem s))
  | CCrashTorn => mkcst [] None
  | CDamage f => mkcst (c_mem s) (Some f)
  | CRestart => mkcst [] (c_file s)
  end.
(* a damaged entry the loader can recognise: no positive index size *)
Definition entry_benign (hdr : nat -> info) (n : nat) (i : info) : Prop := i = hdr n \/ i_idxod i = 0%N.
Definition cop_benign (hdr : nat -> info) (o : cop) : Prop :=
  match o with CDamage f => forall n i, cget f n = Some i -> entry_benign hdr n i | _ => True end.

Definition c_run (hdr : nat -> info) (ops : list cop) : cst := fold_left (c_step hdr) ops c_init.
