(* C15 — the in-memory side of rotation / sealing / retention: the proxyFrac state machine and what
   FracManager.seal does with the result of proxyFrac.Seal. No proofs here.

   fracmanager/proxy_frac.go keeps three fields per fraction created by this process
   (f.active, f.sealed, f.readonly; here: "is not nil" / the flag) and documents four states:

       Active & Writable   active  value, sealed nil,   readonly false
       Sealing             active  value, sealed nil,   readonly true
       Sealed              active  nil,   sealed value, readonly true
       Suicided            active  nil,   sealed nil,   readonly true

   trySetSuicided clears both pointers and NEVER touches readonly, so a fraction deleted while it was still
   "Active & Writable" is in a FIFTH state (nil, nil, false) the table does not list. isSuicidedState
   (`f.active == nil && f.sealed == nil`) covers both; the variant `... && f.readonly` ("aligned" with the
   table; ro_variant = true below) does not.

   Goroutines of one fraction:
   * the seal goroutine: `go fm.seal(ref)` started by maintenance after rotate (or Stop()'s seal-on-exit of
     the current fraction, or Load): proxyFrac.Seal first critical section (guards, readonly = true,
     sealWg.Add), frac.Seal writing the index (no lock), second critical section (f.sealed = sealed,
     f.active = nil), sealWg.Done, Active.Release, then FracManager.seal replaces the list entry;
   * the pass goroutine of a retention pass inside outsider.Suicide(): trySetSuicided, sealWg.Wait when it
     saw the Sealing state, trySetSuicided again, Active.Suicide / Sealed.Suicide of what it got.
   FracManager.seal: nil error -> install; ErrSealingFractionSuicided -> skip; ANY other error ->
   logger.Fatal("sealing error") = the process dies.

   The order in which pushed-out fractions are suicided is left to the scheduler here (a superset of the
   real interleavings: one goroutine per pass, passes chained — ModelPar.v). fm.seal is called at most once
   per fraction: rotate() returns every fraction once, Stop() seals fm.active, which rotate never returned.

   Anchors: fracmanager/proxy_frac.go (Seal, trySetSuicided, Suicide, is*State), fracmanager/fracmanager.go
   (seal, rotate, maintenance, shrinkSizes, shiftFirstFrac, Stop). *)
From Coq Require Import List Bool Arith.
Import ListNotations.
From C15 Require Import Model ModelPar.

(* ------------------------------------------------------------------ the three fields *)

Record px := mkpx { x_active : bool; x_sealed : bool; x_readonly : bool }.

Definition px_writable := mkpx true false false.
Definition px_sealing := mkpx true false true.
Definition px_sealed := mkpx false true true.
Definition px_suicided_ro := mkpx false false true.    (* the table's "Suicided" *)
Definition px_suicided_rw := mkpx false false false.   (* suicided while Active & Writable: not in the table *)

Definition px_eqb (a b : px) : bool :=
  Bool.eqb (x_active a) (x_active b) && Bool.eqb (x_sealed a) (x_sealed b) && Bool.eqb (x_readonly a) (x_readonly b).

Definition is_active_state (x : px) : bool := x_active x && negb (x_sealed x) && negb (x_readonly x).
Definition is_sealing_state (x : px) : bool := x_active x && negb (x_sealed x) && x_readonly x.
Definition is_suicided_state (ro_variant : bool) (x : px) : bool :=
  negb (x_active x) && negb (x_sealed x) && (negb ro_variant || x_readonly x).

(* one of the 4+1 states *)
Definition px_known (x : px) : bool :=
  px_eqb x px_writable || px_eqb x px_sealing || px_eqb x px_sealed || px_eqb x px_suicided_ro || px_eqb x px_suicided_rw.

(* ------------------------------------------------------------------ proxyFrac.Seal / FracManager.seal *)

Inductive sealerr := ESuicided | EOther.            (* ErrSealingFractionSuicided / errors.New("sealing fraction is not active") *)
Inductive sealact := ActGoOn | ActSkip | ActFatal.  (* FracManager.seal: err == nil / errors.Is(err, ErrSealingFractionSuicided) / logger.Fatal *)

(* first critical section of proxyFrac.Seal *)
Definition seal_enter (ro_variant : bool) (x : px) : option sealerr * px :=
  if is_suicided_state ro_variant x then (Some ESuicided, x)
  else if negb (is_active_state x) then (Some EOther, x)
  else (None, mkpx (x_active x) (x_sealed x) true).

Definition fm_seal_on (r : option sealerr) : sealact :=
  match r with None => ActGoOn | Some ESuicided => ActSkip | Some EOther => ActFatal end.

(* second critical section: f.sealed = sealed; f.active = nil *)
Definition seal_swap (x : px) : px := mkpx false true (x_readonly x).

(* trySetSuicided: new fields, (active != nil, sealed != nil, sealing) as returned *)
Definition try_set_suicided (x : px) : px * (bool * bool * bool) :=
  let sealing := is_sealing_state x in
  (if sealing then x else mkpx false false (x_readonly x), (x_active x, x_sealed x, sealing)).

(* ------------------------------------------------------------------ one fraction in the running process *)

(* where the seal goroutine of the fraction is *)
Inductive gpc :=
| GNone        (* fm.seal was not called for it *)
| GStart       (* `go fm.seal(ref)` runs, proxyFrac.Seal has not taken the lock yet *)
| GSealing     (* between the two critical sections (sealWg = 1) *)
| GSwapped     (* after the swap and sealWg.Done: Active.Release, AddFraction *)
| GInstalled   (* the list entry is the plain *frac.Sealed (also: a sealed fraction loaded at start) *)
| GSkipped.    (* fm.seal returned on ErrSealingFractionSuicided *)

(* the manager's list and the pass goroutine *)
Inductive kpc :=
| KListed                   (* in fm.fracs *)
| KPushed (proxy : bool)    (* shifted out; outsider = the proxy (true) or the plain sealed fraction (false); Suicide() not yet entered *)
| KWaiting                  (* proxyFrac.Suicide saw Sealing and is in sealWg.Wait() *)
| KDone (a s : bool).       (* Suicide() went on with Active.Suicide (a) / Sealed.Suicide (s) *)

Record pfrac := mkxf { xf_x : px; xf_g : gpc; xf_k : kpc }.
Record pstate := mkp { p_fr : list pfrac; p_fatal : bool }.

Definition gpc_eqb (a b : gpc) : bool :=
  match a, b with
  | GNone, GNone | GStart, GStart | GSealing, GSealing | GSwapped, GSwapped | GInstalled, GInstalled | GSkipped, GSkipped => true
  | _, _ => false
  end.
Definition kpc_eqb (a b : kpc) : bool :=
  match a, b with
  | KListed, KListed | KWaiting, KWaiting => true
  | KPushed p, KPushed q => Bool.eqb p q
  | KDone a1 s1, KDone a2 s2 => Bool.eqb a1 a2 && Bool.eqb s1 s2
  | _, _ => false
  end.
Definition pfrac_eqb (a b : pfrac) : bool :=
  px_eqb (xf_x a) (xf_x b) && gpc_eqb (xf_g a) (xf_g b) && kpc_eqb (xf_k a) (xf_k b).

Definition pf_new := mkxf px_writable GNone KListed.            (* rotate: fractionProvider.newActiveRef *)
Definition pf_loaded_sealed := mkxf px_sealed GInstalled KListed. (* loader: a *frac.Sealed without a proxy *)

Inductive pev :=
| PRotate                 (* fm.rotate(): a new proxy, Active & Writable, appended to fm.fracs *)
| PSealGo (i : nat)       (* maintenance: `go fm.seal(ref_i)`; Stop(): fm.seal(fm.active); Load: fm.seal(active) *)
| PSealEnter (i : nat)    (* first critical section of proxyFrac.Seal, and what fm.seal does with an error *)
| PSealSwap (i : nat)     (* second critical section, sealWg.Done() *)
| PSealInstall (i : nat)  (* Release has returned; fm.seal: ref.instance = sealed *)
| PPass (k : nat)         (* shrinkSizes: shiftFirstFrac k times (may reach the current active fraction) *)
| PSuicide (i : nat).     (* the pass goroutine inside outsider_i.Suicide(): next trySetSuicided + the deletion *)

(* the seal goroutine / the Suicide of fraction f performs its next step *)
Definition fstep (ro_variant : bool) (e : pev) (f : pfrac) : pfrac * bool :=
  match e with
  | PSealGo _ => (match xf_g f with GNone => mkxf (xf_x f) GStart (xf_k f) | _ => f end, false)
  | PSealEnter _ =>
      match xf_g f with
      | GStart =>
          let '(r, x') := seal_enter ro_variant (xf_x f) in
          match fm_seal_on r with
          | ActGoOn => (mkxf x' GSealing (xf_k f), false)
          | ActSkip => (mkxf x' GSkipped (xf_k f), false)
          | ActFatal => (f, true)
          end
      | _ => (f, false)
      end
  | PSealSwap _ => (match xf_g f with GSealing => mkxf (seal_swap (xf_x f)) GSwapped (xf_k f) | _ => f end, false)
  | PSealInstall _ => (match xf_g f with GSwapped => mkxf (xf_x f) GInstalled (xf_k f) | _ => f end, false)
  | PSuicide _ =>
      (match xf_k f with
       | KPushed false => mkxf (xf_x f) (xf_g f) (KDone false true)          (* frac.Sealed.Suicide of the list entry *)
       | KPushed true =>
           let '(x', (a, s, sealing)) := try_set_suicided (xf_x f) in
           mkxf x' (xf_g f) (if sealing then KWaiting else KDone a s)
       | KWaiting =>
           match xf_g f with
           | GSealing => f                                                     (* sealWg.Wait() blocks *)
           | _ => let '(x', (a, s, _)) := try_set_suicided (xf_x f) in mkxf x' (xf_g f) (KDone a s)
           end
       | _ => f
       end, false)
  | _ => (f, false)
  end.

Definition ev_pos (e : pev) : option nat :=
  match e with
  | PSealGo i | PSealEnter i | PSealSwap i | PSealInstall i | PSuicide i => Some i
  | _ => None
  end.

Definition k_listed (f : pfrac) : bool := match xf_k f with KListed => true | _ => false end.

(* shiftFirstFrac: the outsider is the list entry as it is at that moment *)
Definition push1 (f : pfrac) : pfrac :=
  mkxf (xf_x f) (xf_g f) (KPushed (negb (gpc_eqb (xf_g f) GInstalled))).
Fixpoint push_first (k : nat) (l : list pfrac) : list pfrac :=
  match l with
  | [] => []
  | f :: r =>
      match k_listed f, k with
      | true, S k' => push1 f :: push_first k' r
      | _, _ => f :: push_first k r
      end
  end.

Definition pstep (ro_variant : bool) (s : pstate) (e : pev) : pstate :=
  if p_fatal s then s else                      (* logger.Fatal: os.Exit, nothing runs any more *)
  match e with
  | PRotate => mkp (p_fr s ++ [pf_new]) false
  | PPass k => mkp (push_first k (p_fr s)) false
  | _ =>
      match ev_pos e with
      | Some i =>
          match nth_error (p_fr s) i with
          | Some f => let '(f', fatal) := fstep ro_variant e f in mkp (set_nth i f' (p_fr s)) fatal
          | None => s
          end
      | None => s
      end
  end.

(* the code as it is, and with the seeded predicate `... && f.readonly` *)
Definition prun (evs : list pev) (s : pstate) : pstate := fold_left (pstep false) evs s.
Definition prun_ro (evs : list pev) (s : pstate) : pstate := fold_left (pstep true) evs s.

(* what FracManager.Load leaves: sealed fractions without a proxy, then (possibly) unsealed ones with a fresh proxy *)
Definition pf_initial (f : pfrac) : bool := pfrac_eqb f pf_new || pfrac_eqb f pf_loaded_sealed.
Definition p_initial (s : pstate) : bool := forallb pf_initial (p_fr s) && negb (p_fatal s).

(* ------------------------------------------------------------------ what must hold for one fraction *)

(* fields and goroutine positions fit together:
   - a known state of the table (4 + 1);
   - before the first critical section of its seal the fraction is Active & Writable or suicided-from-writable,
     between the critical sections it is Sealing, afterwards Sealed or Suicided;
   - a listed fraction is served (not suicided); a Suicide that went on has taken exactly one instance, the one
     that owns the files (Active before the swap, Sealed after it), and the fields say "suicided" (or the entry was
     the plain sealed fraction); a seal that found the fraction suicided was skipped only for a fraction whose
     Suicide has gone on *)
Definition pf_ok (f : pfrac) : bool :=
  let x := xf_x f in
  px_known x &&
  match xf_g f with
  | GNone | GStart => px_eqb x px_writable || px_eqb x px_suicided_rw
  | GSealing => px_eqb x px_sealing
  | GSwapped | GInstalled => px_eqb x px_sealed || px_eqb x px_suicided_ro
  | GSkipped => px_eqb x px_suicided_rw
  end &&
  match xf_k f with
  | KListed => negb (is_suicided_state false x)
  | KPushed true => negb (is_suicided_state false x)
  | KPushed false => gpc_eqb (xf_g f) GInstalled && px_eqb x px_sealed
  | KWaiting => match xf_g f with GSealing | GSwapped | GInstalled => negb (is_suicided_state false x) | _ => false end
  | KDone a s =>
      xorb a s &&
      (if a then match xf_g f with GNone | GStart | GSkipped => true | _ => false end
       else match xf_g f with GSwapped | GInstalled => true | _ => false end) &&
      (is_suicided_state false x || (gpc_eqb (xf_g f) GInstalled && px_eqb x px_sealed))
  end &&
  (negb (gpc_eqb (xf_g f) GSkipped) || kpc_eqb (xf_k f) (KDone true false)).

(* the fraction is completely gone for the process: Suicide() went on with the instance owning the files *)
Definition pf_deleted (f : pfrac) : bool := match xf_k f with KDone _ _ => true | _ => false end.

(* ------------------------------------------------------------------ agreement with the directory model *)

(* the fields of the proxy behind a fraction of ModelPar.v in process state pr *)
Definition px_of_proc (p : proc) : option px :=
  match p with
  | PIdle MActive => Some px_writable
  | PSeal _ false => Some px_sealing
  | PPar _ [] MSealed | PIdle MSealed => Some px_sealed
  | _ => None
  end.

(* what ModelPar.evict1 (shiftFirstFrac + Suicide, merged into one step there) must do to a fraction whose proxy
   is in state x, according to trySetSuicided: wait for the seal / Active.Suicide / Sealed.Suicide *)
Definition evict_by_fields (x : px) (p : proc) : proc :=
  let '(_, (a, s, sealing)) := try_set_suicided x in
  if sealing then match p with PSeal q _ => PSeal q true | _ => p end
  else if a then PRun active_suicide_prog MGone
  else if s then match p with PPar q _ _ => PPar q sealed_suicide_prog MGone | _ => PRun sealed_suicide_prog MGone end
  else p.
