(* C15 — property theorems. Only statements, each closed by `exact <lemma>` from Proofs.v, with
   Print Assumptions beneath, and the non-vacuity / refutation examples.

   [reachable pg sorted s]: s is a state (files on disk, replay outcome, "deletion was seen on disk"
   flag, what the process is doing) of ONE fraction after any history of create / append / seal+release /
   retention — retention also WHILE the fraction is being sealed (proxyFrac.Suicide waits for the seal,
   then Sealed.Suicide runs overlapped with Active.Release in any interleaving) or while Release is
   still running —, with a crash allowed after every single file operation and any number of restarts
   (the loader's own removals can crash too). sorted = not SkipSortDocs. cur_progs = the operation
   orders of the code as it is now. *)
From Coq Require Import List Bool Arith NArith.
Import ListNotations.
From C15 Require Import Model Reach Proofs.

(* From every crash state of every history the loader does not refuse to start. *)
Theorem C15_startup_total : forall sorted s, reachable cur_progs sorted s -> pr s <> PFatal.
Proof. exact never_fatal. Qed.
Print Assumptions C15_startup_total.

(* Same for a whole data directory: if every fraction in it is in a state a crash can leave, the
   loader returns. *)
Theorem C15_startup_total_dir :
  forall sorted d, Forall (crash_state cur_progs sorted) d -> load_dir sorted d <> None.
Proof. exact load_dir_total. Qed.
Print Assumptions C15_startup_total_dir.

(* All or nothing, with and without sorted docs: in every reachable state the next start serves the
   fraction from files that hold all its documents, or does not serve it and no document-bearing
   file of it (.docs .sdocs .index *.del) stays behind; a fraction that had a .del file or that a
   start dropped is never served again; what the running process believes is consistent with it. *)
Theorem C15_all_or_nothing : forall sorted s, reachable cur_progs sorted s -> st_good true sorted s = true.
Proof. exact good_all. Qed.
Print Assumptions C15_all_or_nothing.

(* Retention: the pass removes a prefix of the list — whole fractions, oldest first —, enough of it
   (total <= limit or nothing left) and not more than needed. *)
Theorem C15_oldest_first :
  forall limit sizes, let k := shrink limit sizes in
    k <= length sizes
    /\ ((sumN (skipn k sizes) <= limit)%N \/ k = length sizes)
    /\ (k = 0 \/ (limit < sumN (skipn (k - 1) sizes))%N).
Proof. exact shrink_spec. Qed.
Print Assumptions C15_oldest_first.

(* Over any history of rotations, size changes and retention passes of a running manager the
   fractions removed so far are exactly the oldest ones: removed ++ live = creation order. *)
Theorem C15_retention_prefix :
  forall ops, fm_removed (fm_run ops) ++ map fst (fm_live (fm_run ops)) = seq 0 (fm_next (fm_run ops)).
Proof. exact fm_run_inv. Qed.
Print Assumptions C15_retention_prefix.

(* After a restart the list is again in creation order provided no unsealed fraction is older than
   a sealed one (seals finish in creation order). *)
Theorem C15_load_order : forall l, ordered l -> load_order l = l.
Proof. exact load_order_id. Qed.
Print Assumptions C15_load_order.

(* .frac-cache: after any history of seals/loads (add), retention (remove), saves, power losses
   that tear the unsynced file, replacement of the file by other PARSABLE content whose entries are
   each either right or recognisably damaged (no positive index size: stripped to the name, emptied,
   partially filled, older version), and restarts, loading fraction n through the cache file gives
   the Info that reading its index header gives. (An entry with a positive index size and wrong
   other numbers is taken at face value by the code: outside the hypothesis.) *)
Theorem C15_cache_transparent :
  forall hdr ops n, Forall (cop_benign hdr) ops ->
    new_sealed (match c_file (c_run hdr ops) with Some f => cget f n | None => None end) (hdr n) = hdr n.
Proof. exact cache_transparent. Qed.
Print Assumptions C15_cache_transparent.

(* ---------------------------------------------------------------- refutations kept as documentation *)

(* defect #7, before fix 06bb8bb (docs created first / meta removed first): a crash leaves a lone
   .docs file and the loader refuses to start *)
Example C15_refuted_docs_only_v0 :
  exists s, reachable v0_progs true s /\ (match pr s with PFatal => true | _ => false end) = true.
Proof. exact v0_fatal. Qed.

(* before fix 0dd016e (Active.Suicide leaves a .sdocs of an interrupted seal): lone .sdocs => Fatal *)
Example C15_refuted_lone_sdocs_v1 :
  exists s, reachable v1_progs true s /\ (match pr s with PFatal => true | _ => false end) = true.
Proof. exact v1_fatal. Qed.

(* proxyFrac.Suicide dropping the result of its second trySetSuicided (after sealWg.Wait): retention of
   a fraction in state Sealing goes on with the stale, already released Active and deletes nothing:
   the process has dropped the fraction but .sdocs/.index stay and the next start serves it again *)
Example C15_stale_suicide_refuted :
  exists s, reachable stale_progs true s /\ negb (st_good true true s) = true.
Proof. exact stale_bad. Qed.

(* deleting a sealed fraction without the .del phase leaves a lone .index behind *)
Example C15_nodel_refuted : exists s, reachable nodel_progs true s /\ negb (st_good true true s) = true.
Proof. exact nodel_bad. Qed.

(* before fix 30ce157, with SkipSortDocs: seal publishes .index, crash before .meta is removed,
   restart (replayed as active), retention deletes it as an active fraction: .index stays forever *)
Example C15_unsorted_lone_index_v2_refuted :
  exists s, reachable v2_progs false s /\ negb (st_good true false s) = true.
Proof. exact v2_lone_index. Qed.

(* the fast path without its guard "index size > 0" uses a damaged entry (zero Info) as it is *)
Example C15_cache_noguard_refuted :
  exists e hdr, (forall i, e = Some i -> i_idxod i = 0%N) /\ new_sealed_noguard e hdr <> hdr /\ new_sealed e hdr = hdr.
Proof. exact noguard_refuted. Qed.

(* a sealed fraction younger than an unsealed one is listed (and so removed) before it *)
Example C15_load_order_unordered_refuted :
  load_order [(0, true); (1, false); (2, true)] = [(0, true); (2, true); (1, false)].
Proof. reflexivity. Qed.

(* ---------------------------------------------------------------- non-vacuity *)

(* the reachable set is not trivial: a sealed fraction in the middle of its deletion, a fraction
   replayed after an interrupted seal, and a finished deletion are all reachable *)
Example C15_nonvacuous_reach :
  (exists s, reachable cur_progs true s /\ st_eqb s (mkstate (fs_of [KSdocsDel; KIndex]) true true (PRun [PRename KIndex KIndexDel; PRemove KDocsDel; PRemove KSdocsDel; PRemove KIndexDel] MGone)) = true)
  /\ (exists s, reachable cur_progs true s /\ st_eqb s (mkstate (fs_of [KDocs; KSdocs; KIndexTmp; KMeta]) true false (PIdle MActive)) = true)
  /\ (exists s, reachable cur_progs true s /\ st_eqb s (mkstate empty_fs true true (PIdle MGone)) = true)
  (* evicted while sealing: Sealed.Suicide has renamed .sdocs, Release has not yet removed .meta/.docs *)
  /\ (exists s, reachable cur_progs true s /\
        st_eqb s (mkstate (fs_of [KDocsDel; KSdocsDel; KIndex; KMeta]) true true
                   (PPar [PRemove KMeta; PRemove KDocs] [PRename KIndex KIndexDel; PRemove KDocsDel; PRemove KSdocsDel; PRemove KIndexDel] MGone)) = true).
Proof. repeat split; apply exists_reachable; vm_compute; reflexivity. Qed.

Example C15_nonvacuous_dir :
  Forall (crash_state cur_progs true) [mkst [KSdocs; KIndex] true false; mkst [KDocs; KMeta] true false].
Proof.
  repeat constructor.
  - destruct (exists_reachable cur_progs true (fun t => fs_eqb (files t) (fs_of [KSdocs; KIndex]) && Bool.eqb (hasdata t) true)) as [s [Hr Hp]];
      [vm_compute; reflexivity|].
    apply andb_true_iff in Hp as [H1 H2]. exists s. repeat split; [exact Hr|apply fs_eqb_true; exact H1|apply eqb_prop; exact H2].
  - destruct (exists_reachable cur_progs true (fun t => fs_eqb (files t) (fs_of [KDocs; KMeta]) && Bool.eqb (hasdata t) true)) as [s [Hr Hp]];
      [vm_compute; reflexivity|].
    apply andb_true_iff in Hp as [H1 H2]. exists s. repeat split; [exact Hr|apply fs_eqb_true; exact H1|apply eqb_prop; exact H2].
Qed.

Example C15_nonvacuous_shrink : shrink 10 [4; 5; 6; 3]%N = 2 /\ shrink 9 [4; 5; 6; 3]%N = 2 /\ shrink 8 [4; 5; 6; 3]%N = 3.
Proof. repeat split. Qed.

Example C15_nonvacuous_cache :
  let hdr := fun n => mkinfo (N.of_nat n) 1 2 3 4 0 in
  c_file (c_run hdr [CAdd 1; CAdd 2; CSave; CRemove 1; CRestart; CAdd 2]) = Some [(2, hdr 2); (1, hdr 1)].
Proof. reflexivity. Qed.

(* the hypothesis of C15_cache_transparent is met by a history that damages the file: entry 1
   stripped to the name (all zero), entry 2 intact *)
Example C15_nonvacuous_cache_damage :
  let hdr := fun n => mkinfo (N.of_nat n) 1 2 3 4 0 in
  let ops := [CAdd 1; CAdd 2; CSave; CDamage [(1, mkinfo 0 0 0 0 0 0); (2, hdr 2)]; CRestart; CAdd 1] in
  Forall (cop_benign hdr) ops /\ cget (c_mem (c_run hdr ops)) 1 = Some (hdr 1).
Proof.
  intros hdr ops. split; [|reflexivity]. unfold ops.
  do 3 (apply Forall_cons; [exact I|]).
  apply Forall_cons.
  - intros m j. simpl.
    destruct (Nat.eqb m 1) eqn:E1; [intro H; inversion H; right; reflexivity|].
    destruct (Nat.eqb m 2) eqn:E2; [|discriminate].
    intro H; inversion H. left. apply Nat.eqb_eq in E2. subst. reflexivity.
  - do 2 (apply Forall_cons; [exact I|]). apply Forall_nil.
Qed.
