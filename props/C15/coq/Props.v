(* C15 — property theorems. Only statements, each closed by `exact <lemma>` from Proofs.v, with
   Print Assumptions beneath, and the non-vacuity / refutation examples.

   [reachable pg sorted s]: s is a state (files on disk, replay outcome, "deletion was seen on disk"
   flag, what the process is doing) of ONE fraction after any history of create / append / seal+release /
   retention — retention also WHILE the fraction is being sealed (proxyFrac.Suicide waits for the seal,
   then Sealed.Suicide runs overlapped with Active.Release in any interleaving) or while Release is
   still running —, with a crash allowed after every single file operation and any number of restarts
   (the loader's own removals can crash too). sorted = not SkipSortDocs. cur_progs = the operation
   orders of the code as it is now. *)
From Coq Require Import List Bool Arith NArith.
Import ListNotations.
From C15 Require Import Model Reach Proofs ModelPar ModelPL ModelUse ModelProxy CaseDefs ProofsPar ProofsPL ProofsProxy.

(* From every crash state of every history the loader does not refuse to start. *)
Theorem C15_startup_total : forall sorted s, reachable cur_progs sorted s -> pr s <> PFatal.
Proof. exact never_fatal. Qed.
Print Assumptions C15_startup_total.

(* Same for a whole data directory: if every fraction in it is in a state a crash can leave, the
   loader returns. *)
Theorem C15_startup_total_dir :
  forall sorted d, Forall (crash_state cur_progs sorted) d -> load_dir sorted d <> None.
Proof. exact load_dir_total. Qed.
Print Assumptions C15_startup_total_dir.

(* All or nothing, with and without sorted docs: in every reachable state the next start serves the
   fraction from files that hold all its documents, or does not serve it and no document-bearing
   file of it (.docs .sdocs .index *.del) stays behind; a fraction that had a .del file or that a
   start dropped is never served again; what the running process believes is consistent with it. *)
Theorem C15_all_or_nothing : forall sorted s, reachable cur_progs sorted s -> st_good true sorted s = true.
Proof. exact good_all. Qed.
Print Assumptions C15_all_or_nothing.

(* Retention: the pass removes a prefix of the list — whole fractions, oldest first —, enough of it
   (total <= limit or nothing left) and not more than needed. *)
Theorem C15_oldest_first :
  forall limit sizes, let k := shrink limit sizes in
    k <= length sizes
    /\ ((sumN (skipn k sizes) <= limit)%N \/ k = length sizes)
    /\ (k = 0 \/ (limit < sumN (skipn (k - 1) sizes))%N).
Proof. exact shrink_spec. Qed.
Print Assumptions C15_oldest_first.

(* Over any history of rotations, size changes and retention passes of a running manager the
   fractions removed so far are exactly the oldest ones: removed ++ live = creation order. *)
Theorem C15_retention_prefix :
  forall ops, fm_removed (fm_run ops) ++ map fst (fm_live (fm_run ops)) = seq 0 (fm_next (fm_run ops)).
Proof. exact fm_run_inv. Qed.
Print Assumptions C15_retention_prefix.

(* After a restart the list is again in creation order provided no unsealed fraction is older than
   a sealed one (seals finish in creation order). *)
Theorem C15_load_order : forall l, ordered l -> load_order l = l.
Proof. exact load_order_id. Qed.
Print Assumptions C15_load_order.

(* .frac-cache: after any history of seals/loads (add), retention (remove), saves, power losses
   that tear the unsynced file, replacement of the file by other PARSABLE content whose entries are
   each either right or recognisably damaged (no positive index size: stripped to the name, emptied,
   partially filled, older version), and restarts, loading fraction n through the cache file gives
   the Info that reading its index header gives. (An entry with a positive index size and wrong
   other numbers is taken at face value by the code: outside the hypothesis.) *)
Theorem C15_cache_transparent :
  forall hdr ops n, Forall (cop_benign hdr) ops ->
    new_sealed (match c_file (c_run hdr ops) with Some f => cget f n | None => None end) (hdr n) = hdr n.
Proof. exact cache_transparent. Qed.
Print Assumptions C15_cache_transparent.

(* ---------------------------------------------------------------- the whole directory: concurrent deletions *)

(* [drun sorted evs d]: the directory d (fractions in creation order, each in its single-fraction state;
   pass goroutines with their queues of outsiders) after the events evs: a retention pass pushing out the
   k oldest listed fractions and starting ONE goroutine that deletes them one after another in list order
   (DPass k; the code after fix 14be38b), that goroutine performing its next file operation or turning to
   its next outsider (DJob j), goroutines of the fractions themselves (background seal, Release, loader
   removals: DStep i / DStepR i), bulks, seals, rotation, process death after ANY operation of ANY
   goroutine (DCrash), and a new process whose loader removals are again interleaved and interruptible
   (DRestart). Several passes may be in flight; the goroutine of a pass does nothing before every earlier
   pass goroutine has finished (fix bd65f76). [drun_v1]: the code between 14be38b and bd65f76 (pass
   goroutines independent of each other). [drun_v0]: the code before 14be38b, one deletion goroutine per
   outsider (DStep i also performs the deletion of a pushed-out fraction i). *)

(* All or nothing for every interleaving and every crash point: every fraction of the directory is in a
   good state (next start serves it completely or not at all, no document-bearing residue, the loader
   does not refuse to start), and a fraction whose deletion has reached the disk (.del seen) or that a
   start has dropped stays doomed and is neither listed by a process nor served by a later start. *)
Theorem C15_parallel_retention_all_or_nothing :
  forall sorted d0 evs, Forall (reachable cur_progs sorted) (d_fr d0) ->
    Forall (fun s => st_good true sorted s = true) (d_fr (drun sorted evs d0))
    /\ (forall evs' i s, nth_error (d_fr (drun sorted evs d0)) i = Some s -> doomed s = true ->
          exists s', nth_error (d_fr (drun sorted evs' (drun sorted evs d0))) i = Some s'
                     /\ doomed s' = true /\ visible s' = false).
Proof. exact par_all_or_nothing. Qed.
Print Assumptions C15_parallel_retention_all_or_nothing.

(* the same for the interleavings of the code before 14be38b (a superset) *)
Theorem C15_parallel_retention_all_or_nothing_v0 :
  forall sorted d0 evs, Forall (reachable cur_progs sorted) (d_fr d0) ->
    Forall (fun s => st_good true sorted s = true) (d_fr (drun_v0 sorted evs d0))
    /\ (forall evs' i s, nth_error (d_fr (drun_v0 sorted evs d0)) i = Some s -> doomed s = true ->
          exists s', nth_error (d_fr (drun_v0 sorted evs' (drun_v0 sorted evs d0))) i = Some s'
                     /\ doomed s' = true /\ visible s' = false).
Proof. exact par_all_or_nothing_v0. Qed.
Print Assumptions C15_parallel_retention_all_or_nothing_v0.

(* Oldest first in EVERY crash state of a pass: a directory of clean fractions with documents, one pass
   over its k oldest, ANY scheduling of the pass goroutine and of the other goroutines (sched: any events;
   those that let a goroutine perform an operation are used), crash after any operation, complete
   restart: the fractions no longer served are a prefix of the creation order, and every fraction is
   settled (served or gone, nothing pending). *)
Theorem C15_parallel_retention_prefix_at_restart :
  forall sorted k sched d0, Forall (fun s => clean sorted s = true) d0 ->
    prefix_shape (map alive (after_crashed_pass sorted k sched d0)) = true
    /\ Forall (fun s => settled s = true) (after_crashed_pass sorted k sched d0).
Proof. exact par_prefix_at_restart. Qed.
Print Assumptions C15_parallel_retention_prefix_at_restart.

(* ... and it stays a prefix after the restart and ANY following pass (any k', in particular the one the
   size rule chooses), run to its end. *)
Theorem C15_parallel_retention_prefix_eventually :
  forall sorted k sched k' d0, Forall (fun s => clean sorted s = true) d0 ->
    prefix_shape (map alive (after_next_pass sorted k' (after_crashed_pass sorted k sched d0))) = true.
Proof. exact par_prefix_eventually. Qed.
Print Assumptions C15_parallel_retention_prefix_eventually.

(* ANY NUMBER of passes in flight (the code after fix bd65f76: the goroutine of a pass first waits for the
   goroutine of the previous pass): a directory of clean fractions with documents, any events that start a
   pass (any k each time) or let a goroutine perform an operation - a Suicide blocked by a reader or by a
   seal is a pass goroutine that is not scheduled -, a crash after any operation, a complete restart: the
   fractions no longer served are a prefix of the creation order, and every fraction is settled. *)
Theorem C15_retention_prefix_any_number_of_passes :
  forall sorted evs d0, Forall (fun s => clean sorted s = true) d0 ->
    prefix_shape (map alive (after_crashed_passes sorted evs d0)) = true
    /\ Forall (fun s => settled s = true) (after_crashed_passes sorted evs d0).
Proof. exact par_prefix_any_passes. Qed.
Print Assumptions C15_retention_prefix_any_number_of_passes.

(* ---- the code between 14be38b and bd65f76 (pass goroutines independent of each other), kept as _v1 *)

(* TWO passes in flight: the goroutine of the first pass has not yet deleted its outsider (waiting for a
   reader / a seal), the goroutine of the second pass deletes a NEWER fraction first; a crash at that moment
   leaves the older one served next to the deleted newer one (replayed on the real code before the repair:
   known_findings.txt, fixed: bd65f76; regression class retention-overlap-older-served-newer-gone). *)
Example C15_parallel_retention_overlapping_passes_v1_refuted :
  exists sorted evs d0, Forall (fun s => clean sorted s = true) d0 /\
    prefix_shape (map alive (restart_all sorted (map crash1 (d_fr (drun_v1 sorted evs (mkd true d0 [])))))) = false.
Proof. exact par_overlapping_passes_v1_refuted. Qed.

(* ---- the code before fix 14be38b (one goroutine per outsider), kept as _v0 *)

(* "Oldest first" right after a crash inside a pass did NOT hold: two outsiders, the goroutine of the
   NEWER one gets as far as renaming its .sdocs to .sdocs.del, the older one has not started; crash;
   the start finishes off the newer fraction and serves the older one (replayed on the real code before the
   repair: known_findings.txt, fixed: 14be38b). *)
Theorem C15_parallel_retention_prefix_at_restart_v0_refuted :
  exists sorted k sched d0, Forall (fun s => clean sorted s = true) d0 /\
    prefix_shape (map alive (after_crashed_pass_v0 sorted k sched d0)) = false.
Proof. exact par_prefix_at_restart_v0_refuted. Qed.
Print Assumptions C15_parallel_retention_prefix_at_restart_v0_refuted.

(* sizes 1309, 1509, 196, limit 1505 (the real replay): the pass selects two fractions; crash as above; the
   manager then lists sizes 1309 and 196, the limit holds, the next pass removes nothing. *)
Theorem C15_parallel_retention_prefix_eventually_v0_refuted :
  exists sorted limit sizes sched d0, Forall (fun s => clean sorted s = true) d0 /\ length sizes = length d0 /\
    let k := shrink limit sizes in
    let d1 := after_crashed_pass_v0 sorted k sched d0 in
    let k' := shrink limit (live_sizes d1 sizes) in
    k = 2 /\ k' = 0 /\ prefix_shape (map alive (after_next_pass sorted k' d1)) = false.
Proof. exact par_prefix_eventually_v0_refuted. Qed.
Print Assumptions C15_parallel_retention_prefix_eventually_v0_refuted.

(* what did hold for the old code: the damage was confined to the k selected fractions, and the prefix came
   back once a later pass pushed out at least as many fractions as had survived among them *)
Theorem C15_parallel_retention_restart_bound_v0 :
  forall sorted k sched d0, Forall (fun s => clean sorted s = true) d0 ->
    length (after_crashed_pass_v0 sorted k sched d0) = length d0
    /\ forallb alive (skipn k (after_crashed_pass_v0 sorted k sched d0)) = true.
Proof. exact par_restart_bound_v0. Qed.
Print Assumptions C15_parallel_retention_restart_bound_v0.

Theorem C15_parallel_retention_prefix_eventually_v0_partial :
  forall sorted k sched k' d0, Forall (fun s => clean sorted s = true) d0 ->
    let d1 := after_crashed_pass_v0 sorted k sched d0 in
    count_true (map alive (firstn k d1)) <= k' ->
    prefix_shape (map alive (after_next_pass sorted k' d1)) = true.
Proof. exact par_prefix_eventually_v0. Qed.
Print Assumptions C15_parallel_retention_prefix_eventually_v0_partial.

(* ---------------------------------------------------------------- readers against deletion (use lock) *)

(* For every schedule of readers (RLock, flag check, provider release) and of the deleting goroutine
   (Lock, set flag, Unlock, renames and removals): no reader opens files of a fraction whose deletion has
   begun on disk, no rename or removal runs while a provider is out, and once the files have changed the
   flag is set (later readers get the empty provider) and no provider is out. *)
Theorem C15_use_lock_safe :
  forall prog f0 evs, let s := urun prog f0 evs in
    u_bad_open s = false /\ u_bad_op s = false /\ (u_files s <> f0 -> u_flag s = true /\ u_use s = 0).
Proof. exact use_lock_safe. Qed.
Print Assumptions C15_use_lock_safe.

(* ---------------------------------------------------------------- power loss *)

(* .frac-cache is written with NO fsync (temp file: create, write, rename; no File.Sync, no directory
   sync). After any history of adds, removals, saves (operation by operation, partial writes included),
   directory syncs by other paths, process deaths, POWER LOSSES (any number of the not-yet-synced renames
   lost, every file cut to any length) and restarts, loading fraction n through the file gives the Info
   of its index header. *)
Theorem C15_cache_transparent_powerloss :
  forall hdr ops n, new_sealed (p_lookup (p_run hdr ops) n) (hdr n) = hdr n.
Proof. exact cache_transparent_powerloss. Qed.
Print Assumptions C15_cache_transparent_powerloss.

(* The renames and removals of Sealed.Suicide are followed by NO directory sync. If directory operations
   reach the disk in issue order (journalled metadata, the crash model of crashfs) every power-loss state
   is safe ... *)
Theorem C15_del_powerloss_ordered :
  forall (sorted : bool) (i : nat),
    let s0 := if sorted then fs_of [KSdocs; KIndex] else fs_of [KDocs; KIndex] in
    let s := persist_ordered (sealed_suicide_xops sorted) i s0 in
    safe true sorted true (any_del s || negb (fs_eqb s s0)) s = true.
Proof. exact del_powerloss_ordered. Qed.
Print Assumptions C15_del_powerloss_ordered.

(* ... without that ordering it is not: .index renamed and removed on disk, the rename of .sdocs lost: a
   lone .sdocs, the loader refuses to start (file-system assumption, stated in the manifest). *)
Theorem C15_del_powerloss_unordered_refuted :
  exists mask, classify (persist (sealed_suicide_xops true) mask (fs_of [KSdocs; KIndex])) = CFatal.
Proof. exact del_powerloss_unordered_refuted. Qed.
Print Assumptions C15_del_powerloss_unordered_refuted.

(* ---------------------------------------------------------------- refutations kept as documentation *)

(* defect #7, before fix 06bb8bb (docs created first / meta removed first): a crash leaves a lone
   .docs file and the loader refuses to start *)
Example C15_refuted_docs_only_v0 :
  exists s, reachable v0_progs true s /\ (match pr s with PFatal => true | _ => false end) = true.
Proof. exact v0_fatal. Qed.

(* before fix 0dd016e (Active.Suicide leaves a .sdocs of an interrupted seal): lone .sdocs => Fatal *)
Example C15_refuted_lone_sdocs_v1 :
  exists s, reachable v1_progs true s /\ (match pr s with PFatal => true | _ => false end) = true.
Proof. exact v1_fatal. Qed.

(* proxyFrac.Suicide dropping the result of its second trySetSuicided (after sealWg.Wait): retention of
   a fraction in state Sealing goes on with the stale, already released Active and deletes nothing:
   the process has dropped the fraction but .sdocs/.index stay and the next start serves it again *)
Example C15_stale_suicide_refuted :
  exists s, reachable stale_progs true s /\ negb (st_good true true s) = true.
Proof. exact stale_bad. Qed.

(* deleting a sealed fraction without the .del phase leaves a lone .index behind *)
Example C15_nodel_refuted : exists s, reachable nodel_progs true s /\ negb (st_good true true s) = true.
Proof. exact nodel_bad. Qed.

(* before fix 30ce157, with SkipSortDocs: seal publishes .index, crash before .meta is removed,
   restart (replayed as active), retention deletes it as an active fraction: .index stays forever *)
Example C15_unsorted_lone_index_v2_refuted :
  exists s, reachable v2_progs false s /\ negb (st_good true false s) = true.
Proof. exact v2_lone_index. Qed.

(* the fast path without its guard "index size > 0" uses a damaged entry (zero Info) as it is *)
Example C15_cache_noguard_refuted :
  exists e hdr, (forall i, e = Some i -> i_idxod i = 0%N) /\ new_sealed_noguard e hdr <> hdr /\ new_sealed e hdr = hdr.
Proof. exact noguard_refuted. Qed.

(* a sealed fraction younger than an unsealed one is listed (and so removed) before it *)
Example C15_load_order_unordered_refuted :
  load_order [(0, true); (1, false); (2, true)] = [(0, true); (2, true); (1, false)].
Proof. reflexivity. Qed.

(* ---------------------------------------------------------------- non-vacuity *)

(* the reachable set is not trivial: a sealed fraction in the middle of its deletion, a fraction
   replayed after an interrupted seal, and a finished deletion are all reachable *)
Example C15_nonvacuous_reach :
  (exists s, reachable cur_progs true s /\ st_eqb s (mkstate (fs_of [KSdocsDel; KIndex]) true true (PRun [PRename KIndex KIndexDel; PRemove KDocsDel; PRemove KSdocsDel; PRemove KIndexDel] MGone)) = true)
  /\ (exists s, reachable cur_progs true s /\ st_eqb s (mkstate (fs_of [KDocs; KSdocs; KIndexTmp; KMeta]) true false (PIdle MActive)) = true)
  /\ (exists s, reachable cur_progs true s /\ st_eqb s (mkstate empty_fs true true (PIdle MGone)) = true)
  (* evicted while sealing: Sealed.Suicide has renamed .sdocs, Release has not yet removed .meta/.docs *)
  /\ (exists s, reachable cur_progs true s /\
        st_eqb s (mkstate (fs_of [KDocsDel; KSdocsDel; KIndex; KMeta]) true true
                   (PPar [PRemove KMeta; PRemove KDocs] [PRename KIndex KIndexDel; PRemove KDocsDel; PRemove KSdocsDel; PRemove KIndexDel] MGone)) = true).
Proof. repeat split; apply exists_reachable; vm_compute; reflexivity. Qed.

Example C15_nonvacuous_dir :
  Forall (crash_state cur_progs true) [mkst [KSdocs; KIndex] true false; mkst [KDocs; KMeta] true false].
Proof.
  repeat constructor.
  - destruct (exists_reachable cur_progs true (fun t => fs_eqb (files t) (fs_of [KSdocs; KIndex]) && Bool.eqb (hasdata t) true)) as [s [Hr Hp]];
      [vm_compute; reflexivity|].
    apply andb_true_iff in Hp as [H1 H2]. exists s. repeat split; [exact Hr|apply fs_eqb_true; exact H1|apply eqb_prop; exact H2].
  - destruct (exists_reachable cur_progs true (fun t => fs_eqb (files t) (fs_of [KDocs; KMeta]) && Bool.eqb (hasdata t) true)) as [s [Hr Hp]];
      [vm_compute; reflexivity|].
    apply andb_true_iff in Hp as [H1 H2]. exists s. repeat split; [exact Hr|apply fs_eqb_true; exact H1|apply eqb_prop; exact H2].
Qed.

Example C15_nonvacuous_shrink : shrink 10 [4; 5; 6; 3]%N = 2 /\ shrink 9 [4; 5; 6; 3]%N = 2 /\ shrink 8 [4; 5; 6; 3]%N = 3.
Proof. repeat split. Qed.

Example C15_nonvacuous_cache :
  let hdr := fun n => mkinfo (N.of_nat n) 1 2 3 4 0 in
  c_file (c_run hdr [CAdd 1; CAdd 2; CSave; CRemove 1; CRestart; CAdd 2]) = Some [(2, hdr 2); (1, hdr 1)].
Proof. reflexivity. Qed.

(* the hypothesis of C15_cache_transparent is met by a history that damages the file: entry 1
   stripped to the name (all zero), entry 2 intact *)
Example C15_nonvacuous_cache_damage :
  let hdr := fun n => mkinfo (N.of_nat n) 1 2 3 4 0 in
  let ops := [CAdd 1; CAdd 2; CSave; CDamage [(1, mkinfo 0 0 0 0 0 0); (2, hdr 2)]; CRestart; CAdd 1] in
  Forall (cop_benign hdr) ops /\ cget (c_mem (c_run hdr ops)) 1 = Some (hdr 1).
Proof.
  intros hdr ops. split; [|reflexivity]. unfold ops.
  do 3 (apply Forall_cons; [exact I|]).
  apply Forall_cons.
  - intros m j. simpl.
    destruct (Nat.eqb m 1) eqn:E1; [intro H; inversion H; right; reflexivity|].
    destruct (Nat.eqb m 2) eqn:E2; [|discriminate].
    intro H; inversion H. left. apply Nat.eqb_eq in E2. subst. reflexivity.
  - do 2 (apply Forall_cons; [exact I|]). apply Forall_nil.
Qed.

(* ---------------------------------------------------------------- non-vacuity of the new parts *)

(* the hypothesis of the directory theorems is met; the pass goroutine of the repaired code works on the
   OLDER outsider whatever the scheduler does (DStep 1 has no effect), the old code let the newer one go first *)
Example C15_nonvacuous_par :
  Forall (reachable cur_progs true) [clean_sealed true; clean_sealed true; clean_active]
  /\ Forall (fun s => clean true s = true) [clean_sealed true; clean_sealed true; clean_active]
  /\ map (fun s => any_del (files s))
        (d_fr (drun true [DPass 2; DStep 1; DStep 1; DJob 0; DJob 0; DCrash]
                 (mkd true [clean_sealed true; clean_sealed true; clean_active] []))) = [true; false; false]
  /\ map (fun s => any_del (files s))
        (d_fr (drun_v0 true [DPass 2; DStep 1; DStep 1; DCrash]
                 (mkd true [clean_sealed true; clean_sealed true; clean_active] []))) = [false; true; false]
  /\ map alive (after_crashed_pass true 2 [DStep 1; DJob 0; DJob 0; DStep 1] [clean_sealed true; clean_sealed true; clean_active]) = [false; true; true]
  /\ map alive (after_crashed_pass_v0 true 2 [1; 1] [clean_sealed true; clean_sealed true; clean_active]) = [true; false; true]
  /\ map alive (after_next_pass true 1 (after_crashed_pass_v0 true 2 [1; 1] [clean_sealed true; clean_sealed true; clean_active]))
     = [false; false; true].
Proof.
  split; [|split; [repeat (apply Forall_cons; [reflexivity|]); apply Forall_nil|repeat split; vm_compute; reflexivity]].
  repeat (apply Forall_cons; [|try apply Forall_nil]).
  - destruct (exists_reachable cur_progs true (fun t => st_eqb t (clean_sealed true))) as [s [Hr Hp]]; [vm_compute; reflexivity|].
    apply st_eqb_true in Hp. subst. exact Hr.
  - destruct (exists_reachable cur_progs true (fun t => st_eqb t (clean_sealed true))) as [s [Hr Hp]]; [vm_compute; reflexivity|].
    apply st_eqb_true in Hp. subst. exact Hr.
  - destruct (exists_reachable cur_progs true (fun t => st_eqb t clean_active)) as [s [Hr Hp]]; [vm_compute; reflexivity|].
    apply st_eqb_true in Hp. subst. exact Hr.
Qed.

(* two passes in flight: the second pass goroutine (DJob 1) is held back until the first has deleted its
   outsider; in the _v1 code it ran at once *)
Example C15_nonvacuous_passes :
  map alive (after_crashed_passes true [DPass 1; DPass 1; DJob 1; DJob 1; DJob 1] [clean_sealed true; clean_sealed true; clean_active])
    = [true; true; true]
  /\ map alive (restart_all true (map crash1 (d_fr (drun_v1 true [DPass 1; DPass 1; DJob 1; DJob 1; DJob 1]
                  (mkd true [clean_sealed true; clean_sealed true; clean_active] []))))) = [true; false; true]
  /\ map alive (after_crashed_passes true [DPass 1; DPass 1; DJob 0; DJob 0; DJob 1; DJob 0; DJob 0; DJob 0; DJob 0; DJob 0; DJob 0; DJob 0; DJob 1; DJob 1]
                  [clean_sealed true; clean_sealed true; clean_active]) = [false; false; true].
Proof. repeat split; vm_compute; reflexivity. Qed.

(* a reader holds a provider while the deletion is requested: nothing happens until it is released *)
Example C15_nonvacuous_use :
  let f0 := fs_of [KSdocs; KIndex] in
  map (fun o => (fst o, fs_eqb (snd o) f0)) (uobs sealed_suicide_prog f0 (u_init f0) [AAcq; ASuicide; ARel; AAcq])
  = [(true, true); (false, true); (false, false); (false, false)]
  /\ u_files (fst (uact_step sealed_suicide_prog f0 (fst (uact_step sealed_suicide_prog f0 (u_init f0) ASuicide)) AAcq)) = empty_fs.
Proof. split; vm_compute; reflexivity. Qed.

(* deletion that does not take the write lock renames files under a reader *)
Example C15_use_nolock_refuted :
  exists evs, u_bad_op (fold_left (ustep_nolock sealed_suicide_prog (fs_of [KSdocs; KIndex])) evs (u_init (fs_of [KSdocs; KIndex]))) = true.
Proof. exact use_nolock_refuted. Qed.

(* a save interrupted by a power loss after the rename, file cut to 10 of 40 bytes: the loader gets no map;
   with all 40 bytes it gets the saved one *)
Example C15_nonvacuous_cache_powerloss :
  let hdr := fun n => mkinfo (N.of_nat n) 1 2 3 4 0 in
  p_lookup (p_run hdr [PLAdd 1; PLCreate 40; PLWrite 40; PLRename; PLPower 0 10 0; PLRestart]) 1 = None
  /\ p_lookup (p_run hdr [PLAdd 1; PLCreate 40; PLWrite 40; PLRename; PLPower 0 40 0; PLRestart]) 1 = Some (hdr 1)
  /\ p_lookup (p_run hdr [PLAdd 1; PLCreate 40; PLWrite 40; PLRename; PLAdd 2; PLCreate 80; PLWrite 80; PLRename; PLPower 1 40 0; PLRestart]) 2 = None.
Proof. repeat split. Qed.

(* ---------------------------------------------------------------- rotation, seal goroutines, retention, Stop: the proxyFrac state machine *)

(* [prun evs s0]: the fractions of a running process, each with the three fields of its proxyFrac (active / sealed
   not nil, readonly) as the code sets them, the position of its seal goroutine (fm.seal: first critical section of
   proxyFrac.Seal, frac.Seal, second critical section + sealWg.Done, Release, replacement of the list entry) and of the
   pass goroutine that deletes it (shiftFirstFrac, trySetSuicided, sealWg.Wait, trySetSuicided again, Active.Suicide /
   Sealed.Suicide), after ANY sequence of: rotate, start of the seal goroutine of any fraction that has none yet
   (maintenance after rotate, Stop()'s seal-on-exit of the current fraction), any step of any seal goroutine, a retention
   pass pushing out any number of fractions (the current one included), any step of the Suicide of any pushed-out
   fraction. FracManager.seal: no error -> goes on, ErrSealingFractionSuicided -> skip, any other error -> logger.Fatal
   (p_fatal, the process is dead). s0: what FracManager.Load leaves (sealed fractions without a proxy, fresh proxies). *)

(* For every interleaving FracManager.seal never reaches the Fatal branch. *)
Theorem C15_seal_vs_suicide_no_fatal : forall evs s0, p_initial s0 = true -> p_fatal (prun evs s0) = false.
Proof. exact seal_vs_suicide_no_fatal. Qed.
Print Assumptions C15_seal_vs_suicide_no_fatal.

(* ... a seal arriving after the Suicide is skipped whatever state (of the 4+1) the fraction was suicided from; the only
   state trySetSuicided leaves alone is Sealing, and there Suicide waits for the seal instead. *)
Theorem C15_suicided_recognised_from_every_state : forall x, px_known x = true ->
  fm_seal_on (fst (seal_enter false (fst (try_set_suicided x)))) = if is_sealing_state x then ActFatal else ActSkip.
Proof. exact suicided_recognised. Qed.
Print Assumptions C15_suicided_recognised_from_every_state.

(* All or nothing and oldest first at the level of the process, for every interleaving: every fraction is in one of
   the 4+1 states and its fields fit the positions of its goroutines (pf_ok: before its seal has entered it is writable
   or suicided, between the critical sections Sealing, afterwards Sealed or Suicided; a listed fraction is never
   suicided; a Suicide that went on took exactly ONE instance - the Active one iff the swap has not happened, else the
   Sealed one - so the files are deleted by the routine that owns them; a skipped seal belongs to a fraction whose
   deletion went on); the fractions pushed out of the list are a prefix of the creation order; only pushed-out
   fractions are deleted. *)
Theorem C15_proxy_all_or_nothing : forall evs s0, p_initial s0 = true ->
  Forall (fun f => pf_ok f = true) (p_fr (prun evs s0))
  /\ prefix_shape (map k_listed (p_fr (prun evs s0))) = true
  /\ Forall (fun f => pf_deleted f = true -> k_listed f = false) (p_fr (prun evs s0)).
Proof. exact proxy_all_or_nothing. Qed.
Print Assumptions C15_proxy_all_or_nothing.

(* The directory model (ModelPar.v) decides by the process state of a fraction what a push-out and a seal do; the code
   decides by the three fields. Both agree: for a fraction of the directory model whose proxy is in state x, evict1
   starts exactly the deletion trySetSuicided selects (wait for the seal / Active.Suicide / Sealed.Suicide), the seal
   starts iff the first critical section of proxyFrac.Seal lets it pass, and such a fraction is listed. (The directory
   theorems above are over ModelPar.v, which merges shiftFirstFrac and the first trySetSuicided into one step.) *)
Theorem C15_proxy_dispatch_agrees_with_directory_model : forall sorted s x, px_of_proc (pr s) = Some x ->
  pr (evict1 s) = evict_by_fields x (pr s)
  /\ (hasdata s = true ->
      match fst (seal_enter false x) with
      | None => pr (seal1 sorted s) = PSeal (seal_prog sorted) false
      | Some _ => seal1 sorted s = s
      end)
  /\ listed s = true.
Proof. exact dispatch_agrees. Qed.
Print Assumptions C15_proxy_dispatch_agrees_with_directory_model.

(* The scripted interleavings of the correspondence class proxy:* (CaseDefs.script_step: each step = the model events
   the real goroutines perform until they are parked or blocked again) never kill the process in the model - the first
   half of case_spec_ok for CProxy. *)
Theorem C15_proxy_script_alive : forall n l, forallb po_alive (script_obs (script_init n) l) = true.
Proof. exact script_alive. Qed.
Print Assumptions C15_proxy_script_alive.

(* the seeded predicate isSuicidedState = `active == nil && sealed == nil && readonly` ("aligned" with the table in the
   header of proxy_frac.go): rotate, retention deletes the rotated fraction while it is Active & Writable (readonly stays
   false), then its seal goroutine starts: "sealing fraction is not active" -> logger.Fatal *)
Example C15_seal_vs_suicide_readonly_variant_refuted :
  exists evs, p_fatal (prun_ro evs (mkp [] false)) = true /\ p_fatal (prun evs (mkp [] false)) = false.
Proof. exact ro_variant_fatal. Qed.

(* non-vacuity: the hypothesis is met by the empty store and by a loaded one; each of the 4+1 states is reached; a seal
   after the suicide is skipped, a suicide during the seal waits and then takes the Sealed instance *)
Example C15_nonvacuous_proxy :
  p_initial (mkp [] false) = true /\ p_initial (mkp [pf_loaded_sealed; pf_new] false) = true
  /\ map xf_x (p_fr (prun [PRotate; PRotate; PRotate; PRotate; PRotate;
                           PSealGo 1; PSealEnter 1; PSealGo 2; PSealEnter 2; PSealSwap 2;
                           PSealGo 3; PSealEnter 3; PSealSwap 3; PPass 1; PSuicide 0; PSealGo 0; PSealEnter 0]
                          (mkp [] false)))
     = [px_suicided_rw; px_sealing; px_sealed; px_sealed; px_writable]
  /\ map (fun f => (xf_x f, xf_g f, xf_k f))
         (p_fr (prun [PRotate; PRotate; PPass 1; PSuicide 0; PSealGo 0; PSealEnter 0] (mkp [] false)))
     = [(px_suicided_rw, GSkipped, KDone true false); (px_writable, GNone, KListed)]
  /\ map (fun f => (xf_x f, xf_g f, xf_k f))
         (p_fr (prun [PRotate; PRotate; PSealGo 0; PSealEnter 0; PPass 1; PSuicide 0; PSuicide 0; PSealSwap 0; PSuicide 0; PSealInstall 0] (mkp [] false)))
     = [(px_suicided_ro, GInstalled, KDone false true); (px_writable, GNone, KListed)]
  /\ px_of_proc (pr clean_active) = Some px_writable
  /\ po_alive (last (script_obs (script_init 1) [SRotate; SPass 2; SSealEnter 1; SPass 1; SStop]) (mkpobs false [])) = true.
Proof. repeat split; vm_compute; reflexivity. Qed.
