(* C15 — proofs about the proxyFrac state machine (ModelProxy.v). *)
From Coq Require Import List Bool Arith Lia.
Import ListNotations.
From VLib Require Import CaseLib.
From C15 Require Import Model ModelPar ModelPL ModelUse ModelProxy CaseDefs.

(* ------------------------------------------------------------------ one fraction: finite case analysis *)

Ltac destr_pfrac f :=
  let x := fresh "x" in let g := fresh "g" in let k := fresh "k" in
  destruct f as [x g k]; destruct x as [[|] [|] [|]]; destruct g; destruct k as [|[|]| |[|] [|]].

Lemma pf_initial_ok f : pf_initial f = true -> pf_ok f = true.
Proof. destr_pfrac f; vm_compute; intro H; try reflexivity; discriminate H. Qed.

Lemma fstep_ok e f : pf_ok f = true -> pf_ok (fst (fstep false e f)) = true /\ snd (fstep false e f) = false.
Proof.
  destruct e as [|i|i|i|i|n|i]; destr_pfrac f; vm_compute; intro H; try discriminate H; split; reflexivity.
Qed.

Lemma fstep_listed v e f : k_listed (fst (fstep v e f)) = k_listed f.
Proof.
  destruct v; destruct e as [|i|i|i|i|n|i]; destr_pfrac f; reflexivity.
Qed.

Lemma push1_ok f : pf_ok f = true -> k_listed f = true -> pf_ok (push1 f) = true.
Proof. destr_pfrac f; vm_compute; intros H1 H2; try discriminate H1; try discriminate H2; reflexivity. Qed.

Lemma push1_listed f : k_listed (push1 f) = false.
Proof. reflexivity. Qed.

(* ------------------------------------------------------------------ lists *)

Lemma Forall_set_nth {A} (P : A -> Prop) x : forall l i, Forall P l -> P x -> Forall P (set_nth i x l).
Proof.
  induction l as [|y r IH]; intros i Hl Hx; simpl.
  - destruct i; constructor.
  - inversion Hl; subst. destruct i; constructor; auto.
Qed.

Lemma map_set_nth {A B} (g : A -> B) x : forall l i y, nth_error l i = Some y -> g x = g y ->
  map g (set_nth i x l) = map g l.
Proof.
  induction l as [|z r IH]; intros i y Hn Hg.
  - destruct i; discriminate Hn.
  - destruct i; simpl in *.
    + inversion Hn; subst. rewrite Hg. reflexivity.
    + f_equal. eapply IH; eauto.
Qed.

Lemma nth_error_Forall {A} (P : A -> Prop) : forall l i x, Forall P l -> nth_error l i = Some x -> P x.
Proof.
  induction l as [|y r IH]; intros i x Hl Hn.
  - destruct i; discriminate Hn.
  - inversion Hl; subst. destruct i; simpl in Hn.
    + inversion Hn; subst; assumption.
    + eapply IH; eauto.
Qed.

Lemma Forall_push_first : forall l k, Forall (fun f => pf_ok f = true) l -> Forall (fun f => pf_ok f = true) (push_first k l).
Proof.
  induction l as [|f r IH]; intros k H; simpl; [constructor|].
  inversion H; subst.
  destruct (k_listed f) eqn:E; [destruct k|]; constructor; auto.
  apply push1_ok; assumption.
Qed.

Lemma map_push_first : forall l k, map k_listed (push_first k l) = pat k (map k_listed l).
Proof.
  induction l as [|f r IH]; intros k; simpl; [reflexivity|].
  destruct (k_listed f) eqn:E; [destruct k|]; simpl; rewrite ?E, ?IH; reflexivity.
Qed.

Lemma pat_zero l : pat 0 l = l.
Proof. induction l as [|[|] r IH]; simpl; congruence. Qed.

Lemma pat_all_true' : forall B k, forallb (fun b => b) B = true -> prefix_shape (pat k B) = true.
Proof.
  induction B as [|b r IH]; intros k H; [reflexivity|].
  simpl in H. apply andb_true_iff in H as [Hb Hr]. subst b.
  destruct k; simpl.
  - rewrite pat_zero. exact Hr.
  - apply IH; exact Hr.
Qed.

Lemma prefix_shape_pat : forall l k, prefix_shape l = true -> prefix_shape (pat k l) = true.
Proof.
  induction l as [|b r IH]; intros k H; [reflexivity|].
  destruct b; simpl in *.
  - destruct k; simpl; [rewrite pat_zero; exact H|apply pat_all_true'; exact H].
  - apply IH; exact H.
Qed.

Lemma forallb_app_true : forall l, forallb (fun b : bool => b) l = true -> forallb (fun b : bool => b) (l ++ [true]) = true.
Proof. induction l as [|b r IH]; simpl; intro H; [reflexivity|]. apply andb_true_iff in H as [H1 H2]. rewrite H1, IH; auto. Qed.

Lemma prefix_shape_app_true : forall l, prefix_shape l = true -> prefix_shape (l ++ [true]) = true.
Proof.
  induction l as [|b r IH]; intro H; [reflexivity|].
  destruct b; simpl in *; [apply forallb_app_true; exact H|apply IH; exact H].
Qed.

(* ------------------------------------------------------------------ the invariant *)

Definition pinv (s : pstate) : Prop :=
  Forall (fun f => pf_ok f = true) (p_fr s) /\ p_fatal s = false /\ prefix_shape (map k_listed (p_fr s)) = true.

Lemma pstep_inv s e : pinv s -> pinv (pstep false s e).
Proof.
  intros [Hf [Hn Hp]]. unfold pstep. rewrite Hn.
  assert (Hloc : forall i, match nth_error (p_fr s) i with
                           | Some f => let '(f', fatal) := fstep false e f in mkp (set_nth i f' (p_fr s)) fatal
                           | None => s end = s \/
                 pinv match nth_error (p_fr s) i with
                      | Some f => let '(f', fatal) := fstep false e f in mkp (set_nth i f' (p_fr s)) fatal
                      | None => s end).
  { intro i. destruct (nth_error (p_fr s) i) as [f|] eqn:En; [right|left; reflexivity].
    pose proof (nth_error_Forall _ _ _ _ Hf En) as Hok. simpl in Hok.
    destruct (fstep_ok e f Hok) as [H1 H2].
    pose proof (fstep_listed false e f) as H3.
    destruct (fstep false e f) as [f' fatal]. simpl in *. subst fatal.
    split; [|split]; simpl.
    - apply Forall_set_nth; assumption.
    - reflexivity.
    - rewrite (map_set_nth k_listed f' _ _ f En H3). exact Hp. }
  assert (Hs : pinv s) by (split; [|split]; assumption).
  destruct e as [|i|i|i|i|k|i]; cbn [ev_pos];
    try (destruct (Hloc i) as [E|E]; [rewrite E; exact Hs|exact E]).
  - split; [|split]; simpl.
    + apply Forall_app; split; [exact Hf|repeat constructor].
    + reflexivity.
    + rewrite map_app. simpl. apply prefix_shape_app_true; exact Hp.
  - split; [|split]; simpl.
    + apply Forall_push_first; exact Hf.
    + reflexivity.
    + rewrite map_push_first. apply prefix_shape_pat; exact Hp.
Qed.

Lemma prun_inv evs : forall s, pinv s -> pinv (prun evs s).
Proof.
  unfold prun. induction evs as [|e r IH]; intros s H; simpl; [exact H|].
  apply IH. apply pstep_inv; exact H.
Qed.

Lemma initial_inv s : p_initial s = true -> prefix_shape (map k_listed (p_fr s)) = true -> pinv s.
Proof.
  unfold p_initial. intros H Hp. apply andb_true_iff in H as [H1 H2].
  split; [|split]; [|destruct (p_fatal s); [discriminate H2|reflexivity]|exact Hp].
  apply Forall_forall. intros f Hin. apply pf_initial_ok.
  rewrite forallb_forall in H1. apply H1; exact Hin.
Qed.

Lemma initial_listed : forall l, forallb pf_initial l = true -> prefix_shape (map k_listed l) = true.
Proof.
  assert (A : forall l, forallb pf_initial l = true -> forallb (fun b => b) (map k_listed l) = true).
  { induction l as [|f r IH]; simpl; intro H; [reflexivity|].
    apply andb_true_iff in H as [H1 H2]. rewrite (IH H2), andb_true_r.
    revert H1. destr_pfrac f; vm_compute; intro H; try reflexivity; discriminate H. }
  intros l H. destruct l as [|f r]; [reflexivity|].
  pose proof (A _ H) as H'. simpl in *. apply andb_true_iff in H' as [Hb Hr]. rewrite Hb. exact Hr.
Qed.

(* ------------------------------------------------------------------ the theorems *)

(* every interleaving: FracManager.seal never reaches logger.Fatal *)
Theorem seal_vs_suicide_no_fatal : forall evs s0, p_initial s0 = true -> p_fatal (prun evs s0) = false.
Proof.
  intros evs s0 H.
  assert (Hi : pinv s0).
  { apply initial_inv; [exact H|]. apply initial_listed. unfold p_initial in H. apply andb_true_iff in H as [H _]. exact H. }
  destruct (prun_inv evs s0 Hi) as [_ [Hn _]]. exact Hn.
Qed.

(* ... every fraction is in a consistent state (see pf_ok), and the fractions pushed out of the list are a prefix of
   the creation order; a fraction whose Suicide went on was pushed out *)
Theorem proxy_all_or_nothing : forall evs s0, p_initial s0 = true ->
  Forall (fun f => pf_ok f = true) (p_fr (prun evs s0))
  /\ prefix_shape (map k_listed (p_fr (prun evs s0))) = true
  /\ Forall (fun f => pf_deleted f = true -> k_listed f = false) (p_fr (prun evs s0)).
Proof.
  intros evs s0 H.
  assert (Hi : pinv s0).
  { apply initial_inv; [exact H|]. apply initial_listed. unfold p_initial in H. apply andb_true_iff in H as [H _]. exact H. }
  destruct (prun_inv evs s0 Hi) as [Hf [_ Hp]]. split; [exact Hf|split; [exact Hp|]].
  apply Forall_forall. intros f _. destruct f as [x g k]. destruct k; simpl; intro E; try discriminate E; reflexivity.
Qed.

(* a seal that arrives after the Suicide is skipped, whatever state the fraction was suicided from *)
Theorem suicided_recognised : forall x, px_known x = true ->
  fm_seal_on (fst (seal_enter false (fst (try_set_suicided x)))) =
  if is_sealing_state x then ActFatal (* not reachable: a second seal of a fraction being sealed *) else ActSkip.
Proof. intros [[|] [|] [|]]; vm_compute; intro H; try discriminate H; reflexivity. Qed.

(* the seeded predicate: suicide while Active & Writable, then the seal starts *)
Lemma ro_variant_fatal :
  exists evs, p_fatal (prun_ro evs (mkp [] false)) = true /\ p_fatal (prun evs (mkp [] false)) = false.
Proof. exists [PRotate; PRotate; PPass 1; PSuicide 0; PSealGo 0; PSealEnter 0]. split; vm_compute; reflexivity. Qed.

(* ------------------------------------------------------------------ agreement with ModelPar.evict1 / seal1 *)

Theorem dispatch_agrees : forall sorted s x, px_of_proc (pr s) = Some x ->
  pr (evict1 s) = evict_by_fields x (pr s)
  /\ (hasdata s = true ->
      match fst (seal_enter false x) with
      | None => pr (seal1 sorted s) = PSeal (seal_prog sorted) false
      | Some _ => seal1 sorted s = s
      end)
  /\ listed s = true.
Proof.
  intros sorted [f h d p] x H. simpl in *.
  destruct p as [| |m|q m|q ev|p q m]; try discriminate H.
  - destruct m; try discriminate H; inversion H; subst; repeat split; try reflexivity.
    unfold seal1; simpl. intro Hh. rewrite Hh. reflexivity.
  - destruct ev; try discriminate H. inversion H; subst. repeat split; reflexivity.
  - destruct q; try discriminate H. destruct m; try discriminate H. inversion H; subst. repeat split; reflexivity.
Qed.

(* ------------------------------------------------------------------ the driver's scripts stay inside the model *)

Lemma drain_inv : forall fuel p q, pinv p -> pinv (fst (drain fuel p q)).
Proof.
  induction fuel as [|f IH]; intros p q H; [exact H|].
  destruct q as [|h r]; [exact H|]. simpl.
  pose proof (pstep_inv p (PSuicide h) H) as H'.
  destruct (nth_error (p_fr (pstep false p (PSuicide h))) h) as [pf|]; [|apply IH; exact H'].
  destruct (xf_k pf); try (apply IH; exact H'). exact H'.
Qed.

Lemma fold_pstep_inv evs : forall p, pinv p -> pinv (fold_left (pstep false) evs p).
Proof. exact (prun_inv evs). Qed.

Lemma script_step_inv s e : pinv (ss_p s) -> pinv (ss_p (script_step s e)).
Proof.
  intro H. destruct e as [|i|i|i|k|]; unfold script_step.
  - apply pstep_inv; exact H.
  - cbn [fold_left ss_p]. apply pstep_inv, pstep_inv; exact H.
  - match goal with |- context [drain ?f ?p ?q] => pose proof (drain_inv f p q (pstep_inv _ _ H)) as D; destruct (drain f p q) end.
    exact D.
  - apply pstep_inv; exact H.
  - match goal with |- context [drain ?f ?p ?q] => pose proof (drain_inv f p q (pstep_inv _ _ H)) as D; destruct (drain f p q) end.
    exact D.
  - cbn [fold_left ss_p]. repeat apply pstep_inv; exact H.
Qed.

Lemma script_init_inv n : pinv (ss_p (script_init n)).
Proof.
  assert (A : forallb pf_initial (repeat pf_loaded_sealed n ++ [pf_new]) = true).
  { induction n as [|m IH]; [reflexivity|]. simpl. exact IH. }
  apply initial_inv.
  - unfold p_initial. simpl. rewrite A. reflexivity.
  - apply initial_listed. exact A.
Qed.

(* the model satisfies the executable statement of the correspondence class: alive after every step *)
Theorem script_alive : forall n l, forallb po_alive (script_obs (script_init n) l) = true.
Proof.
  intros n l. generalize (script_init n) (script_init_inv n).
  induction l as [|e r IH]; intros s H; [reflexivity|].
  simpl. pose proof (script_step_inv s e H) as H'.
  destruct H' as [Hf [Hn Hp]]. rewrite Hn. simpl. apply IH. split; [|split]; assumption.
Qed.
