"""C18 — the block cache is coherent, accounted and bounded (DESIGN.md section 7, C18)."""
import vcheck

PROP = "C18"

TRUSTED = [
    "Coq 8.16.1 kernel (coqc), vm_compute for case evaluation; no native_compute",
    "hand-written interleaving model props/C18/coq/Model.v of cache/cache.go + cache/cleaner.go: one label = one "
    "locked region (getOrCreate, save, recover, Cleanup incl. maxPayloadSize and the map rebuild, Release, rotate, markStale, CleanEmptyGenerations, "
    "ReleaseBuckets) or one atomic Add (tied to /repo by the correspondence run, not verified code)",
    "Go harness harness/cmd/hC18 (goroutines parked inside their loader callbacks, at verifhook.At in save, and a "
    "NewCache run from the Released() / SetGeneration() callbacks of a wrapper bucket; stable points detected through "
    "the WaitsTotal metric and, for a goroutine parked on the cleaner mutex, through runtime.Stack; export file cache/export_verif_c18.go)",
    "wg.Done() merged into the locked region before it; Cleaner.Cleanup's getSize+markStale taken as one step; "
    "float64 ratios 0.05 modelled as integer division by 20 (exact below 2^50); uint64 sizes as Z",
]
ASSUME = [
    "a cache is released only when none of its entries is still loading (no creator inside its loader), and no "
    "lookup starts on a released cache (callers hold the fraction's use lock) -- the only domain hypothesis of "
    "C18_accounting / C18_accounting_total / C18_cleanup_live_bound (race_free); witnessed on the real code (class "
    "witness-R3) and by Example C18_release_during_load_outside_domain",
    "loader sizes and entrySize are >= 0 (label_ok; uint64 in the Go code)",
    "interleavings finer than the schedule points the harness controls (loader callbacks, the Released() scan of "
    "ReleaseBuckets, verifhook.At(\"cache.save.after-unlock\")) are covered by the theorems over the model only",
]
RULE = ("event lists on the real cache package, model evaluated in Coq on the same list: exhaustive release subsets "
        "(every subset of 1..5 (thorough 6) caches, every release order for <= 3, and each subset again with a NewCache "
        "landing between ReleaseBuckets' unlocked scan and its locked removal), rotations (Rotate and markStale's) from "
        "every SetGeneration position of which a NewCache is started (AddBucket must block on the cleaner lock), "
        "random sequential op lists "
        "(get/get-with-error/panic/new/release/rotate/cleanup/gc), random schedules with creators parked inside "
        "their loaders or at the schedule point after save's unlock while other goroutines look up / wait / clean / "
        "rotate / release / drop generations, boundary schedules (sizes and limits multiples of 100), payload-rebuild "
        "schedules (200..260 entries, rotation, loaders parked in the fresh generation, a cleaning pass that shrinks "
        "the map around the recreatePayload threshold, second callers of the parked keys), and the "
        "regression schedules of the four repaired races. non-trivial = at least one lookup and one maintenance call with an "
        "effect (rotation, cleaning pass, generations or buckets removed); distinct by event list")


def harness_args(tier, seed, outdir):
    return ["-seed", str(seed), "-tier", tier, "-out", outdir]


def main(argv):
    return vcheck.standard_check(PROP, argv, harness_args, TRUSTED, ASSUME, RULE, coqchk=True)
