"""C18 — the block cache is coherent, accounted and bounded (DESIGN.md section 7, C18)."""
import vcheck

PROP = "C18"

TRUSTED = [
    "Coq 8.16.1 kernel (coqc), vm_compute for case evaluation; no native_compute",
    "hand-written interleaving model props/C18/coq/Model.v of cache/cache.go + cache/cleaner.go: one label = one "
    "locked region (getOrCreate, save, recover, Cleanup incl. maxPayloadSize and the map rebuild, Release, rotate, markStale, CleanEmptyGenerations, "
    "ReleaseBuckets) or one atomic Add (tied to /repo by the correspondence run, not verified code); the waiter's path of "
    "getOrCreate is three labels: locked lookup that finds a loading entry (pc PStart false -> PWait e), wg.Wait() returning "
    "(PWait e -> hit | PStart true), re-lock that re-examines payload[key] (PStart true -> hit | wait again | create), i.e. the "
    "`for ok` loop; the `if ok` form without the re-examination is the variant v_retry_recheck = false; a cleaning pass is "
    "NOT one label: LCleanBegin (getSize + markStale), then one LCleanCache c per bucket, any label in between; the seeded "
    "`if e.deleted || e.gen.stale` of save is the variant v_save_deleted_only = false",
    "Go harness harness/cmd/hC18 (goroutines parked inside their loader callbacks, at verifhook.At in save, inside "
    "Metrics.ReattemptsTotal.Inc() -- a prometheus counter with a callback, reached through reportReattempt between a waiter's "
    "wake-up after a failed load and its re-lock; the parked goroutine is identified by its goroutine id from runtime.Stack --, the "
    "cleaner parked inside CleanerMetrics.Oldest.Set() -- a prometheus gauge with a callback, reached through OldestSet at the end of "
    "markStale, i.e. after the generations were marked stale and before any cache is swept -- and a "
    "NewCache run from the Released() / SetGeneration() callbacks of a wrapper bucket; stable points detected through "
    "the WaitsTotal metric and, for a goroutine parked on the cleaner mutex, through runtime.Stack; export files cache/export_verif_c18.go, "
    "cache/export_verif_c18b.go (values of the valid entries, for the 'occupied' observation))",
    "wg.Done() merged into the locked region before it; Cleaner.Cleanup's getSize+markStale taken as one step; "
    "float64 ratios 0.05 modelled as integer division by 20 (exact below 2^50); uint64 sizes as Z",
]
ASSUME = [
    "a cache is released only when none of its entries is still loading (no creator inside its loader), and no "
    "lookup starts on a released cache (callers hold the fraction's use lock) -- the only domain hypothesis of "
    "C18_accounting / C18_accounting_total / C18_cleanup_live_bound / C18_single_flight (race_free); witnessed on the real code (class "
    "witness-R3) and by Example C18_release_during_load_outside_domain",
    "loader sizes and entrySize are >= 0 (label_ok; uint64 in the Go code)",
    "interleavings finer than the schedule points the harness controls (loader callbacks, the Released() scan of "
    "ReleaseBuckets, verifhook.At(\"cache.save.after-unlock\"), reportReattempt = between a waiter's wake-up after a failed "
    "load and its re-lock, OldestSet = between markStale and the sweeps of a cleaning pass -- not between the sweeps of two "
    "caches, not inside markStale) are covered by the theorems over the model only; in particular the gap between a waiter's unlock and "
    "its wg.Wait() (reportWait) and the unlocked read `e.wg == nil` after the wait are not separate schedule points of the harness",
]
RULE = ("event lists on the real cache package, model evaluated in Coq on the same list: exhaustive release subsets "
        "(every subset of 1..5 (thorough 6) caches, every release order for <= 3, and each subset again with a NewCache "
        "landing between ReleaseBuckets' unlocked scan and its locked removal), rotations (Rotate and markStale's) from "
        "every SetGeneration position of which a NewCache is started (AddBucket must block on the cleaner lock), "
        "random sequential op lists "
        "(get/get-with-error/panic/new/release/rotate/cleanup/gc), random schedules with creators parked inside "
        "their loaders or at the schedule point after save's unlock while other goroutines look up / wait / clean / "
        "rotate / release / drop generations, boundary schedules (sizes and limits multiples of 100), payload-rebuild "
        "schedules (200..260 entries, rotation, loaders parked in the fresh generation, a cleaning pass that shrinks "
        "the map around the recreatePayload threshold, second callers of the parked keys), retry-window schedules (>= 3 "
        "callers of one key: a creator whose loader returns an error or panics, 1..3 waiters parked between their wake-up and "
        "their re-lock, later callers of the key arriving in that window with loaders that succeed / fail at once or later, "
        "waiters re-locking one by one -- hit, wait again, or create -- with rotations / cleaning passes in between), pass-window schedules (a cleaning pass parked between markStale and its sweeps while loaders that "
        "were started before the pass finish -- value / error / panic --, cached keys are hit, new keys are looked up and a Rotate "
        "runs; the same window at random inside the concurrent random schedules), and the "
        "regression schedules of the four repaired races, of the seeded `if ok` retry (witness-M9) and of the seeded "
        "`deleted || stale` size rule of save (witness-M12). The spec checker "
        "evaluates on the implementation's observations: coherence, getSize = live sum = what the live entries occupy (entrySize + the size the loader of the held "
        "value reported) after every event outside a parked pass, size fields = occupied always, managed, bound, and "
        "one load per key and epoch (no goroutine enters its loader while another load of the same key from the same epoch is "
        "running or has succeeded; an epoch ends with an effective cleaning pass or a Release). non-trivial = at least one lookup and one maintenance call with an "
        "effect (rotation, cleaning pass, generations or buckets removed); distinct by event list")


def harness_args(tier, seed, outdir):
    return ["-seed", str(seed), "-tier", tier, "-out", outdir]


def main(argv):
    return vcheck.standard_check(PROP, argv, harness_args, TRUSTED, ASSUME, RULE, coqchk=True)
