"""C18 — the block cache is coherent, accounted and bounded (DESIGN.md section 7, C18)."""
import vcheck

PROP = "C18"

TRUSTED = [
    "Coq 8.16.1 kernel (coqc), vm_compute for case evaluation; no native_compute",
    "hand-written interleaving model props/C18/coq/Model.v of cache/cache.go + cache/cleaner.go: one label = one "
    "locked region (getOrCreate, save, recover, Cleanup, Release, rotate, markStale, CleanEmptyGenerations, "
    "ReleaseBuckets) or one atomic Add (tied to /repo by the correspondence run, not verified code)",
    "Go harness harness/cmd/hC18 (goroutines parked inside their loader callbacks; stable points detected through "
    "the WaitsTotal metric; read-only export file cache/export_verif_c18.go)",
    "wg.Done() merged into the locked region before it; Cleaner.Cleanup's getSize+markStale taken as one step; "
    "float64 ratios 0.05 modelled as integer division by 20 (exact below 2^50); uint64 sizes as Z",
]
ASSUME = [
    "a cache is released only when none of its entries is still loading (no creator inside its loader), and no "
    "lookup starts on a released cache (callers hold the fraction's use lock) -- hypothesis of C18_accounting, "
    "witnessed on the real code (class witness-R3) and by Example C18_release_during_load_outside_domain",
    "CleanEmptyGenerations does not run between a save's unlock and its gen.size.Add for the generation it drops "
    "(hypothesis of C18_accounting; not schedulable from outside the package; Example "
    "C18_gc_between_unlock_and_add_outside_domain)",
    "the listing-level corollary getSize = sum of ALL live entries (and live sum <= limit after a pass) is checked "
    "by the spec checker on every explored state, but only the per-generation form is proved (PARTIAL)",
    "interleavings finer than loader boundaries (between save's unlock and its Add) are covered by the theorems "
    "over the model only, not by the correspondence run",
]
RULE = ("event lists on the real cache package, model evaluated in Coq on the same list: exhaustive release subsets "
        "(every subset of 1..5 (thorough 6) caches, every release order for <= 3), random sequential op lists "
        "(get/get-with-error/panic/new/release/rotate/cleanup/gc), random schedules with creators parked inside "
        "their loaders while other goroutines look up / wait / clean / rotate / release, and the regression "
        "schedules of the repaired races. non-trivial = at least one lookup and one maintenance call with an "
        "effect (rotation, cleaning pass, generations or buckets removed); distinct by event list")


def harness_args(tier, seed, outdir):
    return ["-seed", str(seed), "-tier", tier, "-out", outdir]


def main(argv):
    return vcheck.standard_check(PROP, argv, harness_args, TRUSTED, ASSUME, RULE, coqchk=True)
