(* C18 — the listing-level corollaries: at quiescent points the size the cleaner accounts equals the sum of
   ALL live entries, and an uninterrupted cleaning pass leaves the live sum at or under the limit. *)
From Coq Require Import List ZArith Bool Arith Lia Permutation.
From C18 Require Import Model ProofsRelease ProofsManaged ProofsCoherent ProofsAcct ProofsBound ProofsListing.
Import ListNotations.
Local Open Scope nat_scope.

Record INV (st : state) : Prop := {
  i_m : inv_managed st; i_c : inv_coh st; i_a : inv_acc st; i_l : inv_lst st
}.

Lemma step_INV st l st' : step st l = Some st' -> racy st l = false -> label_ok l -> INV st -> INV st'.
Proof.
  intros H R LO [M C A L]. split.
  - eapply step_managed; eauto.
  - eapply step_coh; eauto.
  - eapply step_acc; eauto.
  - eapply step_lst; eauto.
Qed.

Lemma init_INV lim mg es : (0 <= es)%Z -> INV (init lim mg es).
Proof.
  intros Hes. split; [apply init_managed|apply init_coh|apply init_acc|].
  split; simpl; auto.
  - constructor; [simpl; tauto|constructor].
  - intros g [<-|[]]. split; auto.
  - exists []. auto.
  - intros c ca [].
  - intros e en H; destruct e; discriminate.
  - intros t th H; destruct t; discriminate.
Qed.

Lemma run_INV : forall ls st st', run st ls = Some st' -> race_free st ls = true -> Forall label_ok ls ->
  INV st -> INV st'.
Proof.
  induction ls; intros st st' H R F I; unfold run in H; simpl in H.
  - inversion H; subst; auto.
  - simpl in R. apply andb_prop in R. destruct R as [R1 R2]. apply negb_true_iff in R1.
    inversion F; subst. unfold step in R2. destruct (step_v repaired st a) eqn:E; [|discriminate].
    eapply IHls; eauto. eapply step_INV; eauto.
Qed.

(* ---------------------------------------------------------------- getSize = sum of all live entries *)
Definition no_pending (st : state) : Prop :=
  forall t th g s v, nth_error (threads st) t = Some th -> tpc th = PAdd g s v -> s = 0%Z.
Definition no_stale_attached (st : state) : Prop :=
  forall e en, nth_error (entries st) e = Some en -> eattached en = true -> esize en <> 0%Z ->
    gst (egen en) (gens st) = false.

Lemma pend_sum_no_pending st g : no_pending st -> pend_sum g (threads st) = 0%Z.
Proof.
  intros NP. unfold pend_sum.
  assert (H : forall th, In th (threads st) -> pend_term g th = 0%Z).
  { intros th Hin. apply In_nth_error in Hin. destruct Hin as [t Ht]. unfold pend_term.
    destruct (tpc th) eqn:P; auto. rewrite (NP t th _ _ _ Ht P). destruct (Nat.eqb g0 g); auto. }
  induction (threads st); simpl; auto. rewrite H, IHl; simpl; auto. intros; apply H; simpl; auto.
Qed.

Lemma zsum_map_add {A} (f g : A -> Z) l : zsum (map (fun x => (f x + g x)%Z) l) = (zsum (map f l) + zsum (map g l))%Z.
Proof. induction l; simpl; auto. rewrite IHl. lia. Qed.

Lemma sum_swap l : forall es,
  zsum (map (fun g => att_sum g es) l) = zsum (map (fun e => zsum (map (fun g => att_term g e) l)) es).
Proof.
  induction es; simpl.
  - unfold att_sum. simpl. induction l; simpl; auto.
  - rewrite <- IHes. unfold att_sum. simpl. rewrite <- zsum_map_add. reflexivity.
Qed.

Lemma nodup_pick e : forall l, NoDup l ->
  zsum (map (fun g => att_term g e) l) = if eattached e && memb (egen e) l then esize e else 0%Z.
Proof.
  induction l; intros N; simpl.
  - rewrite andb_false_r. auto.
  - inversion N; subst. rewrite IHl; auto. unfold att_term, memb. simpl.
    destruct (eattached e); simpl; auto.
    destruct (Nat.eqb_spec (egen e) a).
    + subst. simpl. assert (existsb (Nat.eqb (egen e)) l = false).
      { destruct (existsb (Nat.eqb (egen e)) l) eqn:X; auto. apply existsb_exists in X. destruct X as (y & Hy & Ey).
        apply Nat.eqb_eq in Ey. subst. contradiction. }
      rewrite H. lia.
    + simpl. lia.
Qed.

Lemma inv_no_pending st : INV st -> no_pending st.
Proof. intros I t th g s v Ht Hp. apply (proj2 (il_thr st (i_l st I) t th Ht) g s v Hp). Qed.

Theorem acct_eq_live st : INV st -> no_stale_attached st -> acct st = live st.
Proof.
  intros I NS. pose proof (inv_no_pending st I) as NP. destruct I as [M C A L]. rewrite acct_lsum. unfold lsum, live.
  rewrite (zsum_map_ext (fun g => gsz g (gens st)) (fun g => att_sum g (entries st))).
  - rewrite sum_swap. apply zsum_map_ext. intros e He.
    rewrite nodup_pick by apply (il_nodup st L).
    destruct (eattached e) eqn:Att; simpl; auto.
    destruct (Z.eq_dec (esize e) 0) as [Z0|Nz]; [rewrite Z0; destruct (memb _ _); auto|].
    apply In_nth_error in He. destruct He as [k Hk].
    destruct (il_ent st L k e Hk Att) as (_ & _ & _ & LS). destruct (LS Nz) as [Hin|Hst].
    + rewrite (memb_In _ _ Hin). auto.
    + rewrite (NS k e Hk Att Nz) in Hst. discriminate.
  - intros g Hg. destruct (il_ok st L g Hg) as [G1 G2].
    pose proof (ia_acc st A g G1 G2) as Acc. rewrite (pend_sum_no_pending st g NP) in Acc. lia.
Qed.

(* ---------------------------------------------------------------- the cleaning pass *)
Lemma clean_begin_cases st :
  clean_begin st = set_ret st [0%Z] \/ exists rest, ret (clean_begin st) = 1%Z :: rest.
Proof.
  unfold clean_begin. destruct (limit st =? 0)%Z; auto. destruct (acct st <=? limit st)%Z; auto.
  destruct (mark_stale _ st). right. simpl. eauto.
Qed.

Lemma mark_stale_buckets need st : buckets (fst (mark_stale need st)) = buckets st.
Proof.
  unfold mark_stale. destruct (ms_loop (listed st) 0 need (gens st) 0) as [[[l bytes] gs] n]. cbv zeta.
  destruct (Z.ltb bytes need); [|reflexivity].
  set (st2 := rotate _). assert (buckets st2 = buckets st) by reflexivity. clearbody st2.
  destruct (listed st2); simpl; auto.
Qed.

Lemma clean_begin_buckets st : buckets (clean_begin st) = buckets st.
Proof.
  unfold clean_begin. destruct (limit st =? 0)%Z; auto. destruct (acct st <=? limit st)%Z; auto.
  pose proof (mark_stale_buckets (Z.max (acct st / 20) (acct st - limit st)) st).
  destruct (mark_stale _ st). simpl in *. auto.
Qed.

Lemma clean_begin_threads st : threads (clean_begin st) = threads st.
Proof.
  unfold clean_begin. destruct (limit st =? 0)%Z; auto. destruct (acct st <=? limit st)%Z; auto.
  destruct (mark_stale_entries (Z.max (acct st / 20) (acct st - limit st)) st) as [_ Ht].
  destruct (mark_stale _ st). simpl in *. auto.
Qed.

Lemma clean_all_spec : forall bk st b c st' b' c', clean_all bk st b c = Some (st', b', c') ->
  INV st -> INV st' /\ gens st' = gens st /\ threads st' = threads st /\
  forall e en', nth_error (entries st') e = Some en' -> eattached en' = true ->
    (exists en, nth_error (entries st) e = Some en /\ eattached en = true /\ ecache en' = ecache en /\ egen en' = egen en) /\
    (In (ecache en') bk -> gst (egen en') (gens st) = false).
Proof.
  induction bk as [|c0 bk IH]; simpl; intros st b c st' b' c' H I.
  - inversion H; subst. split; auto. split; auto. split; auto.
    intros e en' He A. split; [exists en'; auto|tauto].
  - rewrite clean_cache_v_repaired in H.
    assert (I1 : INV (clean_cache c0 st)) by (rewrite <- clean_cache_v_repaired; apply (step_INV st (LCleanCache c0)); simpl; auto).
    destruct (IH _ _ _ _ _ _ H I1) as (I' & G & T & E). simpl in G, T.
    split; auto. split; auto. split; auto.
    intros e en' He A. destruct (E e en' He A) as [(en1 & A1 & B1 & K1 & G1) Hr]. simpl in A1, Hr.
    rewrite nth_error_map in A1. destruct (nth_error (entries st) e) as [en|] eqn:E0; [|discriminate].
    simpl in A1. unfold delete_stale_in in A1. destruct (stale_in c0 (gens st) en) eqn:S; inversion A1; subst en1; [simpl in B1; discriminate|].
    split; [exists en; auto|].
    intros [Heq|Hin]; auto.
    unfold stale_in in S. rewrite B1 in S.
    assert (X : Nat.eqb (ecache en) c0 = true) by (apply Nat.eqb_eq; congruence).
    rewrite X in S. simpl in S. congruence.
Qed.

Theorem cleanup_pass_live_bound st st' r :
  INV st -> no_stale_attached st ->
  exec_ev st ECleanup = Some (st', r) -> (0 <= limit st)%Z -> limit st <> 0%Z ->
  acct st' = live st' /\ (live st' <= limit st)%Z.
Proof.
  intros I NS H H0 Hnz.
  pose proof (cleanup_pass_bound st st' r H H0 Hnz) as B.
  assert (I1 : INV (clean_begin st)) by (apply (step_INV st LCleanBegin); simpl; auto).
  assert (X : INV st' /\ no_stale_attached st').
  { simpl in H. destruct (clean_begin_cases st) as [E|[rest E]].
    - rewrite E in H. simpl in H. inversion H; subst. split; [rewrite <- E; auto|exact NS].
    - rewrite E in H.
      destruct (clean_all (buckets st) (clean_begin st) 0 0) as [[[st2 bytes] cleaned]|] eqn:CA; [|discriminate].
      inversion H; subst. destruct (clean_all_spec _ _ _ _ _ _ _ CA I1) as (I2 & G & T & Sp).
      split; [auto|].
      intros e en' He A Nz. destruct (Sp e en' He A) as [(en & A1 & B1 & K1 & G1) Hr]. rewrite G. apply Hr.
        destruct (il_ent _ (i_l _ I1) e en A1 B1) as (_ & R1 & R2 & _).
        rewrite <- clean_begin_buckets. rewrite K1. apply (im_live _ (i_m _ I1)); auto. }
  destruct X as (I' & NS'). pose proof (acct_eq_live st' I' NS') as EQ. split; auto. lia.
Qed.

(* ---------------------------------------------------------------- over reachable states *)
Theorem accounting_total lim mg es ls st :
  (0 <= es)%Z -> Forall label_ok ls ->
  run (init lim mg es) ls = Some st -> race_free (init lim mg es) ls = true ->
  no_stale_attached st -> acct st = live st.
Proof.
  intros Hes F H R NS. apply acct_eq_live; auto. eapply run_INV; eauto. apply init_INV; auto.
Qed.

Lemma limit_run : forall ls st st', run st ls = Some st' -> limit st' = limit st.
Proof.
  induction ls; intros st st' H; unfold run in H; simpl in H.
  - inversion H; auto.
  - destruct (step_v repaired st a) as [st1|] eqn:E; [|discriminate]. rewrite (IHls _ _ H).
    clear - E. destruct a; simpl in E; try rewrite clean_cache_v_repaired in E; try (inversion E; subst; reflexivity).
    + unfold step_thread in E.
      repeat match type of E with
             | context [match ?x with _ => _ end] => destruct x eqn:?; try discriminate
             end; inversion E; subst; reflexivity.
    + destruct (Nat.ltb c (length (caches st))); inversion E; subst; reflexivity.
    + inversion E; subst. unfold do_rotate. destruct (_ || _); reflexivity.
    + inversion E; subst. apply clean_begin_bound_limit.
    + inversion E; subst. unfold rel_collect. destruct (released_idx _ _ _); reflexivity.
    + unfold rel_remove in E. destruct (pendrel st); inversion E; subst; reflexivity.
Qed.

Theorem cleanup_live_bound lim mg es ls st st' r :
  (0 <= es)%Z -> (0 < lim)%Z -> Forall label_ok ls ->
  run (init lim mg es) ls = Some st -> race_free (init lim mg es) ls = true ->
  no_stale_attached st ->
  exec_ev st ECleanup = Some (st', r) ->
  acct st' = live st' /\ (live st' <= lim)%Z.
Proof.
  intros Hes Hlim F H R NS X.
  assert (L : limit st = lim) by (rewrite (limit_run _ _ _ H); reflexivity).
  rewrite <- L. apply (cleanup_pass_live_bound st st' r); auto; try lia.
  eapply run_INV; eauto. apply init_INV; auto.
Qed.
