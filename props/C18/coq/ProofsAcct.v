(* C18 — accounting: per generation, the size counter equals the sizes of the attached entries of that
   generation minus the Adds that are still pending, in every reachable state of every interleaving
   inside the domain (race_free). *)
From Coq Require Import List ZArith Bool Arith Lia.
From C18 Require Import Model ProofsRelease ProofsManaged ProofsCoherent.
Import ListNotations.
Local Open Scope nat_scope.

Definition att_term (g : nat) (e : entry) : Z := if eattached e && Nat.eqb (egen e) g then esize e else 0%Z.
Definition att_sum (g : nat) (es : list entry) : Z := zsum (map (att_term g) es).
Definition pend_term (g : nat) (th : thread) : Z :=
  match tpc th with PAdd g' s _ => if Nat.eqb g' g then s else 0%Z | _ => 0%Z end.
Definition pend_sum (g : nat) (ths : list thread) : Z := zsum (map (pend_term g) ths).

Lemma zsum_app a b : zsum (a ++ b) = (zsum a + zsum b)%Z.
Proof. induction a; simpl; auto. rewrite IHa. lia. Qed.

Lemma zsum_map_upd {A} (f : A -> Z) (h : A -> A) : forall l i x, nth_error l i = Some x ->
  zsum (map f (upd i h l)) = (zsum (map f l) - f x + f (h x))%Z.
Proof.
  induction l; destruct i; simpl; intros x H; try discriminate.
  - inversion H; subst. lia.
  - rewrite (IHl i x H). lia.
Qed.

Lemma zsum_map_ext {A} (f g : A -> Z) l : (forall x, In x l -> f x = g x) -> zsum (map f l) = zsum (map g l).
Proof. induction l; simpl; intros H; auto. rewrite H, IHl; auto. Qed.

Lemma gsz_gadd g g' d gs : g' < length gs ->
  gsz g (gadd g' d gs) = (gsz g gs + (if Nat.eqb g' g then d else 0))%Z.
Proof.
  intros Hl. unfold gsz, gadd. rewrite nth_error_upd. destruct (Nat.eqb_spec g' g).
  - subst. destruct (nth_error gs g) eqn:E; simpl; [lia|]. apply nth_error_None in E. lia.
  - destruct (nth_error gs g); lia.
Qed.

Lemma gst_gadd g g' d gs : gst g (gadd g' d gs) = gst g gs.
Proof. unfold gst, gadd. rewrite nth_error_upd. destruct (Nat.eqb g' g); auto. destruct (nth_error gs g); auto. Qed.

Lemma gadd_length g d gs : length (gadd g d gs) = length gs.
Proof. apply upd_length. Qed.

Lemma gsz_gmark g g' gs : gsz g (gmark g' gs) = gsz g gs.
Proof. unfold gsz, gmark. rewrite nth_error_upd. destruct (Nat.eqb g' g); auto. destruct (nth_error gs g); auto. Qed.

Lemma gst_gmark_false g g' gs : gst g (gmark g' gs) = false -> gst g gs = false.
Proof.
  unfold gst, gmark. rewrite nth_error_upd. destruct (Nat.eqb g' g); auto.
  destruct (nth_error gs g); simpl; auto. discriminate.
Qed.

Lemma gsz_app g gs x : g < length gs -> gsz g (gs ++ [x]) = gsz g gs.
Proof. intros. unfold gsz. rewrite nth_error_app1; auto. Qed.
Lemma gst_app g gs x : g < length gs -> gst g (gs ++ [x]) = gst g gs.
Proof. intros. unfold gst. rewrite nth_error_app1; auto. Qed.
Lemma gsz_new gs : gsz (length gs) (gs ++ [mkG 0 false]) = 0%Z.
Proof. unfold gsz. rewrite nth_error_app2, Nat.sub_diag; auto. Qed.

(* ---------------------------------------------------------------- the invariant *)
Definition ewf (ng : nat) (en : entry) : Prop :=
  egen en < ng /\ (estat en <> EValid -> esize en = 0%Z) /\
  (estat en = ELoading -> eattached en = true \/ edeleted en = true).

Definition twf (es : list entry) (ng : nat) (t : nat) (th : thread) : Prop :=
  match tpc th with
  | PAdd g _ _ => g < ng
  | PLoad e => exists en, nth_error es e = Some en /\ estat en = ELoading /\ eowner en = t
  | _ => True
  end.

Record inv_acc (st : state) : Prop := {
  ia_ent : forall e en, nth_error (entries st) e = Some en -> ewf (length (gens st)) en;
  ia_thr : forall t th, nth_error (threads st) t = Some th -> twf (entries st) (length (gens st)) t th;
  ia_cur : forall c ca, nth_error (caches st) c = Some ca -> ccur ca < length (gens st);
  ia_last : lastgen st < length (gens st);
  ia_acc : forall g, g < length (gens st) -> gst g (gens st) = false ->
             (gsz g (gens st) + pend_sum g (threads st))%Z = att_sum g (entries st)
}.

Lemma att_sum_out es ng g : (forall e en, nth_error es e = Some en -> egen en < ng) -> ng <= g -> att_sum g es = 0%Z.
Proof.
  unfold att_sum. induction es; simpl; intros H Hg; auto.
  rewrite IHes; auto; [|intros e en E; apply (H (S e) en E)].
  unfold att_term. specialize (H 0 a eq_refl). destruct (Nat.eqb_spec (egen a) g); [lia|].
  rewrite andb_false_r. auto.
Qed.

Lemma pend_sum_out ths ng g : (forall t th, nth_error ths t = Some th -> match tpc th with PAdd g' _ _ => g' < ng | _ => True end) ->
  ng <= g -> pend_sum g ths = 0%Z.
Proof.
  unfold pend_sum. induction ths; simpl; intros H Hg; auto.
  rewrite IHths; auto; [|intros t th E; apply (H (S t) th E)].
  unfold pend_term. specialize (H 0 a eq_refl). destruct (tpc a); auto.
  destruct (Nat.eqb_spec g0 g); [lia|auto].
Qed.

Lemma pend_sum_set_pc g t p ths th : nth_error ths t = Some th ->
  pend_sum g (set_pc t p ths) = (pend_sum g ths - pend_term g th + pend_term g (mkT (tcache th) (tkey th) (tout th) p))%Z.
Proof. intros H. unfold pend_sum, set_pc. rewrite (zsum_map_upd _ _ _ _ _ H). auto. Qed.

Lemma att_sum_upd g i h es en : nth_error es i = Some en ->
  att_sum g (upd i h es) = (att_sum g es - att_term g en + att_term g (h en))%Z.
Proof. intros H. unfold att_sum. rewrite (zsum_map_upd _ _ _ _ _ H). auto. Qed.

Lemma att_sum_app g es x : att_sum g (es ++ [x]) = (att_sum g es + att_term g x)%Z.
Proof. unfold att_sum. rewrite map_app, zsum_app. simpl. lia. Qed.

Lemma pend_sum_app g ths x : pend_sum g (ths ++ [x]) = (pend_sum g ths + pend_term g x)%Z.
Proof. unfold pend_sum. rewrite map_app, zsum_app. simpl. lia. Qed.

Lemma inv_acc_core st st' :
  entries st' = entries st -> threads st' = threads st -> gens st' = gens st -> caches st' = caches st ->
  lastgen st' = lastgen st -> inv_acc st -> inv_acc st'.
Proof. intros E T G C L [A B D F H]. split; rewrite ?E, ?T, ?G, ?C, ?L; auto. Qed.

(* ---------------------------------------------------------------- thread steps *)
Lemma twf_mono es es' ng ng' t th :
  ng <= ng' ->
  (forall e en, nth_error es e = Some en -> estat en = ELoading -> eowner en = t ->
     exists en', nth_error es' e = Some en' /\ estat en' = ELoading /\ eowner en' = t) ->
  twf es ng t th -> twf es' ng' t th.
Proof.
  intros Hn He. unfold twf. destruct (tpc th); auto; [|lia].
  intros (en & E & S & O). apply (He e en E S O).
Qed.

Lemma step_thread_acc var st t st' : v_recover_own var = true -> v_save_rehome var = true -> v_retry_recheck var = true ->
  v_save_deleted_only var = true ->
  step_thread var st t = Some st' -> inv_acc st -> inv_acc st'.
Proof.
  unfold step_thread. intros Vown Vre Vrt Vdel H I. rewrite Vown, Vre in H. pose proof I as [IE IT IC IL IA].
  destruct (nth_error (threads st) t) as [th|] eqn:Hth; [|discriminate].
  pose proof (IT t th Hth) as Tt. unfold twf in Tt.
  destruct (tpc th) as [rt | i | i | g s v | r] eqn:Hpc; try discriminate.
  - (* PStart *)
    destruct (nth_error (caches st) (tcache th)) as [ca|] eqn:Hca; [|discriminate].
    destruct (creleased ca); [discriminate|]. rewrite (blind_retry_off var rt Vrt) in H.
    pose proof (IC _ _ Hca) as Hcur.
    destruct (find_entry (tcache th) (tkey th) (entries st)) as [i|] eqn:Hf.
    + destruct (find_entry_some _ _ _ _ Hf) as (en & Hen & Hatt & Hc & Hk).
      rewrite Hen in H. unfold move_gen in H.
      set (p := match estat en with EValid => PDone (RVal (evalue en)) | _ => PWait i end) in *.
      assert (Hp : forall g, pend_term g (mkT (tcache th) (tkey th) (tout th) p) = 0%Z).
      { intros g. unfold pend_term, p. simpl. destruct (estat en); auto. }
      assert (Hp0 : forall g, pend_term g th = 0%Z) by (intros g; unfold pend_term; rewrite Hpc; auto).
      destruct (IE i en Hen) as (Hg0 & Hsz & Hld).
      destruct (Nat.eqb_spec (egen en) (ccur ca)) as [Heq|Hne]; inversion H; subst st'; clear H.
      * split; simpl; auto.
        -- intros t' th' H'. unfold set_pc in H'. rewrite nth_error_upd in H'. destruct (Nat.eqb_spec t t').
           ++ subst. rewrite Hth in H'. inversion H'; subst. unfold twf, p. simpl. destruct (estat en); auto.
           ++ eapply IT; eauto.
        -- intros g Hg Hst. rewrite (pend_sum_set_pc g t p _ th Hth), Hp, Hp0. rewrite <- IA; auto. lia.
      * split; simpl; rewrite ?gadd_length; auto.
        -- intros e en' He. rewrite nth_error_upd in He. destruct (Nat.eqb_spec i e).
           ++ subst. rewrite Hen in He. inversion He; subst. unfold ewf. simpl. auto.
           ++ eapply IE; eauto.
        -- intros t' th' H'. unfold set_pc in H'. rewrite nth_error_upd in H'. destruct (Nat.eqb_spec t t').
           ++ subst. rewrite Hth in H'. inversion H'; subst. unfold twf, p. simpl. destruct (estat en); auto.
           ++ eapply twf_mono; [apply Nat.le_refl| |eapply IT; eauto].
              intros e en0 E0 S0 O0. rewrite nth_error_upd. destruct (Nat.eqb i e); rewrite E0; simpl; eauto.
        -- intros g Hg Hst. rewrite !gst_gadd in Hst.
           rewrite (pend_sum_set_pc g t p _ th Hth), Hp, Hp0.
           rewrite (att_sum_upd g i _ _ en Hen).
           rewrite gsz_gadd by (rewrite gadd_length; auto). rewrite gsz_gadd by auto.
           specialize (IA g Hg Hst). unfold att_term. simpl. rewrite Hatt. simpl.
           destruct (Nat.eqb (ccur ca) g), (Nat.eqb (egen en) g); lia.
    + inversion H; subst st'; clear H. split; simpl; auto.
      * intros e en' He. destruct (Nat.lt_ge_cases e (length (entries st))).
        -- rewrite nth_error_app1 in He; auto. eapply IE; eauto.
        -- rewrite nth_error_app2 in He; auto. destruct (e - length (entries st)); simpl in He; [|destruct n; discriminate].
           inversion He; subst. unfold ewf. simpl. repeat split; auto.
      * intros t' th' H'. unfold set_pc in H'. rewrite nth_error_upd in H'. destruct (Nat.eqb_spec t t').
        -- subst. rewrite Hth in H'. inversion H'; subst. unfold twf. simpl.
           eexists. split; [rewrite nth_error_app2 by lia; rewrite Nat.sub_diag; reflexivity|]. simpl. auto.
        -- eapply twf_mono; [apply Nat.le_refl| |eapply IT; eauto].
           intros e en0 E0 S0 O0. exists en0. rewrite nth_error_app1; auto. apply nth_error_Some. congruence.
      * intros g Hg Hst. rewrite (pend_sum_set_pc g t _ _ th Hth), att_sum_app.
        rewrite <- IA; auto.
        assert (P0 : pend_term g th = 0%Z) by (unfold pend_term; rewrite Hpc; auto). rewrite P0.
        unfold pend_term, att_term. simpl. destruct (Nat.eqb (ccur ca) g); lia.
  - (* PWait *)
    destruct (nth_error (entries st) i) as [en|]; [|discriminate].
    assert (Hp0 : forall g, pend_term g th = 0%Z) by (intros g; unfold pend_term; rewrite Hpc; auto).
    destruct (estat en); [discriminate| |]; inversion H; subst st'; clear H; (split; simpl; auto;
      [ intros t' th' H'; unfold set_pc in H'; rewrite nth_error_upd in H'; destruct (Nat.eqb_spec t t');
        [subst; rewrite Hth in H'; inversion H'; subst; unfold twf; simpl; auto | eapply IT; eauto]
      | intros g Hg Hst; rewrite (pend_sum_set_pc g t _ _ th Hth), Hp0; unfold pend_term; simpl; rewrite <- IA; auto; lia ]).
  - (* PLoad *)
    destruct Tt as (en & Hen & Hst & Hown). rewrite Hen in H.
    destruct (IE i en Hen) as (Hg0 & Hsz & Hld).
    assert (Hsz0 : esize en = 0%Z) by (apply Hsz; congruence).
    assert (Hp0 : forall g, pend_term g th = 0%Z) by (intros g; unfold pend_term; rewrite Hpc; auto).
    assert (Hother : forall t' th', t <> t' -> nth_error (threads st) t' = Some th' ->
              forall es', (forall e en0, e <> i -> nth_error (entries st) e = Some en0 ->
                              exists en', nth_error es' e = Some en' /\ estat en' = estat en0 /\ eowner en' = eowner en0) ->
              twf es' (length (gens st)) t' th').
    { intros t' th' Hne H' es' Hes. eapply twf_mono; [apply Nat.le_refl| |eapply IT; eauto].
      intros e en0 E0 S0 O0. destruct (Nat.eq_dec e i).
      - subst. rewrite Hen in E0. inversion E0; subst. congruence.
      - destruct (Hes e en0 n E0) as (en' & E' & S' & O'). exists en'. repeat split; congruence. }
    destruct (tout th) as [v s| |] eqn:Hout.
    + destruct (nth_error (caches st) (tcache th)) as [ca|] eqn:Hca; [|discriminate].
      pose proof (IC _ _ Hca) as Hcur.
      rewrite (stale_zero_off var _ Vdel), orb_false_r in H.
      inversion H; subst st'; clear H.
      set (size := (if edeleted en then 0 else esz st + s)%Z) in *.
      assert (Hd : eattached en = true \/ size = 0%Z).
      { destruct (Hld Hst) as [A|D]; auto. right. unfold size. rewrite D. auto. }
      destruct (v_add_locked var); (split; simpl; rewrite ?gadd_length; auto;
      [ intros e en' He; rewrite nth_error_upd in He; destruct (Nat.eqb_spec i e);
        [ subst; rewrite Hen in He; inversion He; subst; unfold ewf; simpl; repeat split; auto; congruence
        | eapply IE; eauto ]
      | intros t' th' H'; unfold set_pc in H'; rewrite nth_error_upd in H'; destruct (Nat.eqb_spec t t');
        [ subst; rewrite Hth in H'; inversion H'; subst; unfold twf; simpl; auto
        | eapply Hother; eauto; intros e en0 Hne E0; exists en0; rewrite nth_error_upd_other; auto ]
      | intros g Hg Hstg; rewrite ?gst_gadd in Hstg; rewrite ?gsz_gadd by auto;
        rewrite (pend_sum_set_pc g t _ _ th Hth), Hp0, (att_sum_upd g i _ _ en Hen);
        rewrite <- IA; auto; unfold pend_term, att_term; simpl; rewrite Hsz0;
        destruct (eattached en); simpl;
        [ destruct (Nat.eqb (egen en) g), (Nat.eqb (ccur ca) g); lia
        | destruct Hd as [?|Hd]; [discriminate|]; rewrite Hd; destruct (Nat.eqb (ccur ca) g); lia ] ]).
    + inversion H; subst st'; clear H. unfold recover_entries.
      assert (Hes : exists f, (forall x, estat (f x) = estat x /\ eowner (f x) = eowner x /\ egen (f x) = egen x /\ esize (f x) = esize x
                                          /\ edeleted (f x) = edeleted x) /\
                   (match find_entry (tcache th) (tkey th) (entries st) with
                    | Some j => if true && negb (Nat.eqb j i) then entries st else upd j detach (entries st)
                    | None => entries st end) = upd i f (entries st)).
      { destruct (find_entry (tcache th) (tkey th) (entries st)) as [j|].
        - destruct (Nat.eqb_spec j i); simpl.
          + subst. exists detach. split; auto.
          + exists (fun x => x). split; [intros; repeat split; auto|].
            clear. generalize i. induction (entries st); destruct i0; simpl; auto. f_equal; auto.
        - exists (fun x => x). split; [intros; repeat split; auto|].
          clear. generalize i. induction (entries st); destruct i0; simpl; auto. f_equal; auto. }
      destruct Hes as (f & Hf & ->).
      assert (Hen1 : nth_error (upd i f (entries st)) i = Some (f en)) by (apply nth_error_upd_same; auto).
      destruct (Hf en) as (F1 & F2 & F3 & F4 & F5).
      split; simpl; auto.
      * intros e en' He. rewrite nth_error_upd in He. destruct (Nat.eqb_spec i e).
        -- subst. rewrite Hen1 in He. inversion He; subst. unfold ewf. simpl. rewrite F3, F4. repeat split; auto; discriminate.
        -- rewrite nth_error_upd_other in He by auto. eapply IE; eauto.
      * intros t' th' H'. unfold set_pc in H'. rewrite nth_error_upd in H'. destruct (Nat.eqb_spec t t').
        -- subst. rewrite Hth in H'. inversion H'; subst. unfold twf. simpl. auto.
        -- eapply Hother; eauto. intros e en0 Hne E0. exists en0. rewrite !nth_error_upd_other; auto.
      * intros g Hg Hstg. rewrite (pend_sum_set_pc g t _ _ th Hth), Hp0, (att_sum_upd g i _ _ (f en) Hen1), (att_sum_upd g i _ _ en Hen).
        rewrite <- IA; auto. unfold pend_term, att_term. simpl. rewrite F3, F4, Hsz0.
        destruct (eattached (f en) && Nat.eqb (egen en) g), (eattached en && Nat.eqb (egen en) g); lia.
    + inversion H; subst st'; clear H. unfold recover_entries.
      assert (Hes : exists f, (forall x, estat (f x) = estat x /\ eowner (f x) = eowner x /\ egen (f x) = egen x /\ esize (f x) = esize x
                                          /\ edeleted (f x) = edeleted x) /\
                   (match find_entry (tcache th) (tkey th) (entries st) with
                    | Some j => if true && negb (Nat.eqb j i) then entries st else upd j detach (entries st)
                    | None => entries st end) = upd i f (entries st)).
      { destruct (find_entry (tcache th) (tkey th) (entries st)) as [j|].
        - destruct (Nat.eqb_spec j i); simpl.
          + subst. exists detach. split; auto.
          + exists (fun x => x). split; [intros; repeat split; auto|].
            clear. generalize i. induction (entries st); destruct i0; simpl; auto. f_equal; auto.
        - exists (fun x => x). split; [intros; repeat split; auto|].
          clear. generalize i. induction (entries st); destruct i0; simpl; auto. f_equal; auto. }
      destruct Hes as (f & Hf & ->).
      assert (Hen1 : nth_error (upd i f (entries st)) i = Some (f en)) by (apply nth_error_upd_same; auto).
      destruct (Hf en) as (F1 & F2 & F3 & F4 & F5).
      split; simpl; auto.
      * intros e en' He. rewrite nth_error_upd in He. destruct (Nat.eqb_spec i e).
        -- subst. rewrite Hen1 in He. inversion He; subst. unfold ewf. simpl. rewrite F3, F4. repeat split; auto; discriminate.
        -- rewrite nth_error_upd_other in He by auto. eapply IE; eauto.
      * intros t' th' H'. unfold set_pc in H'. rewrite nth_error_upd in H'. destruct (Nat.eqb_spec t t').
        -- subst. rewrite Hth in H'. inversion H'; subst. unfold twf. simpl. auto.
        -- eapply Hother; eauto. intros e en0 Hne E0. exists en0. rewrite !nth_error_upd_other; auto.
      * intros g Hg Hstg. rewrite (pend_sum_set_pc g t _ _ th Hth), Hp0, (att_sum_upd g i _ _ (f en) Hen1), (att_sum_upd g i _ _ en Hen).
        rewrite <- IA; auto. unfold pend_term, att_term. simpl. rewrite F3, F4, Hsz0.
        destruct (eattached (f en) && Nat.eqb (egen en) g), (eattached en && Nat.eqb (egen en) g); lia.
  - (* PAdd *)
    inversion H; subst st'; clear H. split; simpl; rewrite ?gadd_length; auto.
    + intros t' th' H'. unfold set_pc in H'. rewrite nth_error_upd in H'. destruct (Nat.eqb_spec t t').
      * subst. rewrite Hth in H'. inversion H'; subst. unfold twf. simpl. auto.
      * eapply IT; eauto.
    + intros g' Hg Hstg. rewrite gst_gadd in Hstg. rewrite gsz_gadd by auto.
      rewrite (pend_sum_set_pc g' t _ _ th Hth). rewrite <- IA; auto. unfold pend_term. rewrite Hpc. simpl.
      destruct (Nat.eqb g g'); lia.
Qed.

(* ---------------------------------------------------------------- maintenance steps *)
Definition marks (gs gs' : list gen) : Prop :=
  length gs' = length gs /\ forall g, gsz g gs' = gsz g gs /\ (gst g gs' = false -> gst g gs = false).

Lemma marks_refl gs : marks gs gs.
Proof. split; auto. Qed.
Lemma marks_trans a b c : marks a b -> marks b c -> marks a c.
Proof.
  intros [L1 H1] [L2 H2]. split; [congruence|]. intros g. destruct (H1 g), (H2 g). split; [congruence|auto].
Qed.
Lemma marks_gmark g gs : marks gs (gmark g gs).
Proof. split; [apply upd_length|]. intros g'. split; [apply gsz_gmark|apply gst_gmark_false]. Qed.

Lemma inv_acc_marks st st' :
  entries st' = entries st -> threads st' = threads st -> caches st' = caches st -> lastgen st' = lastgen st ->
  marks (gens st) (gens st') -> inv_acc st -> inv_acc st'.
Proof.
  intros E T C L [Hl M] [A B D F H]. split; rewrite ?E, ?T, ?C, ?L, ?Hl; auto.
  intros g Hg Hst. destruct (M g) as [M1 M2]. rewrite M1. apply H; auto.
Qed.

Lemma ms_loop_marks : forall l bytes need gs n, marks gs (snd (fst (ms_loop l bytes need gs n))).
Proof.
  induction l as [|g l IH]; intros; simpl; [apply marks_refl|].
  destruct l as [|g2 l2]; [apply marks_refl|].
  destruct (bytes <? need)%Z; [|apply marks_refl].
  eapply marks_trans; [apply marks_gmark|]. apply IH.
Qed.

Lemma inv_acc_rotate st : inv_acc st -> inv_acc (rotate st).
Proof.
  intros [A B D F H]. unfold rotate. split; simpl; rewrite ?app_length; simpl.
  - intros e en He. destruct (A e en He) as (X & Y & Z). split; auto. lia.
  - intros t th Ht. specialize (B t th Ht). unfold twf in *. destruct (tpc th); auto. lia.
  - intros c ca Hc. rewrite nth_error_mapi_from in Hc. destruct (nth_error (caches st) c) as [ca0|] eqn:E0; [|discriminate].
    simpl in Hc. inversion Hc; subst. destruct (memb c (buckets st)); simpl; [lia|]. specialize (D c ca0 E0). lia.
  - lia.
  - intros g Hg Hst. destruct (Nat.lt_ge_cases g (length (gens st))).
    + rewrite gsz_app by auto. rewrite gst_app in Hst by auto. auto.
    + assert (g = length (gens st)) by lia. subst g. rewrite gsz_new.
      rewrite (pend_sum_out (threads st) (length (gens st))); auto.
      * rewrite (att_sum_out (entries st) (length (gens st))); auto.
        intros e en He. apply (A e en He).
      * intros t th Ht. specialize (B t th Ht). unfold twf in B. destruct (tpc th); auto.
Qed.

Lemma mark_stale_acc need st : inv_acc st -> inv_acc (fst (mark_stale need st)).
Proof.
  intros I. unfold mark_stale. pose proof (ms_loop_marks (listed st) 0 need (gens st) 0) as M.
  destruct (ms_loop (listed st) 0 need (gens st) 0) as [[[l bytes] gs] n]. simpl in M. cbv zeta.
  set (st1 := set_gens (set_listed st l) gs).
  assert (I1 : inv_acc st1) by (apply (inv_acc_marks st); auto).
  destruct (Z.ltb bytes need); [|exact I1].
  pose proof (inv_acc_rotate st1 I1) as I2.
  set (st2 := rotate st1) in *. clearbody st2.
  destruct (listed st2); simpl; auto.
  apply (inv_acc_marks st2); auto. simpl. apply marks_gmark.
Qed.

Lemma att_sum_map g h es : (forall e, In e es -> att_term g (h e) = att_term g e) -> att_sum g (map h es) = att_sum g es.
Proof. intros H. unfold att_sum. rewrite map_map. apply zsum_map_ext; auto. Qed.

Definition rel_term (c g : nat) (e : entry) : Z := if in_cache c e && Nat.eqb (egen e) g then esize e else 0%Z.

Lemma release_sub_spec c : forall es gs, (forall e, In e es -> egen e < length gs) ->
  length (release_sub c es gs) = length gs /\
  forall g, gst g (release_sub c es gs) = gst g gs /\
            gsz g (release_sub c es gs) = (gsz g gs - zsum (map (rel_term c g) es))%Z.
Proof.
  induction es as [|e es IH]; simpl; intros gs H.
  - split; auto. intros g. split; auto. lia.
  - destruct (in_cache c e) eqn:Hin.
    + destruct (IH (gadd (egen e) (- esize e) gs)) as [L G].
      { intros e' He'. rewrite gadd_length. auto. }
      rewrite gadd_length in L. split; auto. intros g. destruct (G g) as [G1 G2].
      rewrite G1, G2, gst_gadd, gsz_gadd by auto. split; auto.
      unfold rel_term at 2. rewrite Hin. simpl. destruct (Nat.eqb (egen e) g); lia.
    + destruct (IH gs) as [L G]; auto. split; auto. intros g. destruct (G g) as [G1 G2].
      rewrite G1, G2. split; auto. unfold rel_term at 2. rewrite Hin. simpl. lia.
Qed.

Lemma att_sum_release c g : forall es,
  att_sum g (map (fun e => if in_cache c e then detach e else e) es) = (att_sum g es - zsum (map (rel_term c g) es))%Z.
Proof.
  unfold att_sum. induction es as [|e es IH]; simpl; auto.
  rewrite IH. unfold att_term at 1 3, rel_term at 2. unfold in_cache.
  destruct (eattached e) eqn:A; simpl.
  - destruct (Nat.eqb (ecache e) c); simpl; rewrite ?A; simpl; destruct (Nat.eqb (egen e) g); lia.
  - rewrite A. simpl. lia.
Qed.

Lemma existsb_false {A} (p : A -> bool) l : existsb p l = false -> forall x, In x l -> p x = false.
Proof.
  induction l; simpl; intros H x Hx; [tauto|]. apply orb_false_elim in H. destruct H. destruct Hx; subst; auto.
Qed.

Lemma twf_map es h ng t th :
  (forall e, estat (h e) = estat e /\ eowner (h e) = eowner e) -> twf es ng t th -> twf (map h es) ng t th.
Proof.
  intros Hh. apply twf_mono; auto. intros e en E S O. exists (h en). rewrite nth_error_map, E. destruct (Hh en).
  repeat split; congruence.
Qed.

Lemma step_acc st l st' : step st l = Some st' -> racy st l = false -> inv_acc st -> inv_acc st'.
Proof.
  intros H R I. destruct l; simpl in H.
  - (* Spawn *) inversion H; subst st'. destruct I as [A B D F G]. split; simpl; auto.
    + intros t th Ht. destruct (Nat.lt_ge_cases t (length (threads st))).
      * rewrite nth_error_app1 in Ht; auto.
      * rewrite nth_error_app2 in Ht; auto. destruct (t - length (threads st)); simpl in Ht; [|destruct n; discriminate].
        inversion Ht; subst. unfold twf. simpl. auto.
    + intros g Hg Hst. rewrite pend_sum_app. rewrite <- G; auto. unfold pend_term. simpl. lia.
  - eapply (step_thread_acc repaired); eauto.
  - (* NewCache *) inversion H; subst st'. destruct I as [A B D F G]. unfold new_cache. split; simpl; auto.
    intros c ca Hc. destruct (Nat.lt_ge_cases c (length (caches st))).
    + rewrite nth_error_app1 in Hc; eauto.
    + rewrite nth_error_app2 in Hc; auto. destruct (c - length (caches st)); simpl in Hc; [|destruct n; discriminate].
      inversion Hc; subst. simpl. auto.
  - (* Release *) destruct (Nat.ltb c (length (caches st))); [|discriminate]. inversion H; subst st'. clear H.
    simpl in R. pose proof (existsb_false _ _ R) as NoLoad.
    destruct I as [A B D F G].
    destruct (release_sub_spec c (entries st) (gens st)) as [L S].
    { intros e He. apply In_nth_error in He. destruct He as [n He]. apply (A n e He). }
    unfold release. split; simpl; rewrite ?L; auto.
    + intros e en' He. rewrite nth_error_map in He. destruct (nth_error (entries st) e) as [en|] eqn:E0; [|discriminate].
      simpl in He. inversion He; subst. destruct (A e en E0) as (X & Y & Z).
      destruct (in_cache c en) eqn:Hin; [|split; auto].
      unfold ewf. simpl. repeat split; auto. intros Hs.
      assert (Hl : loading_in c en = false) by (apply NoLoad; eapply nth_error_In; eauto).
      unfold loading_in in Hl. unfold in_cache in Hin. rewrite Hin, Hs in Hl. discriminate.
    + intros t th Ht. apply twf_map; auto. intros e. destruct (in_cache c e); auto.
    + intros c0 ca Hc. rewrite nth_error_upd in Hc. destruct (Nat.eqb c c0); eauto.
      destruct (nth_error (caches st) c0) eqn:E0; [|discriminate]. simpl in Hc. inversion Hc; subst. simpl. eauto.
    + intros g Hg Hst. destruct (S g) as [S1 S2]. rewrite S1 in Hst. rewrite S2, att_sum_release.
      rewrite <- G; auto. lia.
  - (* Rotate *) inversion H; subst st'. unfold do_rotate. destruct (_ || _).
    + apply (inv_acc_core st); auto.
    + apply (inv_acc_core (rotate st)); auto. apply inv_acc_rotate; auto.
  - (* CleanBegin *) inversion H; subst st'. unfold clean_begin.
    destruct (limit st =? 0)%Z; [apply (inv_acc_core st); auto|].
    destruct (acct st <=? limit st)%Z; [apply (inv_acc_core st); auto|].
    pose proof (mark_stale_acc (Z.max (acct st / 20) (acct st - limit st)) st I) as M.
    destruct (mark_stale _ st) as [st1 n]. simpl in M. apply (inv_acc_core st1); auto.
  - (* CleanCache *) rewrite clean_cache_v_repaired in H. inversion H; subst st'. destruct I as [A B D F G]. unfold clean_cache. split; simpl; auto.
    + intros e en' He. rewrite nth_error_map in He. destruct (nth_error (entries st) e) as [en|] eqn:E0; [|discriminate].
      simpl in He. inversion He; subst. destruct (A e en E0) as (X & Y & Z).
      unfold delete_stale_in. destruct (stale_in c (gens st) en); [|split; auto]. unfold ewf. simpl. auto.
    + intros t th Ht. apply twf_map; auto. intros e. unfold delete_stale_in. destruct (stale_in c (gens st) e); auto.
    + intros g Hg Hst. rewrite att_sum_map; auto.
      intros e He. unfold delete_stale_in. destruct (stale_in c (gens st) e) eqn:Hs; auto.
      unfold stale_in in Hs. apply andb_prop in Hs. destruct Hs as [_ Hs].
      unfold att_term. simpl. destruct (Nat.eqb_spec (egen e) g); [congruence|]. rewrite andb_false_r. auto.
  - inversion H; subst st'. apply (inv_acc_core st); auto.
  - inversion H; subst st'. unfold rel_collect. destruct (released_idx _ _ _); apply (inv_acc_core st); auto.
  - unfold rel_remove in H. destruct (pendrel st); [|discriminate]. inversion H; subst st'. apply (inv_acc_core st); auto.
Qed.

Lemma init_acc lim mg es : inv_acc (init lim mg es).
Proof.
  split; simpl; auto.
  - intros e en H; destruct e; discriminate.
  - intros t th H; destruct t; discriminate.
  - intros c ca H; destruct c; discriminate.
  - intros g Hg _. assert (g = 0) by lia. subst. reflexivity.
Qed.

Lemma run_acc : forall ls st st', run st ls = Some st' -> race_free st ls = true -> inv_acc st -> inv_acc st'.
Proof.
  induction ls; intros st st' H R I; unfold run in H; simpl in H.
  - inversion H; subst; auto.
  - simpl in R. apply andb_prop in R. destruct R as [R1 R2]. apply negb_true_iff in R1.
    unfold step in R2. destruct (step_v repaired st a) eqn:E; [|discriminate].
    eapply IHls; eauto. eapply step_acc; eauto.
Qed.

(* The accounting theorem, per generation: in every state reached by an interleaving inside the domain,
   for every generation that is not marked stale, counter + pending Adds = sizes of the attached
   entries of that generation. *)
Theorem accounting_per_generation lim mg es ls st :
  run (init lim mg es) ls = Some st -> race_free (init lim mg es) ls = true ->
  forall g, g < length (gens st) -> gst g (gens st) = false ->
    (gsz g (gens st) + pend_sum g (threads st))%Z = att_sum g (entries st).
Proof. intros H R. apply (run_acc ls _ _ H R (init_acc lim mg es)). Qed.
