(* C18 — what "an uninterrupted cleaning pass" is: the event ECleanup (the object of C18_cleanup_bounds /
   C18_cleanup_live_bound) is exactly the label list LCleanBegin :: LCleanCache b1 :: ... :: LCleanCache bn over the bucket
   snapshot, with no other label in between. In [run] over arbitrary label lists these labels are separate steps, so any
   other label may stand between them (the accounting / single-flight theorems quantify over all such lists). *)
From Coq Require Import List ZArith Bool Arith Lia.
From C18 Require Import Model ProofsRelease.
Import ListNotations.

Lemma clean_all_run : forall bk st b c st' b' c', clean_all bk st b c = Some (st', b', c') ->
  run st (map LCleanCache bk) = Some st'.
Proof.
  induction bk as [|x bk IH]; simpl; intros st b c st' b' c' H.
  - inversion H; subst. reflexivity.
  - unfold step in H. simpl in H. change (run (clean_cache_v repaired x st) (map LCleanCache bk) = Some st').
    eapply IH; eauto.
Qed.

Theorem cleanup_is_labels st st' r : exec_ev st ECleanup = Some (st', r) ->
  (hd 0%Z r = 1%Z /\ run st (LCleanBegin :: map LCleanCache (buckets st)) = Some st') \/
  (hd 0%Z r <> 1%Z /\ run st [LCleanBegin] = Some st').
Proof.
  unfold exec_ev. unfold step. simpl. set (st1 := clean_begin st). intros H.
  destruct (ret st1) as [|z rest] eqn:R.
  - right. inversion H; subst. split; [simpl; discriminate|reflexivity].
  - destruct (Z.eq_dec z 1) as [->|Hz].
    + left. destruct (clean_all (buckets st) st1 0 0) as [[[st2 bytes] cleaned]|] eqn:C; [|discriminate].
      inversion H; subst. split; [reflexivity|]. unfold run. simpl. fold st1.
      apply clean_all_run in C. exact C.
    + right. assert (H' : Some (st1, z :: rest) = Some (st', r)).
      { destruct z as [|p|p]; try exact H. destruct p; try exact H. exfalso. apply Hz. reflexivity. }
      inversion H'; subst. split; [simpl; auto|reflexivity].
Qed.
