(* C18 — ReleaseBuckets (the loop as written) removes exactly the buckets at the collected indices. *)
From Coq Require Import List ZArith Bool Arith Lia Permutation.
From C18 Require Import Model.
Import ListNotations.
Local Open Scope nat_scope.

Lemma upd_length {A} (f : A -> A) : forall l i, length (upd i f l) = length l.
Proof. induction l; destruct i; simpl; auto. Qed.

Lemma nth_error_upd_same {A} (f : A -> A) : forall l i x, nth_error l i = Some x -> nth_error (upd i f l) i = Some (f x).
Proof. induction l; destruct i; simpl; intros; try discriminate; auto. congruence. Qed.

Lemma nth_error_upd_other {A} (f : A -> A) : forall l i j, i <> j -> nth_error (upd i f l) j = nth_error l j.
Proof. induction l; destruct i, j; simpl; intros; auto; try congruence. Qed.

Lemma nth_error_upd {A} (f : A -> A) l i j :
  nth_error (upd i f l) j = if Nat.eqb i j then option_map f (nth_error l j) else nth_error l j.
Proof.
  destruct (Nat.eqb_spec i j).
  - subst. destruct (nth_error l j) eqn:E.
    + simpl. apply nth_error_upd_same; auto.
    + simpl. apply nth_error_None. rewrite upd_length. apply nth_error_None; auto.
  - apply nth_error_upd_other; auto.
Qed.

Lemma firstn_S_snoc {A} : forall (l : list A) p x, nth_error l p = Some x -> firstn (S p) l = firstn p l ++ [x].
Proof.
  induction l; destruct p; simpl; intros; try discriminate.
  - congruence.
  - f_equal. apply IHl; auto.
Qed.

Lemma swap_last_perm {A} : forall (l : list A) i last' x y,
  i <= last' -> nth_error l i = Some y -> nth_error l last' = Some x ->
  Permutation (firstn (S last') l) (y :: firstn last' (upd i (fun _ => x) l)).
Proof.
  induction l as [|a l IH]; intros i last' x y Hle Hi Hl.
  - destruct i; discriminate.
  - destruct i as [|i'].
    + simpl in Hi. inversion Hi; subst a. destruct last' as [|p].
      * simpl. apply Permutation_refl.
      * simpl in Hl. simpl upd. change (firstn (S (S p)) (y :: l)) with (y :: firstn (S p) l).
        change (firstn (S p) (x :: l)) with (x :: firstn p l).
        apply perm_skip. rewrite (firstn_S_snoc l p x Hl).
        apply Permutation_sym, Permutation_cons_append.
    + destruct last' as [|p]; [lia|]. simpl in Hi, Hl.
      change (firstn (S (S p)) (a :: l)) with (a :: firstn (S p) l).
      simpl upd. change (firstn (S p) (a :: upd i' (fun _ => x) l)) with (a :: firstn p (upd i' (fun _ => x) l)).
      eapply Permutation_trans; [apply perm_skip; apply (IH i' p x y); auto; lia|].
      apply perm_swap.
Qed.

(* strictly descending, all below lo *)
Fixpoint desc_below (lo : nat) (ds : list nat) : Prop :=
  match ds with
  | [] => True
  | i :: r => i < lo /\ desc_below i r
  end.

Lemma rb_loop_inv {A} (b : list A) : forall ds b' last lo picked0,
  length b' = length b -> lo <= last -> last <= length b ->
  (forall j, j < lo -> nth_error b' j = nth_error b j) ->
  desc_below lo ds ->
  Permutation (firstn last b' ++ picked0) b ->
  exists picked b'' last'',
    rb_loop ds b' last = (b'', last'') /\
    Forall2 (fun i y => nth_error b i = Some y) ds picked /\
    last'' + length ds = last /\
    Permutation (firstn last'' b'' ++ (rev picked ++ picked0)) b.
Proof.
  induction ds as [|i r IH]; intros b' last lo picked0 Hlen Hlo Hlast Hsame Hdesc Hperm.
  - exists [], b', last. simpl. repeat split; auto.
  - destruct Hdesc as [Hi Hr]. simpl.
    assert (Hl1 : pred last < length b') by lia.
    destruct (nth_error b' (pred last)) as [x|] eqn:Ex; [|apply nth_error_None in Ex; lia].
    assert (Hib : i < length b) by lia.
    destruct (nth_error b i) as [y|] eqn:Ey; [|apply nth_error_None in Ey; lia].
    assert (Eyi : nth_error b' i = Some y) by (rewrite Hsame; auto).
    destruct (IH (upd i (fun _ => x) b') (pred last) i (y :: picked0)) as (picked & b'' & last'' & E & F & L & P).
    + rewrite upd_length; auto.
    + lia.
    + lia.
    + intros j Hj. rewrite nth_error_upd_other by lia. apply Hsame; lia.
    + auto.
    + eapply Permutation_trans; [|apply Hperm].
      eapply Permutation_trans; [apply Permutation_sym, Permutation_middle|].
      change (y :: firstn (pred last) (upd i (fun _ => x) b') ++ picked0)
        with ((y :: firstn (pred last) (upd i (fun _ => x) b')) ++ picked0).
      apply Permutation_app_tail. apply Permutation_sym.
      replace last with (S (pred last)) at 1 by lia.
      apply swap_last_perm; auto. lia.
    + exists (y :: picked), b'', last''. repeat split; auto.
      * simpl. lia.
      * simpl. rewrite <- app_assoc. simpl. auto.
Qed.

(* ascending, all at or above lo *)
Fixpoint asc_from (lo : nat) (td : list nat) : Prop :=
  match td with
  | [] => True
  | i :: r => lo <= i /\ asc_from (S i) r
  end.

Lemma asc_bound : forall td lo n, asc_from lo td -> (forall i, In i td -> i < n) -> forall i, In i td -> lo <= i < n.
Proof.
  induction td; simpl; intros lo n H Hn i Hi; [tauto|].
  destruct H as [H1 H2]. destruct Hi as [->|Hi]; [split; auto|].
  destruct (IHtd (S a) n H2 (fun j Hj => Hn j (or_intror Hj)) i Hi). lia.
Qed.

Lemma desc_snoc : forall ds lo i, desc_below lo ds -> (forall j, In j ds -> i < j) -> i < lo -> desc_below lo (ds ++ [i]).
Proof.
  induction ds; simpl; intros lo i H Hall Hi; [auto|].
  destruct H. split; auto.
Qed.

Lemma asc_rev_desc : forall td lo n, asc_from lo td -> (forall i, In i td -> i < n) -> desc_below n (rev td).
Proof.
  induction td; simpl; intros lo n H Hn; [auto|].
  destruct H as [H1 H2]. apply desc_snoc.
  - eapply IHtd; eauto.
  - intros j Hj. apply in_rev in Hj.
    destruct (asc_bound td (S a) n H2 (fun j Hj => Hn j (or_intror Hj)) j Hj). lia.
  - apply Hn; auto.
Qed.

Lemma rb_loop_length {A} : forall ds (b : list A) last b'' l'', rb_loop ds b last = (b'', l'') -> length b'' = length b.
Proof.
  induction ds; simpl; intros b last b'' l'' E.
  - inversion E; auto.
  - destruct (nth_error b (pred last)); apply IHds in E; auto. rewrite upd_length in E; auto.
Qed.

Lemma Forall2_rev {A B} (R : A -> B -> Prop) : forall l1 l2, Forall2 R l1 l2 -> Forall2 R (rev l1) (rev l2).
Proof. induction 1; simpl; auto. apply Forall2_app; auto. Qed.

(* The repaired ReleaseBuckets: for ascending in-range indices td, the result together with the
   buckets that stood at those indices is a permutation of the old list. *)
Theorem release_buckets_perm {A} (td : list nat) (b : list A) :
  asc_from 0 td -> (forall i, In i td -> i < length b) ->
  exists picked, Forall2 (fun i y => nth_error b i = Some y) td picked /\
                 length (release_buckets td b) + length td = length b /\
                 Permutation (release_buckets td b ++ picked) b.
Proof.
  intros Hasc Hin. unfold release_buckets.
  destruct (rb_loop_inv b (rev td) b (length b) (length b) []) as (picked & b'' & last'' & E & F & L & P); auto.
  - eapply asc_rev_desc; eauto.
  - rewrite firstn_all, app_nil_r. apply Permutation_refl.
  - rewrite E. exists (rev picked). repeat split.
    + rewrite <- (rev_involutive td). apply Forall2_rev; auto.
    + rewrite rev_length in L.
      assert (length b'' = length b) by (eapply rb_loop_length; eauto).
      rewrite firstn_length. lia.
    + rewrite app_nil_r in P. auto.
Qed.

(* recreatePayload, as written, is the identity on the key |-> entry mapping: Cache.Cleanup with the map
   rebuild (clean_cache_v repaired) is Cache.Cleanup with only the maxPayloadSize bookkeeping (clean_cache) *)
Lemma rebuild_id c : forall es, map (rebuild_entry true c) es = es.
Proof.
  induction es; simpl; auto. rewrite IHes. unfold rebuild_entry. simpl. destruct (in_cache c a); auto.
Qed.

Lemma clean_cache_v_repaired c st : clean_cache_v repaired c st = clean_cache c st.
Proof.
  unfold clean_cache_v, clean_cache. simpl. rewrite rebuild_id.
  destruct (_ || _); reflexivity.
Qed.

(* ---------------------------------------------------------------- the waiter's retry: with the `for ok` loop (the code as it
   is) the retry region is the lookup region *)
Lemma blind_retry_off var rt : v_retry_recheck var = true -> blind_retry var rt = false.
Proof. intros H. unfold blind_retry. rewrite H. destruct rt; reflexivity. Qed.
Lemma blind_retry_repaired rt : blind_retry repaired rt = false.
Proof. apply blind_retry_off. reflexivity. Qed.

(* save's size rule: with `if e.deleted` (the code as it is) a stale generation plays no role *)
Lemma stale_zero_off var b : v_save_deleted_only var = true -> stale_zero var b = false.
Proof. intros H. unfold stale_zero. rewrite H. reflexivity. Qed.
Lemma stale_zero_repaired b : stale_zero repaired b = false.
Proof. reflexivity. Qed.
