(* C18 — executable model of cache/cache.go + cache/cleaner.go (several caches sharing one cleaner).
   NO proofs in this file.

   Granularity: one label = one atomic region of the Go code.
     (A cleaning pass is NOT one label: LCleanBegin = getSize + markStale, then one LCleanCache c per cache of the
      snapshot, and any other label -- the save of a load started before the pass, a hit that re-homes an entry, a
      Rotate -- may stand between them; "uninterrupted pass" = the event ECleanup below.)
     LStep t   thread t (a Get/GetWithError call) does its next region:
                 PStart false -> getOrCreate's first locked region: payload[key] examined (hit / found-loading:
                            remember its wg, unlock / absent: create)                       [PEnter]
                 PWait e -> wg.Wait() returned (enabled once the loader finished, success or failure):
                            e.wg == nil ? hit : reattempt (reportReattempt, on to PStart true)
                 PStart true -> the waiter of a FAILED load re-takes the lock and RE-EXAMINES payload[key]
                            (`c.mu.Lock(); e, ok = c.payload[key]` at the end of the `for ok` loop): valid => hit,
                            loading => wait again, absent => create                          [PRetry]
                            (variant v_retry_recheck = false: the seeded `if ok` form, no re-examination: it
                            installs a fresh loading entry over whatever payload[key] holds now)
                 PLoad e -> loader returned: save's locked region (value) | recover (error, panic);
                            wg.Done() is merged into this region (waiters cannot observe the gap)
                 PAdd    -> save's gen.size.Add after the unlock
     LRelease / LNewCache(NewCache+AddBucket) / LRotate / LCleanBegin (Cleaner.Cleanup up to and
     including markStale) / LCleanCache c (Cache.Cleanup of one bucket) / LGcGens
     (CleanEmptyGenerations) / LRelCollect + LRelRemove (the two halves of ReleaseBuckets: the
     unlocked scan and the locked compaction).
   Sizes are Z (Go: uint64; the transient "Sub before Add" wrap-around of updateGeneration is a
   transient negative number here). minSizeToCleanRatio/maxGenerationRatio (0.05, float64) are
   modelled as integer division by 20 (exact below 2^50). *)
From Coq Require Import List ZArith Bool Arith Lia.
Import ListNotations.
Open Scope Z_scope.

Inductive outcome := OVal (v sz : Z) | OErr | OPanic.
Inductive result := RVal (v : Z) | RErr | RPanic.
Inductive estatus := ELoading | EValid | EAbandoned.

(* eowner (creating thread) and eattached (entry is in its cache's payload map) are ghost fields *)
Record entry := mkE { ecache : nat; ekey : nat; eowner : nat; estat : estatus; egen : nat;
                      esize : Z; edeleted : bool; eattached : bool; evalue : Z }.

(* PStart rt: about to take Cache.mu in getOrCreate; rt = false: entering the call; rt = true: a waiter whose awaited
   loader failed, after reportReattempt, before `c.mu.Lock(); e, ok = c.payload[key]` *)
Inductive pc := PStart (retry : bool) | PWait (e : nat) | PLoad (e : nat) | PAdd (g : nat) (s v : Z) | PDone (r : result).
Notation PEnter := (PStart false).
Notation PRetry := (PStart true).
Record thread := mkT { tcache : nat; tkey : nat; tout : outcome; tpc : pc }.
Record cache := mkC { ccur : nat; creleased : bool }.
Record gen := mkG { gsize : Z; gstale : bool }.

Record state := mkS {
  entries : list entry;      (* every entry object ever created, by identity *)
  threads : list thread;
  caches  : list cache;
  gens    : list gen;        (* every Generation object ever created, by identity *)
  listed  : list nat;        (* Cleaner.generations *)
  buckets : list nat;        (* Cleaner.buckets (cache ids) *)
  lastgen : nat;             (* Cleaner.lastGen *)
  limit   : Z;               (* sizeLimit *)
  maxgen  : Z;               (* maxGenSize *)
  esz     : Z;               (* Cache.entrySize *)
  ret     : list Z;          (* numbers returned by the last maintenance call *)
  pendrel : option (list nat);(* toDelete of a ReleaseBuckets call between its two halves *)
  maxpay  : list nat;        (* Cache.maxPayloadSize, per cache *)
  nrec    : Z;               (* number of payload maps re-created so far (metric MapsRecreated) *)
  pendrot : option nat       (* only in the split-rotation variant (v_rotate_atomic = false): the new generation of a
                                rotation that has switched the caches but not yet updated lastGen / generations *)
}.

Definition set_entries st x := mkS x (threads st) (caches st) (gens st) (listed st) (buckets st) (lastgen st) (limit st) (maxgen st) (esz st) (ret st) (pendrel st) (maxpay st) (nrec st) (pendrot st).
Definition set_threads st x := mkS (entries st) x (caches st) (gens st) (listed st) (buckets st) (lastgen st) (limit st) (maxgen st) (esz st) (ret st) (pendrel st) (maxpay st) (nrec st) (pendrot st).
Definition set_caches st x := mkS (entries st) (threads st) x (gens st) (listed st) (buckets st) (lastgen st) (limit st) (maxgen st) (esz st) (ret st) (pendrel st) (maxpay st) (nrec st) (pendrot st).
Definition set_gens st x := mkS (entries st) (threads st) (caches st) x (listed st) (buckets st) (lastgen st) (limit st) (maxgen st) (esz st) (ret st) (pendrel st) (maxpay st) (nrec st) (pendrot st).
Definition set_listed st x := mkS (entries st) (threads st) (caches st) (gens st) x (buckets st) (lastgen st) (limit st) (maxgen st) (esz st) (ret st) (pendrel st) (maxpay st) (nrec st) (pendrot st).
Definition set_buckets st x := mkS (entries st) (threads st) (caches st) (gens st) (listed st) x (lastgen st) (limit st) (maxgen st) (esz st) (ret st) (pendrel st) (maxpay st) (nrec st) (pendrot st).
Definition set_lastgen st x := mkS (entries st) (threads st) (caches st) (gens st) (listed st) (buckets st) x (limit st) (maxgen st) (esz st) (ret st) (pendrel st) (maxpay st) (nrec st) (pendrot st).
Definition set_ret st x := mkS (entries st) (threads st) (caches st) (gens st) (listed st) (buckets st) (lastgen st) (limit st) (maxgen st) (esz st) x (pendrel st) (maxpay st) (nrec st) (pendrot st).
Definition set_maxpay st x := mkS (entries st) (threads st) (caches st) (gens st) (listed st) (buckets st) (lastgen st) (limit st) (maxgen st) (esz st) (ret st) (pendrel st) x (nrec st) (pendrot st).
Definition set_nrec st x := mkS (entries st) (threads st) (caches st) (gens st) (listed st) (buckets st) (lastgen st) (limit st) (maxgen st) (esz st) (ret st) (pendrel st) (maxpay st) x (pendrot st).
Definition set_pendrot st x := mkS (entries st) (threads st) (caches st) (gens st) (listed st) (buckets st) (lastgen st) (limit st) (maxgen st) (esz st) (ret st) (pendrel st) (maxpay st) (nrec st) x.
Definition set_pendrel st x := mkS (entries st) (threads st) (caches st) (gens st) (listed st) (buckets st) (lastgen st) (limit st) (maxgen st) (esz st) (ret st) x (maxpay st) (nrec st) (pendrot st).

(* ------------------------------------------------------------------ list helpers *)
Fixpoint upd {A} (i : nat) (f : A -> A) (l : list A) : list A :=
  match l, i with
  | [], _ => []
  | x :: r, O => f x :: r
  | x :: r, S j => x :: upd j f r
  end.

Fixpoint find_idx {A} (p : A -> bool) (l : list A) (i : nat) : option nat :=
  match l with
  | [] => None
  | x :: r => if p x then Some i else find_idx p r (S i)
  end.

Fixpoint mapi_from {A B} (f : nat -> A -> B) (i : nat) (l : list A) : list B :=
  match l with
  | [] => []
  | x :: r => f i x :: mapi_from f (S i) r
  end.

Definition memb (x : nat) (l : list nat) : bool := existsb (Nat.eqb x) l.

Fixpoint zsum (l : list Z) : Z := match l with [] => 0 | x :: r => x + zsum r end.

(* ------------------------------------------------------------------ entries and generations *)
Definition set_egen (g : nat) (e : entry) :=
  mkE (ecache e) (ekey e) (eowner e) (estat e) g (esize e) (edeleted e) (eattached e) (evalue e).
Definition saved (v size : Z) (g : nat) (e : entry) :=
  mkE (ecache e) (ekey e) (eowner e) EValid g size (edeleted e) (eattached e) v.
Definition detach (e : entry) :=
  mkE (ecache e) (ekey e) (eowner e) (estat e) (egen e) (esize e) (edeleted e) false (evalue e).
Definition abandon (e : entry) :=
  mkE (ecache e) (ekey e) (eowner e) EAbandoned (egen e) (esize e) (edeleted e) (eattached e) (evalue e).
Definition delete_stale (e : entry) :=
  mkE (ecache e) (ekey e) (eowner e) (estat e) (egen e) (esize e) true false (evalue e).

Definition ematch (c k : nat) (e : entry) : bool :=
  eattached e && Nat.eqb (ecache e) c && Nat.eqb (ekey e) k.
(* payload[k] of cache c *)
Definition find_entry (c k : nat) (es : list entry) : option nat := find_idx (ematch c k) es 0%nat.

Definition gsz (g : nat) (gs : list gen) : Z := match nth_error gs g with Some x => gsize x | None => 0 end.
Definition gst (g : nat) (gs : list gen) : bool := match nth_error gs g with Some x => gstale x | None => false end.
Definition gadd (g : nat) (d : Z) (gs : list gen) : list gen := upd g (fun x => mkG (gsize x + d) (gstale x)) gs.
Definition gmark (g : nat) (gs : list gen) : list gen := upd g (fun x => mkG (gsize x) true) gs.

(* entry.updateGeneration *)
Definition move_gen (i : nat) (en : entry) (cur : nat) (es : list entry) (gs : list gen) : list entry * list gen :=
  if Nat.eqb (egen en) cur then (es, gs)
  else (upd i (set_egen cur) es, gadd cur (esize en) (gadd (egen en) (- esize en) gs)).

Definition set_pc (t : nat) (p : pc) (ths : list thread) : list thread :=
  upd t (fun th => mkT (tcache th) (tkey th) (tout th) p) ths.
Definition set_thr (st : state) (t : nat) (p : pc) : state := set_threads st (set_pc t p (threads st)).

(* The three repairs made to the code during this verification; the model of the code as it is now is
   [repaired]; [step_v] with a flag switched off is the code before the corresponding commit. *)
Record variant := mkV {
  v_recover_own : bool;    (* 290ab18: recover deletes payload[key] only if it is the creator's own entry *)
  v_save_rehome : bool;    (* b9905fa: save sets e.gen = c.currentGeneration *)
  v_release_fixed : bool;  (* 9ff7c19: ReleaseBuckets walks the released indices from the highest down *)
  v_add_locked : bool;     (* save does gen.size.Add(size) before c.mu.Unlock() (repair after the hook commit 64b20cb) *)
  v_rotate_atomic : bool;  (* Cleaner.rotate switches the caches and updates lastGen / generations in ONE critical section
                              (false: a seeded regression that ran the SetGeneration loop over a snapshot before taking the lock) *)
  v_rebuild_all : bool;    (* recreatePayload copies EVERY entry into the new map (false: a seeded regression that
                              skipped entries with wg != nil, i.e. also entries that are still loading) *)
  v_retry_recheck : bool;  (* getOrCreate's waiter loop is `for ok { ...; c.mu.Lock(); e, ok = c.payload[key] }`: after a failed
                              load the waiter re-reads payload[key] under the lock (false: a seeded regression `if ok { ...;
                              c.mu.Lock() }` that falls through to the create code without looking at the map again) *)
  v_save_deleted_only : bool (* save zeroes the size only of an entry that was deleted while loading: `if e.deleted { size = 0 }`
                              (false: a seeded regression `if e.deleted || e.gen.stale { size = 0 }` -- "the running pass will drop
                              the entry anyway" -- although save re-homes the entry to the current generation two lines below) *)
}.
Definition repaired := mkV true true true true true true true true.
(* save takes an entry whose generation is marked stale for one that the running pass will drop (only in the seeded variant) *)
Definition stale_zero (var : variant) (stale : bool) : bool := if v_save_deleted_only var then false else stale.
(* the waiter retries WITHOUT re-examining the map (only in the seeded variant, only on the retry path) *)
Definition blind_retry (var : variant) (rt : bool) : bool := rt && negb (v_retry_recheck var).

(* Cache.recover: `if c.payload[key] == e { delete(c.payload, key) }` (before 290ab18: delete by key,
   whatever entry is there now), then wg.Done() on the creator's own (still wg != nil, i.e. abandoned) entry *)
Definition recover_entries (own : bool) (c k i : nat) (es : list entry) : list entry :=
  let es1 := match find_entry c k es with
             | Some j => if own && negb (Nat.eqb j i) then es else upd j detach es
             | None => es
             end in
  upd i abandon es1.

Definition step_thread (var : variant) (st : state) (t : nat) : option state :=
  match nth_error (threads st) t with
  | None => None
  | Some th =>
    let c := tcache th in
    let k := tkey th in
    match tpc th with
    | PStart rt =>
        match nth_error (caches st) c with
        | None => None
        | Some ca =>
          if creleased ca then None (* payload == nil: the Go code panics on the map assignment *)
          else if blind_retry var rt then
            (* seeded `if ok` variant: `c.payload[key] = e` without `e, ok = c.payload[key]`: whatever entry the key
               maps to now is overwritten (it leaves the map; nothing marks it deleted, its size stays accounted) *)
            let es0 := match find_entry c k (entries st) with Some j => upd j detach (entries st) | None => entries st end in
            Some (set_thr (set_entries st (es0 ++ [mkE c k t ELoading (ccur ca) 0 false true 0])) t (PLoad (length es0)))
          else match find_entry c k (entries st) with
          | Some i =>
              match nth_error (entries st) i with
              | None => None
              | Some en =>
                let '(es, gs) := move_gen i en (ccur ca) (entries st) (gens st) in
                let p := match estat en with EValid => PDone (RVal (evalue en)) | _ => PWait i end in
                Some (set_thr (set_gens (set_entries st es) gs) t p)
              end
          | None =>
              let i := length (entries st) in
              Some (set_thr (set_entries st (entries st ++ [mkE c k t ELoading (ccur ca) 0 false true 0])) t (PLoad i))
          end
        end
    | PWait i =>
        match nth_error (entries st) i with
        | None => None
        | Some en =>
          match estat en with
          | ELoading => None (* blocked in wg.Wait() *)
          | EValid => Some (set_thr st t (PDone (RVal (evalue en))))
          | EAbandoned => Some (set_thr st t PRetry)
          end
        end
    | PLoad i =>
        match nth_error (entries st) i with
        | None => None
        | Some en =>
          match tout th with
          | OVal v s =>
              match nth_error (caches st) c with
              | None => None
              | Some ca =>
                let size := if edeleted en || stale_zero var (gst (egen en) (gens st)) then 0 else esz st + s in
                let g := if v_save_rehome var then ccur ca else egen en in
                (* PAdd g s: the goroutine is between save's unlock and its return; s = what it still has to Add *)
                let gs := if v_add_locked var then gadd g size (gens st) else gens st in
                let pend := if v_add_locked var then 0 else size in
                Some (set_thr (set_gens (set_entries st (upd i (saved v size g) (entries st))) gs) t (PAdd g pend v))
              end
          | OErr => Some (set_thr (set_entries st (recover_entries (v_recover_own var) c k i (entries st))) t (PDone RErr))
          | OPanic => Some (set_thr (set_entries st (recover_entries (v_recover_own var) c k i (entries st))) t (PDone RPanic))
          end
        end
    | PAdd g s v => Some (set_thr (set_gens st (gadd g s (gens st))) t (PDone (RVal v)))
    | PDone _ => None
    end
  end.

(* ------------------------------------------------------------------ cleaner *)
Definition acct (st : state) : Z := zsum (map (fun g => gsz g (gens st)) (listed st)).      (* getSize *)
Definition live (st : state) : Z := zsum (map (fun e => if eattached e then esize e else 0) (entries st)).

(* what the live entries really occupy: entrySize + the size its loader reported, for every valid entry in a payload map
   (independent of the size field the code keeps; = live in every reachable state of the code as it is, Props.v) *)
Definition owner_size (ths : list thread) (e : entry) : Z :=
  match nth_error ths (eowner e) with
  | Some th => match tout th with OVal _ s => s | _ => 0 end
  | None => 0
  end.
Definition occupied (st : state) : Z :=
  zsum (map (fun e => if eattached e && match estat e with EValid => true | _ => false end
                      then esz st + owner_size (threads st) e else 0) (entries st)).

(* Cleaner.rotate(NewGeneration()) *)
Definition rotate (st : state) : state :=
  let g := length (gens st) in
  let bk := buckets st in
  set_caches (set_listed (set_lastgen (set_gens st (gens st ++ [mkG 0 false])) g) (listed st ++ [g]))
             (mapi_from (fun i c => if memb i bk then mkC g (creleased c) else c) 0%nat (caches st)).

(* the split rotation of the seeded regression: first half = SetGeneration(new) on the buckets of a snapshot,
   second half (a later LRotate label) = lastGen / generations updated under the lock *)
Definition do_rotate_split (st : state) : state :=
  match pendrot st with
  | Some g => set_pendrot (set_listed (set_lastgen st g) (listed st ++ [g])) None
  | None =>
      let lastsz := gsz (lastgen st) (gens st) in
      if (maxgen st =? 0) || (lastsz <? maxgen st) then set_ret st [0; lastsz]
      else let g := length (gens st) in
           let bk := buckets st in
           set_ret (set_pendrot (set_caches (set_gens st (gens st ++ [mkG 0 false]))
                                            (mapi_from (fun i c => if memb i bk then mkC g (creleased c) else c) 0%nat (caches st)))
                                (Some g)) [1; lastsz]
  end.

Definition do_rotate (st : state) : state :=
  let lastsz := gsz (lastgen st) (gens st) in
  if (maxgen st =? 0) || (lastsz <? maxgen st) then set_ret st [0; lastsz]
  else set_ret (rotate st) [1; lastsz].

(* markStale's first loop: all generations but the last, oldest first *)
Fixpoint ms_loop (l : list nat) (bytes need : Z) (gs : list gen) (n : nat) : list nat * Z * list gen * nat :=
  match l with
  | g :: ((_ :: _) as r) =>
      if bytes <? need then ms_loop r (bytes + gsz g gs) need (gmark g gs) (S n) else (l, bytes, gs, n)
  | _ => (l, bytes, gs, n)
  end.

Definition mark_stale (need : Z) (st : state) : state * nat :=
  let '(l, bytes, gs, n) := ms_loop (listed st) 0 need (gens st) 0%nat in
  let st1 := set_gens (set_listed st l) gs in
  if bytes <? need then
    let st2 := rotate st1 in
    match listed st2 with
    | g :: r => (set_gens (set_listed st2 r) (gmark g (gens st2)), S n)
    | [] => (st2, S n)
    end
  else (st1, n).

(* Cleaner.Cleanup up to and including markStale *)
Definition clean_begin (st : state) : state :=
  if limit st =? 0 then set_ret st [0]
  else let total := acct st in
    if total <=? limit st then set_ret st [0]
    else let need := Z.max (total / 20) (total - limit st) in
      let '(st1, n) := mark_stale need st in
      set_ret st1 [1; total; need; Z.of_nat n].

(* Cache.Cleanup of cache c *)
Definition stale_in (c : nat) (gs : list gen) (e : entry) : bool :=
  eattached e && Nat.eqb (ecache e) c && gst (egen e) gs.
Definition in_cache (c : nat) (e : entry) : bool := eattached e && Nat.eqb (ecache e) c.
Definition delete_stale_in (c : nat) (gs : list gen) (e : entry) : entry :=
  if stale_in c gs e then delete_stale e else e.
Definition count_in (c : nat) (es : list entry) : nat := length (filter (in_cache c) es).
Definition recreate_threshold := 200%nat.
Definition excessive_factor := 10%nat.
(* recreatePayload's copy loop `for k, v := range c.payload { newPayload[k] = v }`: every entry of the cache is
   put into the new map (all = false: entries with wg != nil are skipped) *)
Definition rebuild_entry (all : bool) (c : nat) (e : entry) : entry :=
  if in_cache c e
  then (if all || match estat e with EValid => true | _ => false end then e else detach e)
  else e.
(* Cache.Cleanup: maxPayloadSize = max(maxPayloadSize, len(payload)); delete the entries of stale generations;
   recreatePayload (map rebuilt when it once held >= 200 entries and now holds <= a tenth of that) *)
Definition clean_cache_v (var : variant) (c : nat) (st : state) : state :=
  let freed := zsum (map (fun e => if stale_in c (gens st) e then esize e else 0) (entries st)) in
  let mp1 := Nat.max (nth c (maxpay st) 0%nat) (count_in c (entries st)) in
  let es1 := map (delete_stale_in c (gens st)) (entries st) in
  let n1 := count_in c es1 in
  if Nat.ltb mp1 recreate_threshold || Nat.ltb mp1 (n1 * excessive_factor)
  then set_ret (set_maxpay (set_entries st es1) (upd c (fun _ => mp1) (maxpay st))) [freed]
  else let es2 := map (rebuild_entry (v_rebuild_all var) c) es1 in
       set_ret (set_nrec (set_maxpay (set_entries st es2) (upd c (fun _ => count_in c es2) (maxpay st))) (nrec st + 1)) [freed].
(* the same with the rebuild as the identity (= clean_cache_v repaired, lemma clean_cache_v_repaired) *)
Definition clean_cache (c : nat) (st : state) : state :=
  let freed := zsum (map (fun e => if stale_in c (gens st) e then esize e else 0) (entries st)) in
  let mp1 := Nat.max (nth c (maxpay st) 0%nat) (count_in c (entries st)) in
  let es1 := map (delete_stale_in c (gens st)) (entries st) in
  let n1 := count_in c es1 in
  let keep := Nat.ltb mp1 recreate_threshold || Nat.ltb mp1 (n1 * excessive_factor) in
  set_ret (set_nrec (set_maxpay (set_entries st es1) (upd c (fun _ => if keep then mp1 else n1) (maxpay st)))
                    (if keep then nrec st else nrec st + 1)) [freed].

(* Cleaner.CleanEmptyGenerations *)
Definition gc_gens (st : state) : state :=
  let l := listed st in
  let keep := filter (fun g => negb (gsz g (gens st) =? 0)) (removelast l) ++ [last l 0%nat] in
  set_ret (set_listed st keep) [Z.of_nat (length l - length keep)].

(* Cache.Release *)
Fixpoint release_sub (c : nat) (es : list entry) (gs : list gen) : list gen :=
  match es with
  | [] => gs
  | e :: r => release_sub c r (if in_cache c e then gadd (egen e) (- esize e) gs else gs)
  end.
Definition release (c : nat) (st : state) : state :=
  set_caches (set_entries (set_gens st (release_sub c (entries st) (gens st)))
                          (map (fun e => if in_cache c e then detach e else e) (entries st)))
             (upd c (fun ca => mkC (ccur ca) true) (caches st)).

(* Cleaner.ReleaseBuckets, second half: the loop as written (repaired code, commit 9ff7c19):
     last := len(b); for k := len(td)-1; k >= 0; k-- { last--; b[td[k]] = b[last] }; b = b[:last] *)
Fixpoint rb_loop {A} (td_desc : list nat) (b : list A) (last : nat) : list A * nat :=
  match td_desc with
  | [] => (b, last)
  | i :: r =>
      let last' := pred last in
      match nth_error b last' with
      | Some x => rb_loop r (upd i (fun _ => x) b) last'
      | None => rb_loop r b last'
      end
  end.
Definition release_buckets {A} (td : list nat) (b : list A) : list A :=
  let '(b', last) := rb_loop (rev td) b (length b) in firstn last b'.

(* the algorithm before the repair:
     for _, i := range td { last--; if i >= last { break }; b[i] = b[last] }; b = b[:last] *)
Fixpoint rb_loop_v0 {A} (td : list nat) (b : list A) (last : nat) : list A * nat :=
  match td with
  | [] => (b, last)
  | i :: r =>
      let last' := pred last in
      if Nat.leb last' i then (b, last')
      else match nth_error b last' with
           | Some x => rb_loop_v0 r (upd i (fun _ => x) b) last'
           | None => rb_loop_v0 r b last'
           end
  end.
Definition release_buckets_v0 {A} (td : list nat) (b : list A) : list A :=
  let '(b', last) := rb_loop_v0 td b (length b) in firstn last b'.

Definition is_released (cs : list cache) (c : nat) : bool :=
  match nth_error cs c with Some ca => creleased ca | None => false end.
(* first half: indices of the released buckets, ascending *)
Fixpoint released_idx (cs : list cache) (b : list nat) (i : nat) : list nat :=
  match b with
  | [] => []
  | c :: r => if is_released cs c then i :: released_idx cs r (S i) else released_idx cs r (S i)
  end.

Definition rel_collect (st : state) : state :=
  match released_idx (caches st) (buckets st) 0%nat with
  | [] => set_ret (set_pendrel st None) [0]
  | td => set_pendrel st (Some td)
  end.
Definition rel_remove (var : variant) (st : state) : option state :=
  match pendrel st with
  | None => None
  | Some td => Some (set_ret (set_pendrel (set_buckets st
                       ((if v_release_fixed var then release_buckets td else release_buckets_v0 td) (buckets st))) None)
                             [Z.of_nat (length td)])
  end.

(* NewCache(cleaner) = AddBucket: SetGeneration(lastGen), append *)
Definition new_cache (st : state) : state :=
  set_maxpay (set_buckets (set_caches st (caches st ++ [mkC (lastgen st) false])) (buckets st ++ [length (caches st)]))
             (maxpay st ++ [0%nat]).

(* ------------------------------------------------------------------ labels, steps, runs *)
Inductive label :=
| LSpawn (c k : nat) (o : outcome)   (* a goroutine calls Get/GetWithError(k) on cache c; its loader will produce o *)
| LStep (t : nat)
| LNewCache
| LRelease (c : nat)
| LRotate
| LCleanBegin
| LCleanCache (c : nat)
| LGcGens
| LRelCollect
| LRelRemove.

Definition step_v (var : variant) (st : state) (l : label) : option state :=
  match l with
  | LSpawn c k o => Some (set_threads st (threads st ++ [mkT c k o PEnter]))
  | LStep t => step_thread var st t
  | LNewCache => Some (new_cache st)
  | LRelease c => if Nat.ltb c (length (caches st)) then Some (release c st) else None
  | LRotate => Some (if v_rotate_atomic var then do_rotate st else do_rotate_split st)
  | LCleanBegin => Some (clean_begin st)
  | LCleanCache c => Some (clean_cache_v var c st)
  | LGcGens => Some (gc_gens st)
  | LRelCollect => Some (rel_collect st)
  | LRelRemove => rel_remove var st
  end.

Definition step := step_v repaired.

Fixpoint run_v (var : variant) (st : state) (ls : list label) : option state :=
  match ls with
  | [] => Some st
  | l :: r => match step_v var st l with Some st' => run_v var st' r | None => None end
  end.
Definition run := run_v repaired.

(* NewCleaner(limit): one generation, listed, last *)
Definition init (lim mg es : Z) : state :=
  mkS [] [] [] [mkG 0 false] [0%nat] [] 0%nat lim mg es [] None [] 0 None.

(* ------------------------------------------------------------------ domain of the accounting theorems:
   a monitor evaluated before a step. One pattern is excluded:
   - Release of a cache while one of its entries is still loading, i.e. a creator is inside its
     loader or between loader and save (the callers of a cache hold the fraction's use lock; Release
     comes after they are gone). A lookup STARTED on a released cache is not executable at all
     (step = None: the Go code panics on the nil map). *)
Definition thread_pc (st : state) (t : nat) : option pc :=
  match nth_error (threads st) t with Some th => Some (tpc th) | None => None end.

Definition loading_in (c : nat) (e : entry) : bool :=
  eattached e && Nat.eqb (ecache e) c && match estat e with ELoading => true | _ => false end.

Definition racy (st : state) (l : label) : bool :=
  match l with
  | LRelease c => existsb (loading_in c) (entries st)
  | _ => false
  end.

Fixpoint race_free (st : state) (ls : list label) : bool :=
  match ls with
  | [] => true
  | l :: r => negb (racy st l) && match step st l with Some st' => race_free st' r | None => true end
  end.

(* ------------------------------------------------------------------ events of the correspondence run
   The harness drives the real package with goroutines whose loader callbacks block on a channel,
   so one event = a fixed sequence of labels:
     ECall c k o   a goroutine calls Get/GetWithError; it runs until it returns (hit), blocks in
                   wg.Wait(), or is parked inside its loader                        = LSpawn; LStep t
     EResume t     the loader of t returns (value / error / panic): t runs to its return, then the
                   goroutines that waited for t's entry wake up (hit, or reattempt after an
                   abandoned entry: one more getOrCreate region each)
     the others    a maintenance call running to completion *)
Inductive ev :=
| ECall (c k : nat) (o : outcome)
| EResume (t : nat)
| EFill (fresh : bool) (c k0 n : nat) (v0 sz : Z)  (* n sequential Get calls for the keys k0, k0+1, ... with loader values v0, v0+1, ...
                                       and size sz, each running to completion before the next;
                                       fresh = all keys are new (every loader runs) / false = all are cached (hits) *)
| EResumeSave (t : nat)  (* the loader of t returns a value; t runs save up to (not including) gen.size.Add: it is
                            parked at the schedule point verifhook.At("cache.save.after-unlock"); waiters wake up *)
| EAdd (t : nat)         (* t, parked there, does its gen.size.Add and returns *)
| EResumePark (t : nat)  (* the loader of t returns (value / error / panic): t runs to its return; the goroutines that waited
                            for t's entry wake up and do ONE region each: hit (PDone), or -- after a failed load -- they are
                            parked after reportReattempt, before re-taking Cache.mu (PRetry) *)
| ERelock (t : nat)      (* t, parked there, re-takes the lock and re-examines payload[key]: it returns (valid entry), blocks in
                            wg.Wait() again (loading entry of a later caller) or creates an entry and enters its loader *)
| ENew
| ERelease (c : nat)
| ERotate
| ECleanup            (* Cleaner.Cleanup, uninterrupted: LCleanBegin, then Cache.Cleanup of every bucket *)
| ECleanMark          (* Cleaner.Cleanup up to the end of markStale (the cleaner is parked inside CleanerMetrics.Oldest.Set, after
                         the generations were marked stale, before any cache is swept): LCleanBegin *)
| ECleanSweeps        (* the parked pass goes on: Cache.Cleanup of every bucket of its snapshot (= the bucket list: no
                         AddBucket / ReleaseBuckets in the window), then it returns: LCleanCache c ... *)
| EGcGens             (* CleanEmptyGenerations *)
| ERotateNew          (* a Rotate that rotates, with a NewCache (AddBucket) started from inside its SetGeneration loop:
                         AddBucket needs the cleaner lock, which rotate holds: LRotate; LNewCache *)
| ECleanupNew         (* the same inside the rotate of markStale (Cleanup marks the last generation stale too):
                         LCleanBegin; LNewCache; Cache.Cleanup of every bucket of the snapshot *)
| ERelBuckets         (* ReleaseBuckets *)
| ERelBucketsNew.     (* ReleaseBuckets with a NewCache (AddBucket) landing between its unlocked scan and its
                         locked removal: LRelCollect; LNewCache; LRelRemove *)

Fixpoint run_thread (fuel : nat) (st : state) (t : nat) : option state :=
  match thread_pc st t with
  | Some (PDone _) => Some st
  | Some _ => match fuel with
              | O => None
              | S f => match step st (LStep t) with Some st' => run_thread f st' t | None => None end
              end
  | None => None
  end.

(* a woken waiter: wg.Wait() returned; after an abandoned entry it re-enters getOrCreate *)
Definition wake (st : state) (t : nat) : option state :=
  match step st (LStep t) with
  | Some st1 => match thread_pc st1 t with
                | Some (PStart _) => step st1 (LStep t)
                | _ => Some st1
                end
  | None => None
  end.

Fixpoint waiters_of (e : nat) (ths : list thread) (i : nat) : list nat :=
  match ths with
  | [] => []
  | th :: r => match tpc th with
               | PWait e' => if Nat.eqb e e' then i :: waiters_of e r (S i) else waiters_of e r (S i)
               | _ => waiters_of e r (S i)
               end
  end.

Fixpoint wake_all (ws : list nat) (st : state) : option state :=
  match ws with
  | [] => Some st
  | t :: r => match wake st t with Some st' => wake_all r st' | None => None end
  end.

(* woken waiters, one region each (wg.Wait() returned; hit, or parked before the retry) *)
Fixpoint step_all (ws : list nat) (st : state) : option state :=
  match ws with
  | [] => Some st
  | t :: r => match step st (LStep t) with Some st' => step_all r st' | None => None end
  end.

(* Cache.Cleanup over the bucket list, accumulating BytesReleased / BucketsCleaned *)
Fixpoint clean_all (bk : list nat) (st : state) (bytes cleaned : Z) : option (state * Z * Z) :=
  match bk with
  | [] => Some (st, bytes, cleaned)
  | c :: r => match step st (LCleanCache c) with
              | Some st' => let f := hd 0 (ret st') in
                            clean_all r st' (bytes + f) (if f =? 0 then cleaned else cleaned + 1)
              | None => None
              end
  end.

Fixpoint fill (n c k : nat) (v sz : Z) (st : state) : option state :=
  match n with
  | O => Some st
  | S m =>
      let t := length (threads st) in
      match step st (LSpawn c k (OVal v sz)) with
      | Some st1 =>
          match step st1 (LStep t) with
          | Some st2 =>
              match thread_pc st2 t with
              | Some (PLoad _) => match run_thread 3 st2 t with
                                  | Some st3 => fill m c (S k) (v + 1) sz st3
                                  | None => None
                                  end
              | _ => fill m c (S k) (v + 1) sz st2
              end
          | None => None
          end
      | None => None
      end
  end.

Definition exec_ev (st : state) (e : ev) : option (state * list Z) :=
  match e with
  | ECall c k out =>
      let t := length (threads st) in
      match step st (LSpawn c k out) with
      | Some st1 => match step st1 (LStep t) with Some st2 => Some (st2, []) | None => None end
      | None => None
      end
  | EResume t =>
      match thread_pc st t with
      | Some (PLoad e) =>
          match run_thread 3 st t with
          | Some st1 => match wake_all (waiters_of e (threads st1) 0%nat) st1 with
                        | Some st2 => Some (st2, [])
                        | None => None
                        end
          | None => None
          end
      | _ => None
      end
  | EFill _ c k0 n v0 sz => match fill n c k0 v0 sz st with Some st' => Some (st', []) | None => None end
  | EResumeSave t =>
      match thread_pc st t with
      | Some (PLoad e) =>
          match step st (LStep t) with
          | Some st1 => match thread_pc st1 t with
                        | Some (PAdd _ _ _) =>
                            match wake_all (waiters_of e (threads st1) 0%nat) st1 with
                            | Some st2 => Some (st2, [])
                            | None => None
                            end
                        | _ => None
                        end
          | None => None
          end
      | _ => None
      end
  | EResumePark t =>
      match thread_pc st t with
      | Some (PLoad e) =>
          match run_thread 3 st t with
          | Some st1 => match step_all (waiters_of e (threads st1) 0%nat) st1 with
                        | Some st2 => Some (st2, [])
                        | None => None
                        end
          | None => None
          end
      | _ => None
      end
  | ERelock t =>
      match thread_pc st t with
      | Some PRetry => match step st (LStep t) with Some st' => Some (st', []) | None => None end
      | _ => None
      end
  | EAdd t =>
      match thread_pc st t with
      | Some (PAdd _ _ _) => match step st (LStep t) with Some st' => Some (st', []) | None => None end
      | _ => None
      end
  | ENew => match step st LNewCache with Some st' => Some (st', []) | None => None end
  | ERelease c => match step st (LRelease c) with Some st' => Some (st', []) | None => None end
  | ERotate => match step st LRotate with Some st' => Some (st', ret st') | None => None end
  | ECleanup =>
      match step st LCleanBegin with
      | Some st1 =>
          match ret st1 with
          | 1 :: rest => match clean_all (buckets st) st1 0 0 with
                         | Some (st2, bytes, cleaned) => Some (st2, 1 :: rest ++ [bytes; cleaned; nrec st2])
                         | None => None
                         end
          | r => Some (st1, r)
          end
      | None => None
      end
  | ECleanMark => match step st LCleanBegin with Some st1 => Some (st1, ret st1) | None => None end
  | ECleanSweeps =>
      match clean_all (buckets st) st 0 0 with
      | Some (st2, bytes, cleaned) => Some (st2, [bytes; cleaned; nrec st2])
      | None => None
      end
  | ERotateNew =>
      match step st LRotate with
      | Some st1 => match ret st1 with
                    | 1 :: _ => match step st1 LNewCache with Some st2 => Some (st2, ret st1) | None => None end
                    | _ => None
                    end
      | None => None
      end
  | ECleanupNew =>
      match step st LCleanBegin with
      | Some st1 =>
          match ret st1 with
          | 1 :: rest =>
              match step st1 LNewCache with
              | Some st1' => match clean_all (buckets st) st1' 0 0 with
                             | Some (st2, bytes, cleaned) => Some (st2, 1 :: rest ++ [bytes; cleaned; nrec st2])
                             | None => None
                             end
              | None => None
              end
          | _ => None
          end
      | None => None
      end
  | EGcGens => match step st LGcGens with Some st' => Some (st', ret st') | None => None end
  | ERelBucketsNew =>
      match step st LRelCollect with
      | Some st1 => match step st1 LNewCache with
                    | Some st2 => match pendrel st2 with
                                  | Some _ => match step st2 LRelRemove with Some st3 => Some (st3, ret st3) | None => None end
                                  | None => Some (st2, ret st2)
                                  end
                    | None => None
                    end
      | None => None
      end
  | ERelBuckets =>
      match step st LRelCollect with
      | Some st1 => match pendrel st1 with
                    | Some _ => match step st1 LRelRemove with Some st2 => Some (st2, ret st2) | None => None end
                    | None => Some (st1, ret st1)
                    end
      | None => None
      end
  end.
